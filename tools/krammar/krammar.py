"""Independent parser of /repo/generate/definitions/* (the protocol DSL) -> lean/FranzVerif/Gen/Schema.lean (tie T of C15/C16).

Written from generate/README.md, not from generate/parse.go: an indentation-stack parser (parse.go is a recursive line peeker).
Anything the parser does not understand raises -> translator failure -> broken obligation (never a silent default).

Resolved per struct: flexible-from (a request's modifier; a response inherits its request's; an anonymous nested struct inherits
its parent's; a named `not top level` struct uses its own declaration wherever it is embedded).
"""
import os, re, struct as _struct

PRIMS = {"bool", "int8", "int16", "uint16", "int32", "uint32", "int64", "float64", "varint", "varlong", "uuid"}
STRS = {"string": "str", "nullable-string": "nstr", "bytes": "bytes", "nullable-bytes": "nbytes",
        "varint-string": "vstr", "varint-bytes": "vbytes"}
INT_RANGE = {"int8": (-2**7, 2**7 - 1), "int16": (-2**15, 2**15 - 1), "uint16": (0, 2**16 - 1), "int32": (-2**31, 2**31 - 1),
             "uint32": (0, 2**32 - 1), "int64": (-2**63, 2**63 - 1), "varint": (-2**31, 2**31 - 1), "varlong": (-2**63, 2**63 - 1)}


ALL_VERSIONS = -32768   # README: "Fields that do not have version comments are valid for all versions" (the version is an int16)


class ParseError(Exception):
    pass


class Struct:
    def __init__(self, name):
        self.name, self.fields = name, []
        self.top = False; self.key = None; self.max_version = None; self.flex = None
        self.with_version = False; self.no_encoding = False; self.anonymous = False; self.nullable = False
        self.is_response = False


class Field:
    def __init__(self):
        self.name = None; self.minv = ALL_VERSIONS; self.maxv = None; self.tag = None; self.dflt = ("none",); self.ty = None


VER_RE = re.compile(r"^v(\d+)(?:\+|-v(\d+))$")


def parse_version_comment(c, where):
    """`v1+` | `v3-v5` | `tag 0` | `v1+, tag 0`"""
    minv, maxv, tag = ALL_VERSIONS, None, None
    parts = c.split(", ")
    for p in parts:
        m = VER_RE.match(p)
        if m:
            minv = int(m.group(1))
            if m.group(2) is not None:
                maxv = int(m.group(2))
                if maxv < minv:
                    raise ParseError("%s: version range %s is empty" % (where, p))
            continue
        m = re.match(r"^tag (\d+)$", p)
        if m:
            tag = int(m.group(1))
            continue
        raise ParseError("%s: cannot read field comment %r" % (where, c))
    if tag is not None and (minv != ALL_VERSIONS or maxv is not None):
        # the README allows `// v8+, tag 0`; no definition uses it and the generator's treatment (field written in the body AND as a tag)
        # is not what the README describes, so the schema language here does not cover it
        raise ParseError("%s: versioned tagged field is outside the supported schema language" % where)
    return minv, maxv, tag


def parse_default(prim, text, where):
    if prim == "bool":
        if text not in ("true", "false"):
            raise ParseError("%s: bool default %r" % (where, text))
        return ("int", 1 if text == "true" else 0)
    if prim == "float64":
        bits = _struct.unpack(">Q", _struct.pack(">d", float(text)))[0]
        return ("int", bits)
    if prim in INT_RANGE:
        v = int(text, 0)
        lo, hi = INT_RANGE[prim]
        if not lo <= v <= hi:
            raise ParseError("%s: default %s out of range for %s" % (where, text, prim))
        return ("int", v)
    raise ParseError("%s: default on %s" % (where, prim))


class Parser:
    def __init__(self):
        self.enums = {}      # name -> prim
        self.named = {}      # name -> Struct (every top-level-of-file definition)
        self.order = []      # names in definition order
        self.raw_fields = {}  # struct name -> (length field, minus) for length-field-minus

    # ---- enums
    def parse_enums(self, text, fname):
        cur = None
        for ln, line in enumerate(text.split("\n"), 1):
            s = line.strip()
            if s == "" or s.startswith("//"):
                continue
            if cur is None:
                m = re.match(r"^([A-Za-z]+) ([a-z0-9]+) (?:camelcase )?\($", line)
                if not m or m.group(2) not in PRIMS:
                    raise ParseError("%s:%d: bad enum header %r" % (fname, ln, line))
                cur = m.group(1)
                self.enums[cur] = m.group(2)
            elif line == ")":
                cur = None
            elif not re.match(r"^  \d+: [A-Za-z_]+$", line):
                raise ParseError("%s:%d: bad enum value %r" % (fname, ln, line))

    # ---- types
    def parse_scalar(self, typ, where, owner):
        """a non-array, non-anonymous-struct type, possibly with (default). returns (ty, dflt)"""
        dflt = ("none",)
        dtext = None
        m = re.match(r"^(.*)\(([^()]*)\)$", typ)
        if m:
            typ, dtext = m.group(1), m.group(2)
        if typ in PRIMS:
            if dtext is not None:
                dflt = parse_default(typ, dtext, where)
            return ("prim", typ), dflt
        if typ.startswith("enum-"):
            e = typ[5:]
            if e not in self.enums:
                raise ParseError("%s: unknown enum %s" % (where, e))
            if dtext is not None:
                dflt = parse_default(self.enums[e], dtext, where)
            return ("prim", self.enums[e]), dflt
        m = re.match(r"^nullable-string-v(\d+)\+$", typ)
        if m:
            if dtext is not None:
                raise ParseError("%s: default on versioned nullable string" % where)
            return ("str", "nstr", int(m.group(1))), dflt
        if typ in STRS:
            k = STRS[typ]
            if dtext is not None:
                if k not in ("nstr", "nbytes") or dtext != "null":
                    raise ParseError("%s: default %r on %s" % (where, dtext, typ))
                dflt = ("null",)
            return ("str", k, ALL_VERSIONS), dflt
        if dtext is not None:
            raise ParseError("%s: default on %s" % (where, typ))
        if typ in self.named:
            s = self.named[typ]
            if s.top:
                raise ParseError("%s: top level struct %s used as a field" % (where, typ))
            return ("ref", typ), dflt
        raise ParseError("%s: unknown type %r" % (where, typ))

    # ---- one file
    def parse_file(self, text, fname):
        lines = text.split("\n")
        if lines and lines[-1] == "":
            lines.pop()
        i = 0
        n = len(lines)
        while i < n:
            line = lines[i]
            if line == "" or line.startswith("//"):
                i += 1
                continue
            if line.startswith(" "):
                raise ParseError("%s:%d: field outside of a struct" % (fname, i + 1))
            st = self.parse_header(line, "%s:%d" % (fname, i + 1))
            i += 1
            # body: lines until blank line
            stack = [(0, st)]   # (indent level of the fields of this struct, struct)
            while i < n and lines[i] != "":
                l = lines[i]
                where = "%s:%d" % (fname, i + 1)
                i += 1
                if l.strip().startswith("//"):
                    continue
                if l != l.rstrip():
                    raise ParseError(where + ": trailing space")
                ind = len(l) - len(l.lstrip(" "))
                if ind % 2 != 0 or ind < 2:
                    raise ParseError(where + ": bad indentation")
                level = ind // 2 - 1
                while stack and stack[-1][0] > level:
                    stack.pop()
                if not stack or stack[-1][0] != level:
                    raise ParseError(where + ": indentation does not match an open struct")
                owner = stack[-1][1]
                f, sub = self.parse_field(l[ind:], where, owner)
                owner.fields.append(f)
                if sub is not None:
                    stack.append((level + 1, sub))
            self.finish(st, fname)

    def parse_header(self, line, where):
        if " => not top level" in line:
            name, rest = line.split(" => not top level", 1)
            st = Struct(name)
            if rest:
                if not rest.startswith(", "):
                    raise ParseError(where + ": bad modifiers")
                for part in rest[2:].split(", "):
                    if part == "no encoding":
                        st.no_encoding = True
                    elif part == "with version field":
                        st.with_version = True
                    elif re.match(r"^flexible v\d+\+$", part):
                        st.flex = int(part[10:-1])
                    else:
                        raise ParseError("%s: unknown modifier %r" % (where, part))
        elif line.endswith("Response =>"):
            name = line[:-3]
            st = Struct(name)
            st.top, st.is_response = True, True
            reqname = name[:-len("Response")] + "Request"
            if not self.order or self.order[-1] != reqname:
                raise ParseError("%s: response does not follow its request" % where)
            req = self.named[reqname]
            st.key, st.max_version, st.flex = req.key, req.max_version, req.flex
        else:
            m = re.match(r"^([A-Za-z0-9]+) => (.*)$", line)
            if not m:
                raise ParseError("%s: bad struct header %r" % (where, line))
            st = Struct(m.group(1))
            st.top = True
            for part in m.group(2).split(", "):
                if part.startswith("key "):
                    st.key = int(part[4:])
                elif part.startswith("max version "):
                    st.max_version = int(part[12:])
                elif part in ("admin", "group coordinator", "txn coordinator", "share coordinator"):
                    pass
                elif re.match(r"^flexible v\d+\+$", part):
                    st.flex = int(part[10:-1])
                else:
                    raise ParseError("%s: unknown modifier %r" % (where, part))
            if st.key is None or st.max_version is None or not st.name.endswith("Request"):
                raise ParseError("%s: request needs a key and a max version" % where)
        if st.name in self.named:
            raise ParseError("%s: %s defined twice" % (where, st.name))
        return st

    def parse_field(self, text, where, owner):
        f = Field()
        # special fields
        m = re.match(r"^ThrottleMillis(?:\((\d+)\))?(?: // v(\d+)\+)?$", text)
        if m:
            f.name, f.ty = "ThrottleMillis", ("prim", "int32")
            f.minv = int(m.group(2)) if m.group(2) else ALL_VERSIONS
            return f, None
        m = re.match(r"^TimeoutMillis(?:\((\d+)\))?(?: // v(\d+)\+)?$", text)
        if m:
            f.name, f.ty = "TimeoutMillis", ("prim", "int32")
            f.dflt = ("int", int(m.group(1) or 15000))
            f.minv = int(m.group(2)) if m.group(2) else ALL_VERSIONS
            return f, None
        if ": " not in text:
            raise ParseError("%s: not a field: %r" % (where, text))
        name, typ = text.split(": ", 1)
        if not re.match(r"^[A-Za-z0-9]+$", name):
            raise ParseError("%s: bad field name %r" % (where, name))
        f.name = name
        if " // " in typ:
            typ, c = typ.split(" // ", 1)
            f.minv, f.maxv, f.tag = parse_version_comment(c, where)
        sub = None
        # arrays
        m = re.match(r"^(varint|nullable(?:-v(\d+)\+)?)?\[(.*)\](\(null\))?$", typ)
        if m:
            pre, nv, inner, dnull = m.group(1), m.group(2), m.group(3), m.group(4)
            if "[" in inner:
                raise ParseError("%s: nested arrays are outside the supported schema language" % where)
            if pre == "varint":
                kind = ("varint",)
            elif pre is None:
                kind = ("normal",)
            else:
                kind = ("nullable", int(nv) if nv else ALL_VERSIONS)
            if inner.startswith("=>"):
                hint = inner[2:]
                sub = Struct(owner.name + (hint if hint else singular(name)))
                sub.anonymous, sub.flex = True, owner.flex
                elem = ("anon", sub)
            else:
                elem, d = self.parse_scalar(inner, where, owner)
                if d != ("none",):
                    raise ParseError("%s: default on an array element" % where)
            f.ty = ("arr", kind, elem)
            if dnull:
                f.dflt = ("null",)
            return f, sub
        if typ == "=>" or typ == "nullable=>":
            sub = Struct(owner.name + name)
            sub.anonymous, sub.flex, sub.nullable = True, owner.flex, typ.startswith("nullable")
            f.ty = ("anon", sub)
            return f, sub
        m = re.match(r"^length-field-minus => ([A-Za-z]+) - (\d+)$", typ)
        if m:
            f.ty = ("raw", m.group(1), int(m.group(2)))
            return f, None
        f.ty, f.dflt = self.parse_scalar(typ, where, owner)
        return f, None

    def finish(self, st, fname):
        self.check(st, fname)
        self.named[st.name] = st
        self.order.append(st.name)

    def check(self, st, fname):
        tags = [f.tag for f in st.fields if f.tag is not None]
        if tags != list(range(len(tags))):
            raise ParseError("%s: struct %s: tags %s are not 0..n-1 in field order" % (fname, st.name, tags))
        if tags and st.flex is None:
            raise ParseError("%s: struct %s has tags but is never flexible" % (fname, st.name))
        if st.with_version:
            f0 = st.fields[0] if st.fields else None
            if not f0 or f0.name != "Version" or f0.ty != ("prim", "int16"):
                raise ParseError("%s: struct %s: 'with version field' needs Version: int16 first" % (fname, st.name))
        for i, f in enumerate(st.fields):
            if f.tag is not None:
                t = f.ty
                ok = t[0] in ("prim", "arr", "anon", "ref") or (t[0] == "str" and t[1] in ("nstr", "nbytes") and t[2] == ALL_VERSIONS)
                if not ok:
                    raise ParseError("%s: struct %s field %s: type cannot be tagged" % (fname, st.name, f.name))
            if f.ty[0] == "raw" and i != len(st.fields) - 1:
                raise ParseError("%s: struct %s: length-field-minus must be last" % (fname, st.name))
            t = f.ty
            if t[0] == "arr":
                t = t[2]
            if t[0] == "anon":
                self.check(t[1], fname)


def singular(s):
    # README: auto-singularisation of the field name (us | ches shes sses xes zes -> -es | ies -> y | -s)
    if s.endswith("us"):
        return s
    for suf in ("ches", "shes", "sses", "xes", "zes"):
        if s.endswith(suf):
            return s[:-2]
    if s.endswith("ies"):
        return s[:-3] + "y"
    return s[:-1] if s.endswith("s") else s


COMMENTED_RECORD = "// Record => not top level"


def parse_all(repo):
    d = os.path.join(repo, "generate", "definitions")
    p = Parser()
    p.parse_enums(open(os.path.join(d, "enums")).read(), "enums")
    for fn in sorted(os.listdir(d)):
        if fn == "enums" or fn.startswith("."):
            continue
        text = open(os.path.join(d, fn)).read()
        if fn == "misc":
            # `Record` is kept in the DSL as a commented-out definition (its Go code is hand-maintained in record.go);
            # `Header` is defined just before it.  The commented block is read as the definition of Record.
            lines = text.split("\n")
            if COMMENTED_RECORD in lines:
                a = lines.index(COMMENTED_RECORD)
                b = a
                while b < len(lines) and lines[b].startswith("//"):
                    b += 1
                block = [l[3:] if l.startswith("// ") else l[2:] for l in lines[a:b]]
                text = "\n".join(lines[:a] + [""] + block + [""] + lines[b:])
        p.parse_file(text, fn)
    return p


# ------------------------------------------------------------------ Lean emission

def lean_int(i):
    return "(%d)" % i if i < 0 else str(i)


def lean_ty(p, t):
    k = t[0]
    if k == "prim":
        return ".prim .%s" % t[1]
    if k == "str":
        sk = t[1]
        if sk == "nstr":
            return ".str (.nstr %s)" % lean_int(t[2])
        return ".str .%s" % sk
    if k == "arr":
        kind = t[1]
        ks = {"normal": ".normal", "varint": ".varint"}.get(kind[0]) or "(.nullable %s)" % lean_int(kind[1])
        return ".arr %s (%s)" % (ks, lean_ty(p, t[2]))
    if k == "anon":
        return lean_struct(p, t[1])
    if k == "ref":
        return "S_" + t[1]
    raise ParseError("cannot emit type %r" % (t,))


def lean_struct(p, s, drop_raw=False):
    out = "Fields.nil"
    fields = s.fields
    if drop_raw and fields and fields[-1].ty[0] == "raw":
        fields = fields[:-1]
    for f in reversed(fields):
        if f.ty[0] == "raw":
            raise ParseError("length-field-minus in a nested struct")
        d = {"none": ".none", "null": ".null"}.get(f.dflt[0]) or "(.int %s)" % lean_int(f.dflt[1])
        out = "(.cons \"%s\" %s %s %s %s (%s)\n  %s)" % (
            f.name, lean_int(f.minv), "none" if f.maxv is None else "(some %d)" % f.maxv,
            "none" if f.tag is None else "(some %d)" % f.tag, d, lean_ty(p, f.ty), out)
    return ".struct %s %s %s" % ("true" if s.nullable else "false", "none" if s.flex is None else "(some %d)" % s.flex, out)


def max_mentioned_version(s, p=None):
    m = s.flex or 0
    for f in s.fields:
        m = max(m, f.minv, f.maxv or 0)
        t = f.ty
        if t[0] == "arr":
            if t[1][0] == "nullable":
                m = max(m, t[1][1])
            t = t[2]
        if t[0] == "str" and t[1] == "nstr":
            m = max(m, t[2])
        if t[0] == "anon":
            m = max(m, max_mentioned_version(t[1], p))
        if t[0] == "ref" and p is not None:
            m = max(m, max_mentioned_version(p.named[t[1]], p))
    return m


def emit_lean(repo):
    p = parse_all(repo)
    o = ["/- GENERATED on every run by tools/krammar/krammar.py from %s/generate/definitions -- do not edit. -/" % "<repo>",
         "import FranzVerif.Model.C15", "set_option maxRecDepth 100000", "namespace Gen.Schema", "open Model.C15", ""]
    entries = []
    for name in p.order:
        s = p.named[name]
        has_raw = bool(s.fields) and s.fields[-1].ty[0] == "raw"
        o.append("def S_%s : Ty :=\n  %s" % (name, lean_struct(p, s, drop_raw=True)))
        o.append("")
        maxv = s.max_version if s.top else max_mentioned_version(s, p)
        kind = "req" if (s.top and not s.is_response) else "resp" if s.top else "noenc" if s.no_encoding else "misc"
        raw = "none"
        if has_raw:
            f = s.fields[-1]
            idx = [g.name for g in s.fields].index(f.ty[1])
            raw = "(some (%d, %d))" % (idx, f.ty[2])
        entries.append('  { name := "%s", kind := "%s", key := %s, maxVersion := %d, withVersion := %s, raw := %s, ty := S_%s }' % (
            name, kind, lean_int(s.key if s.key is not None else -1), maxv, "true" if s.with_version else "false", raw, name))
    o.append("def all : List Top := [")
    o.append(",\n".join(entries))
    o.append("]")
    o.append("")
    o.append("end Gen.Schema")
    return "\n".join(o) + "\n"


def listing(repo):
    """(name, kind, key, maxv) of every definition, for cross-checks against the harness registry."""
    p = parse_all(repo)
    res = []
    for name in p.order:
        s = p.named[name]
        kind = "req" if (s.top and not s.is_response) else "resp" if s.top else "noenc" if s.no_encoding else "misc"
        res.append((name, kind, s.key, s.max_version if s.top else max_mentioned_version(s, p)))
    return res


if __name__ == "__main__":
    import sys
    sys.stdout.write(emit_lean(sys.argv[1] if len(sys.argv) > 1 else "/repo"))
