#!/bin/bash
# usage: mut_try.sh <seeded-name-or-patch> <check> [tier]  -- runs a check of the current /verif against a scratch worktree with the patch
p=$1; c=$2; tier=${3:-quick}
[ -f "$p" ] || p=/verif/seeded/$1/patch.diff
n=mt_$$
git -C /repo worktree add --detach -q /tmp/$n HEAD || exit 2
git -C /tmp/$n apply $p || exit 2
mkdir -p /tmp/vc_$n && rsync -a --exclude .git --exclude seeded --exclude replays /verif/ /tmp/vc_$n/
( cd /tmp/vc_$n && VERIF_REPO=/tmp/$n timeout 3000 ./check $c --tier $tier 2>/dev/null | grep -E "^(OK|VIOLATION|BROKEN)" | head -3 | cut -c1-200
  python3 - <<P
import json,glob
for f in sorted(glob.glob("/tmp/vc_$n/replays/$c/*.json"))[:4]:
    r=json.load(open(f)); print(" ", r.get("key"), [o.split('|')[0][:60] for o in r.get("ops",[])][:2])
P
)
git -C /repo worktree remove --force /tmp/$n; rm -rf /tmp/vc_$n
