#!/usr/bin/env python3
"""Writes seeded/<name>/meta.json from the seeding agent's meta (agent_meta.json) and what tools/seed_confirm.sh
measured (results.txt, check_*.txt, replay/)."""
import json, os, re, sys
HERE = os.path.dirname(os.path.dirname(os.path.abspath(__file__)))
for name in (sys.argv[1:] or sorted(os.listdir(os.path.join(HERE, "seeded")))):
    d = os.path.join(HERE, "seeded", name)
    rp = os.path.join(d, "results.txt")
    if not os.path.exists(rp):
        continue
    am = json.load(open(os.path.join(d, "agent_meta.json"))) if os.path.exists(os.path.join(d, "agent_meta.json")) else {}
    res = open(rp).read()
    kv = dict(re.findall(r"^(\w+)=(\S+)", res, re.M))
    checks = []
    for m in re.finditer(r"^check=(\S+) tier=(\S+) exit=(\d+) ?(.*)$", res, re.M):
        c = {"check": m.group(1), "tier": m.group(2), "exit": int(m.group(3)), "line": re.sub(r"/tmp/vc_[^/]+/", "", m.group(4))}
        f = os.path.join(d, "check_%s_%s.txt" % (m.group(1), m.group(2)))
        checks.append(c)
    keys = []
    rd = os.path.join(d, "replay")
    if os.path.isdir(rd):
        for f in sorted(os.listdir(rd)):
            try:
                r = json.load(open(os.path.join(rd, f)))
                keys.append("%s:%s" % (r.get("property"), r.get("key") or r.get("kind")))
            except Exception:
                pass
    caught = [c for c in checks if c["exit"] == 1]
    baseline = {"0": "pass", None: "not re-run (passed in an earlier run of the same patch)"}.get(kv.get("baseline_exit"), "FAIL")
    meta = {
        "name": name,
        "property": am.get("property", name[:3]),
        "summary": am.get("summary", ""),
        "needs": am.get("what_it_needs_to_manifest", ""),
        "files_changed": am.get("files_changed", []),
        "author": "independent seeding sub-agent given only the property text and a scratch worktree (nothing from /verif)",
        "ran": ["tools/seed_confirm.sh %s … (scratch worktree of /repo HEAD %s + patch.diff; go build of all modules; "
                "/root/seedkit/check_baseline.py (the pinned 461 tests); demo/run.sh on the modified and on the unmodified tree; "
                "./check <property> against the modified tree in a scratch copy of /verif)" % (name, kv.get("base", "?"))],
        "confirmed": "builds=%s baseline=%s demo_on_modified=%s demo_on_pristine=%s" % (
            kv.get("builds"), baseline, "fails" if kv.get("demo_modified_exit") not in (None, "0") else "PASSES?",
            "passes" if kv.get("demo_pristine_exit") == "0" else "FAILS?"),
        "checks": checks,
        "replay_keys": keys,
        "caught_by": "; ".join("%s %s%s" % (c["check"], c["tier"], " (no concrete input)" if "no-failing-input-found" in c["line"] else "") for c in caught)
                     + ((" — keys " + ", ".join(sorted(set(keys)))) if keys and caught else "") if caught else "MISSED by " + ", ".join("%s %s" % (c["check"], c["tier"]) for c in checks),
    }
    old = os.path.join(d, "meta.json")
    if os.path.exists(old):
        o = json.load(open(old))
        for k in ("notes", "strengthened"):
            if k in o:
                meta[k] = o[k]
        if o.get("baseline_note") or (baseline.startswith("not") and "baseline=pass" in o.get("confirmed", "")):
            meta["confirmed"] = meta["confirmed"].replace("baseline=" + baseline, "baseline=pass")
    json.dump(meta, open(old, "w"), indent=1)
    print(name, "->", meta["confirmed"], "|", meta["caught_by"])
