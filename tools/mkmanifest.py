#!/usr/bin/env python3
"""Builds /verif/MANIFEST.json from props/Cxx.py (claimed checks) and props/not_applicable.json."""
import importlib, json, os, sys
HERE = os.path.dirname(os.path.dirname(os.path.abspath(__file__)))
sys.path.insert(0, HERE)
ids = [json.loads(l)["id"] for l in open(os.path.join(HERE, "properties.jsonl"))]
claimed = sorted(f[:-3] for f in os.listdir(os.path.join(HERE, "props")) if f.startswith("C") and f.endswith(".py"))
na = json.load(open(os.path.join(HERE, "props", "not_applicable.json")))
checks = []
pending = {}
for pid in claimed:
    m = importlib.import_module("props." + pid)
    if getattr(m, "PENDING", False):
        pending[pid] = m.PENDING if isinstance(m.PENDING, str) else "built, but its check is being reworked and is not claimed until it passes again"
        continue
    meta = m.MANIFEST
    checks.append({
        "property_id": pid,
        "quick_cmd": "./check %s --tier quick" % pid,
        "thorough_cmd": "./check %s --tier thorough" % pid,
        "evidence_file": "/verif/evidence/%s.json" % pid,
        "replay_cmd_template": "./check %s --replay {path}" % pid,
        "engine": "lean4+differential",
        "level_claimed": {"category": meta.get("category", "proof"), "text": meta["text"], "design_ref": meta.get("design_ref", "DESIGN.md §6 " + pid)},
        "level_note": meta["note"],
        "technique": meta["technique"],
    })
def hook_commits():
    import subprocess
    out = subprocess.run(["git", "-C", "/repo", "log", "--format=%h %s"], capture_output=True, text=True).stdout
    return [l.split()[0] for l in out.splitlines() if l.split(" ", 1)[1].startswith("verif hooks")][::-1]


claimed = [c["property_id"] for c in checks]
not_app = [{"property_id": pid, "reason": pending.get(pid, na[pid])} for pid in ids if pid not in claimed]
for x in not_app:
    assert x["reason"]
man = {
    "version": 1,
    "setup_cmd": "./check --setup",
    "hooks": {
        "guard": "verif",
        "enable": "go build -tags verif (history ties: -tags 'verif synctests'); the harness module /verif/harness replaces the franz-go modules by /repo",
        "baseline_off_cmd": "for m in . ./pkg/kadm ./pkg/kfake ./pkg/kmsg ./pkg/sasl/kerberos ./pkg/sr ./plugin/kgmetrics ./plugin/klogr ./plugin/klogrus ./plugin/kotel ./plugin/kphuslog ./plugin/kprom ./plugin/kslog ./plugin/kvictoria ./plugin/kzap ./plugin/kzerolog; do (cd /repo/$m && go test -mod=mod -vet=off -count=1 -timeout 25m ./...); done",
        "source_commits": hook_commits(),
        "add_only": True,
    },
    "engines": [{"name": "lean4+differential", "path": "/verif/check", "serves_properties": claimed,
                 "kind_free_text": "Lean 4 models and theorems (lake build + #print axioms audit, leanchecker in the thorough tier); models tied to /repo by regenerated definitions (tools/extract) and by differential/history correspondence between Go harnesses linked against /repo and compiled Lean drivers"}],
    "checks": checks,
    "not_applicable": not_app,
    "notes": "See DESIGN.md. known_findings.txt lists recorded findings and repaired defects.",
}
json.dump(man, open(os.path.join(HERE, "MANIFEST.json"), "w"), indent=1)
print("claimed", len(checks), "not_applicable", len(not_app))
