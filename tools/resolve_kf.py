#!/usr/bin/env python3
"""Resolves a merge conflict in known_findings.txt by keeping both sides (ours first, then the lines only theirs has)."""
import re
p = '/verif/known_findings.txt'
s = open(p).read()
def rep(m):
    ours = m.group(1).splitlines(); theirs = m.group(2).splitlines()
    return '\n'.join(ours + [l for l in theirs if l not in ours]) + '\n'
s = re.sub(r'<<<<<<< [^\n]*\n(.*?)=======\n(.*?)>>>>>>> [^\n]*\n', rep, s, flags=re.S)
open(p, 'w').write(s)
