module veriftools/extract

go 1.25.0
