// seqsites: enumerate every write to a set of int32 "sequence" struct fields in a Go package and
// translate each written value into a Lean BitVec 32 function of the fields' current values and the
// record count of the batch at hand.
//
//	extract seqsites <dir> <LeanNamespace> <LeanIncFunc> <Struct.field,...>
//	extract seqsites-json <same args>
//
// <dir>         package directory (files ending in _test.go and files with a `//go:build` line naming the
//
//	`verif` tag are skipped: hooks are not client code)
//
// <LeanIncFunc> Lean name `<Ns>.<goFunc>` of the already generated translation of the package's increment
//
//	function; the last component is the Go function name whose calls are recognised
//
// A *site* is: an assignment / compound assignment / ++ / -- whose left-hand side selects one of the
// field names; a composite literal of one of the structs that gives one of the fields a value; taking
// the address of such a field (reported, never allowed). For every site the value written is translated
// over the atoms
//
//	X.<field>                                  -> the Lean variable <field> (current value of that field)
//	int32(len(X.records)) or a local defined so -> n (the number of records of the batch)
//	<goFunc>(a, b)                             -> (<LeanIncFunc> a b)
//	integer literal, + and -, parentheses, int32(e) of an int32 expression
//	a parameter of the enclosing function      -> the argument of its call sites (all must agree)
//	a local variable with one `:=` definition  -> its definition
//
// and classified:  inc  = `= <goFunc>(X.<field>, n)`;  copy = `= X.<field>`;  zero-at-reset = `= 0` inside
// an `if … needSeqReset …` block;  anything else (plain-add, zero-unguarded, address-taken, other) is
// reported with its form so that the obligation that consumes the list fails naming file:line.
// Anything outside the grammar is a loud failure (exit 2). The output is deterministic (sites sorted by
// file and line).
package main

import (
	"bytes"
	"encoding/json"
	"fmt"
	"go/ast"
	"go/parser"
	"go/printer"
	"go/token"
	"os"
	"path/filepath"
	"sort"
	"strings"
)

type seqSite struct {
	Loc    string `json:"loc"`    // pkg/kgo/sink.go:150
	Fn     string `json:"fn"`     // enclosing function
	Target string `json:"target"` // recBuf.seq, seqRecBatch{seq}
	Field  string `json:"field"`
	Src    string `json:"src"`  // source text of the statement
	Form   string `json:"form"` // inc | copy | zero-at-reset | plain-add | zero-unguarded | address-taken | other
	Key    string `json:"key"`  // Lean definition name
	Lean   string `json:"lean"` // value written, over seq / batch0Seq / n
	file   string
	line   int
}

type seqCtx struct {
	fset     *token.FileSet
	files    map[string]*ast.File
	fields   map[string]bool            // field names
	structs  map[string]map[string]bool // struct -> listed fields
	sfields  map[string][]string        // struct -> all field names in declaration order (embedded: type name)
	incGo    string
	incLean  string
	funcs    map[string][]*ast.FuncDecl // by bare name
	fieldVar []string                   // sorted field names = Lean parameters
}

func src(fset *token.FileSet, n ast.Node) string {
	var buf bytes.Buffer
	printer.Fprint(&buf, fset, n)
	return strings.Join(strings.Fields(buf.String()), " ")
}

func relPath(p string) string {
	if i := strings.Index(p, "/pkg/"); i >= 0 {
		return p[i+1:]
	}
	return filepath.Base(p)
}

// isRecordCount: int32(len(X.records)) | len(X.records)
func isRecordCount(e ast.Expr) bool {
	for {
		if p, ok := e.(*ast.ParenExpr); ok {
			e = p.X
			continue
		}
		break
	}
	c, ok := e.(*ast.CallExpr)
	if !ok || len(c.Args) != 1 {
		return false
	}
	id, ok := c.Fun.(*ast.Ident)
	if !ok {
		return false
	}
	if id.Name == "int32" || id.Name == "int" || id.Name == "int64" {
		return isRecordCount(c.Args[0])
	}
	if id.Name == "len" {
		if s, ok := c.Args[0].(*ast.SelectorExpr); ok && s.Sel.Name == "records" {
			return true
		}
	}
	return false
}

type fnScope struct {
	c      *seqCtx
	fd     *ast.FuncDecl
	params map[string]int // name -> positional index
	depth  int
}

// localDef finds the single `name := e` in the function body.
func (s *fnScope) localDef(name string) ast.Expr {
	var defs []ast.Expr
	ast.Inspect(s.fd.Body, func(n ast.Node) bool {
		as, ok := n.(*ast.AssignStmt)
		if !ok {
			return true
		}
		for i, l := range as.Lhs {
			if id, ok := l.(*ast.Ident); ok && id.Name == name {
				if as.Tok == token.DEFINE && len(as.Lhs) == len(as.Rhs) {
					defs = append(defs, as.Rhs[i])
				} else {
					defs = append(defs, nil) // reassigned or multi-value: not a single definition
				}
			}
		}
		return true
	})
	if len(defs) == 1 && defs[0] != nil {
		return defs[0]
	}
	return nil
}

// tr translates e; kind is "field:<name>", "n", "lit:<v>", "inc", "arith", "other".
func (s *fnScope) tr(e ast.Expr) (lean, kind string) {
	s.depth++
	defer func() { s.depth-- }()
	if s.depth > 12 {
		die("seqsites: expression nesting too deep in %s", s.fd.Name.Name)
	}
	if isRecordCount(e) {
		return "n", "n"
	}
	switch x := e.(type) {
	case *ast.ParenExpr:
		return s.tr(x.X)
	case *ast.BasicLit:
		if x.Kind != token.INT {
			die("seqsites: unsupported literal %s", x.Value)
		}
		v, ok := constEval(x)
		if !ok || v.Sign() < 0 {
			die("seqsites: bad literal %s", x.Value)
		}
		return fmt.Sprintf("(%s#32)", v), "lit:" + v.String()
	case *ast.SelectorExpr:
		if s.c.fields[x.Sel.Name] {
			return x.Sel.Name, "field:" + x.Sel.Name
		}
		die("seqsites: %s: selector %s is not a sequence field", s.fd.Name.Name, src(s.c.fset, x))
	case *ast.Ident:
		if idx, ok := s.params[x.Name]; ok {
			return s.c.callArg(s.fd, idx)
		}
		if d := s.localDef(x.Name); d != nil {
			return s.tr(d)
		}
		die("seqsites: %s: cannot resolve identifier %s", s.fd.Name.Name, x.Name)
	case *ast.CallExpr:
		if id, ok := x.Fun.(*ast.Ident); ok {
			if id.Name == s.c.incGo && len(x.Args) == 2 {
				a, ka := s.tr(x.Args[0])
				b, kb := s.tr(x.Args[1])
				kind := "other"
				if strings.HasPrefix(ka, "field:") && kb == "n" {
					kind = "inc"
				}
				return fmt.Sprintf("(%s %s %s)", s.c.incLean, a, b), kind
			}
			if id.Name == "int32" && len(x.Args) == 1 {
				return s.tr(x.Args[0])
			}
		}
		die("seqsites: %s: unsupported call %s", s.fd.Name.Name, src(s.c.fset, x))
	case *ast.BinaryExpr:
		op := map[token.Token]string{token.ADD: "+", token.SUB: "-"}[x.Op]
		if op == "" {
			die("seqsites: %s: unsupported operator %s in %s", s.fd.Name.Name, x.Op, src(s.c.fset, x))
		}
		a, _ := s.tr(x.X)
		b, _ := s.tr(x.Y)
		return fmt.Sprintf("(%s %s %s)", a, op, b), "arith"
	}
	die("seqsites: %s: unsupported expression %s", s.fd.Name.Name, src(s.c.fset, e))
	return "", ""
}

// callArg: the translation of argument idx at every call of fd (by bare function name) in the package.
func (c *seqCtx) callArg(fd *ast.FuncDecl, idx int) (string, string) {
	name := fd.Name.Name
	if len(c.funcs[name]) != 1 {
		die("seqsites: %d functions named %s: cannot resolve its parameter through call sites", len(c.funcs[name]), name)
	}
	var lean, kind string
	n := 0
	var names []string
	for f := range c.files {
		names = append(names, f)
	}
	sort.Strings(names)
	for _, fname := range names {
		for _, d := range c.files[fname].Decls {
			caller, ok := d.(*ast.FuncDecl)
			if !ok || caller.Body == nil {
				continue
			}
			ast.Inspect(caller.Body, func(nd ast.Node) bool {
				call, ok := nd.(*ast.CallExpr)
				if !ok {
					return true
				}
				var called string
				switch f := call.Fun.(type) {
				case *ast.Ident:
					called = f.Name
				case *ast.SelectorExpr:
					called = f.Sel.Name
				}
				if called != name || idx >= len(call.Args) {
					return true
				}
				l, k := c.scope(caller).tr(call.Args[idx])
				if n > 0 && l != lean {
					die("seqsites: call sites of %s pass different values (%s vs %s)", name, lean, l)
				}
				lean, kind = l, k
				n++
				return true
			})
		}
	}
	if n == 0 {
		die("seqsites: no call site of %s found", name)
	}
	return lean, kind
}

func (c *seqCtx) scope(fd *ast.FuncDecl) *fnScope {
	s := &fnScope{c: c, fd: fd, params: map[string]int{}}
	i := 0
	for _, p := range fd.Type.Params.List {
		for _, n := range p.Names {
			s.params[n.Name] = i
			i++
		}
		if len(p.Names) == 0 {
			i++
		}
	}
	return s
}

func seqsites(dir, ns, incLean, fieldSpec string, asJSON bool) {
	c := &seqCtx{fset: token.NewFileSet(), files: map[string]*ast.File{}, fields: map[string]bool{},
		structs: map[string]map[string]bool{}, sfields: map[string][]string{}, funcs: map[string][]*ast.FuncDecl{}, incLean: incLean}
	c.incGo = incLean[strings.LastIndex(incLean, ".")+1:]
	for _, sf := range strings.Split(fieldSpec, ",") {
		parts := strings.Split(sf, ".")
		if len(parts) != 2 {
			die("seqsites: bad field spec %s", sf)
		}
		if c.structs[parts[0]] == nil {
			c.structs[parts[0]] = map[string]bool{}
		}
		c.structs[parts[0]][parts[1]] = true
		c.fields[parts[1]] = true
	}
	for f := range c.fields {
		c.fieldVar = append(c.fieldVar, f)
	}
	sort.Strings(c.fieldVar)
	ents, err := os.ReadDir(dir)
	if err != nil {
		die("%v", err)
	}
	for _, e := range ents {
		name := e.Name()
		if e.IsDir() || !strings.HasSuffix(name, ".go") || strings.HasSuffix(name, "_test.go") {
			continue
		}
		p := filepath.Join(dir, name)
		raw, err := os.ReadFile(p)
		if err != nil {
			die("%v", err)
		}
		skip := false
		for _, l := range strings.Split(string(raw), "\n") {
			t := strings.TrimSpace(l)
			if strings.HasPrefix(t, "package ") {
				break
			}
			if strings.HasPrefix(t, "//go:build") && strings.Contains(t, "verif") && !strings.Contains(t, "!verif") {
				skip = true
			}
		}
		if skip {
			continue
		}
		f, err := parser.ParseFile(c.fset, p, raw, 0)
		if err != nil {
			die("%v", err)
		}
		c.files[p] = f
	}
	// struct declarations: the listed fields exist with type int32; no other int32 field looks like a sequence
	found := map[string]bool{}
	for _, f := range c.files {
		for _, d := range f.Decls {
			switch x := d.(type) {
			case *ast.FuncDecl:
				c.funcs[x.Name.Name] = append(c.funcs[x.Name.Name], x)
			case *ast.GenDecl:
				for _, sp := range x.Specs {
					ts, ok := sp.(*ast.TypeSpec)
					if !ok {
						continue
					}
					st, ok := ts.Type.(*ast.StructType)
					if !ok {
						continue
					}
					for _, fl := range st.Fields.List {
						tyName := ""
						if id, ok := fl.Type.(*ast.Ident); ok {
							tyName = id.Name
						}
						if len(fl.Names) == 0 {
							c.sfields[ts.Name.Name] = append(c.sfields[ts.Name.Name], "<embedded>")
						}
						for _, n := range fl.Names {
							c.sfields[ts.Name.Name] = append(c.sfields[ts.Name.Name], n.Name)
							listed := c.structs[ts.Name.Name][n.Name]
							if listed {
								if tyName != "int32" {
									die("seqsites: %s.%s has type %s, not int32", ts.Name.Name, n.Name, src(c.fset, fl.Type))
								}
								found[ts.Name.Name+"."+n.Name] = true
							} else if tyName == "int32" && strings.Contains(strings.ToLower(n.Name), "seq") {
								die("seqsites: int32 field %s.%s looks like a sequence number but is not listed", ts.Name.Name, n.Name)
							} else if c.fields[n.Name] {
								die("seqsites: field name %s is also used by struct %s; sites cannot be told apart syntactically", n.Name, ts.Name.Name)
							}
						}
					}
				}
			}
		}
	}
	for st, fs := range c.structs {
		for f := range fs {
			if !found[st+"."+f] {
				die("seqsites: field %s.%s not found in %s", st, f, dir)
			}
		}
	}
	if len(c.funcs[c.incGo]) != 1 {
		die("seqsites: function %s not found in %s", c.incGo, dir)
	}

	var sites []seqSite
	keys := map[string]string{}
	add := func(fd *ast.FuncDecl, pos token.Pos, target, field, text, form, key, lean string) {
		p := c.fset.Position(pos)
		loc := fmt.Sprintf("%s:%d", relPath(p.Filename), p.Line)
		if prev, dup := keys[key]; dup {
			die("seqsites: two writes share the key %s (%s and %s): the client model has one update per function and field", key, prev, loc)
		}
		keys[key] = loc
		sites = append(sites, seqSite{Loc: loc, Fn: fd.Name.Name, Target: target, Field: field, Src: text, Form: form, Key: key, Lean: lean,
			file: relPath(p.Filename), line: p.Line})
	}
	for _, f := range c.files {
		for _, d := range f.Decls {
			fd, ok := d.(*ast.FuncDecl)
			if !ok || fd.Body == nil {
				continue
			}
			sc := c.scope(fd)
			// walk with an ancestor stack (for the needSeqReset guard)
			var stack []ast.Node
			ast.Inspect(fd.Body, func(n ast.Node) bool {
				if n == nil {
					stack = stack[:len(stack)-1]
					return true
				}
				stack = append(stack, n)
				guarded := func() bool {
					for _, a := range stack {
						if is, ok := a.(*ast.IfStmt); ok && strings.Contains(src(c.fset, is.Cond), "needSeqReset") {
							return true
						}
					}
					return false
				}
				switch x := n.(type) {
				case *ast.AssignStmt:
					for i, l := range x.Lhs {
						sel, ok := l.(*ast.SelectorExpr)
						if !ok || !c.fields[sel.Sel.Name] {
							continue
						}
						if len(x.Lhs) != len(x.Rhs) {
							die("seqsites: %s: multi-value assignment to %s", fd.Name.Name, src(c.fset, sel))
						}
						field := sel.Sel.Name
						rl, rk := sc.tr(x.Rhs[i])
						var lean, form string
						switch x.Tok {
						case token.ASSIGN:
							lean = rl
							switch {
							case rk == "inc":
								form = "inc"
							case strings.HasPrefix(rk, "field:"):
								form = "copy"
							case rk == "lit:0" && guarded():
								form = "zero-at-reset"
							case rk == "lit:0":
								form = "zero-unguarded"
							case rk == "arith":
								form = "plain-add"
							default:
								form = "other"
							}
						case token.ADD_ASSIGN:
							lean, form = fmt.Sprintf("(%s + %s)", field, rl), "plain-add"
						case token.SUB_ASSIGN:
							lean, form = fmt.Sprintf("(%s - %s)", field, rl), "plain-add"
						default:
							die("seqsites: %s: unsupported assignment operator %s on %s", fd.Name.Name, x.Tok, src(c.fset, sel))
						}
						add(fd, x.Pos(), src(c.fset, sel), field, src(c.fset, x), form, fd.Name.Name+"_"+field, lean)
					}
				case *ast.IncDecStmt:
					if sel, ok := x.X.(*ast.SelectorExpr); ok && c.fields[sel.Sel.Name] {
						op := "+"
						if x.Tok == token.DEC {
							op = "-"
						}
						add(fd, x.Pos(), src(c.fset, sel), sel.Sel.Name, src(c.fset, x), "plain-add", fd.Name.Name+"_"+sel.Sel.Name,
							fmt.Sprintf("(%s %s (1#32))", sel.Sel.Name, op))
					}
				case *ast.UnaryExpr:
					if sel, ok := x.X.(*ast.SelectorExpr); ok && x.Op == token.AND && c.fields[sel.Sel.Name] {
						add(fd, x.Pos(), src(c.fset, sel), sel.Sel.Name, src(c.fset, x), "address-taken", fd.Name.Name+"_addr_"+sel.Sel.Name, sel.Sel.Name)
					}
				case *ast.CompositeLit:
					id, ok := x.Type.(*ast.Ident)
					if !ok || c.structs[id.Name] == nil {
						return true
					}
					for i, el := range x.Elts {
						var field string
						var val ast.Expr
						if kv, ok := el.(*ast.KeyValueExpr); ok {
							if k, ok := kv.Key.(*ast.Ident); ok {
								field, val = k.Name, kv.Value
							}
						} else if i < len(c.sfields[id.Name]) {
							field, val = c.sfields[id.Name][i], el
						}
						if !c.structs[id.Name][field] {
							continue
						}
						rl, rk := sc.tr(val)
						form := "other"
						switch {
						case strings.HasPrefix(rk, "field:"):
							form = "copy"
						case rk == "inc":
							form = "inc"
						case rk == "arith":
							form = "plain-add"
						case rk == "lit:0":
							form = "zero-unguarded"
						}
						add(fd, x.Pos(), id.Name+"{"+field+"}", field, src(c.fset, x), form, fd.Name.Name+"_"+id.Name+"_"+field, rl)
					}
				}
				return true
			})
		}
	}
	sort.Slice(sites, func(i, j int) bool {
		if sites[i].file != sites[j].file {
			return sites[i].file < sites[j].file
		}
		if sites[i].line != sites[j].line {
			return sites[i].line < sites[j].line
		}
		return sites[i].Key < sites[j].Key
	})
	if len(sites) == 0 {
		die("seqsites: no write to %s found in %s", fieldSpec, dir)
	}
	if asJSON {
		b, _ := json.MarshalIndent(sites, "", " ")
		fmt.Println(string(b))
		return
	}
	q := func(s string) string {
		return "\"" + strings.ReplaceAll(strings.ReplaceAll(s, "\\", "\\\\"), "\"", "\\\"") + "\""
	}
	var b strings.Builder
	fmt.Fprintf(&b, "-- GENERATED by tools/extract seqsites from %s (%d writes to %s) — do not edit\nnamespace %s\n", relPath(dir), len(sites), fieldSpec, ns)
	b.WriteString("structure Site where\n  loc : String\n  fn : String\n  target : String\n  src : String\n  form : String\n  key : String\nderiving Repr, DecidableEq\n")
	b.WriteString("def sites : List Site := [\n")
	for i, s := range sites {
		sep := ","
		if i == len(sites)-1 {
			sep = ""
		}
		fmt.Fprintf(&b, "  { loc := %s, fn := %s, target := %s, src := %s, form := %s, key := %s }%s\n", q(s.Loc), q(s.Fn), q(s.Target), q(s.Src), q(s.Form), q(s.Key), sep)
	}
	b.WriteString("]\nset_option linter.unusedVariables false\n")
	var params []string
	for _, f := range c.fieldVar {
		params = append(params, f)
	}
	for _, s := range sites {
		fmt.Fprintf(&b, "/-- %s  %s  [%s] -/\ndef %s (%s n : BitVec 32) : BitVec 32 := %s\n", s.Loc, s.Src, s.Form, s.Key, strings.Join(params, " "), s.Lean)
	}
	fmt.Fprintf(&b, "end %s\n", ns)
	fmt.Print(b.String())
}
