// extract: tiny Go-source fact extractor and translator used to regenerate Lean model inputs
// from /repo on every run.
//
//	extract intfunc <file.go> <Func> <LeanNamespace>   straight-line integer function -> Lean BitVec def
//	extract fingerprint <file.go> <Func|Recv.Method>... normalised-AST hash of functions
//	extract const <file.go> <Name>                      print a var/const declaration's value expression source
//	extract seqsites <dir> <LeanNamespace> <LeanIncFunc> <Struct.field,...>   (seqsites.go) every write to the named
//	                                                    int32 fields in the package, as Lean BitVec update functions + site list
//	extract seqsites-json <same args>                   the same enumeration as JSON
//
// The intfunc translator accepts exactly: parameters/results of fixed-width integer types,
// statements `if cond { return e }` (no else) and `return e`, and expressions built from
// parameters, integer literals, math.MaxInt32-style constants, + - * & | ^, comparisons, && || !,
// parentheses and integer conversions. Anything else is a loud failure (non-zero exit), which
// breaks the proof obligation that depends on the generated file.
package main

import (
	"bytes"
	"crypto/sha256"
	"fmt"
	"go/ast"
	"go/parser"
	"go/printer"
	"go/token"
	"math/big"
	"os"
	"strings"
)

func die(f string, a ...any) {
	fmt.Fprintf(os.Stderr, "extract: "+f+"\n", a...)
	os.Exit(2)
}

func findFunc(f *ast.File, name string) *ast.FuncDecl {
	recv := ""
	if i := strings.Index(name, "."); i >= 0 {
		recv, name = name[:i], name[i+1:]
	}
	for _, d := range f.Decls {
		fd, ok := d.(*ast.FuncDecl)
		if !ok || fd.Name.Name != name {
			continue
		}
		if recv == "" && fd.Recv == nil {
			return fd
		}
		if recv != "" && fd.Recv != nil && len(fd.Recv.List) == 1 {
			t := fd.Recv.List[0].Type
			if s, ok := t.(*ast.StarExpr); ok {
				t = s.X
			}
			if ix, ok := t.(*ast.IndexExpr); ok {
				t = ix.X
			}
			if id, ok := t.(*ast.Ident); ok && id.Name == recv {
				return fd
			}
		}
	}
	return nil
}

var widths = map[string]int{"int8": 8, "uint8": 8, "byte": 8, "int16": 16, "uint16": 16, "int32": 32, "uint32": 32, "int64": 64, "uint64": 64, "int": 64, "uint": 64}
var signed = map[string]bool{"int8": true, "int16": true, "int32": true, "int64": true, "int": true}

var mathConsts = map[string]string{
	"MaxInt8": "127", "MaxInt16": "32767", "MaxInt32": "2147483647", "MaxInt64": "9223372036854775807",
	"MaxUint8": "255", "MaxUint16": "65535", "MaxUint32": "4294967295", "MaxUint64": "18446744073709551615",
}

type tr struct {
	vars map[string]string // name -> go type
	ret  string
}

// expr translates e at type want (a Go integer type name); returns Lean text.
func (t *tr) expr(e ast.Expr, want string) string {
	w := widths[want]
	switch x := e.(type) {
	case *ast.ParenExpr:
		return t.expr(x.X, want)
	case *ast.BasicLit:
		if x.Kind != token.INT {
			die("unsupported literal %s", x.Value)
		}
		var n uint64
		if _, err := fmt.Sscan(x.Value, &n); err != nil {
			// hex etc.
			if _, err := fmt.Sscanf(x.Value, "0x%x", &n); err != nil {
				die("bad int literal %s", x.Value)
			}
		}
		return fmt.Sprintf("(%d#%d)", n, w)
	case *ast.Ident:
		ty, ok := t.vars[x.Name]
		if !ok {
			die("unknown identifier %s", x.Name)
		}
		if widths[ty] != w || signed[ty] != signed[want] {
			die("identifier %s has type %s, wanted %s", x.Name, ty, want)
		}
		return x.Name
	case *ast.SelectorExpr:
		if id, ok := x.X.(*ast.Ident); ok && id.Name == "math" {
			if v, ok := mathConsts[x.Sel.Name]; ok {
				return fmt.Sprintf("(%s#%d)", v, w)
			}
		}
		die("unsupported selector")
	case *ast.UnaryExpr:
		if x.Op == token.SUB {
			return fmt.Sprintf("(-%s)", t.expr(x.X, want))
		}
		if x.Op == token.XOR {
			return fmt.Sprintf("(~~~%s)", t.expr(x.X, want))
		}
		die("unsupported unary %s", x.Op)
	case *ast.CallExpr: // conversion
		if id, ok := x.Fun.(*ast.Ident); ok && widths[id.Name] != 0 && len(x.Args) == 1 {
			if widths[id.Name] != w {
				die("conversion to %s where %s wanted", id.Name, want)
			}
			from := t.typeOf(x.Args[0])
			inner := t.expr(x.Args[0], from)
			if widths[from] == w {
				return inner
			}
			if widths[from] > w {
				return fmt.Sprintf("(%s.setWidth %d)", inner, w)
			}
			if signed[from] {
				return fmt.Sprintf("(%s.signExtend %d)", inner, w)
			}
			return fmt.Sprintf("(%s.setWidth %d)", inner, w)
		}
		die("unsupported call")
	case *ast.BinaryExpr:
		op := map[token.Token]string{token.ADD: "+", token.SUB: "-", token.MUL: "*", token.AND: "&&&", token.OR: "|||", token.XOR: "^^^"}[x.Op]
		if op == "" {
			die("unsupported binary op %s", x.Op)
		}
		return fmt.Sprintf("(%s %s %s)", t.expr(x.X, want), op, t.expr(x.Y, want))
	}
	die("unsupported expression %T", e)
	return ""
}

// typeOf infers the Go integer type of an expression (identifiers and conversions decide; untyped
// constants take the type of the other operand).
func (t *tr) typeOf(e ast.Expr) string {
	switch x := e.(type) {
	case *ast.ParenExpr:
		return t.typeOf(x.X)
	case *ast.Ident:
		return t.vars[x.Name]
	case *ast.CallExpr:
		if id, ok := x.Fun.(*ast.Ident); ok && widths[id.Name] != 0 {
			return id.Name
		}
	case *ast.UnaryExpr:
		return t.typeOf(x.X)
	case *ast.BinaryExpr:
		if a := t.typeOf(x.X); a != "" {
			return a
		}
		return t.typeOf(x.Y)
	}
	return ""
}

func (t *tr) cond(e ast.Expr) string {
	switch x := e.(type) {
	case *ast.ParenExpr:
		return t.cond(x.X)
	case *ast.UnaryExpr:
		if x.Op == token.NOT {
			return fmt.Sprintf("(!%s)", t.cond(x.X))
		}
	case *ast.BinaryExpr:
		switch x.Op {
		case token.LAND:
			return fmt.Sprintf("(%s && %s)", t.cond(x.X), t.cond(x.Y))
		case token.LOR:
			return fmt.Sprintf("(%s || %s)", t.cond(x.X), t.cond(x.Y))
		}
		ty := t.typeOf(x)
		if ty == "" {
			die("cannot type comparison")
		}
		a, b := t.expr(x.X, ty), t.expr(x.Y, ty)
		lt, le := "BitVec.ult", "BitVec.ule"
		if signed[ty] {
			lt, le = "BitVec.slt", "BitVec.sle"
		}
		switch x.Op {
		case token.LSS:
			return fmt.Sprintf("%s %s %s", lt, a, b)
		case token.GTR:
			return fmt.Sprintf("%s %s %s", lt, b, a)
		case token.LEQ:
			return fmt.Sprintf("%s %s %s", le, a, b)
		case token.GEQ:
			return fmt.Sprintf("%s %s %s", le, b, a)
		case token.EQL:
			return fmt.Sprintf("(%s == %s)", a, b)
		case token.NEQ:
			return fmt.Sprintf("(%s != %s)", a, b)
		}
	}
	die("unsupported condition %T", e)
	return ""
}

func intfunc(file, fn, ns string) {
	fset := token.NewFileSet()
	f, err := parser.ParseFile(fset, file, nil, 0)
	if err != nil {
		die("%v", err)
	}
	fd := findFunc(f, fn)
	if fd == nil {
		die("function %s not found in %s", fn, file)
	}
	t := &tr{vars: map[string]string{}}
	var params []string
	for _, p := range fd.Type.Params.List {
		id, ok := p.Type.(*ast.Ident)
		if !ok || widths[id.Name] == 0 {
			die("unsupported parameter type")
		}
		for _, n := range p.Names {
			t.vars[n.Name] = id.Name
			params = append(params, fmt.Sprintf("(%s : BitVec %d)", n.Name, widths[id.Name]))
		}
	}
	if fd.Type.Results == nil || len(fd.Type.Results.List) != 1 {
		die("need exactly one result")
	}
	rid, ok := fd.Type.Results.List[0].Type.(*ast.Ident)
	if !ok || widths[rid.Name] == 0 {
		die("unsupported result type")
	}
	t.ret = rid.Name
	var b strings.Builder
	name := fd.Name.Name
	fmt.Fprintf(&b, "-- GENERATED by tools/extract from %s:%s — do not edit\nnamespace %s\n", strings.TrimPrefix(file, "/repo/"), fn, ns)
	fmt.Fprintf(&b, "def %s %s : BitVec %d :=\n", name, strings.Join(params, " "), widths[rid.Name])
	closed := false
	for _, st := range fd.Body.List {
		if closed {
			die("statements after final return")
		}
		switch s := st.(type) {
		case *ast.IfStmt:
			if s.Init != nil || s.Else != nil || len(s.Body.List) != 1 {
				die("unsupported if shape")
			}
			r, ok := s.Body.List[0].(*ast.ReturnStmt)
			if !ok || len(r.Results) != 1 {
				die("if body must be a single return")
			}
			fmt.Fprintf(&b, "  if %s then\n    %s\n  else\n", t.cond(s.Cond), t.expr(r.Results[0], t.ret))
		case *ast.ReturnStmt:
			if len(s.Results) != 1 {
				die("bad return")
			}
			fmt.Fprintf(&b, "  %s\n", t.expr(s.Results[0], t.ret))
			closed = true
		default:
			die("unsupported statement %T", st)
		}
	}
	if !closed {
		die("function does not end in return")
	}
	fmt.Fprintf(&b, "end %s\n", ns)
	fmt.Print(b.String())
}

func fingerprint(file string, fns []string) {
	fset := token.NewFileSet()
	f, err := parser.ParseFile(fset, file, nil, 0) // comments dropped
	if err != nil {
		die("%v", err)
	}
	for _, fn := range fns {
		fd := findFunc(f, fn)
		if fd == nil {
			fmt.Printf("%s %s MISSING\n", file, fn)
			continue
		}
		var buf bytes.Buffer
		printer.Fprint(&buf, token.NewFileSet(), fd)
		// normalise whitespace
		norm := strings.Join(strings.Fields(buf.String()), " ")
		fmt.Printf("%s %s %x\n", strings.TrimPrefix(file, "/repo/"), fn, sha256.Sum256([]byte(norm)))
	}
}

func constExpr(file, name string) {
	fset := token.NewFileSet()
	f, err := parser.ParseFile(fset, file, nil, 0)
	if err != nil {
		die("%v", err)
	}
	for _, d := range f.Decls {
		gd, ok := d.(*ast.GenDecl)
		if !ok {
			continue
		}
		for _, sp := range gd.Specs {
			vs, ok := sp.(*ast.ValueSpec)
			if !ok {
				continue
			}
			for i, n := range vs.Names {
				if n.Name == name && i < len(vs.Values) {
					var buf bytes.Buffer
					printer.Fprint(&buf, fset, vs.Values[i])
					fmt.Println(strings.Join(strings.Fields(buf.String()), " "))
					return
				}
			}
		}
	}
	die("const/var %s not found", name)
}

// constEval evaluates a constant integer expression (literals, math.Max*, + - * << and parens).
func constEval(e ast.Expr) (*big.Int, bool) {
	switch x := e.(type) {
	case *ast.ParenExpr:
		return constEval(x.X)
	case *ast.BasicLit:
		if x.Kind == token.INT {
			n, ok := new(big.Int).SetString(strings.ReplaceAll(x.Value, "_", ""), 0)
			return n, ok
		}
	case *ast.SelectorExpr:
		if id, ok := x.X.(*ast.Ident); ok && id.Name == "math" {
			if v, ok := mathConsts[x.Sel.Name]; ok {
				n, ok := new(big.Int).SetString(v, 10)
				return n, ok
			}
		}
	case *ast.CallExpr: // integer conversion of a constant
		if id, ok := x.Fun.(*ast.Ident); ok && widths[id.Name] != 0 && len(x.Args) == 1 {
			return constEval(x.Args[0])
		}
	case *ast.UnaryExpr:
		if v, ok := constEval(x.X); ok && x.Op == token.SUB {
			return new(big.Int).Neg(v), true
		}
	case *ast.BinaryExpr:
		a, ok1 := constEval(x.X)
		b, ok2 := constEval(x.Y)
		if ok1 && ok2 {
			switch x.Op {
			case token.ADD:
				return new(big.Int).Add(a, b), true
			case token.SUB:
				return new(big.Int).Sub(a, b), true
			case token.MUL:
				return new(big.Int).Mul(a, b), true
			case token.SHL:
				return new(big.Int).Lsh(a, uint(b.Uint64())), true
			}
		}
	}
	return nil, false
}

// remconsts: every `x % K` inside the function must have a constant K; all K must be equal; the
// value becomes a Lean Int definition. A non-constant modulus or differing moduli is a loud failure.
func remconsts(file, fn, ns, leanName, assignedTo string) {
	fset := token.NewFileSet()
	f, err := parser.ParseFile(fset, file, nil, 0)
	if err != nil {
		die("%v", err)
	}
	fd := findFunc(f, fn)
	if fd == nil {
		die("function %s not found in %s", fn, file)
	}
	var vals []*big.Int
	collect := func(root ast.Node) {
		ast.Inspect(root, func(n ast.Node) bool {
			if be, ok := n.(*ast.BinaryExpr); ok && be.Op == token.REM {
				v, ok := constEval(be.Y)
				if !ok {
					die("non-constant modulus in %s", fn)
				}
				vals = append(vals, v)
			}
			return true
		})
	}
	// only the moduli inside statements that assign the named variable
	ast.Inspect(fd.Body, func(n ast.Node) bool {
		as, ok := n.(*ast.AssignStmt)
		if !ok {
			return true
		}
		for i, l := range as.Lhs {
			if id, ok := l.(*ast.Ident); ok && id.Name == assignedTo && i < len(as.Rhs) {
				collect(as.Rhs[i])
			}
		}
		return true
	})
	if len(vals) == 0 {
		die("no %% expression in %s", fn)
	}
	for _, v := range vals {
		if v.Cmp(vals[0]) != 0 {
			die("differing moduli in %s: %s vs %s", fn, vals[0], v)
		}
	}
	fmt.Printf("-- GENERATED by tools/extract from %s:%s (%d modulus sites) — do not edit\nnamespace %s\ndef %s : Int := %s\ndef %sSites : Nat := %d\nend %s\n",
		strings.TrimPrefix(file, "/repo/"), fn, len(vals), ns, leanName, vals[0], leanName, len(vals), ns)
}

func main() {
	if len(os.Args) < 2 {
		die("usage")
	}
	switch os.Args[1] {
	case "intfunc":
		if len(os.Args) != 5 {
			die("usage: intfunc file func ns")
		}
		intfunc(os.Args[2], os.Args[3], os.Args[4])
	case "remconsts":
		if len(os.Args) != 7 {
			die("usage: remconsts file func ns leanName assignedVar")
		}
		remconsts(os.Args[2], os.Args[3], os.Args[4], os.Args[5], os.Args[6])
	case "cat":
		// concatenate the outputs of several sub-invocations separated by "--"
		var cur []string
		flush := func() {
			if len(cur) > 0 {
				os.Args = append([]string{os.Args[0]}, cur...)
				main()
				cur = nil
			}
		}
		for _, a := range os.Args[2:] {
			if a == "--" {
				flush()
			} else {
				cur = append(cur, a)
			}
		}
		flush()
	case "fingerprint":
		fingerprint(os.Args[2], os.Args[3:])
	case "const":
		constExpr(os.Args[2], os.Args[3])
	case "seqsites", "seqsites-json":
		if len(os.Args) != 6 {
			die("usage: seqsites dir ns leanIncFunc Struct.field,...")
		}
		seqsites(os.Args[2], os.Args[3], os.Args[4], os.Args[5], os.Args[1] == "seqsites-json")
	default:
		die("unknown subcommand")
	}
}
