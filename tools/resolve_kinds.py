#!/usr/bin/env python3
"""Resolves a merge conflict in the scenario-kind table of harness/cmd/sim/main_test.go by taking the union."""
import re
p = '/verif/harness/cmd/sim/main_test.go'
s = open(p).read()
m = re.search(r'<<<<<<< [^\n]*\n(.*?)=======\n(.*?)>>>>>>> [^\n]*\n', s, re.S)
pat = r'"(\w+)":\s*\{(\w+), (\w+)\}'
seen = []
for t in re.findall(pat, m.group(1)) + re.findall(pat, m.group(2)):
    if t not in seen:
        seen.append(t)
s = s[:m.start()] + ''.join('\t"%s": {%s, %s},\n' % t for t in seen) + s[m.end():]
open(p, 'w').write(s)
