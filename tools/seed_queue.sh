#!/bin/bash
# usage: tools/seed_queue.sh <queue-file>   -- processes lines "name prop outdir [checks…]" appended to the queue file,
# one after another, with tools/seed_confirm.sh; log of each in /tmp/sq_<name>.log. Ends on a line "stop".
q=$1; n=0
cd /verif
while true; do
  total=$(wc -l < $q 2>/dev/null || echo 0)
  if [ $n -lt $total ]; then
    n=$((n+1)); line=$(sed -n "${n}p" $q)
    [ "$line" = "stop" ] && exit 0
    [ -z "$line" ] && continue
    set -- $line
    tools/seed_confirm.sh "$@" > /tmp/sq_$1.log 2>&1
    python3 tools/seed_meta.py $1 > /dev/null 2>&1
  else
    sleep 20
  fi
done
