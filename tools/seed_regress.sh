#!/bin/bash
# usage: tools/seed_regress.sh [jobs]   -- re-runs, against the CURRENT checks, every seeded change with the check (quick tier)
# that its meta.json names as the one catching it; prints one line per change; not part of any registered command.
jobs=${1:-4}
python3 - <<'P' > /tmp/seed_regress_list.txt
import json,glob
for d in sorted(glob.glob('/verif/seeded/*')):
    m=json.load(open(d+'/meta.json'))
    own=m["property"]
    hits=[c for c in m["checks"] if c["exit"]==1]
    pick=None
    for c in hits:
        if c["check"]==own and c["tier"]=="quick": pick=c
    if not pick:
        for c in hits:
            if c["tier"]=="quick": pick=c; break
    if not pick and hits: pick=hits[0]
    if pick: print(m["name"], pick["check"], pick["tier"])
P
cat /tmp/seed_regress_list.txt | xargs -P $jobs -L 1 bash -c 'out=$(/verif/tools/mut_try.sh $0 $1 $2 2>/dev/null | head -1 | cut -c1-60); echo "$0 $1 $2: $out"'
