#!/bin/bash
# usage: tools/seed_confirm.sh <name> <property> <out-dir-of-seeding-agent> [check-property ...]
#
# Confirms a seeded change produced by an independent seeding agent and stores it under /verif/seeded/<name>/:
#   1. a scratch worktree of /repo's HEAD is created under /tmp and the patch applied to it;
#   2. it must build (all modules) and pass the pinned baseline (461 tests);
#   3. the agent's demonstration must fail on the modified tree and pass on the unmodified one;
#   4. each listed check is run against the modified tree (VERIF_REPO) in the quick tier, and in the thorough
#      tier when the quick tier missed it; the outcome goes to seeded/<name>/results.json;
#      (the checks run in a scratch copy of /verif);
#   5. the worktree and its build output are removed.
set -u
NAME=$1; PROP=$2; OUT=$3; shift 3
CHECKS=${*:-$PROP}
V=/verif
WT=/tmp/sc_$NAME
export GOFLAGS=-mod=mod GOPROXY=off
D=$V/seeded/$NAME
mkdir -p $D
cp $OUT/patch.diff $D/patch.diff
rm -rf $D/demo; cp -r $OUT/demo $D/demo 2>/dev/null
[ -f $OUT/meta.json ] && cp $OUT/meta.json $D/agent_meta.json
git -C /repo worktree remove --force $WT 2>/dev/null; rm -rf $WT
git -C /repo worktree add --detach $WT HEAD >/dev/null 2>&1 || { echo "worktree failed"; exit 2; }
trap 'git -C /repo worktree remove --force $WT 2>/dev/null; rm -rf $WT' EXIT
R=$D/results.txt; : > $R
if ! git -C $WT apply --3way $D/patch.diff 2>>$R && ! git -C $WT apply $D/patch.diff 2>>$R; then echo "applies=no" >> $R; cat $R; exit 2; fi
echo "applies=yes base=$(git -C /repo rev-parse --short HEAD)" >> $R
( cd $WT && go build ./... && (cd pkg/kfake && go build ./...) && (cd pkg/kmsg && go build ./...) && (cd pkg/kadm && go build ./...) && (cd pkg/sr && go build ./...) ) >>$R 2>&1 && echo "builds=yes" >> $R || echo "builds=no" >> $R
if [ "${SKIP_BASELINE:-0}" != 1 ]; then
  timeout 2400 python3 /root/seedkit/check_baseline.py $WT > $D/baseline.txt 2>&1; echo "baseline_exit=$?" >> $R
  head -3 $D/baseline.txt >> $R
fi
if [ -x $D/demo/run.sh ]; then
  timeout 1200 $D/demo/run.sh $WT > $D/demo_modified.txt 2>&1; echo "demo_modified_exit=$?" >> $R
  timeout 1200 $D/demo/run.sh /repo > $D/demo_pristine.txt 2>&1; echo "demo_pristine_exit=$?" >> $R
fi
# the checks run in a scratch copy of /verif so that regenerated Gen files, harness binaries, evidence and
# replays of the modified tree never touch the real ones (other checks may be running there)
VC=/tmp/vc_$NAME
rm -rf $VC; mkdir -p $VC
rsync -a --exclude .git --exclude seeded --exclude replays $V/ $VC/
trap 'git -C /repo worktree remove --force $WT 2>/dev/null; rm -rf $WT $VC' EXIT
for c in $CHECKS; do
  for tier in quick thorough; do
    ( cd $VC && VERIF_REPO=$WT timeout 3000 ./check $c --tier $tier > $D/check_${c}_$tier.txt 2>&1 ); e=$?
    echo "check=$c tier=$tier exit=$e $(grep -m1 VIOLATION $D/check_${c}_$tier.txt)" >> $R
    [ $e = 1 ] && break
  done
done
mkdir -p $D/replay; for f in $(grep -ho 'replay=[^ ]*' $D/check_*.txt | cut -d= -f2 | head -3); do cp $VC/${f#$VC/} $D/replay/ 2>/dev/null || cp $f $D/replay/ 2>/dev/null; done
cat $R
