"""Shared machinery of ./check (see DESIGN.md §2.1).

A property plug-in (props/Cxx.py) builds a `Prop` and calls `run_prop`. The pipeline is
  1 regenerate Gen/*.lean from /repo        (tie T)
  2 obligations: lake build Props module, audit `#print axioms`, forbidden-token grep
  3 correspondence: Go harness (linked against /repo's working tree) vs Lean driver  (tie D/H)
  4 on failure: search for a concrete failing input (Spec evaluated on the implementation's outputs)
  5 evidence/Cxx.json
"""
import fcntl, hashlib, json, os, re, shutil, subprocess, sys, time

VERIF = os.path.dirname(os.path.dirname(os.path.abspath(__file__)))
REPO = os.environ.get("VERIF_REPO", "/repo")
LEAN = os.path.join(VERIF, "lean")
BUILD = os.path.join(VERIF, ".build")
HARNESS = os.path.join(VERIF, "harness")
ALLOWED_AXIOMS = {"propext", "Classical.choice", "Quot.sound"}
FORBIDDEN = re.compile(r"\bsorry\b|(?:^|[\s;(])admit\s*(?:$|[;)\]])|^\s*axiom\s|native_decide|bv_decide|implemented_by|\bunsafe\s|maxHeartbeats\s+0\b")

GOENV = dict(os.environ)
GOENV.update({"GOFLAGS": "-mod=mod", "GOPROXY": "off", "GOTOOLCHAIN": os.environ.get("GOTOOLCHAIN", "auto")})
GOENV.pop("GOSUMDB", None)


class Broken(Exception):
    """A proof obligation or the correspondence no longer checks (not by itself a violation)."""
    def __init__(self, what, detail=""):
        super().__init__(what)
        self.what, self.detail = what, detail


def log(*a):
    print(*a, file=sys.stderr, flush=True)


def sh(cmd, cwd=None, env=None, timeout=600, stdin=None, check=False):
    t0 = time.time()
    try:
        p = subprocess.run(cmd, cwd=cwd, env=env, input=stdin, capture_output=True, timeout=timeout,
                           text=isinstance(stdin, str) or stdin is None)
    except subprocess.TimeoutExpired as e:
        out = e.stdout or ""
        err = e.stderr or ""
        if isinstance(out, bytes): out = out.decode("utf8", "replace")
        if isinstance(err, bytes): err = err.decode("utf8", "replace")
        return 124, out, err + "\n[timeout after %ss]" % timeout
    if check and p.returncode != 0:
        raise RuntimeError("command failed (%d): %s\n%s\n%s" % (p.returncode, cmd, p.stdout[-2000:], p.stderr[-4000:]))
    log("  [%5.1fs] %s" % (time.time() - t0, " ".join(cmd) if isinstance(cmd, list) else cmd)[:200])
    return p.returncode, p.stdout, p.stderr


class Lock:
    def __init__(self, name):
        os.makedirs(BUILD, exist_ok=True)
        self.path = os.path.join(BUILD, name + ".lock")
    def __enter__(self):
        self.f = open(self.path, "w")
        fcntl.flock(self.f, fcntl.LOCK_EX)
    def __exit__(self, *a):
        fcntl.flock(self.f, fcntl.LOCK_UN)
        self.f.close()


# ---------------------------------------------------------------- tools / setup

def ensure_go_sum():
    dst = os.path.join(HARNESS, "go.sum")
    lines = set()
    for rel in ["go.sum", "pkg/kfake/go.sum", "pkg/sr/go.sum", "pkg/kadm/go.sum", "plugin/kotel/go.sum", "pkg/kmsg/go.sum"]:
        p = os.path.join(REPO, rel)
        if os.path.exists(p):
            lines.update(l for l in open(p).read().splitlines() if l.strip())
    extra = os.path.join(HARNESS, "go.sum.extra")
    if os.path.exists(extra):
        lines.update(l for l in open(extra).read().splitlines() if l.strip())
    new = "\n".join(sorted(lines)) + "\n"
    if not os.path.exists(dst) or open(dst).read() != new:
        open(dst, "w").write(new)


def build_extract():
    out = os.path.join(BUILD, "extract")
    src = os.path.join(VERIF, "tools", "extract")
    with Lock("tools"):
        newest = max(os.path.getmtime(os.path.join(src, f)) for f in os.listdir(src))
        if os.path.exists(out) and os.path.getmtime(out) >= newest:
            return out
        env = dict(GOENV); env["GOFLAGS"] = "-mod=mod"
        rc, o, e = sh(["go", "build", "-o", out, "."], cwd=src, env=env, timeout=300)
        if rc != 0:
            raise RuntimeError("cannot build tools/extract: " + e)
    return out


def write_lakefile():
    """lakefile.toml is derived from the directory listing: one lean_exe per Driver/Cxx.lean."""
    drivers = sorted(f[:-5] for f in os.listdir(os.path.join(LEAN, "Driver")) if re.fullmatch(r"C\d+\.lean", f))
    s = 'name = "FranzVerif"\nversion = "0.1.0"\ndefaultTargets = ["FranzVerif"]\n\n[[lean_lib]]\nname = "FranzVerif"\n\n[[lean_lib]]\nname = "Driver"\n'
    for d in drivers:
        s += '\n[[lean_exe]]\nname = "fz_%s"\nroot = "Driver.%s"\n' % (d.lower(), d)
    p = os.path.join(LEAN, "lakefile.toml")
    if not os.path.exists(p) or open(p).read() != s:
        open(p, "w").write(s)
    # library root imports every Model/Props/Proof/Spec/Prim module so `lake build` covers all of them
    mods = []
    for sub in ["Prim", "Model", "Spec", "Proof", "Props"]:
        d = os.path.join(LEAN, "FranzVerif", sub)
        if os.path.isdir(d):
            for f in sorted(os.listdir(d)):
                if f.endswith(".lean"):
                    mods.append("FranzVerif.%s.%s" % (sub, f[:-5]))
    root = "-- GENERATED by ./check from the directory listing\n" + "".join("import %s\n" % m for m in mods)
    p = os.path.join(LEAN, "FranzVerif.lean")
    if not os.path.exists(p) or open(p).read() != root:
        open(p, "w").write(root)


def lake(args, timeout=3000):
    with Lock("lake"):
        return sh(["lake"] + args, cwd=LEAN, timeout=timeout)


# ---------------------------------------------------------------- property description

class Prop:
    def __init__(self, pid, **kw):
        self.id = pid
        self.gen = kw.get("gen", [])              # list of (outfile relative to lean/, [extract args...]) or callables
        self.props_module = kw.get("props_module", "FranzVerif.Props." + pid)
        self.driver = kw.get("driver", pid)       # Driver/<driver>.lean -> exe fz_<driver lower>
        self.harness = kw.get("harness", pid.lower())   # harness/cmd/<harness>
        self.harness_kind = kw.get("harness_kind", "build")  # build | test (go test -c)
        self.tags = kw.get("tags", "verif")
        self.quick = kw.get("quick", [])          # extra args for `gen`
        self.thorough = kw.get("thorough", [])
        self.search = kw.get("search", None)      # extra args for the search sweep (default: thorough)
        self.level = kw.get("level", "proof")
        self.trusted_base = kw.get("trusted_base", [])
        self.assumptions = kw.get("assumptions", [])
        self.rule = kw.get("rule", "")
        self.run_timeout = kw.get("run_timeout", {"quick": 600, "thorough": 3000})
        self.models = kw.get("models", [])        # [(file, [funcs])] for fingerprints
        self.extra_obligations = kw.get("extra_obligations", None)  # callable(ctx) -> list of (name, ok, detail)
        self.partial = kw.get("partial", "")
        self.group_by_reset = kw.get("group_by_reset", False)  # cases are op groups started by a `reset` op
        self.lean_heavy = kw.get("lean_heavy", False)


# ---------------------------------------------------------------- steps

def regen(prop):
    """Step 1. Returns list of obligation failures (translator refused the source)."""
    fails = []
    if not prop.gen:
        return fails
    ex = build_extract()
    for out, args in prop.gen:
        path = os.path.join(LEAN, out)
        os.makedirs(os.path.dirname(path), exist_ok=True)
        if callable(args):
            try:
                text = args()
                rc, err = 0, ""
            except Exception as e:  # translator failure
                text, rc, err = "", 1, str(e)
        else:
            a = [x.replace("{REPO}", REPO) for x in args]
            rc, text, err = sh([ex] + a, timeout=300)
        if rc != 0:
            fails.append(("regenerate " + out, err.strip()[-1500:]))
            continue
        old = open(path).read() if os.path.exists(path) else None
        if old != text:
            open(path, "w").write(text)
    return fails


def theorem_names(prop):
    rel = prop.props_module.replace(".", "/") + ".lean"
    src = open(os.path.join(LEAN, rel)).read()
    src_nc = re.sub(r"/-.*?-/", "", src, flags=re.S)
    ns = re.search(r"^namespace\s+(\S+)", src_nc, flags=re.M)
    ns = ns.group(1) + "." if ns else ""
    names = [ns + m for m in re.findall(r"^(?:@\[[^\]]*\]\s*)?theorem\s+([^\s:({\[]+)", src_nc, flags=re.M)]
    return names


def lean_files_for(prop):
    """The Lean source files the property's Props module depends on (transitive `import FranzVerif.*`)."""
    seen, todo = [], [prop.props_module]
    while todo:
        m = todo.pop()
        f = os.path.join(LEAN, m.replace(".", "/") + ".lean")
        if f in seen or not os.path.exists(f):
            continue
        seen.append(f)
        for imp in re.findall(r"^import\s+(FranzVerif\.\S+)", open(f).read(), flags=re.M):
            todo.append(imp)
    return seen


def forbidden_hits(prop):
    hits = []
    for f in lean_files_for(prop):
        src = open(f).read()
        src = re.sub(r"/-.*?-/", lambda m: "\n" * m.group(0).count("\n"), src, flags=re.S)
        for i, line in enumerate(src.splitlines(), 1):
            line = line.split("--")[0]
            if FORBIDDEN.search(line):
                hits.append("%s:%d: %s" % (os.path.relpath(f, VERIF), i, line.strip()))
    return hits


def obligations(prop, tier):
    """Step 2. Returns (names, discharged_names, axioms_by_name, failures)."""
    failures = []
    names = theorem_names(prop)
    write_lakefile()
    rc, out, err = lake(["build", prop.props_module])
    if rc != 0:
        failures.append(("lake build " + prop.props_module, (out + err)[-3000:]))
        return names, [], {}, failures
    audit = os.path.join(BUILD, "audit_%s.lean" % prop.id)
    os.makedirs(BUILD, exist_ok=True)
    with open(audit, "w") as f:
        f.write("import %s\n" % prop.props_module)
        for n in names:
            f.write("#print axioms %s\n" % n)
    rc, out, err = sh(["lake", "env", "lean", audit], cwd=LEAN, timeout=900)
    axioms, discharged = {}, []
    if rc != 0:
        failures.append(("axiom audit", (out + err)[-3000:]))
    for m in re.finditer(r"'([^']+)' (?:depends on axioms: \[([^\]]*)\]|does not depend on any axioms)", out.replace("\n ", " ")):
        ax = [a.strip() for a in (m.group(2) or "").split(",") if a.strip()]
        axioms[m.group(1)] = ax
    for n in names:
        if n not in axioms:
            failures.append(("no axiom report for " + n, ""))
        elif not set(axioms[n]) <= ALLOWED_AXIOMS:
            failures.append(("theorem %s depends on non-standard axioms" % n, ",".join(axioms[n])))
        else:
            discharged.append(n)
    hits = forbidden_hits(prop)
    if hits:
        failures.append(("forbidden tokens in Lean sources", "\n".join(hits[:20])))
    if tier == "thorough" and not failures:
        rc, out, err = sh(["lake", "env", "leanchecker", prop.props_module], cwd=LEAN, timeout=3000)
        if rc != 0:
            failures.append(("leanchecker " + prop.props_module, (out + err)[-2000:]))
    return names, discharged, axioms, failures


def build_driver(prop):
    exe = "fz_" + prop.driver.lower()
    rc, out, err = lake(["build", exe])
    if rc != 0:
        raise Broken("lean driver %s does not build" % exe, (out + err)[-3000:])
    return os.path.join(LEAN, ".lake", "build", "bin", exe)


def modfile_args():
    """The harness go.mod replaces the franz-go modules by /repo. When VERIF_REPO points elsewhere (a scratch
    worktree used to try a seeded change) an alternative go.mod with the other path is generated and used."""
    if REPO == "/repo":
        return []
    alt = os.path.join(BUILD, "alt_%s.mod" % hashlib.sha1(REPO.encode()).hexdigest()[:8])
    src = open(os.path.join(HARNESS, "go.mod")).read().replace("=> /repo", "=> " + REPO)
    open(alt, "w").write(src)
    shutil.copy(os.path.join(HARNESS, "go.sum"), alt[:-4] + ".sum")
    return ["-modfile=" + alt]


def build_harness(prop):
    ensure_go_sum()
    os.makedirs(BUILD, exist_ok=True)
    out = os.path.join(BUILD, "h_%s_%s" % (prop.harness, prop.id))
    if os.path.exists(out):
        os.remove(out)
    pkg = "./cmd/" + prop.harness
    if prop.harness_kind == "test":
        cmd = ["go", "test", "-c"] + modfile_args() + ["-tags", prop.tags, "-o", out, pkg]
    else:
        cmd = ["go", "build"] + modfile_args() + ["-tags", prop.tags, "-o", out, pkg]
    rc, o, e = sh(cmd, cwd=HARNESS, env=GOENV, timeout=1200)
    if rc != 0 or not os.path.exists(out):
        raise Broken("harness %s does not build against /repo" % prop.harness, (o + e)[-4000:])
    return out


def fingerprints(prop):
    if not prop.models:
        return {}
    ex = build_extract()
    res = {}
    for file, funcs in prop.models:
        rc, out, err = sh([ex, "fingerprint", os.path.join(REPO, file)] + funcs, timeout=60)
        for line in out.splitlines():
            parts = line.split()
            if len(parts) == 3:
                # keyed by the path as recorded (under /repo) also when a scratch worktree is checked (VERIF_REPO)
                f0 = parts[0]
                if f0.startswith(REPO + "/"):
                    f0 = f0[len(REPO) + 1:]
                res[f0 + ":" + parts[1]] = parts[2]
    known_p = os.path.join(LEAN, "fingerprints", prop.id + ".json")
    known = json.load(open(known_p)) if os.path.exists(known_p) else {}
    return {k: ("ok" if known.get(k) == v else ("new:" + v[:12] if k not in known else "changed")) for k, v in res.items()}


def harness_env(seed, tier):
    env = dict(os.environ)
    env.update({"VERIF_SEED": str(seed), "VERIF_TIER": tier, "GOMEMLIMIT": "6GiB", "VERIF_REPO": REPO,
                "VERIF_HANGSTACKS": os.path.join(BUILD, "hangs")})
    return env


def gen_ops(prop, hbin, seed, tier, extra):
    args = [hbin, "gen", "--seed", str(seed), "--tier", tier] + list(extra)
    rc, out, err = sh(args, env=harness_env(seed, tier), timeout=prop.run_timeout[tier])
    if rc != 0:
        raise Broken("harness gen failed", err[-2000:])
    return [l for l in out.splitlines() if l.strip()]


def run_impl(prop, hbin, ops, seed, tier, crashes=None):
    """Scenario harnesses (one independent bubble per op line) are run as several processes over contiguous chunks
    of the op list; the outputs are concatenated in op order and the `#stat` counters summed."""
    real = [o for o in ops if not o.startswith("#")]
    jobs = int(os.environ.get("VERIF_JOBS", "0") or 0) or max(1, min(8, (os.cpu_count() or 2) // 2))
    if prop.harness_kind != "test" or prop.group_by_reset or jobs == 1 or len(real) < 4 * jobs:
        return run_impl_seq(prop, hbin, ops, seed, tier, crashes)
    import concurrent.futures
    size = (len(real) + jobs - 1) // jobs
    chunks = [real[i:i + size] for i in range(0, len(real), size)]
    results = [None] * len(chunks)

    def work(k):
        cr = [] if crashes is not None else None
        return k, run_impl_seq(prop, hbin, chunks[k], seed, tier, cr), cr

    with concurrent.futures.ThreadPoolExecutor(max_workers=jobs) as ex:
        futs = [ex.submit(work, k) for k in range(len(chunks))]
        err = None
        for f in futs:
            try:
                k, lines, cr = f.result()
                results[k] = (lines, cr)
            except Broken as b:
                err = err or b
        if err is not None:
            raise err
    out, stats = [], {}
    for lines, cr in results:
        for l in lines:
            if l.startswith("#stat "):
                parts = l.split()
                try:
                    stats[parts[1]] = stats.get(parts[1], 0) + int(parts[2])
                    continue
                except (IndexError, ValueError):
                    pass
            out.append(l)
        if crashes is not None and cr:
            crashes.extend(cr)
    return out + ["#stat %s %d" % kv for kv in sorted(stats.items())]


def run_impl_seq(prop, hbin, ops, seed, tier, crashes=None):
    """Runs the implementation on op lines; returns lines `op | impl`.

    A process crash (a Go panic outside the harness's recover, e.g. in a goroutine of the code under test) kills
    the whole run: the case that was executing is then re-run alone, recorded in `crashes` (with the panic trace)
    when it crashes again, and the run continues with the remaining cases. A crash is a concrete failing input."""
    env = harness_env(seed, tier)
    real = [o for o in ops if not o.startswith("#")]
    nops = len(real)
    out_lines, pos, ncrash = [], 0, 0
    while True:
        todo = real[pos:]
        inp = "\n".join(todo) + "\n"
        rc, out, err = sh([hbin, "run"], env=env, stdin=inp, timeout=prop.run_timeout[tier])
        lines = [l for l in out.splitlines() if l.strip()]
        data = [l for l in lines if not l.startswith("#")]
        if rc == 0 and len(data) == len(todo):
            return retry_hangs(prop, hbin, env, tier, out_lines + lines)
        if ncrash >= 4 and crashes and rc not in (0, 124):
            return out_lines    # crashes everywhere: four concrete crashing cases are enough, the rest is not run
        if rc in (0, 124) or crashes is None or len(data) >= len(todo):
            raise Broken("harness run failed rc=%d produced %d of %d lines" % (rc, len(out_lines) + len(data), nops),
                         err[-3000:] + "\nlast line: " + (data[-1] if data else ""))
        # the case that was executing when the process died
        k = len(data)
        lo, hi = k, k + 1
        if prop.group_by_reset:
            while lo > 0 and todo[lo].split(" ")[0] != "reset":
                lo -= 1
            while hi < len(todo) and todo[hi].split(" ")[0] != "reset":
                hi += 1
        case = todo[lo:hi]
        again, alone_ok = 0, None
        for _ in range(2):
            rc2, out2, err2 = sh([hbin, "run"], env=env, stdin="\n".join(case) + "\n", timeout=prop.run_timeout[tier])
            if rc2 not in (0, 124):
                again += 1
                err = err2
            elif rc2 == 0:
                alone_ok = [l for l in out2.splitlines() if l.strip()]
        trace = [l for l in err.splitlines() if l.strip()]
        head = next((l for l in trace if l.startswith("panic:") or l.startswith("fatal error:")), trace[0] if trace else "")
        kept = [l for l in lines if not l.startswith("#")][:lo]
        out_lines += kept
        pos += hi
        if again == 0 and alone_ok is not None and runtime_internal(trace) \
                and len([l for l in alone_ok if not l.startswith("#")]) == len(case):
            # a fatal error of the Go runtime itself (no frame of the code under test or of the harness in the goroutine
            # that died) which does not happen again when the case runs alone says nothing about the property: the
            # case's output is taken from the run alone, and the event is counted in the evidence
            out_lines += alone_ok + ["#stat crash.go-runtime-internal-not-reproduced 1"]
            continue
        crashes.append({"case": case, "rc": rc, "panic": head[:300], "trace": "\n".join(trace[:40])[:4000],
                        "crashed_again_alone": "%d of 2" % again})
        ncrash += 1


def runtime_internal(trace):
    """True when the goroutine that died (the first one printed after `fatal error:`) has only frames of package runtime."""
    try:
        i = next(k for k, l in enumerate(trace) if l.startswith("fatal error:"))
    except StopIteration:
        return False        # a panic is raised by code, not by the runtime's own consistency checks
    frames = []
    seen = False
    for l in trace[i + 1:]:
        if l.startswith("goroutine "):
            if seen:
                break
            seen = True
            continue
        if seen and not l.startswith(("\t", " ")) and "(" in l:
            frames.append(l)
    return bool(frames) and all(f.startswith("runtime.") for f in frames)


def retry_hangs(prop, hbin, env, tier, lines):
    """An op that did not finish within its real-time deadline (`HANG …` of a scenario bubble, `hang` of hx.Guard) is
    re-run alone (for `reset`-grouped harnesses: its whole case), twice at most: on a loaded machine an op can simply
    be slow. If it hangs again the hang stands (and is judged); if not, the re-run's output replaces it and the event
    is counted in the evidence."""
    def is_hang(l):
        if l.startswith("#"):
            return False
        impl = l.split(" | ", 1)[1] if " | " in l else ""
        return impl.startswith("HANG") or impl == "hang"
    idx = [i for i, l in enumerate(lines) if is_hang(l)]
    if not idx or len(idx) > 12:
        return lines
    out = list(lines)
    n_retry = n_stand = 0
    done = set()
    for i in idx:
        if i in done:
            continue
        lo, hi = i, i + 1
        if prop.group_by_reset:
            while lo > 0 and not (out[lo].split(" | ", 1)[0].split(" ")[0] == "reset"):
                lo -= 1
            while hi < len(out) and not out[hi].startswith("#") and out[hi].split(" | ", 1)[0].split(" ")[0] != "reset":
                hi += 1
        case_ops = [l.split(" | ", 1)[0] for l in out[lo:hi]]
        n_retry += 1
        repl = None
        for _ in range(2):
            rc, o, e = sh([hbin, "run"], env=env, stdin="\n".join(case_ops) + "\n", timeout=prop.run_timeout[tier])
            d = [x for x in o.splitlines() if x.strip() and not x.startswith("#")]
            if rc == 0 and len(d) == len(case_ops) and not any(is_hang(x) for x in d):
                repl = d
                break
        if repl is None:
            n_stand += 1
        else:
            out[lo:hi] = repl
        done.update(range(lo, hi))
    out.append("#stat hang.rerun-alone %d" % n_retry)
    out.append("#stat hang.reproduced %d" % n_stand)
    return out


def run_model(prop, dbin, lines, tier):
    inp = "\n".join(lines) + "\n"
    rc, out, err = sh([dbin], stdin=inp, timeout=prop.run_timeout[tier])
    res = [l for l in out.splitlines()]
    return rc, res, err


def split3(s):
    parts = [p.strip() for p in s.split(" | ")]
    while len(parts) < 3:
        parts.append("")
    return parts[0], parts[1], parts[2]


def known_findings():
    p = os.path.join(VERIF, "known_findings.txt")
    res = []
    if os.path.exists(p):
        for l in open(p):
            l = l.strip()
            m = re.match(r"finding:\s+property=(\S+)\s+key=(\S+)\s*(.*)", l)
            if m:
                res.append((m.group(1), m.group(2), m.group(3)))
    return res


def correspond(prop, hbin, dbin, ops, seed, tier):
    """Step 3 on a list of op lines. Returns dict with counts, disagreements, spec failures."""
    crashes = []
    impl_lines = run_impl(prop, hbin, ops, seed, tier, crashes)
    stats = [l for l in impl_lines if l.startswith("#")]
    data = [l for l in impl_lines if not l.startswith("#")]
    rc, model, err = run_model(prop, dbin, data, tier)
    if rc != 0 or len(model) != len(data):
        raise Broken("lean driver failed rc=%d (%d of %d lines)" % (rc, len(model), len(data)), err[-2000:])
    disagreements, specfails, seen, nontriv = [], [], set(), set()
    case_start = 0
    for i, (d, m) in enumerate(zip(data, model)):
        op, impl, _ = split3(d)
        mout, verdict, nt = split3(m)
        if prop.group_by_reset and op.split(" ")[0] == "reset":
            case_start = i
        h = hashlib.sha1(op.encode()).digest()[:8]
        seen.add(h)
        if nt == "1":
            nontriv.add(h)
        lo = case_start if prop.group_by_reset else i
        if mout != impl and mout != "*":
            disagreements.append({"line": i, "case": data[lo:i + 1], "op": op, "impl": impl, "model": mout})
        if verdict.startswith("0"):
            key = verdict[2:] if verdict.startswith("0:") else ""
            specfails.append({"line": i, "case": data[lo:i + 1], "op": op, "impl": impl, "model": mout, "key": key})
        elif (impl == "hang" or impl.startswith("panic:")) and mout != impl and mout != "*":
            # hx.Guard outcomes: the real code did not return within the op's deadline, or panicked, on an input for
            # which the model predicts a result: a concrete failing input whatever the driver's verdict
            specfails.append({"line": i, "case": data[lo:i + 1], "op": op, "impl": impl, "model": mout,
                              "key": "impl-hang" if impl == "hang" else "impl-panic"})
    for c in crashes:
        specfails.append({"line": -1 - len(specfails), "case": c["case"], "op": c["case"][-1], "impl": "process crash: " + c["panic"],
                          "model": "", "key": "process-crash", "trace": c["trace"], "crashed_again_alone": c["crashed_again_alone"]})
    return {"evaluations": len(data), "distinct": len(seen), "distinct_nontrivial": len(nontriv),
            "disagreements": disagreements, "specfails": specfails, "stats": stats, "data": data, "model": model}


def load_corpus(prop):
    d = os.path.join(VERIF, "corpus", prop.id)
    ops = []
    if os.path.isdir(d):
        for f in sorted(os.listdir(d)):
            ops += [l for l in open(os.path.join(d, f)).read().splitlines() if l.strip() and not l.startswith("#")]
    return ops


def write_replay(prop, seed, n, obj):
    d = os.path.join(VERIF, "replays", prop.id)
    os.makedirs(d, exist_ok=True)
    p = os.path.join(d, "%d-%d.json" % (seed, n))
    obj = dict(obj)
    obj["property"] = prop.id
    obj["how_to_replay"] = "./check %s --replay %s" % (prop.id, p)
    try:
        obj["repo_head"] = subprocess.run(["git", "-C", REPO, "rev-parse", "--short", "HEAD"], capture_output=True, text=True).stdout.strip()
        obj["repo_dirty"] = subprocess.run(["git", "-C", REPO, "status", "--porcelain"], capture_output=True, text=True).stdout.strip()[:400]
        obj["written_at"] = time.strftime("%Y-%m-%dT%H:%M:%SZ", time.gmtime())
    except Exception:
        pass
    json.dump(obj, open(p, "w"), indent=1)
    return p


def write_evidence(prop, tier, seed, t0, cov, violations, assumptions=None):
    os.makedirs(os.path.join(VERIF, "evidence"), exist_ok=True)
    ev = {"property_id": prop.id, "tier": tier, "seed": int(seed), "level": prop.level, "coverage": cov,
          "assumptions": assumptions if assumptions is not None else prop.assumptions,
          "wall_s": round(time.time() - t0, 2), "violations": violations}
    json.dump(ev, open(os.path.join(VERIF, "evidence", prop.id + ".json"), "w"), indent=1)


def run_prop(prop, tier="quick", seed=None, replay=None):
    t0 = time.time()
    seed = int(seed if seed is not None else os.environ.get("VERIF_SEED", "1") or 1)
    if replay:
        return do_replay(prop, replay, seed)
    # replay files of earlier runs with this seed are removed, so that what is in replays/<id>/ belongs to this run
    rd = os.path.join(VERIF, "replays", prop.id)
    if os.path.isdir(rd):
        for f in os.listdir(rd):
            if f.startswith("%d-" % seed) and f.endswith(".json"):
                os.remove(os.path.join(rd, f))
    violations = []       # (replay path, suffix)
    known_hits = []
    broken = []           # (what, detail)
    # 1 regenerate
    for what, detail in regen(prop):
        broken.append(("proof-broken", what, detail))
    # 2 obligations
    names, discharged, axioms, fails = obligations(prop, tier)
    for what, detail in fails:
        broken.append(("proof-broken", what, detail))
    extra_obl = []
    if prop.extra_obligations:
        for name, ok, detail in prop.extra_obligations():
            extra_obl.append(name)
            if ok:
                discharged.append(name)
            else:
                broken.append(("proof-broken", name, detail))
    fps = fingerprints(prop)
    escalate = any(v == "changed" for v in fps.values())
    # 3 correspondence
    res = None
    try:
        hbin = build_harness(prop)
        dbin = build_driver(prop)
        extra = prop.thorough if (tier == "thorough" or escalate) else prop.quick
        ops = load_corpus(prop) + gen_ops(prop, hbin, seed, tier, extra)
        res = correspond(prop, hbin, dbin, ops, seed, tier)
    except Broken as b:
        broken.append(("correspondence-broken", b.what, b.detail))
    n = 0
    kf = known_findings()
    reported_keys = set()
    if res:
        for sf in res["specfails"]:
            k = [x for x in kf if x[0] == prop.id and x[1] == sf["key"] and sf["key"]]
            if k:
                if sf["key"] not in reported_keys:
                    known_hits.append((sf["key"], k[0][2]))
                    reported_keys.add(sf["key"])
                continue
            if len(violations) < 5:
                n += 1
                p = write_replay(prop, seed, n, {"kind": "process-crash" if sf["key"] == "process-crash" else "spec-violation",
                                                 "key": sf["key"], "ops": sf["case"],
                                                 "impl": sf["impl"], "model": sf["model"], "trace": sf.get("trace", ""),
                                                 "note": ("the implementation crashed the process while executing this case (%s when re-run alone)" % sf.get("crashed_again_alone"))
                                                 if sf["key"] == "process-crash" else "Spec evaluated on the implementation's output is false"})
                violations.append((p, ""))
        spec_lines = {sf["line"] for sf in res["specfails"]}
        dis = [d for d in res["disagreements"] if d["line"] not in spec_lines]
        if dis:
            broken.append(("correspondence-broken", "model and implementation disagree on %d of %d cases" % (len(dis), res["evaluations"]),
                           json.dumps(dis[0])[:1500]))
    # 4 search when something broke and no concrete failing input is known yet
    if broken and not violations:
        found = None
        try:
            if res is None:
                raise Broken("no correspondence run available for the search")
            sargs = prop.search if prop.search is not None else prop.thorough
            for s2 in [seed, seed + 1000003]:
                ops = gen_ops(prop, hbin, s2, "thorough", sargs)
                r2 = correspond(prop, hbin, dbin, ops, s2, "thorough")
                cands = [sf for sf in r2["specfails"] if not [x for x in kf if x[0] == prop.id and x[1] == sf["key"] and sf["key"]]]
                if cands:
                    found = cands[0]
                    break
        except Broken as b:
            broken.append(("search-incomplete", b.what, b.detail))
        n += 1
        if found:
            p = write_replay(prop, seed, n, {"kind": "spec-violation", "found_by": "search after " + broken[0][0],
                                             "broken": [b[:2] for b in broken], "key": found["key"], "ops": found["case"],
                                             "impl": found["impl"], "model": found["model"]})
            violations.append((p, ""))
        else:
            p = write_replay(prop, seed, n, {"kind": broken[0][0], "theorem_or_correspondence": broken[0][1],
                                             "detail": broken[0][2], "all_broken": [list(b) for b in broken],
                                             "note": "no concrete failing input found by the search"})
            violations.append((p, " no-failing-input-found"))
    # 5 evidence
    samples = []
    if res:
        for d, m in list(zip(res["data"], res["model"]))[:: max(1, len(res["data"]) // 5)][:6]:
            samples.append({"op|impl": d[:600], "model|verdict|nontrivial": m[:600]})
    obl = len(names) + len(extra_obl)
    cov = {
        "obligations": obl, "discharged": len(discharged),
        "checker_cmd": "cd lean && lake build %s && lake env lean <audit: #print axioms of every theorem in %s>%s" % (
            prop.props_module, prop.props_module, " && lake env leanchecker " + prop.props_module if tier == "thorough" else ""),
        "trusted_base": ["Lean 4 kernel", "axioms: " + ",".join(sorted({a for v in axioms.values() for a in v}) or ["none"])] + prop.trusted_base,
        "theorems": {n_: axioms.get(n_, None) for n_ in names},
        "extra_obligations": extra_obl,
        "evaluations": res["evaluations"] if res else 0,
        "distinct_nontrivial": res["distinct_nontrivial"] if res else 0,
        "distinct": res["distinct"] if res else 0,
        "rule": prop.rule,
        "samples": samples or [{"note": "correspondence did not run"}],
        "traces_validated_against_impl": res["evaluations"] if res else 0,
        "disagreements": len(res["disagreements"]) if res else None,
        "spec_failures_on_impl": len(res["specfails"]) if res else None,
        "distribution": [s[1:].strip() for s in res["stats"]][:60] if res else [],
        "fingerprints": fps,
        "broken": [list(b[:2]) for b in broken],
        "known_findings_hit": [k for k, _ in known_hits],
        "partial": prop.partial,
    }
    write_evidence(prop, tier, seed, t0, cov, len(violations))
    for k, text in known_hits:
        print("KNOWN-FINDING: property=%s %s (%s)" % (prop.id, k, text))
    for p, suffix in violations:
        print("VIOLATION property=%s replay=%s%s" % (prop.id, p, suffix))
    if violations:
        for b in broken:
            log("BROKEN:", b[0], b[1], "\n", b[2][:3000])
        return 1
    print("OK property=%s tier=%s obligations=%d/%d evaluations=%d nontrivial=%d wall=%.1fs" % (
        prop.id, tier, len(discharged), obl, cov["evaluations"], cov["distinct_nontrivial"], time.time() - t0))
    return 0


def do_replay(prop, path, seed):
    obj = json.load(open(path))
    if "ops" not in obj:
        print("replay %s names a broken obligation, not an input: %s" % (path, obj.get("theorem_or_correspondence")))
        print(obj.get("detail", "")[:3000])
        return 1
    hbin = build_harness(prop)
    dbin = build_driver(prop)
    # 1. the recorded history (implementation outputs as stored in the replay file) through the driver
    rc, model, err = run_model(prop, dbin, obj["ops"], "quick")
    rec_bad = [m for m in model if split3(m)[1].startswith("0")]
    for d, m in list(zip(obj["ops"], model))[-3:]:
        print("RECORDED:", d[:300], " ==> ", m[:300])
    print("RECORDED: spec %s on the recorded implementation output" % ("violated (%s)" % split3(rec_bad[0])[1] if rec_bad else "not violated"))
    # 2. live re-execution; scenario harnesses depend on the Go scheduler, so several attempts are made
    ops = [split3(l)[0] for l in obj["ops"]]
    attempts = 15 if prop.harness_kind == "test" else 1
    bad = False
    for k in range(attempts):
        res = correspond(prop, hbin, dbin, ops, seed, "quick")
        if res["specfails"] or res["disagreements"]:
            for d, m in list(zip(res["data"], res["model"]))[-3:]:
                print(d[:300], " ==> ", m[:300])
            if res["specfails"]:
                print("REPLAY: spec still violated (%s) on attempt %d" % (res["specfails"][0]["key"], k + 1))
            if res["disagreements"]:
                print("REPLAY: model and implementation still disagree")
            bad = True
            break
    if not bad:
        print("REPLAY: no longer fails in %d live attempt(s)" % attempts)
    return 1 if (bad or rec_bad) else 0
