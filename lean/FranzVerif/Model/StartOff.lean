/-! Start-offset resolution (C40): the documented rule `resolve` (the Spec, written from the property text and
the `Offset` documentation) and the history monitor of the `off` scenarios (`harness/cmd/sim/startoff_test.go`).
`check` returns the rule an event breaks; rule names start with `C40.`. Core Lean only.

-- models: pkg/kgo/consumer.go:Client.listOffsetsForBrokerLoad
-- models: pkg/kgo/consumer.go:consumer.assignPartitions
-- models: pkg/kgo/consumer.go:offsetLoadMap.buildListReq -/
namespace Model.StartOff

/-- The `kgo.Offset` builders that matter for the start position. -/
inductive Offset where
  | exact (x : Nat) (r : Int) (epoch : Option Nat)   -- NewOffset().At(x).Relative(r)[.WithEpoch(e)]
  | start (r : Int)                                  -- AtStart().Relative(r)
  | fin (r : Int)                                    -- AtEnd().Relative(r)
  | milli (t : Nat)                                  -- AfterMilli(t)
  | committed                                        -- AtCommitted()
deriving DecidableEq, Repr

/-- The log as it is when the partition is assigned. -/
structure Shape where
  start : Nat                   -- log start offset (after DeleteRecords)
  lso : Nat                     -- last stable offset
  hwm : Nat                     -- high watermark (log end)
  rc : Bool                     -- the consumer reads read_committed
  recs : List (Nat × Nat)       -- (offset, timestamp) of the records of the log, control records included
  group : Nat := 0              -- the committed group offset (used by AtCommitted only)
deriving Repr

/-- "Under read_committed the end is the last stable offset." -/
def Shape.fin (s : Shape) : Nat := if s.rc then s.lso else s.hwm

/-- clamp `v` to `[lo, hi]` -/
def clamp (lo hi : Nat) (v : Int) : Nat :=
  if v < (lo : Int) then lo else if (hi : Int) < v then hi else v.toNat

/-- offsets in `[s.start, hi)` whose record timestamp is at least `t` -/
def milliCands (s : Shape) (hi t : Nat) : List Nat :=
  (s.recs.filter (fun r => decide (s.start ≤ r.1) && decide (r.1 < hi) && decide (t ≤ r.2))).map (·.1)

/-- least element of `l`, `d` when there is none below `d` -/
def leastOr (d : Nat) (l : List Nat) : Nat := l.foldl min d

/-- The documented start position. -/
def resolve : Offset → Shape → Nat
  | .exact x r _, s => clamp s.start s.fin ((x : Int) + r)          -- At(x).Relative(r) clamped to [log start, end]
  | .start r, s => clamp s.start s.fin ((s.start : Int) + r)         -- AtStart().Relative(n) capped at the end
  | .fin r, s => clamp s.start s.fin ((s.fin : Int) + r)             -- AtEnd().Relative(-n) floored at the log start
  | .milli t, s => leastOr s.fin (milliCands s s.fin t)              -- first offset with timestamp ≥ t (below the end), else the end
  | .committed, s => s.group                                         -- the committed offset

/-- The property text does not say whether, under read_committed, a record at or above the last stable offset
counts as "the first offset with timestamp at least t" (Kafka: it does not, the listing is bounded by the LSO).
`resolveLit` is the other reading: the least such offset below the high watermark. The two readings differ only for
AfterMilli under read_committed when no record below the LSO qualifies and one at or above it does. -/
def resolveLit : Offset → Shape → Nat
  | .milli t, s => match milliCands s s.hwm t with
    | [] => s.fin
    | a :: l => l.foldl min a
  | o, s => resolve o s

def ambiguous (o : Offset) (s : Shape) : Bool := resolveLit o s != resolve o s

/-- least element of `ret` at or after `p` -/
def firstAtOrAfter (ret : List Nat) (p : Nat) : Option Nat :=
  match ret.filter (fun o => decide (p ≤ o)) with
  | [] => none
  | a :: l => some (l.foldl min a)

/-! ### the monitor -/

inductive Ev where
  | acked (off ts batch txn : Nat)          -- R
  | txnEnd (txn : Nat) (commit : Bool)      -- T
  | deleted (to : Nat)                      -- Del
  | shape (start lso hwm : Nat)             -- S
  | groupCommit (off : Nat)                 -- Cm
  | offset (o : Offset)                     -- O
  | fetchErr                                -- E
  | nothingYet                              -- N
  | first (off : Option Nat)                -- F
  | logRec (off ts : Nat) (ctl : Bool)      -- L
  | quiesce                                 -- Q
deriving DecidableEq, Repr

structure Cfg where
  rc : Bool
deriving Repr

structure St where
  acked : List (Nat × Nat × Nat × Nat) := []     -- (off, ts, batch, txn), in the order acknowledged
  txns : List (Nat × Bool) := []
  shape : Option (Nat × Nat × Nat) := none
  group : Option Nat := none
  offset : Option Offset := none
  first : Option (Option Nat) := none
  log : List (Nat × Nat × Bool) := []            -- final log (off, ts, ctl) as read back
  quiet : Bool := false
deriving Repr

/-- the transaction a data record belongs to (0 = none; records the harness never saw acknowledged count as 0) -/
def txnOf (acked : List (Nat × Nat × Nat × Nat)) (off : Nat) : Nat :=
  match acked.find? (·.1 == off) with
  | some a => a.2.2.2
  | none => 0

/-- offsets the consumer may return: data records; under read_committed only those outside transactions or of a
transaction that ended with a commit -/
def returnable (c : Cfg) (acked : List (Nat × Nat × Nat × Nat)) (txns : List (Nat × Bool)) (log : List (Nat × Nat × Bool)) : List Nat :=
  (log.filter (fun l => !l.2.2 &&
    (!c.rc || txnOf acked l.1 == 0 || txns.any (fun t => t.1 == txnOf acked l.1 && t.2)))).map (·.1)

def mkShape (c : Cfg) (sh : Nat × Nat × Nat) (group : Option Nat) (log : List (Nat × Nat × Bool)) : Shape :=
  { start := sh.1, lso := sh.2.1, hwm := sh.2.2, rc := c.rc, recs := (log.filter (fun l => decide (l.1 < sh.2.2))).map (fun l => (l.1, l.2.1)),
    group := group.getD 0 }

def check (c : Cfg) (s : St) : Ev → Option String
  | .acked off _ _ _ => if s.acked.any (·.1 == off) then some "C40.harness-two-records-acknowledged-at-one-offset" else none
  | .txnEnd txn _ => if s.txns.any (·.1 == txn) then some "C40.harness-transaction-ended-twice" else none
  | .deleted _ => none
  | .shape st lso hwm =>
    if s.shape.isSome then some "C40.harness-shape-given-twice"
    else if !(decide (st ≤ lso) && decide (lso ≤ hwm)) then some "C40.harness-shape-not-ordered" else none
  | .groupCommit _ => if s.group.isSome || s.offset.isSome then some "C40.harness-commit-misplaced" else none
  | .offset o =>
    if s.offset.isSome then some "C40.harness-offset-given-twice"
    else if s.shape.isNone then some "C40.harness-offset-before-shape"
    else if o == .committed && s.group.isNone then some "C40.harness-committed-without-commit" else none
  | .fetchErr => none
  | .nothingYet => none
  | .first _ => if s.first.isSome then some "C40.harness-first-given-twice" else if s.offset.isNone then some "C40.harness-first-before-offset" else none
  | .logRec off _ _ => if s.log.any (·.1 == off) then some "C40.harness-log-offset-twice" else none
  | .quiesce =>
    match s.offset, s.shape, s.first with
    | some o, some sh, some f =>
      let shp := mkShape c sh s.group s.log
      let ret := returnable c s.acked s.txns s.log
      if f == firstAtOrAfter ret (resolve o shp) then none
      else if ambiguous o shp && f == firstAtOrAfter ret (resolveLit o shp) then none
      else some "C40.first-record-not-at-resolved-position"
    | _, _, _ => some "C40.harness-incomplete-history"

def apply (_c : Cfg) (s : St) : Ev → St
  | .acked off ts b txn => { s with acked := s.acked ++ [(off, ts, b, txn)] }
  | .txnEnd txn commit => { s with txns := s.txns ++ [(txn, commit)] }
  | .deleted _ => s
  | .shape st lso hwm => { s with shape := some (st, lso, hwm) }
  | .groupCommit off => { s with group := some off }
  | .offset o => { s with offset := some o }
  | .fetchErr => s
  | .nothingYet => s
  | .first f => { s with first := some f }
  | .logRec off ts ctl => { s with log := s.log ++ [(off, ts, ctl)] }
  | .quiesce => { s with quiet := true }

def step (c : Cfg) (s : St) (e : Ev) : Option St :=
  match check c s e with
  | none => some (apply c s e)
  | some _ => none

def run (c : Cfg) : St → List Ev → Option St
  | s, [] => some s
  | s, e :: es => match step c s e with
    | some s' => run c s' es
    | none => none

def accepts (c : Cfg) (h : List Ev) : Bool := (run c {} h).isSome

end Model.StartOff
