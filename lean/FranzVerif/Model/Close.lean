/-! Close monitor (C13). Events come from `harness/cmd/sim` (`cls` scenarios). `check` returns the rule an
event breaks. What a model cannot exhibit is observed by the harness and enters here as events: the (virtual)
duration of Close, and whether goroutines remained (the synctest bubble refuses to end with blocked
goroutines; the driver turns that scenario outcome into the `leaked` event), and the explicit count
`leftover n`: after Close returned, every other client of the scenario was closed and virtual time was given,
`n` goroutines of the bubble still have a frame of the client package. Core Lean only. -/
namespace Model.Close

abbrev Id := Nat

inductive Ev where
  | produce (id : Id)
  | promise (id : Id) (ok : Bool)
  | closeStart
  | closeEnd (ms : Nat)
  | pollAfterClose (closed : Bool)
  | leaked                       -- goroutines of the client remained after everything was closed
  | leftover (n : Nat)           -- counted after Close: goroutines that still run (or are blocked in) client code
  | quiesce
deriving DecidableEq, Repr

structure Cfg where
  boundMs : Nat                  -- Close must return within this much (virtual) time
deriving Repr

structure St where
  produced : List Id := []
  promised : List Id := []
  closing : Bool := false
  closed : Bool := false
  polled : Bool := false
  leftChecked : Bool := false
  quiet : Bool := false
deriving Repr

def check (c : Cfg) (s : St) : Ev → Option String
  | .produce id =>
    if s.produced.contains id then some "C13.harness-id-reused"
    else if s.closing then some "C13.harness-produce-after-close-began" else none
  | .promise id _ =>
    if !s.produced.contains id then some "C13.promise-for-unknown-record"
    else if s.promised.contains id then some "C13.promise-called-twice" else none
  | .closeStart => if s.closing then some "C13.harness-close-twice" else none
  | .closeEnd ms =>
    if !s.closing then some "C13.close-end-without-start"
    else if ms > c.boundMs then some "C13.close-exceeded-time-bound" else none
  | .pollAfterClose closed =>
    if !s.closed then some "C13.harness-poll-before-close-returned"
    else if !closed then some "C13.poll-after-close-not-errclientclosed" else none
  | .leaked => some "C13.goroutines-remain-after-close"
  | .leftover n =>
    if !s.closed then some "C13.harness-leftover-counted-before-close-returned"
    else if n != 0 then some "C13.goroutines-remain-after-close" else none
  | .quiesce =>
    if !s.closed then some "C13.close-never-returned"
    else if !s.polled then some "C13.harness-no-poll-after-close"
    else if !s.leftChecked then some "C13.harness-no-leftover-count-after-close"
    else if s.produced.any (fun i => !s.promised.contains i) then some "C13.promise-never-called-after-close"
    else none

def apply (_c : Cfg) (s : St) : Ev → St
  | .produce id => { s with produced := id :: s.produced }
  | .promise id _ => { s with promised := id :: s.promised }
  | .closeStart => { s with closing := true }
  | .closeEnd _ => { s with closed := true }
  | .pollAfterClose _ => { s with polled := true }
  | .leaked => s
  | .leftover _ => { s with leftChecked := true }
  | .quiesce => { s with quiet := true }

def step (c : Cfg) (s : St) (e : Ev) : Option St := match check c s e with | none => some (apply c s e) | some _ => none
def run (c : Cfg) : St → List Ev → Option St
  | s, [] => some s
  | s, e :: es => match step c s e with | some s' => run c s' es | none => none
def accepts (c : Cfg) (h : List Ev) : Bool := (run c {} h).isSome

end Model.Close
