/-! C06 — fetch response parsing (`kgo.ProcessFetchPartition`), function by function.

-- models: pkg/kgo/source.go:ProcessFetchPartition buildAborter aborter.shouldAbortBatch aborter.trackAbortedPID readRawRecordsInto ProcessFetchPartitionOpts.processRecordBatch ProcessFetchPartitionOpts.processV1OuterMessage ProcessFetchPartitionOpts.processV1Message ProcessFetchPartitionOpts.processV0OuterMessage ProcessFetchPartitionOpts.processV0Message ProcessFetchPartitionOpts.maybeKeepRecord recordToRecord v0MessageToRecord v1MessageToRecord
-- models: pkg/kmsg/record.go:Record.readFrom
-- models: pkg/kmsg/generated.go:RecordBatch.readFrom MessageV0.readFrom MessageV1.readFrom

Two levels.

*Byte level* (`frames`, `decodeAll`, `innerWalk`): the framing walk of `ProcessFetchPartition` over raw bytes
(offset, `length+12` with the negative/short guards, magic at byte 16, `check()`: `ReadFrom`, length and CRC),
`readRawRecordsInto`, and the inner walks of compressed v0/v1 wrappers. Every slice / index expression of
source.go is an explicit operation (`sliceTo?`, `sliceFrom?`, `slice?`, `idx?`) whose failure is a *panic
outcome* (`Item.panic`, `Tail.panic`). Parameters, modelled and not verified: the two CRC-32 functions and the
decompressor (`Env`). `kbin.Reader` (used by the generated `ReadFrom`s) is the total reader with a `bad`
flag; it is the subject of C16/C17 and is transcribed here as the `Option` monad (`none` = `bad`, the
`ReadFrom` then returns `ErrNotEnoughData` and source.go discards the struct).

*Structured level* (`process`): the walk over the decoded items: `processRecordBatch` (whole-batch skip,
negative / clamped record count, zero-bytes case, KAFKA-5443 `nextAskOffset` defer, aborter, control records),
`processV0/V1OuterMessage` (wrapper offset rebasing and quirks), `maybeKeepRecord`, `buildAborter`,
`shouldAbortBatch`, `trackAbortedPID`, the decompress-error-after-records rule, unknown magic.

Laziness is kept: an item is inspected only when the walk reaches it (`fp.Err == nil`), a record is decoded
only when the (clamped) record count reaches it, so a panic outcome is returned exactly where the Go code
would evaluate the panicking expression.

Integers are unbounded (`Int`); the Go code computes in int64/int32. The driver excludes (verdict `-`) inputs
on which an int64 computation of the walk would overflow (|offset| ≥ 2^62); int32 `length += 12` wraps here as
in Go (`wrap32`). Core Lean only. -/
namespace Model.C06

abbrev Bytes := List UInt8

/-! ## Go integer conversions -/

def wrap32 (x : Int) : Int := (x + 2147483648) % 4294967296 - 2147483648
def wrap64 (x : Int) : Int := (x + 9223372036854775808) % 18446744073709551616 - 9223372036854775808
def toI8 (n : Nat) : Int := if n % 256 < 128 then (n % 256 : Nat) else (n % 256 : Nat) - 256
def toI16 (n : Nat) : Int := if n % 65536 < 32768 then (n % 65536 : Nat) else (n % 65536 : Nat) - 65536
def toI32 (n : Nat) : Int := if n % 4294967296 < 2147483648 then (n % 4294967296 : Nat) else (n % 4294967296 : Nat) - 4294967296
def toI64 (n : Nat) : Int :=
  if n % 18446744073709551616 < 9223372036854775808 then (n % 18446744073709551616 : Nat)
  else (n % 18446744073709551616 : Nat) - 18446744073709551616

/-- big-endian unsigned value of a byte string -/
def beNat (bs : Bytes) : Nat := bs.foldl (fun acc b => acc * 256 + b.toNat) 0

/-! ## Go slice expressions (each can panic: `none`) -/

/-- `s[i]` -/
def idx? (s : Bytes) (i : Nat) : Option UInt8 := s[i]?
/-- `s[:hi]` with a Go `int` bound -/
def sliceTo? (s : Bytes) (hi : Int) : Option Bytes :=
  if 0 ≤ hi ∧ hi ≤ s.length then some (s.take hi.toNat) else none
/-- `s[lo:]` -/
def sliceFrom? (s : Bytes) (lo : Int) : Option Bytes :=
  if 0 ≤ lo ∧ lo ≤ s.length then some (s.drop lo.toNat) else none
/-- `s[lo:hi]` -/
def slice? (s : Bytes) (lo hi : Int) : Option Bytes :=
  if 0 ≤ lo ∧ lo ≤ hi ∧ hi ≤ s.length then some ((s.take hi.toNat).drop lo.toNat) else none

/-! ## kbin varints (subject of C17; transcribed as LEB128 with kbin's `(value, n)` results:
`n = 0` short input, `n = -5` / `-10` overflow of the last byte) -/

/-- `kbin.Uvarint` -/
def uvarint (inp : Bytes) : Nat × Int :=
  match inp with
  | [] => (0, 0)
  | b0 :: r1 =>
    let x := b0.toNat % 128
    if b0.toNat < 128 then (x, 1) else
    match r1 with
    | [] => (0, 0)
    | b1 :: r2 =>
      let x := x + (b1.toNat % 128) * 128
      if b1.toNat < 128 then (x, 2) else
      match r2 with
      | [] => (0, 0)
      | b2 :: r3 =>
        let x := x + (b2.toNat % 128) * 16384
        if b2.toNat < 128 then (x, 3) else
        match r3 with
        | [] => (0, 0)
        | b3 :: r4 =>
          let x := x + (b3.toNat % 128) * 2097152
          if b3.toNat < 128 then (x, 4) else
          match r4 with
          | [] => (0, 0)
          | b4 :: _ => if b4.toNat ≤ 15 then (x + b4.toNat * 268435456, 5) else (0, -5)

/-- zig-zag decoding `(x >> 1) ^ -(x & 1)` -/
def unzig (x : Nat) : Int := if x % 2 = 0 then (x / 2 : Nat) else -((x / 2 : Nat) : Int) - 1

/-- `kbin.Varint` -/
def varint (inp : Bytes) : Int × Int := let (x, n) := uvarint inp; (unzig x, n)

/-- `kbin.uvarlong`: up to ten bytes, the tenth at most 1 -/
def uvarlongAux : Nat → Nat → Nat → Bytes → Nat × Int
  | 0, _, _, _ => (0, 0)
  | fuel + 1, i, acc, inp =>
    match inp with
    | [] => (0, 0)
    | b :: rest =>
      if i = 9 then (if b.toNat ≤ 1 then (acc + b.toNat * 9223372036854775808, 10) else (0, -10))
      else
        let acc := acc + (b.toNat % 128) * 2 ^ (7 * i)
        if b.toNat < 128 then (acc, (i + 1 : Nat)) else uvarlongAux fuel (i + 1) acc rest
def uvarlong (inp : Bytes) : Nat × Int := uvarlongAux 10 0 0 inp
def varlong (inp : Bytes) : Int × Int := let (x, n) := uvarlong inp; (unzig x, n)

/-! ## kbin.Reader in the `Option` monad (`none` = the reader went `bad`) -/

abbrev Rd (α : Type) := Bytes → Option (α × Bytes)

def rdN (n : Nat) : Rd Nat := fun s => if s.length < n then none else some (beNat (s.take n), s.drop n)
def rdI8 : Rd Int := fun s => (rdN 1 s).map fun (v, r) => (toI8 v, r)
def rdU8 : Rd Nat := rdN 1
def rdI16 : Rd Int := fun s => (rdN 2 s).map fun (v, r) => (toI16 v, r)
def rdU16 : Rd Nat := rdN 2
def rdI32 : Rd Int := fun s => (rdN 4 s).map fun (v, r) => (toI32 v, r)
def rdI64 : Rd Int := fun s => (rdN 8 s).map fun (v, r) => (toI64 v, r)
/-- `Reader.Varint`: `if n <= 0 { bad }` -/
def rdVarint : Rd Int := fun s => let (v, n) := varint s; if n ≤ 0 then none else some (v, s.drop n.toNat)
def rdVarlong : Rd Int := fun s => let (v, n) := varlong s; if n ≤ 0 then none else some (v, s.drop n.toNat)
/-- `Reader.Span(l)` -/
def rdSpan (l : Int) : Rd Bytes := fun s =>
  if (s.length : Int) < l ∨ l < 0 then none else some (s.take l.toNat, s.drop l.toNat)
/-- `Reader.NullableBytes` (int32 length, negative = nil) -/
def rdNullableBytes : Rd (Option Bytes) := fun s =>
  (rdI32 s).bind fun (l, r) => if l < 0 then some (none, r) else (rdSpan l r).map fun (b, r') => (some b, r')
/-- `Reader.VarintBytes` (varint length, negative = nil) -/
def rdVarintBytes : Rd (Option Bytes) := fun s =>
  (rdVarint s).bind fun (l, r) => if l < 0 then some (none, r) else (rdSpan l r).map fun (b, r') => (some b, r')
/-- `Reader.VarintArrayLen`: `if len(b.Src) < int(r) { bad }` -/
def rdVarintArrayLen : Rd Int := fun s =>
  (rdVarint s).bind fun (l, r) => if (r.length : Int) < l then none else some (l, r)

/-! ## Decoded structures -/

structure Header where
  key : Bytes
  value : Option Bytes
deriving DecidableEq, Repr

/-- `kmsg.Record` (the fields source.go uses) -/
structure KRec where
  offDelta : Int
  tsDelta : Int
  key : Option Bytes
  value : Option Bytes
  headers : List Header
deriving DecidableEq, Repr

def rdHeaders : Nat → Rd (List Header)
  | 0 => fun s => some ([], s)
  | n + 1 => fun s =>
    (rdVarintBytes s).bind fun (k, r1) => (rdVarintBytes r1).bind fun (v, r2) =>
      (rdHeaders n r2).map fun (hs, r3) => (⟨k.getD [], v⟩ :: hs, r3)

/-- `kmsg.Record.readFrom`; trailing bytes inside the record are not an error (there is no such check) -/
def readRecord (s : Bytes) : Option KRec :=
  (rdVarint s).bind fun (_len, r1) => (rdI8 r1).bind fun (_attrs, r2) => (rdVarlong r2).bind fun (ts, r3) =>
  (rdVarint r3).bind fun (od, r4) => (rdVarintBytes r4).bind fun (k, r5) => (rdVarintBytes r5).bind fun (v, r6) =>
  (rdVarintArrayLen r6).bind fun (l, r7) => (rdHeaders l.toNat r7).map fun (hs, _) => ⟨od, ts, k, v, hs⟩

/-- how the record stream of a batch ends after the decodable records: the decoder stops (short /
negative length / `ReadFrom` error / bytes exhausted) or evaluates a panicking slice expression -/
inductive Tail | stop | panic
deriving DecidableEq, Repr

/-- `readRawRecordsInto` with an unlimited number of slots; `krecords` for `n` slots is obtained from it by
`takeRecs`. `in[:total]` is the expression that panicked for a 5-byte overflowing length varint while the
guard was `used == 0` (`used = -5`, `length = 0`, `total = -5`; fixed in /repo 049c23c: `used <= 0`); the slice
expressions stay explicit panic points and `Props.C06.decodeAll_no_panic` proves they are unreachable. -/
def decodeAll : Nat → Bytes → List KRec × Tail
  | 0, _ => ([], .stop)
  | fuel + 1, inp =>
    let (length, used) := varint inp
    let total := used + length
    if used ≤ 0 ∨ length < 0 ∨ (inp.length : Int) < total then ([], .stop) else
    match sliceTo? inp total with
    | none => ([], .panic)
    | some body =>
      match readRecord body with
      | none => ([], .stop)
      | some r =>
        match sliceFrom? inp total with
        | none => ([r], .panic)
        | some rest => let (rs, t) := decodeAll fuel rest; (r :: rs, t)

/-- `kmsg.RecordBatch` after `check()`, with the decompressor applied and the record stream decoded -/
structure Batch where
  first : Int
  lepoch : Int
  magic : Int
  attrs : Nat            -- the int16 attributes as its 16 bits
  lastDelta : Int
  firstTs : Int
  maxTs : Int
  pid : Int
  pepoch : Int
  numRecords : Int       -- claimed count
  decompOk : Bool        -- false: `decompressor.Decompress` returned an error
  rawLen : Nat           -- `len(rawRecords)` after decompression
  recs : List KRec       -- decodable records, in order
  tail : Tail
deriving DecidableEq, Repr

/-- a v0 / v1 message as decoded by `MessageV0.ReadFrom` / `MessageV1.ReadFrom` -/
structure Msg where
  isV1 : Bool            -- Go type of the struct
  offset : Int
  magic : Int
  attrs : Nat            -- int8 attributes as 8 bits
  ts : Int               -- v1 only
  key : Option Bytes
  value : Option Bytes
deriving DecidableEq, Repr

inductive Err
  | kerr | unknownMagic | short | lenMismatch | crcShort | crc | decompress | batchMagic | negCount | claimNoBytes
  | msgMagic | msgAttrs | innerMagic | wrapperOffset
deriving DecidableEq, Repr

/-- the result of the inner walk of a compressed wrapper: the collected inner messages and the error the
walk left in `fp.Err` (the collected messages are processed even when it is set) -/
structure Inner where
  decompOk : Bool
  msgs : List Msg
  err : Option Err
  panic : Bool           -- the inner walk evaluated a panicking slice expression (after `msgs`)
deriving DecidableEq, Repr

inductive Item
  | batch (b : Batch)
  | msg (m : Msg) (inner : Inner)     -- an outer v0/v1 message; `inner` is used only when compressed
  | stop (e : Option Err)             -- the walk ends: silent `break` (`none`) or `check()` failed
  | badMagic (offset : Int)
  | panic
deriving DecidableEq, Repr

/-! ## Byte level: parameters and `ReadFrom`s -/

structure Env where
  crcC : Bytes → Nat                     -- crc32.Checksum(·, Castagnoli)
  crcI : Bytes → Nat                     -- crc32.ChecksumIEEE
  dec : Nat → Bytes → Option Bytes       -- Decompressor.Decompress(src, codec); `none` = error
  disableCrc : Bool

structure RawBatch where
  first : Int
  length : Int
  lepoch : Int
  magic : Int
  crc : Int
  attrs : Nat
  lastDelta : Int
  firstTs : Int
  maxTs : Int
  pid : Int
  pepoch : Int
  numRecords : Int
  records : Bytes

/-- `kmsg.RecordBatch.readFrom` -/
def readBatch (s : Bytes) : Option RawBatch :=
  (rdI64 s).bind fun (first, r1) => (rdI32 r1).bind fun (length, r2) => (rdI32 r2).bind fun (lep, r3) =>
  (rdI8 r3).bind fun (magic, r4) => (rdI32 r4).bind fun (crc, r5) => (rdU16 r5).bind fun (attrs, r6) =>
  (rdI32 r6).bind fun (ld, r7) => (rdI64 r7).bind fun (fts, r8) => (rdI64 r8).bind fun (mts, r9) =>
  (rdI64 r9).bind fun (pid, r10) => (rdI16 r10).bind fun (pe, r11) => (rdI32 r11).bind fun (_fseq, r12) =>
  (rdI32 r12).bind fun (nr, r13) => (rdSpan (length - 49) r13).map fun (recs, _) =>
    ⟨first, length, lep, magic, crc, attrs, ld, fts, mts, pid, pe, nr, recs⟩

structure RawMsg where
  m : Msg
  size : Int
  crc : Int

/-- `kmsg.MessageV0.readFrom` -/
def readMsg0 (s : Bytes) : Option RawMsg :=
  (rdI64 s).bind fun (off, r1) => (rdI32 r1).bind fun (size, r2) => (rdI32 r2).bind fun (crc, r3) =>
  (rdI8 r3).bind fun (magic, r4) => (rdU8 r4).bind fun (attrs, r5) =>
  (rdNullableBytes r5).bind fun (k, r6) => (rdNullableBytes r6).map fun (v, _) =>
    ⟨⟨false, off, magic, attrs, 0, k, v⟩, size, crc⟩

/-- `kmsg.MessageV1.readFrom` -/
def readMsg1 (s : Bytes) : Option RawMsg :=
  (rdI64 s).bind fun (off, r1) => (rdI32 r1).bind fun (size, r2) => (rdI32 r2).bind fun (crc, r3) =>
  (rdI8 r3).bind fun (magic, r4) => (rdU8 r4).bind fun (attrs, r5) => (rdI64 r5).bind fun (ts, r6) =>
  (rdNullableBytes r6).bind fun (k, r7) => (rdNullableBytes r7).map fun (v, _) =>
    ⟨⟨true, off, magic, attrs, ts, k, v⟩, size, crc⟩

/-- decompress (when the codec bits are non-zero) and decode the record stream of a batch -/
def mkBatch (env : Env) (rb : RawBatch) : Batch :=
  let codec := rb.attrs % 8
  let raw? := if codec = 0 then some rb.records else env.dec codec rb.records
  match raw? with
  | none => ⟨rb.first, rb.lepoch, rb.magic, rb.attrs, rb.lastDelta, rb.firstTs, rb.maxTs, rb.pid, rb.pepoch, rb.numRecords,
             false, 0, [], .stop⟩
  | some raw =>
    let (rs, t) := decodeAll (raw.length + 1) raw
    ⟨rb.first, rb.lepoch, rb.magic, rb.attrs, rb.lastDelta, rb.firstTs, rb.maxTs, rb.pid, rb.pepoch, rb.numRecords,
     true, raw.length, rs, t⟩

/-- the `length` computation shared by all three walks: `int32(be32(in[8:])) + 12` in int32.
`in[8:]` and `Uint32` need 12 bytes; the callers guarantee `len(in) > 17`. -/
def frameLen (inp : Bytes) : Option Int :=
  (sliceFrom? inp 8).bind fun t => if t.length < 4 then none else some (wrap32 (toI32 (beNat (t.take 4)) + 12))

/-- the inner walk of `processV0OuterMessage` (`v1 = false`: every inner message is read as MessageV0) and of
`processV1OuterMessage` (`v1 = true`: by the magic byte) over the decompressed wrapper value -/
def innerWalk (env : Env) (v1 : Bool) : Nat → Bytes → List Msg × Option Err × Bool
  | 0, _ => ([], none, false)
  | fuel + 1, inp =>
    if ¬ (inp.length > 17) then ([], none, false) else
    match frameLen inp with
    | none => ([], none, true)
    | some length =>
      if length < 0 ∨ (inp.length : Int) < length then ([], none, false) else
      match (if v1 then idx? inp 16 else some 0) with
      | none => ([], none, true)
      | some magic =>
        if v1 ∧ magic.toNat ≠ 0 ∧ magic.toNat ≠ 1 then ([], some .innerMagic, false) else
        match sliceTo? inp length with
        | none => ([], none, true)
        | some body =>
          match (if v1 ∧ magic.toNat = 1 then readMsg1 body else readMsg0 body) with
          | none => ([], some .short, false)
          | some rm =>
            match slice? inp 12 length with
            | none => ([], none, true)
            | some l12 =>
              if wrap32 l12.length ≠ rm.size then ([], some .lenMismatch, false) else
              match (if env.disableCrc then some true else (slice? inp 16 length).map fun c => toI32 (env.crcI c) = rm.crc) with
              | none => ([], none, true)
              | some false => ([], some .crc, false)
              | some true =>
                match sliceFrom? inp length with
                | none => ([rm.m], none, true)
                | some rest => let (ms, e, p) := innerWalk env v1 fuel rest; (rm.m :: ms, e, p)

def mkInner (env : Env) (v1 : Bool) (m : Msg) : Inner :=
  let codec := m.attrs % 4
  if codec = 0 then ⟨true, [], none, false⟩ else
  match env.dec codec (m.value.getD []) with
  | none => ⟨false, [], none, false⟩
  | some raw => let (ms, e, p) := innerWalk env v1 (raw.length + 1) raw; ⟨true, ms, e, p⟩

/-- the framing walk of `ProcessFetchPartition`: the list of items the loop would see, each inspected only
when the loop reaches it. -/
def frames (env : Env) : Nat → Bytes → List Item
  | 0, _ => []
  | fuel + 1, inp =>
    if ¬ (inp.length > 17) then [] else
    -- offset := int64(binary.BigEndian.Uint64(in))
    let offset := toI64 (beNat (inp.take 8))
    match frameLen inp with
    | none => [.panic]
    | some length =>
      if length < 0 ∨ (inp.length : Int) < length then [.stop none] else
      match idx? inp 16 with
      | none => [.panic]
      | some magic =>
        if magic.toNat > 2 then [.badMagic offset] else
        -- check()
        match sliceTo? inp length with
        | none => [.panic]
        | some body =>
          let crcAt : Int := if magic.toNat = 2 then 21 else 16
          -- (decoded struct, *lengthField, *crcField)
          let parsed : Option (Item × Int × Int) :=
            if magic.toNat = 2 then (readBatch body).map fun rb => (.batch (mkBatch env rb), rb.length, rb.crc)
            else if magic.toNat = 1 then (readMsg1 body).map fun rm => (.msg rm.m (mkInner env true rm.m), rm.size, rm.crc)
            else (readMsg0 body).map fun rm => (.msg rm.m (mkInner env false rm.m), rm.size, rm.crc)
          match parsed with
          | none => [.stop (some .short)]
          | some (item, lengthField, crcField) =>
            match slice? inp 12 length with
            | none => [.panic]
            | some l12 =>
              if wrap32 l12.length ≠ lengthField then [.stop (some .lenMismatch)] else
              let crcRes : Option (Option Err) :=
                if env.disableCrc then some none
                else if (inp.length : Int) < crcAt then some (some .crcShort)
                else match slice? inp crcAt length with
                  | none => none
                  | some c =>
                    let crcCalc := if magic.toNat = 2 then env.crcC c else env.crcI c
                    if toI32 crcCalc ≠ crcField then some (some .crc) else some none
              match crcRes with
              | none => [.panic]
              | some (some e) => [.stop (some e)]
              | some none =>
                match sliceFrom? inp length with
                | none => [item, .panic]
                | some rest => item :: frames env fuel rest

/-! ## Structured level -/

/-- `kgo.Record`, observable fields. `tsMs = none` is the zero `time.Time` (v0 messages). -/
structure Rec where
  offset : Int
  tsMs : Option Int
  key : Option Bytes
  value : Option Bytes
  headers : List Header
  attrs : Nat            -- RecordAttrs.attrs (uint8)
  pid : Int
  pepoch : Int
  lepoch : Int
deriving DecidableEq, Repr

structure Opts where
  keepControl : Bool
  readCommitted : Bool     -- IsolationLevel.level == 1
  offset : Int
deriving DecidableEq, Repr

/-- `aborter`: `map[int64][]int64`, as the function it denotes (a missing key is the empty slice) -/
abbrev Aborter := Int → List Int

/-- `buildAborter`: group the first offsets by producer id, `slices.Sort` each group -/
def buildAborter (aborted : List (Int × Int)) : Aborter := fun pid =>
  ((aborted.filter fun a => a.1 == pid).map (·.2)).mergeSort (fun a b => decide (a ≤ b))

structure St where
  out : List Rec := []       -- fp.Records, in order
  off : Int                  -- o.Offset
  err : Option Err := none   -- fp.Err
  ab : Aborter
  stopped : Bool := false    -- the loop was left by `break` / `return`

def isControl (attrs : Nat) : Bool := attrs / 32 % 2 = 1
def isTxn (attrs : Nat) : Bool := attrs / 16 % 2 = 1

/-- `maybeKeepRecord` -/
def maybeKeepRecord (o : Opts) (s : St) (r : Rec) (abort : Bool) : St :=
  if r.offset < s.off then s else
  let abort := if isControl r.attrs then !o.keepControl else abort
  let s := if !abort then { s with out := s.out ++ [r] } else s
  { s with off := r.offset + 1 }

/-- `shouldAbortBatch` (`len(a) == 0` is subsumed: then every `a[pid]` is empty) -/
def shouldAbortBatch (a : Aborter) (b : Batch) : Option Bool :=
  if !isTxn b.attrs then some false else
  match a b.pid with
  | [] => some false
  | pa => match pa[0]? with       -- pidAborts[0]
    | none => none
    | some fo => some (!(b.first < fo))

/-- `trackAbortedPID`: `pidAborts[1:]` -/
def trackAbortedPID (a : Aborter) (pid : Int) : Option Aborter :=
  match a pid with
  | [] => some a
  | pa => if 1 ≤ pa.length then some (fun q => if q = pid then pa.drop 1 else a q) else none

/-- `recordToRecord` (without the header slab, which `procRecords` threads) -/
def recordToRecord (b : Batch) (k : KRec) : Rec :=
  let attrs := b.attrs % 256
  { key := k.key, value := k.value, headers := k.headers, attrs := attrs, pid := b.pid, pepoch := b.pepoch, lepoch := b.lepoch,
    offset := if b.first = -1 then -1 else b.first + k.offDelta,
    tsMs := some (if attrs / 128 % 2 = 0 ∧ attrs / 8 % 2 = 0 then b.firstTs + k.tsDelta else b.maxTs) }

/-- is this control record an abort marker: `len(key) >= 4 && key[2] == 0 && key[3] == 0`; `none` = index panic -/
def abortKey (key : Option Bytes) : Option Bool :=
  let k := key.getD []
  if k.length ≥ 4 then
    match idx? k 2, idx? k 3 with
    | some a, some b => some (a.toNat = 0 ∧ b.toNat = 0)
    | _, _ => none
  else some false

/-- the loop `for i := range krecords` of `processRecordBatch`; `slab` is `len(hslab)` (the header slab is
resliced `(*hslab)[:n:n]`, `(*hslab)[n:]` for every record with `n > 0` headers); `none` = panic -/
def procRecords (o : Opts) (b : Batch) (abortBatch : Bool) : List KRec → Nat → Bool → St → Option St
  | [], _, _, s => some s
  | k :: ks, slab, handled, s =>
    let n := k.headers.length
    if n > slab then none else
    let r := recordToRecord b k
    let s := maybeKeepRecord o s r abortBatch
    if abortBatch ∧ !handled ∧ isControl r.attrs then
      match abortKey r.key with
      | none => none
      | some true =>
        match trackAbortedPID s.ab b.pid with
        | none => none
        | some a => procRecords o b abortBatch ks (slab - n) true { s with ab := a }
      | some false => procRecords o b abortBatch ks (slab - n) handled s
    else procRecords o b abortBatch ks (slab - n) handled s

/-- `krecords` for `n` slots -/
def takeRecs (b : Batch) (n : Nat) : Option (List KRec) :=
  if n ≤ b.recs.length then some (b.recs.take n)
  else match b.tail with
    | .stop => some b.recs
    | .panic => none

/-- `processRecordBatch`; `none` = panic -/
def processRecordBatch (o : Opts) (s : St) (b : Batch) : Option St :=
  if b.magic ≠ 2 then some { s with err := some .batchMagic } else
  let lastOffset := b.first + b.lastDelta
  if lastOffset < s.off then some s else
  if b.attrs % 8 ≠ 0 ∧ !b.decompOk then some { s with err := some .decompress } else
  if b.numRecords < 0 then some { s with err := some .negCount } else
  if b.numRecords > b.rawLen ∧ b.rawLen = 0 then some { s with err := some .claimNoBytes } else
  let numRecords : Nat := if b.numRecords > b.rawLen then b.rawLen else b.numRecords.toNat
  match takeRecs b numRecords with
  | none => none
  | some krecords =>
    let nextAsk := lastOffset + 1
    match shouldAbortBatch s.ab b with
    | none => none
    | some abortBatch =>
      let nheaders := (krecords.map (·.headers.length)).sum
      match procRecords o b abortBatch krecords nheaders false s with
      | none => none
      | some s' =>
        -- the deferred KAFKA-5443 rule
        some (if numRecords = krecords.length ∧ s'.off < nextAsk then { s' with off := nextAsk } else s')

def msgToRecord (m : Msg) : Rec :=
  { key := m.key, value := m.value, headers := [], pid := -1, pepoch := -1, lepoch := -1, offset := m.offset,
    attrs := if m.isV1 then m.attrs % 256 else m.attrs % 128 + 128,
    tsMs := if m.isV1 then some m.ts else none }

/-- `processV0Message` / `processV1Message` (by the Go type); the Bool is the function's result -/
def processMessage (o : Opts) (s : St) (m : Msg) : St × Bool :=
  if m.isV1 then
    if m.magic ≠ 1 then ({ s with err := some .msgMagic }, false) else
    if m.attrs / 16 ≠ 0 then ({ s with err := some .msgAttrs }, false) else
    (maybeKeepRecord o s (msgToRecord m) false, true)
  else
    if m.magic ≠ 0 then ({ s with err := some .msgMagic }, false) else
    if m.attrs / 8 ≠ 0 then ({ s with err := some .msgAttrs }, false) else
    (maybeKeepRecord o s (msgToRecord m) false, true)

/-- the inner message as the loop hands it to `processV0Message` / `processV1Message`: `Offset += base; Attributes |=
compression`, and for a `*kmsg.MessageV1` inside a v1 wrapper with attribute bit 3 (LogAppendTime; `lat` = the wrapper's
timestamp) `Attributes |= 0b1000; Timestamp = message.Timestamp` (/repo 581b089) -/
def innerSeen (base : Int) (codec : Nat) (lat : Option Int) (m : Msg) : Msg :=
  let m' := { m with offset := m.offset + base, attrs := m.attrs ||| codec }
  match lat with
  | some ts => if m.isV1 then { m' with attrs := m'.attrs ||| 8, ts := ts } else m'
  | none => m'

/-- the loop over the inner messages: `…; if !process… { return }` -/
def processInner (o : Opts) (base : Int) (codec : Nat) (lat : Option Int) : St → List Msg → St
  | s, [] => s
  | s, m :: ms =>
    let (s', ok) := processMessage o s (innerSeen base codec lat m)
    if ok then processInner o base codec lat s' ms else s'

/-- `fp.Err = …` when the inner walk left an error -/
def setErr (s : St) : Option Err → St
  | some e => { s with err := some e }
  | none => s

/-- `processV0OuterMessage` / `processV1OuterMessage`; `none` = panic -/
def processOuter (o : Opts) (s : St) (m : Msg) (inner : Inner) : Option St :=
  let codec := m.attrs % 4
  if codec = 0 then some (processMessage o s m).1 else
  if !inner.decompOk then some { s with err := some .decompress } else
  -- the inner walk leaves its error in fp.Err, then the collected messages are still processed
  let s := setErr s inner.err
  if inner.msgs.isEmpty then (if inner.panic then none else some s) else
  if inner.panic then none else
  if m.isV1 then
    -- `message.Attributes&0b1000 != 0`
    let lat : Option Int := if m.attrs / 8 % 2 = 1 then some m.ts else none
    if m.offset ≠ 0 then
      match inner.msgs.getLast? with
      | none => none
      | some last =>
        if m.offset < last.offset then some { s with err := some .wrapperOffset }
        else some (processInner o (m.offset - last.offset) codec lat s inner.msgs)
    else some (processInner o 0 codec lat s inner.msgs)
  else some (processInner o 0 codec none s inner.msgs)

/-- one iteration of the loop of `ProcessFetchPartition` on an item; `none` = panic -/
def stepItem (o : Opts) (s : St) : Item → Option St
  | .panic => none
  | .stop e => some { s with err := (match e with | some e => some e | none => s.err), stopped := true }
  | .badMagic offset =>
    some { s with err := some .unknownMagic, off := (if offset + 1 > s.off then offset + 1 else s.off), stopped := true }
  | .batch b =>
    (processRecordBatch o s b).map fun s' =>
      if s'.err = some .decompress ∧ s'.out.length > 0 then { s' with err := none, stopped := true } else s'
  | .msg m inner =>
    (processOuter o s m inner).map fun s' =>
      if s'.err = some .decompress ∧ s'.out.length > 0 then { s' with err := none, stopped := true } else s'

/-- `for len(in) > 17 && fp.Err == nil { … }` -/
def walk (o : Opts) : St → List Item → Option St
  | s, [] => some s
  | s, it :: its =>
    if s.err.isSome ∨ s.stopped then some s else
    match stepItem o s it with
    | none => none
    | some s' => walk o s' its

inductive Res
  | panic
  | done (recs : List Rec) (next : Int) (err : Option Err)
deriving DecidableEq, Repr

/-- `ProcessFetchPartition` on decoded items. `errCode ≠ 0` presets `fp.Err`. -/
def process (o : Opts) (kerr : Bool) (aborted : List (Int × Int)) (items : List Item) : Res :=
  let ab : Aborter := if o.readCommitted then buildAborter aborted else fun _ => []
  match walk o { off := o.offset, ab := ab, err := if kerr then some .kerr else none } items with
  | none => .panic
  | some s => .done s.out s.off s.err

/-- `ProcessFetchPartition` on bytes -/
def processBytes (env : Env) (o : Opts) (kerr : Bool) (aborted : List (Int × Int)) (inp : Bytes) : Res :=
  process o kerr aborted (frames env (inp.length + 1) inp)

end Model.C06
