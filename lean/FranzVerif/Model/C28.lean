/-! C28 — partitioners: executable model of pkg/kgo/partitioner.go, function by function, and of the
pick validation in `doPartition` (pkg/kgo/producer.go).  Core Lean only (linked into the driver).

-- models: pkg/kgo/partitioner.go:murmur2
-- models: pkg/kgo/partitioner.go:KafkaHasher
-- models: pkg/kgo/partitioner.go:SaramaHasher
-- models: pkg/kgo/partitioner.go:SaramaCompatHasher
-- models: pkg/kgo/partitioner.go:roundRobinTopicPartitioner.Partition
-- models: pkg/kgo/partitioner.go:stickyTopicPartitioner.Partition
-- models: pkg/kgo/partitioner.go:stickyTopicPartitioner.OnNewBatch
-- models: pkg/kgo/partitioner.go:stickyKeyTopicPartitioner.Partition
-- models: pkg/kgo/partitioner.go:leastBackupInput.Next
-- models: pkg/kgo/partitioner.go:leastBackupTopicPartitioner.PartitionByBackup
-- models: pkg/kgo/partitioner.go:leastBackupTopicPartitioner.OnNewBatch
-- models: pkg/kgo/partitioner.go:uniformBytesTopicPartitioner.PartitionByBackup
-- models: pkg/kgo/partitioner.go:basicTopicPartitioner.Partition
-- models: pkg/kgo/partitioner.go:ManualPartitioner
-- models: pkg/kgo/partitioner.go:basicTopicPartitioner.RequiresConsistency
-- models: pkg/kgo/partitioner.go:roundRobinTopicPartitioner.RequiresConsistency
-- models: pkg/kgo/partitioner.go:stickyTopicPartitioner.RequiresConsistency
-- models: pkg/kgo/partitioner.go:stickyKeyTopicPartitioner.RequiresConsistency
-- models: pkg/kgo/partitioner.go:leastBackupTopicPartitioner.RequiresConsistency
-- models: pkg/kgo/partitioner.go:uniformBytesTopicPartitioner.RequiresConsistency
-- models: pkg/kgo/producer.go:Client.doPartition

Conventions: Go `uint32` is `BitVec 32`; Go `int` (64 bit) is `Int` (the inputs are kept inside the
int64 range by explicit hypotheses / by the generator); Go's `%` is `Int.tmod`; a Go panic
(integer division by zero, `rand.Intn(n ≤ 0)`, iterator exhausted, index out of range) is an explicit
outcome.  Every `rand` draw is a parameter `raw : Nat`: `Intn(n)` returns `raw % n`, which ranges
over exactly the values the contract of `Intn` allows (`[0,n)`) as `raw` ranges over `Nat`. -/
namespace Model.C28

/-! ## murmur2 (Go) -/

def mC : BitVec 32 := 0x5bd1e995#32
def seedC : BitVec 32 := 0x9747b28c#32

/-- `uint32(b)` -/
def u32 (b : UInt8) : BitVec 32 := BitVec.ofNat 32 b.toNat

/-- `k *= m; k ^= k >> r; k *= m` -/
def mixK (k : BitVec 32) : BitVec 32 :=
  let k := k * mC
  let k := k ^^^ (k >>> 24)
  k * mC

/-- `for len(b) >= 4 { … b = b[4:] … }`: returns `h` and the remaining (< 4 byte) slice. -/
def loopGo : BitVec 32 → List UInt8 → BitVec 32 × List UInt8
  | h, b0 :: b1 :: b2 :: b3 :: rest =>
    let k := (u32 b3 <<< 24) + (u32 b2 <<< 16) + (u32 b1 <<< 8) + u32 b0
    loopGo ((h * mC) ^^^ mixK k) rest
  | h, [] => (h, [])
  | h, [a] => (h, [a])
  | h, [a, b] => (h, [a, b])
  | h, [a, b, c] => (h, [a, b, c])

/-- `switch len(b) { case 3: … fallthrough; case 2: … fallthrough; case 1: …; h *= m }` -/
def tailGo (h : BitVec 32) : List UInt8 → BitVec 32
  | [b0, b1, b2] => (((h ^^^ (u32 b2 <<< 16)) ^^^ (u32 b1 <<< 8)) ^^^ u32 b0) * mC
  | [b0, b1] => ((h ^^^ (u32 b1 <<< 8)) ^^^ u32 b0) * mC
  | [b0] => (h ^^^ u32 b0) * mC
  | [] => h
  | _ :: _ :: _ :: _ :: _ => h

/-- `h ^= h >> 13; h *= m; h ^= h >> 15` -/
def finGo (h : BitVec 32) : BitVec 32 :=
  let h := h ^^^ (h >>> 13)
  let h := h * mC
  h ^^^ (h >>> 15)

def murmur2 (b : List UInt8) : BitVec 32 :=
  let h := seedC ^^^ BitVec.ofNat 32 b.length     -- seed ^ uint32(len(b))
  let r := loopGo h b
  finGo (tailGo r.1 r.2)

/-! ## hashers: `func(key []byte, n int) int` after `hashFn(key)` has produced `h` -/

/-- `int(hashFn(key)&0x7fffffff) % n`; `none` = integer divide by zero panic. -/
def kafkaHasher (h : BitVec 32) (n : Int) : Option Int :=
  if n = 0 then none else some (Int.tmod ((h &&& 0x7fffffff#32).toNat : Int) n)

/-- `p := int(hashFn(key)) % n; if p < 0 { p = -p }` (64-bit `int`: the conversion is non-negative). -/
def saramaHasher (h : BitVec 32) (n : Int) : Option Int :=
  if n = 0 then none else
  let p := Int.tmod (h.toNat : Int) n
  some (if p < 0 then -p else p)

/-- Go `int32(x)`: wrap into `[-2^31, 2^31)`. -/
def i32 (x : Int) : Int := (x + 2147483648) % 4294967296 - 2147483648

/-- `p := int32(hashFn(key)) % int32(n); if p < 0 { p = -p }; return int(p)` -/
def saramaCompatHasher (h : BitVec 32) (n : Int) : Option Int :=
  let d := i32 n
  if d = 0 then none else
  let p := Int.tmod (i32 (h.toNat : Int)) d
  some (if p < 0 then i32 (-p) else p)

/-- hash/fnv `New32a` (Go standard library; modelled, used only to feed the hashers). -/
def fnv32a (data : List UInt8) : BitVec 32 :=
  data.foldl (fun h b => (h ^^^ u32 b) * 16777619#32) 2166136261#32

/-- A `PartitionerHasher`. -/
abbrev Hasher := List UInt8 → Int → Option Int

/-- `KafkaHasher(murmur2)`: what `StickyKeyPartitioner(nil)` / `UniformBytesPartitioner(…, nil)` use. -/
def defaultHasher : Hasher := fun k n => kafkaHasher (murmur2 k) n

/-! ## outcomes -/

inductive Outcome (σ : Type) where
  | panic
  | ok (s : σ) (pick : Int)
deriving Repr

def Outcome.pick? {σ : Type} : Outcome σ → Option Int
  | .panic => none
  | .ok _ p => some p

/-- `rand.Intn(n)`: panics for `n ≤ 0`, otherwise `raw % n`. -/
def intn (n : Int) (raw : Nat) : Option Int :=
  if n ≤ 0 then none else some ((raw : Int) % n)

/-! ## round robin -/

structure RR where
  on : Int := 0
deriving Repr, DecidableEq

def RR.partition (s : RR) (n : Int) : Outcome RR :=
  let on := if s.on ≥ n then 0 else s.on
  .ok { on := on + 1 } on

/-! ## sticky -/

structure Sticky where
  lastPart : Int := -1
  onPart : Int := -1
deriving Repr, DecidableEq

def Sticky.onNewBatch (s : Sticky) : Sticky := { lastPart := s.onPart, onPart := -1 }

def Sticky.partition (s : Sticky) (n : Int) (raw : Nat) : Outcome Sticky :=
  if s.onPart = -1 ∨ s.onPart ≥ n then
    match intn n raw with
    | none => .panic
    | some d =>
      let on := if d = s.lastPart then Int.tmod (d + 1) n else d
      .ok { s with onPart := on } on
  else .ok s s.onPart

/-! ## sticky key -/

def stickyKeyPartition (hasher : Hasher) (s : Sticky) (key : Option (List UInt8)) (n : Int) (raw : Nat) :
    Outcome Sticky :=
  match key with
  | some k =>
    match hasher k n with
    | none => .panic
    | some p => .ok s p
  | none => s.partition n raw

/-! ## the backup iterator (`leastBackupInput`)

The remaining `mapping` is kept as a stack whose head is the *last* element: `Next` returns
`(len-1, mapping[len-1].records.buffered)` and drops it; on an empty mapping the index `-1` panics. -/
abbrev Iter := List Int

def Iter.ofMapping (buffered : List Int) : Iter := buffered.reverse

def Iter.next : Iter → Option ((Int × Int) × Iter)
  | [] => none
  | b :: rest => some (((rest.length : Int), b), rest)

/-! ## least backup -/

def maxInt64 : Int := 9223372036854775807
def minInt64 : Int := -9223372036854775808

structure LBAcc where
  least : Int
  npicked : Nat
  onPart : Int
  draws : List Nat
deriving Repr

/-- `for ; n > 0; n-- { pick, backup := backup.Next(); … }`; first argument = iterations left. -/
def lbLoop : Nat → Iter → LBAcc → Option LBAcc
  | 0, _, a => some a
  | k + 1, it, a =>
    match it.next with
    | none => none
    | some ((pick, backup), it') =>
      if backup < a.least then
        lbLoop k it' { a with least := backup, onPart := pick, npicked := 1 }
      else if backup = a.least then
        let np := a.npicked + 1
        let raw := a.draws.headD 0
        let on := if raw % np = 0 then pick else a.onPart    -- `p.rng.Intn(npicked) == 0`
        lbLoop k it' { a with npicked := np, onPart := on, draws := a.draws.tail }
      else lbLoop k it' a

structure LB where
  onPart : Int := -1
deriving Repr, DecidableEq

def LB.onNewBatch (_ : LB) : LB := { onPart := -1 }

def LB.partitionByBackup (s : LB) (n : Int) (it : Iter) (draws : List Nat) : Outcome LB :=
  if s.onPart = -1 ∨ s.onPart ≥ n then
    match lbLoop n.toNat it { least := maxInt64, npicked := 0, onPart := s.onPart, draws := draws } with
    | none => .panic
    | some a => .ok { onPart := a.onPart } a.onPart
  else .ok s s.onPart

/-! ## uniform bytes -/

/-- `kbin.VarintLen(int32(l))` for a length `0 ≤ l < 2^30`: zig-zag doubles it, 7 bits per byte. -/
def varintLen (l : Int) : Int :=
  let u := 2 * l
  if u < 128 then 1 else if u < 16384 then 2 else if u < 2097152 then 3 else if u < 268435456 then 4 else 5

/-- What `PartitionByBackup` reads from a record. -/
structure Rec where
  key : Option (List UInt8)
  valueLen : Nat
  headers : List (Nat × Nat)
  /-- `r.Partition` (read by `ManualPartitioner` only). -/
  partition : Int := 0
deriving Repr

def Rec.keyLen (r : Rec) : Int := match r.key with | some k => k.length | none => 0

/-- the record length estimate `l`. -/
def Rec.estimate (r : Rec) : Int :=
  1 + 1 + 1 + varintLen r.keyLen + r.keyLen + varintLen r.valueLen + r.valueLen + varintLen r.headers.length +
  (r.headers.map fun (hk, hv) => varintLen hk + (hk : Int) + varintLen hv + (hv : Int)).foldl (· + ·) 0

structure UBCfg where
  limit : Int
  adaptive : Bool
  keys : Bool
  hasher : Hasher

structure UB where
  bytes : Int := 0
  onPart : Int := -1
deriving Repr, DecidableEq

/-- the partition indices appended to `p.calc` by `for ; n > 0; n-- { n, backup := backup.Next(); … }` -/
def calcIdx : Nat → Iter → Option (List Int)
  | 0, _ => some []
  | k + 1, it =>
    match it.next with
    | none => none
    | some ((idx, _), it') => (calcIdx k it').map (idx :: ·)

/-- the re-pick at the end of `PartitionByBackup`.  `raw` is the `Intn` draw of the non-adaptive
branch; in the adaptive branch the float arithmetic is abstracted: the pick is *some* element of `calc`
(`calc[raw % len]`), or a panic when `calc` is empty (`p.calc[len(p.calc)-1]` with `n ≤ 0`). -/
def UB.repick (c : UBCfg) (bytes : Int) (n : Int) (it : Iter) (raw : Nat) : Outcome UB :=
  if !c.adaptive then
    match intn n raw with
    | none => .panic
    | some d => .ok { bytes := bytes, onPart := d } d
  else
    match calcIdx n.toNat it with
    | none => .panic
    | some [] => .panic
    | some (i :: is) =>
      let p := (i :: is).getD (raw % (is.length + 1)) i
      .ok { bytes := bytes, onPart := p } p

def UB.partitionByBackup (c : UBCfg) (s : UB) (r : Rec) (n : Int) (it : Iter) (raw : Nat) : Outcome UB :=
  match (if c.keys then r.key else none) with
  | some k =>                                   -- `if p.u.keys && r.Key != nil`
    match c.hasher k n with
    | none => .panic
    | some p => .ok s p
  | none =>
    let l := r.estimate
    let bytes := s.bytes + l                    -- `p.bytes += l`
    let s1 : UB := if bytes ≥ c.limit then { bytes := l, onPart := -1 } else { bytes := bytes, onPart := s.onPart }
    if 0 ≤ s1.onPart ∧ s1.onPart < n then .ok s1 s1.onPart
    else UB.repick c s1.bytes n it raw

/-- every pick the adaptive branch can make from this state (used for trace acceptance). -/
def UB.adaptiveChoices (n : Int) (it : Iter) : List Int := (calcIdx n.toNat it).getD []

/-! ## doPartition's validation of the pick -/


/-- `if pick < 0 || pick >= len(mapping) { promiseRecord(pr, "invalid record partitioning choice …"); return }` -/
def doPartitionRejects (pick : Int) (len : Nat) : Bool := decide (pick < 0) || decide (pick ≥ (len : Int))

/-! ## one topic partitioner as a state machine over operations -/

inductive PKind where
  | roundRobin
  | sticky
  | stickyKey (hasher : Hasher)
  | leastBackup
  | uniformBytes (cfg : UBCfg)
  /-- `BasicConsistentPartitioner(fn)`: `basicTopicPartitioner.Partition(r, n) = fn(r, n)`; `none` = `fn` panics. -/
  | basic (fn : Rec → Int → Option Int)

/-- `ManualPartitioner()`: `BasicConsistentPartitioner` over `func(r, _) int { return int(r.Partition) }`. -/
def PKind.manual : PKind := .basic (fun r _ => some r.partition)

/-- `BasicConsistentPartitioner` over `func(r, n) int { return hasher(r.Key, n) }` (a nil key hashes as the
empty slice): how a Sarama-compatible "hash every record" partitioner is written with this API. -/
def PKind.basicHash (hasher : Hasher) : PKind := .basic (fun r n => hasher (r.key.getD []) n)

inductive PState where
  | rr (s : RR)
  | st (s : Sticky)
  | lb (s : LB)
  | ub (s : UB)
  | unit          -- `basicTopicPartitioner` has no state
deriving Repr

def PKind.init : PKind → PState
  | .roundRobin => .rr {}
  | .sticky => .st {}
  | .stickyKey _ => .st {}
  | .leastBackup => .lb {}
  | .uniformBytes _ => .ub {}
  | .basic _ => .unit

/-- An operation on a topic partitioner: `Partition(r, n)` / `PartitionByBackup(r, n, iter over mapping)`
with the random draws it may consume, or `OnNewBatch`.  `doPartition` passes `n = len(mapping)`. -/
inductive Op where
  | part (r : Rec) (n : Int) (mapping : List Int) (draws : List Nat)
  | newBatch
deriving Repr

/-- A partition call with an explicit `n` (the interface allows any `n`; `doPartition` passes `len(mapping)`). -/
def PKind.partitionN (k : PKind) (s : PState) (r : Rec) (n : Int) (it : Iter) (draws : List Nat) : Outcome PState :=
  match k, s with
  | .roundRobin, .rr s => match s.partition n with | .ok s p => .ok (.rr s) p | .panic => .panic
  | .sticky, .st s => match s.partition n (draws.headD 0) with | .ok s p => .ok (.st s) p | .panic => .panic
  | .stickyKey h, .st s =>
    match stickyKeyPartition h s r.key n (draws.headD 0) with | .ok s p => .ok (.st s) p | .panic => .panic
  | .leastBackup, .lb s => match s.partitionByBackup n it draws with | .ok s p => .ok (.lb s) p | .panic => .panic
  | .uniformBytes c, .ub s =>
    match s.partitionByBackup c r n it (draws.headD 0) with | .ok s p => .ok (.ub s) p | .panic => .panic
  | .basic f, .unit => match f r n with | some p => .ok .unit p | none => .panic
  | _, _ => .panic    -- state of another partitioner kind: never constructed

/-- `OnNewBatch` where the type implements it (sticky, sticky key, least backup); otherwise nothing. -/
def PKind.onNewBatch (k : PKind) (s : PState) : PState :=
  match k, s with
  | .sticky, .st s => .st s.onNewBatch
  | .stickyKey _, .st s => .st s.onNewBatch
  | .leastBackup, .lb s => .lb s.onNewBatch
  | _, s => s

/-! ## trace acceptance (driver only): is pick `p` possible for *some* draw?

Used for runs with the partitioner's own time-seeded `rand.Rand` and for the adaptive (float) branch of
uniform bytes, where the pick cannot be predicted; returns the successor state when `p` is possible. -/

def Sticky.accept (s : Sticky) (n p : Int) : Option Sticky :=
  if s.onPart = -1 ∨ s.onPart ≥ n then
    -- some d in [0,n) with (if d = lastPart then (d+1) % n else d) = p
    if 0 ≤ p ∧ p < n ∧ (p ≠ s.lastPart ∨ n = 1) then some { s with onPart := p } else none
  else if p = s.onPart then some s else none

/-- indices (as `Next` reports them) of the partitions with the fewest buffered records. -/
def argmins (mapping : List Int) : List Int :=
  match mapping.min? with
  | none => []
  | some m => ((List.range mapping.length).filter (fun i => mapping.getD i 0 == m)).map (fun (i : Nat) => (i : Int))

def LB.accept (s : LB) (n : Int) (mapping : List Int) (p : Int) : Option LB :=
  if s.onPart = -1 ∨ s.onPart ≥ n then
    if (argmins (mapping.take n.toNat)).contains p ∧ mapping.length = n.toNat then some { onPart := p } else none
  else if p = s.onPart then some s else none

def UB.accept (c : UBCfg) (s : UB) (r : Rec) (n : Int) (mapping : List Int) (p : Int) : Option UB :=
  match (if c.keys then r.key else none) with
  | some k => if c.hasher k n = some p then some s else none
  | none =>
    let l := r.estimate
    let bytes := s.bytes + l
    let s1 : UB := if bytes ≥ c.limit then { bytes := l, onPart := -1 } else { bytes := bytes, onPart := s.onPart }
    if 0 ≤ s1.onPart ∧ s1.onPart < n then (if p = s1.onPart then some s1 else none)
    else if 0 ≤ p ∧ p < n ∧ mapping.length = n.toNat then some { bytes := s1.bytes, onPart := p } else none

def PKind.acceptN (k : PKind) (s : PState) (r : Rec) (n : Int) (mapping : List Int) (p : Int) : Option PState :=
  match k, s with
  | .roundRobin, .rr s => match s.partition n with | .ok s q => if p = q then some (.rr s) else none | .panic => none
  | .sticky, .st s => (s.accept n p).map .st
  | .stickyKey h, .st s =>
    match r.key with
    | some key => if h key n = some p then some (.st s) else none
    | none => (s.accept n p).map .st
  | .leastBackup, .lb s => (s.accept n mapping p).map .lb
  | .uniformBytes c, .ub s => (s.accept c r n mapping p).map .ub
  | .basic f, .unit => if f r n = some p then some .unit else none
  | _, _ => none

def PKind.usesBackup : PKind → Bool
  | .leastBackup => true
  | .uniformBytes _ => true
  | _ => false

/-- Result of one op: new state and, for a partition call, the pick; `none` = panic. -/
def PKind.step (k : PKind) (s : PState) : Op → Option (PState × Option Int)
  | .part r n mapping draws =>
    match k.partitionN s r n (Iter.ofMapping mapping) draws with
    | .panic => none
    | .ok s p => some (s, some p)
  | .newBatch => some (k.onNewBatch s, none)

/-- The key a call exposes to the partitioner's key logic (`none`: nil key, or keys are ignored). -/
def PKind.obsKey : PKind → Rec → Option (List UInt8)
  | .stickyKey _, r => r.key
  | .uniformBytes c, r => if c.keys then r.key else none
  | _, _ => none

/-- Run a whole op sequence: for every partition call the observable triple (key seen by the key logic,
`n`, pick); `none` on a panic. -/
def PKind.run (k : PKind) : PState → List Op → Option (List (Option (List UInt8) × Int × Int))
  | _, [] => some []
  | s, .newBatch :: ops => k.run (k.onNewBatch s) ops
  | s, .part r n mapping draws :: ops =>
    match k.partitionN s r n (Iter.ofMapping mapping) draws with
    | .panic => none
    | .ok s' p => (k.run s' ops).map ((k.obsKey r, n, p) :: ·)

/-! ## `RequiresConsistency` of every built-in topic partitioner -/

/-- `TopicPartitioner.RequiresConsistency(r)`, per concrete type. -/
def PKind.requiresConsistency : PKind → Rec → Bool
  | .roundRobin, _ => false                          -- `return false`
  | .sticky, _ => false                              -- `return false`
  | .stickyKey _, r => r.key.isSome                  -- `return r.Key != nil`
  | .leastBackup, _ => false                         -- `return false`
  | .uniformBytes c, r => c.keys && r.key.isSome     -- `return p.u.keys && r.Key != nil`
  | .basic _, _ => true                              -- `return true` (BasicConsistent, Manual)

def PKind.isBasic : PKind → Bool
  | .basic _ => true
  | _ => false

/-- `_, ok := tp.(TopicPartitionerOnNewBatch)`: sticky, sticky key (embeds sticky), least backup. -/
def PKind.hasOnNewBatch : PKind → Bool
  | .sticky => true
  | .stickyKey _ => true
  | .leastBackup => true
  | _ => false

/-- The same partitioner configured with another key hasher (partitioners without a hasher are unchanged). -/
def PKind.withHasher : PKind → Hasher → PKind
  | .stickyKey _, h => .stickyKey h
  | .uniformBytes c, h => .uniformBytes { c with hasher := h }
  | k, _ => k

/-! ## the client around the partitioner: `Client.doPartition` (pkg/kgo/producer.go)

`topicPartitionsData` is read through three fields: `loadErr`, `partitions` ("partition num => partition")
and `writablePartitions` ("subset of above": the partitions without a load error, i.e. with a leader).
A `*topicPartition` is represented by what `doPartition` and the partitioners read from it. -/

/-- What `partition.records.bufferRecord(pr, abortOnNewBatch)` does with *this* record, abstracted to what
`doPartition` reads back (`processed`). -/
inductive Room where
  /-- appended to the open batch: processed. -/
  | fits
  /-- no open batch with room, fits a new one: *not processed* when `abortOnNewBatch`, appended otherwise. -/
  | newBatch
  /-- processed as a failure by the buffer itself (purged, client closing, larger than any batch). -/
  | never
deriving Repr, DecidableEq

structure Part where
  /-- `records.partition`: the partition number. -/
  num : Nat
  /-- `records.buffered.Load()` (what `leastBackupInput.Next` reports). -/
  buffered : Int
  room : Room
deriving Repr, DecidableEq

structure TopicData where
  /-- `partsData.loadErr != nil && !kerr.IsRetriable(partsData.loadErr)` -/
  fatalLoadErr : Bool
  partitions : List Part
  writable : List Part
deriving Repr

/-- `mapping := partsData.writablePartitions; if RequiresConsistency(r) { mapping = partsData.partitions }
else if len(mapping) == 0 && len(partsData.partitions) > 0 { mapping = partsData.partitions }` -/
def PKind.mappingOf (k : PKind) (r : Rec) (t : TopicData) : List Part :=
  if k.requiresConsistency r then t.partitions
  else if t.writable.length = 0 ∧ t.partitions.length > 0 then t.partitions
  else t.writable

inductive Pick where
  | panic
  | invalid (pick : Int) (len : Nat)
  | ok (s : PState) (part : Part)
deriving Repr

/-- `tlp, _ := partitioner.(TopicBackupPartitioner); if tlp != nil { lb.mapping = mapping; pick =
tlp.PartitionByBackup(r, len(mapping), lb) } else { pick = partitioner.Partition(r, len(mapping)) };
if pick < 0 || pick >= len(mapping) { fail }; partition := mapping[pick]`.
(`partitionN` is `PartitionByBackup` over the iterator for exactly the types that implement it.) -/
def PKind.pickFrom (k : PKind) (s : PState) (r : Rec) (mapping : List Part) (draws : List Nat) : Pick :=
  match k.partitionN s r mapping.length (Iter.ofMapping (mapping.map (·.buffered))) draws with
  | .panic => .panic
  | .ok s' pick =>
    if doPartitionRejects pick mapping.length then .invalid pick mapping.length
    else
      match mapping[pick.toNat]? with
      | none => .panic                -- `mapping[pick]` out of range (excluded by the check: theorem)
      | some part => .ok s' part

/-- What happened to the record. -/
inductive Sel where
  /-- `promiseRecord(pr, partsData.loadErr)` -/
  | failLoadErr
  /-- "unable to partition record due to no usable partitions" -/
  | failNoUsable
  /-- "invalid record partitioning choice of %d from %d available" -/
  | failInvalid (pick : Int) (len : Nat)
  | panic
  /-- handed to `part`'s record buffer (`pr.Partition = part.num`); `repicked`: after `OnNewBatch`. -/
  | placed (s : PState) (part : Part) (repicked : Bool)
deriving Repr

/-- `Client.doPartition(parts, partsData, pr)` for a topic partitioner of kind `k` in state `s`.
`draws₁` / `draws₂` feed the random source of the first / the second (post-`OnNewBatch`) pick. -/
def PKind.doPartition (k : PKind) (s : PState) (t : TopicData) (r : Rec) (draws₁ draws₂ : List Nat) : Sel :=
  if t.fatalLoadErr then .failLoadErr else
  let mapping := k.mappingOf r t
  if mapping.length = 0 then .failNoUsable else
  match k.pickFrom s r mapping draws₁ with
  | .panic => .panic
  | .invalid p l => .failInvalid p l
  | .ok s₁ part =>
    -- `processed := partition.records.bufferRecord(pr, abortOnNewBatch)`; `if !processed { … }`
    if k.hasOnNewBatch ∧ part.room = .newBatch then
      match k.pickFrom (k.onNewBatch s₁) r mapping draws₂ with     -- `onNewBatch.OnNewBatch()`, pick again
      | .panic => .panic
      | .invalid p l => .failInvalid p l
      | .ok s₂ part₂ => .placed s₂ part₂ true                       -- `bufferRecord(pr, false)`
    else .placed s₁ part false

def Sel.part? : Sel → Option Part
  | .placed _ p _ => some p
  | _ => none

end Model.C28
