/-! C29 — producer sequence numbers.

Hand-written model of kfake's `pidwindow.pushAndValidate`.
-- models: pkg/kfake/txns.go:pushAndValidate
The client half (`incrementSequence`) is *regenerated* from the source into `Gen/C29.lean`.
Core Lean only (linked into the driver). -/
namespace Model.C29

/-- 2^31: Kafka wraps producer sequence numbers modulo 2^31. -/
def seqMod : Int := 2147483648

/-- Spec-level successor: after a batch of `n` records starting at `s`. -/
def next (s n : Int) : Int := (s + n) % seqMod

structure Entry where
  first : Int
  nxt : Int
  offset : Int
deriving DecidableEq, Repr, Inhabited

/-- `pidwindow` (the fields used by `pushAndValidate`). `entries` always has length 5. -/
structure Win where
  seen : Bool := false
  epoch : Int := 0
  nextSeq : Int := 0
  entries : List Entry := List.replicate 5 default
  at_ : Nat := 0
  count : Nat := 0
deriving Repr

inductive Resp where
  | accept            -- ok, not dup
  | dup (off : Int)   -- ok, dup with the original base offset
  | reject            -- OUT_OF_ORDER_SEQUENCE_NUMBER
deriving DecidableEq, Repr

/-- Go: `int32((int64(firstSeq) + int64(numRecs)) % (math.MaxInt32+1))`; Go's `%` truncates. -/
def goNext (firstSeq numRecs : Int) : Int := Int.tmod (firstSeq + numRecs) seqMod

/-- the dup scan `for i := range s.count { e := s.entries[i]; if … return e.offset }` -/
def findDup (es : List Entry) (count : Nat) (first nxt : Int) : Option Int :=
  ((es.take count).find? (fun e => e.first == first && e.nxt == nxt)).map (·.offset)

def push (s : Win) (epoch first n base : Int) : Win × Resp :=
  if !s.seen || epoch != s.epoch then
    if s.seen && first != 0 then (s, .reject)
    else
      let nx := goNext first n
      ({ seen := true, epoch := epoch, nextSeq := nx,
         entries := ⟨first, nx, base⟩ :: List.replicate 4 default, at_ := 1, count := 1 }, .accept)
  else
    let nx := goNext first n
    match findDup s.entries s.count first nx with
    | some off => (s, .dup off)
    | none =>
      if first != s.nextSeq then (s, .reject)
      else
        ({ s with nextSeq := nx, entries := s.entries.set s.at_ ⟨first, nx, base⟩,
                  at_ := (s.at_ + 1) % 5, count := if s.count < 5 then s.count + 1 else s.count },
         .accept)

end Model.C29
