/-! C29 — producer sequence numbers.

Hand-written model of kfake's `pidwindow.pushAndValidate`, parameterised by the modulus the
source uses (the modulus itself is *regenerated* from the source into `Gen/C29.lean`, as is the
client's `incrementSequence`).
-- models: pkg/kfake/txns.go:pidwindow.pushAndValidate
Core Lean only (linked into the driver). -/
namespace Model.C29

/-- 2^31: Kafka wraps producer sequence numbers modulo 2^31. -/
def seqMod : Int := 2147483648

/-- Spec-level successor: after a batch of `n` records starting at `s`. -/
def next (s n : Int) : Int := (s + n) % seqMod

structure Entry where
  first : Int
  nxt : Int
  offset : Int
deriving DecidableEq, Repr, Inhabited

/-- `pidwindow` (the fields used by `pushAndValidate`). `entries` always has length 5. -/
structure Win where
  seen : Bool := false
  epoch : Int := 0
  nextSeq : Int := 0
  entries : List Entry := List.replicate 5 default
  at_ : Nat := 0
  count : Nat := 0
deriving Repr, DecidableEq

inductive Resp where
  | accept            -- ok, not dup
  | dup (off : Int)   -- ok, dup with the original base offset
  | reject            -- OUT_OF_ORDER_SEQUENCE_NUMBER
deriving DecidableEq, Repr

/-- Go: `int32((int64(firstSeq) + int64(numRecs)) % M)`; Go's `%` truncates toward zero. The
operands are non-negative int32 values, so the int32 conversion is the identity for M ≤ 2^31. -/
def goNext (m : Int) (firstSeq numRecs : Int) : Int := Int.tmod (firstSeq + numRecs) m

/-- the dup scan `for i := range s.count { e := s.entries[i]; if … return true, true, e.offset }` -/
def findDup (es : List Entry) (count : Nat) (first nxt : Int) : Option Int :=
  ((es.take count).find? (fun e => e.first == first && e.nxt == nxt)).map (·.offset)

def push (m : Int) (s : Win) (epoch first n base : Int) : Win × Resp :=
  if !s.seen || epoch != s.epoch then
    if s.seen && first != 0 then (s, .reject)
    else
      let nx := goNext m first n
      ({ seen := true, epoch := epoch, nextSeq := nx,
         entries := ⟨first, nx, base⟩ :: List.replicate 4 default, at_ := 1, count := 1 }, .accept)
  else
    let nx := goNext m first n
    match findDup s.entries s.count first nx with
    | some off => (s, .dup off)
    | none =>
      if first != s.nextSeq then (s, .reject)
      else
        ({ s with nextSeq := nx, entries := s.entries.set s.at_ ⟨first, nx, base⟩,
                  at_ := (s.at_ + 1) % 5, count := if s.count < 5 then s.count + 1 else s.count },
         .accept)

/-- The window entries in order of age (most recent first): the abstraction used by the proofs. -/
def recent (s : Win) : List Entry :=
  (List.range s.count).map (fun j => s.entries.getD ((s.at_ + 5 - 1 - j) % 5) default)

/-- Shape invariant of the circular buffer. -/
def WF (s : Win) : Prop :=
  s.entries.length = 5 ∧ s.at_ < 5 ∧ s.count ≤ 5 ∧ (s.count < 5 → s.at_ = s.count) ∧ (s.seen = true → 1 ≤ s.count)

/-- Abstract state of the property's broker-side sentence: epoch, expected sequence and the
(at most five) most recently accepted batches, newest first. -/
structure Spec where
  seen : Bool := false
  epoch : Int := 0
  nextSeq : Int := 0
  recent : List Entry := []
deriving Repr, DecidableEq

/-- Does the property allow answer `r` to a push in abstract state `t`?  A retried batch (same
`(first, (first+n) mod 2^31)` as a remembered one) must be answered `dup` with the offset of such a
batch; otherwise the expected sequence is accepted and every other one rejected; a new epoch
(or a never-used window) accepts only a restart at 0 (any sequence when never used). -/
def Spec.allows (t : Spec) (epoch first n : Int) (r : Resp) : Bool :=
  let nx := next first n
  if !t.seen || epoch != t.epoch then
    if t.seen && first != 0 then r == .reject else r == .accept
  else
    let ms := t.recent.filter (fun e => e.first == first && e.nxt == nx)
    if !ms.isEmpty then
      match r with
      | .dup off => ms.any (fun e => e.offset == off)
      | _ => false
    else if first == t.nextSeq then r == .accept
    else r == .reject

def Spec.step (t : Spec) (epoch first n base : Int) (r : Resp) : Spec :=
  match r with
  | .accept =>
    if !t.seen || epoch != t.epoch then
      { seen := true, epoch := epoch, nextSeq := next first n, recent := [⟨first, next first n, base⟩] }
    else
      { t with nextSeq := next first n, recent := (⟨first, next first n, base⟩ :: t.recent).take 5 }
  | _ => t

def abs (s : Win) : Spec := ⟨s.seen, s.epoch, s.nextSeq, recent s⟩

/-- A push request as it reaches `pushAndValidate`. -/
structure Op where
  epoch : Int
  first : Int
  n : Int
  base : Int
deriving Repr, DecidableEq

def Op.valid (o : Op) : Prop := 0 ≤ o.first ∧ 0 ≤ o.n

/-- All answers of a history of pushes against the concrete window. -/
def runWin (m : Int) : Win → List Op → List Resp
  | _, [] => []
  | s, o :: os => (push m s o.epoch o.first o.n o.base).2 :: runWin m (push m s o.epoch o.first o.n o.base).1 os

/-- The property as a predicate on a history and its answers (abstract state threaded by the answers). -/
def specAccepts : Spec → List Op → List Resp → Bool
  | _, [], [] => true
  | t, o :: os, r :: rs => t.allows o.epoch o.first o.n r && specAccepts (t.step o.epoch o.first o.n o.base r) os rs
  | _, _, _ => false

end Model.C29
