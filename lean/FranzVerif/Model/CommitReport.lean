/-! Success-report monitor for offset commits (C09, second monitor beside `Model.Commit`; same `cmt` histories).

`Model.Commit` takes "the last successful commit" from the answers the client was shown on the wire. This monitor
ties what the commit call REPORTS to the application to those answers: a commit that finishes as successful
(`Ce:k:ok` — the callback got no error and no partition error code, `CommitRecords` / `CommitUncommittedOffsets` /
`CommitMarkedOffsets` returned nil) must have been answered with success, as the client saw it, for every
partition it named. Without this a commit reported successful that the coordinator refused would make "its value
in the last successful commit" of the property text a value nobody holds. Core Lean only. -/
namespace Model.CommitReport

inductive Ev where
  | issue (k : Nat) (offs : List (Nat × Nat))          -- Cs
  | wireReq (n : Nat) (part : Nat) (off : Nat)          -- Wc
  | wireResp (n : Nat) (part : Nat) (err : Int)         -- Wr (as shown to the client)
  | finish (k : Nat) (ok : Bool)                        -- Ce
deriving DecidableEq, Repr

structure St where
  issued : List (Nat × List (Nat × Nat)) := []
  reqs : List (Nat × Nat × Nat) := []                   -- (n, part, off), newest first
  okd : List (Nat × Nat) := []                          -- (part, off): a request carrying off for part was answered with success
deriving Repr

def offsOf (s : St) (k : Nat) : Option (List (Nat × Nat)) := (s.issued.find? (·.1 == k)).map (·.2)

def check (s : St) : Ev → Option String
  | .finish k true =>
    match offsOf s k with
    | none => some "C09.finish-unknown-commit"
    | some offs => if offs.all (fun o => s.okd.contains o) then none else some "C09.commit-reported-successful-but-not-answered-successfully"
  | _ => none

def apply (s : St) : Ev → St
  | .issue k offs => { s with issued := (k, offs) :: s.issued }
  | .wireReq n part off => { s with reqs := (n, part, off) :: s.reqs }
  | .wireResp n part err =>
    if err == 0 then
      match s.reqs.find? (fun w => w.1 == n && w.2.1 == part) with
      | some (_, _, off) => { s with okd := (part, off) :: s.okd }
      | none => s
    else s
  | .finish _ _ => s

def step (s : St) (e : Ev) : Option St :=
  match check s e with
  | none => some (apply s e)
  | some _ => none

def run : St → List Ev → Option St
  | s, [] => some s
  | s, e :: es => match step s e with
    | some s' => run s' es
    | none => none

def accepts (h : List Ev) : Bool := (run {} h).isSome

end Model.CommitReport
