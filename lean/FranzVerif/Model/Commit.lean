/-! Offset-commit ordering monitor (C09). Events come from `harness/cmd/sim` (`cmt` scenarios): commit
calls issued in sequence by one client (commit number k commits offset 1000+k), every OffsetCommit
request/answer as seen at the coordinator, and the final committed offsets as the client and the group
report them. `check` returns the rule an event breaks. Core Lean only.

Partitions. The member consumes and commits up to two topics; a partition is identified by topic and number and
written as one `Nat`: `100 * topic + number` (`topicOf`; topic 0 is "t", topic 1 is "a", whose name sorts first).

Mixed answers. One OffsetCommit answer carries one code per partition and the codes may differ (a deleted
topic's partitions are refused, the other topic's are applied; one partition's metadata is too large; …).
`wireResp` is one event per partition, so an error for one partition changes nothing for the others of the same
answer: each of them is still held to its own last successful commit.

Tainted partitions. The fault layer sometimes rewrites, on the wire, the code of a partition the coordinator
answered with success into an error code (`taint`): the coordinator applied that commit, the client was told it
failed. For such a partition "the last successful commit" of the property text is not defined (successful for
whom?), so the final-value clauses are not judged for it until a later commit for that partition is
answered with success and seen as such by the client, which defines it again. Only the rewritten partition is
exempt, never the rest of the answer.

Deleted topics. A `topicDeleted` event is logged when the second topic is about to be deleted through an admin
client: its partitions cease to exist, their commits are answered UNKNOWN_TOPIC_ID / UNKNOWN_TOPIC_OR_PARTITION
from then on, and there is no final committed offset to compare (the ordering clauses still cover them). -/
namespace Model.Commit

inductive Ev where
  | issue (k : Nat) (offs : List (Nat × Nat))          -- Cs: commit k issued with (partition, offset) pairs
  | finish (k : Nat) (ok : Bool)                         -- Ce
  | wireReq (n : Nat) (part : Nat) (off : Nat)           -- Wc: a partition's commit inside request n reached the coordinator
  | wireResp (n : Nat) (part : Nat) (err : Int)          -- Wr: the answer for that partition as shown to the client
  | taint (part : Nat)                                   -- Wt: the coordinator applied the partition's commit, the answer was rewritten to an error
  | topicDeleted (topic : Nat)                           -- Td: the topic is about to be deleted
  | clientCommitted (part : Nat) (off : Int)             -- CO: Client.CommittedOffsets at the end
  | groupCommitted (part : Nat) (off : Int)              -- GC: OffsetFetch at the end
  | incomplete
  | quiesce
deriving DecidableEq, Repr

structure St where
  issued : List (Nat × List (Nat × Nat)) := []       -- newest first
  finished : List (Nat × Bool) := []
  wire : List (Nat × Nat × Nat) := []                 -- (n, part, off) newest first
  maxWire : Nat := 0                                  -- highest commit offset seen at the coordinator so far
  applied : List (Nat × Nat) := []                    -- per partition: offset of the last request answered without error
  tainted : List Nat := []                            -- partitions whose last answer the client was shown differs from what the coordinator did
  gone : List Nat := []                               -- deleted topics
  co : List (Nat × Int) := []
  gc : List (Nat × Int) := []
  incomplete : Bool := false
  quiet : Bool := false
deriving Repr

def appliedOf (s : St) (p : Nat) : Int := match s.applied.find? (·.1 == p) with | some (_, o) => o | none => -1

/-- the topic of a partition id -/
def topicOf (p : Nat) : Nat := p / 100

/-- are the final-value clauses judged for partition `p`: not tainted, topic not deleted -/
def judged (s : St) (p : Nat) : Bool := !s.tainted.contains p && !s.gone.contains (topicOf p)

def check (s : St) : Ev → Option String
  | .issue k offs =>
    -- the harness issues commits in sequence, every commit k carries offset 1000+k
    if s.issued.any (·.1 ≥ k) then some "C09.harness-commit-numbers-not-increasing"
    else if offs.any (fun o => o.2 != 1000 + k) then some "C09.harness-offset-encoding" else none
  | .finish k _ => if s.issued.any (·.1 == k) then none else some "C09.finish-unknown-commit"
  | .wireReq _ part off =>
    -- commits reach the coordinator in the order issued: a request never carries an older commit than one
    -- that already arrived (retries of the newest one are fine), and only commits that were issued, for
    -- the partitions they named
    if off < s.maxWire then some "C09.commit-arrived-after-a-later-commit"
    else if !s.issued.any (fun i => 1000 + i.1 == off && i.2.any (fun o => o.1 == part)) then some "C09.request-for-commit-never-issued"
    else none
  | .wireResp n part _ => if s.wire.any (fun w => w.1 == n && w.2.1 == part) then none else some "C09.answer-without-request"
  | .taint _ => none
  | .topicDeleted _ => none
  | .clientCommitted _ _ => none
  | .groupCommitted _ _ => none
  | .incomplete => none
  | .quiesce =>
    if s.incomplete then none
    else if s.issued.any (fun i => !s.finished.any (·.1 == i.1)) then some "C09.commit-never-finished"
    -- after all commits finished each partition's committed offset is its value in the last successful commit
    -- (partitions without any successful commit are not judged, nor are tainted partitions and partitions of
    -- a deleted topic; every other partition is, whatever the other partitions of its answers were told)
    else if s.gc.any (fun g => judged s g.1 && s.applied.any (·.1 == g.1) && g.2 != appliedOf s g.1) then some "C09.group-offset-not-last-successful-commit"
    else if s.applied.any (fun a => judged s a.1 && !s.gc.any (·.1 == a.1)) then some "C09.group-offset-missing"
    -- and CommittedOffsets reports the same value
    -- (two keys for one clause: a value that is some other commit's, and "unset": the partition is not listed or
    -- listed with offset 0, which no commit carries and a group member shows for a partition it polled without
    -- having a committed offset for it)
    else if s.co.any (fun c => judged s c.1 && s.applied.any (·.1 == c.1) && c.2 != appliedOf s c.1 && c.2 != 0) then some "C09.committedoffsets-differs-from-last-successful-commit"
    else if s.co.any (fun c => judged s c.1 && s.applied.any (·.1 == c.1) && c.2 != appliedOf s c.1) then some "C09.committedoffsets-unset-after-successful-commit"
    else if s.applied.any (fun a => judged s a.1 && !s.co.any (·.1 == a.1)) then some "C09.committedoffsets-unset-after-successful-commit"
    else none

def apply (s : St) : Ev → St
  | .issue k offs => { s with issued := (k, offs) :: s.issued }
  | .finish k ok => { s with finished := (k, ok) :: s.finished }
  | .wireReq n part off => { s with wire := (n, part, off) :: s.wire, maxWire := max s.maxWire off }
  | .wireResp n part err =>
    -- a success the client is shown defines the partition's last successful commit (again)
    if err == 0 then
      match s.wire.find? (fun w => w.1 == n && w.2.1 == part) with
      | some (_, _, off) => { s with applied := (part, off) :: s.applied.filter (·.1 != part), tainted := s.tainted.filter (· != part) }
      | none => { s with tainted := s.tainted.filter (· != part) }
    else s
  | .taint part => { s with tainted := part :: s.tainted }
  | .topicDeleted t => { s with gone := t :: s.gone }
  | .clientCommitted part off => { s with co := (part, off) :: s.co }
  | .groupCommitted part off => { s with gc := (part, off) :: s.gc }
  | .incomplete => { s with incomplete := true }
  | .quiesce => { s with quiet := true }

def step (s : St) (e : Ev) : Option St :=
  match check s e with
  | none => some (apply s e)
  | some _ => none

def run : St → List Ev → Option St
  | s, [] => some s
  | s, e :: es => match step s e with
    | some s' => run s' es
    | none => none

def accepts (h : List Ev) : Bool := (run {} h).isSome

end Model.Commit
