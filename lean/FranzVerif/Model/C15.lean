/-! # L2 `Model.Schema`: generic interpreter of the franz-go protocol DSL (C15, C16)

The *schema* (`Ty`/`Fields`) is regenerated on every run from `/repo/generate/definitions/*` by
`tools/krammar/krammar.py` into `Gen/Schema.lean` (tie T).  This file is the interpreter:

  * `enc  : version → flexible? → Ty → Val → Option Bytes`   what `AppendTo` must produce
  * `dec  : version → flexible? → Ty → Bytes → Res Val`      what `ReadFrom` / `UnsafeReadFrom` must produce
  * `canon`: the Spec-level normal form of a value at a version (fields absent at the version at their
    defaults, `nil` vs empty as the decoder leaves them, unknown tags only on flexible versions)

Values (`Val`) are Go value trees exactly as reflection sees them (nil slices / nil pointers are `null` /
`blob none`).  Core Lean only.

-- models: pkg/kbin/primitives.go:Reader.Span  Reader.Int8 Reader.Int16 Reader.Int32 Reader.Uint32 readUint64 Reader.Uvarint
--         Reader.Varint Reader.Varlong Reader.String Reader.CompactString Reader.NullableString Reader.CompactNullableString
--         Reader.Bytes Reader.CompactBytes Reader.NullableBytes Reader.CompactNullableBytes Reader.VarintBytes Reader.VarintString
--         Reader.ArrayLen Reader.CompactArrayLen Reader.VarintArrayLen and the Append* family (Nat-level; the bit-level
--         transcription of the varint code is C17's model)
-- models: generate/gen.go: the code shapes emitted by WriteAppend / WriteDecode / WriteDefault for every DSL construct
-- models: pkg/kmsg/api.go:internalReadTags Tags.Set Tags.AppendEach

Modelling decisions (also in the MANIFEST):
  * a failed read ends the decode with `.err` at once.  The Go reader instead turns `bad`, empties `Src` and the generated
    code keeps calling reads that are no-ops until the next `b.Ok()` / `b.Complete()`; `bad` is sticky, so the outcome class
    is the same.  The tag-count loop, the one place where that continuation used to be expensive, is modelled as the code runs it
    in `Model/C16.lean`.
  * every Go slice expression / index / `make` the reader and the generated code perform is routed through `goSplit` /
    `goMake`, which return `.panic` when Go would panic; that they never do is a theorem (Props/C16).
-/
namespace Model.C15

abbrev Bytes := List UInt8

inductive Prim where
  | bool | int8 | int16 | uint16 | int32 | uint32 | int64 | float64 | varint | varlong | uuid
deriving DecidableEq, Repr

inductive SKind where
  | str | nstr (nullFrom : Int) | bytes | nbytes | vstr | vbytes
deriving DecidableEq, Repr

inductive AKind where
  | normal | nullable (nullFrom : Int) | varint
deriving DecidableEq, Repr

inductive Dflt where
  | none | int (i : Int) | null
deriving DecidableEq, Repr

mutual
inductive Ty where
  | prim (p : Prim)
  | str (k : SKind)
  | arr (k : AKind) (elem : Ty)
  | struct (nullable : Bool) (flexFrom : Option Int) (fs : Fields)
inductive Fields where
  | nil
  | cons (name : String) (minV : Int) (maxV : Option Int) (tag : Option Nat) (dflt : Dflt) (t : Ty) (rest : Fields)
end

/-- One named definition of the DSL. `raw = some (i, k)`: the DSL's trailing `length-field-minus => F - k` field
(only `RecordBatch.Records`), `i` the index of `F`; that field is not part of `ty`. -/
structure Top where
  name : String
  kind : String          -- req | resp | misc | noenc
  key : Int
  maxVersion : Int
  withVersion : Bool
  raw : Option (Nat × Nat)
  ty : Ty

mutual
inductive Val where
  | int (i : Int)                    -- every integer type, bool as 0/1, float64 as its 64 bits
  | blob (b : Option Bytes)          -- string / *string / []byte / [16]byte
  | null                             -- nil slice of an array type, nil struct pointer
  | list (vs : Vals)
  | stru (fs : Vals) (unk : List (Nat × Bytes))   -- fields in DSL order, then UnknownTags sorted by key
inductive Vals where
  | nil
  | cons (v : Val) (r : Vals)
end

mutual
def Val.beq : Val → Val → Bool
  | .int a, .int b => a == b
  | .blob a, .blob b => a == b
  | .null, .null => true
  | .list a, .list b => Vals.beq a b
  | .stru a u, .stru b w => Vals.beq a b && u == w
  | _, _ => false
def Vals.beq : Vals → Vals → Bool
  | .nil, .nil => true
  | .cons a r, .cons b s => Val.beq a b && Vals.beq r s
  | _, _ => false
end

def Vals.length : Vals → Nat
  | .nil => 0
  | .cons _ r => r.length + 1

def Vals.toList : Vals → List Val
  | .nil => []
  | .cons v r => v :: r.toList

def Vals.ofList : List Val → Vals
  | [] => .nil
  | v :: r => .cons v (Vals.ofList r)

/-! ## Outcomes -/

inductive Res (α : Type) where
  | ok (a : α) (rest : Bytes)
  | err (spin : Nat)     -- `spin`: loop iterations the Go code would still run on the invalidated reader; 0 everywhere since /repo 994d56c
  | panic (msg : String)

def Res.andThen {α β : Type} (r : Res α) (f : α → Bytes → Res β) : Res β :=
  match r with
  | .ok a rest => f a rest
  | .err s => .err s
  | .panic m => .panic m

def Res.map {α β : Type} (r : Res α) (f : α → β) : Res β :=
  match r with
  | .ok a rest => .ok (f a) rest
  | .err s => .err s
  | .panic m => .panic m

@[simp] theorem Res.andThen_ok {α β : Type} (a : α) (rest : Bytes) (f : α → Bytes → Res β) :
    (Res.ok a rest).andThen f = f a rest := rfl
@[simp] theorem Res.andThen_err {α β : Type} (s : Nat) (f : α → Bytes → Res β) : (Res.err s : Res α).andThen f = .err s := rfl
@[simp] theorem Res.andThen_panic {α β : Type} (m : String) (f : α → Bytes → Res β) :
    (Res.panic m : Res α).andThen f = .panic m := rfl
@[simp] theorem Res.map_ok {α β : Type} (a : α) (rest : Bytes) (f : α → β) : (Res.ok a rest).map f = .ok (f a) rest := rfl
@[simp] theorem Res.map_err {α β : Type} (s : Nat) (f : α → β) : (Res.err s : Res α).map f = .err s := rfl
@[simp] theorem Res.map_panic {α β : Type} (m : String) (f : α → β) : (Res.panic m : Res α).map f = .panic m := rfl

/-! ## Go slice operations that can panic -/

/-- Go `s[:n:n], s[n:]`; panics when `n > len(s)`. -/
def goSplit (s : Bytes) (n : Nat) : Res Bytes :=
  if n ≤ s.length then .ok (s.take n) (s.drop n) else .panic "slice bounds out of range"

/-- Go `make([]T, l)` followed by `l` indexed writes `a[i]`; panics when `l < 0` or beyond the allocation cap. -/
def goMake (l : Int) (cap : Nat) : Res Nat :=
  if l < 0 then .panic "makeslice: len out of range"
  else if l.toNat > cap then .panic "makeslice: beyond the allocation cap"
  else .ok l.toNat []

/-! ## Reader primitives -/

/-- `Reader.Span(l)` (and the length guard of every fixed-width read). -/
def span (l : Int) (src : Bytes) : Res Bytes :=
  if (src.length : Int) < l ∨ l < 0 then .err 0 else goSplit src l.toNat

def byte (n : Nat) : UInt8 := UInt8.ofNat n

/-- big endian, `n` bytes of `x mod 256^n`. -/
def be : Nat → Nat → Bytes
  | 0, _ => []
  | n+1, x => byte (x / 256 ^ n % 256) :: be n x

def ofBE : Bytes → Nat → Nat
  | [], acc => acc
  | b :: r, acc => ofBE r (acc * 256 + b.toNat)

/-- two's complement: the unsigned residue of `i` modulo `m`. -/
def toU (m : Nat) (i : Int) : Nat := (i % (m : Int)).toNat
def fromU (m : Nat) (u : Nat) : Int := if 2 * u ≥ m then (u : Int) - m else u

def readBE (n : Nat) (src : Bytes) : Res Nat :=
  (span n src).map fun bs => ofBE bs 0

/-- LEB128 with a byte budget (`AppendUvarint`: 5, `appendUvarlong`: 10). -/
def uvEnc : Nat → Nat → Bytes
  | 0, _ => []
  | f+1, n => if n < 128 then [byte n] else byte (n % 128 + 128) :: uvEnc f (n / 128)

/-- `kbin.Uvarint` (`k = 4`, `lastMax = 15`) / `uvarlong` (`k = 9`, `lastMax = 1`): up to `k` continuation bytes, then a
final byte that must not exceed `lastMax`. `none` = the `n <= 0` results (short input or overflow). -/
def uvDec : Nat → Nat → Bytes → Option (Nat × Bytes)
  | _, _, [] => none
  | 0, lastMax, b :: r => if b.toNat ≤ lastMax then some (b.toNat, r) else none
  | k+1, lastMax, b :: r =>
    if b.toNat < 128 then some (b.toNat, r) else
    match uvDec k lastMax r with
    | some (x, r') => some (b.toNat - 128 + 128 * x, r')
    | none => none

def zz (i : Int) : Nat := if i ≥ 0 then (2 * i).toNat else (-2 * i - 1).toNat
def unzz (u : Nat) : Int := if u % 2 = 0 then ((u / 2 : Nat) : Int) else -(((u + 1) / 2 : Nat) : Int)

def readUvarint (src : Bytes) : Res Nat :=
  match uvDec 4 15 src with | some (x, r) => .ok x r | none => .err 0
def readUvarlong (src : Bytes) : Res Nat :=
  match uvDec 9 1 src with | some (x, r) => .ok x r | none => .err 0
def readVarint (src : Bytes) : Res Int := (readUvarint src).map unzz
def readVarlong (src : Bytes) : Res Int := (readUvarlong src).map unzz

def m8 : Nat := 256
def m16 : Nat := 65536
def m32 : Nat := 4294967296
def m64 : Nat := 18446744073709551616

def readInt (n m : Nat) (src : Bytes) : Res Int := (readBE n src).map (fromU m)
def readUint (n : Nat) (src : Bytes) : Res Int := (readBE n src).map fun u => (u : Int)

def inRange (lo hi i : Int) : Bool := decide (lo ≤ i) && decide (i < hi)

/-! ## Primitive types -/

def encPrim : Prim → Val → Option Bytes
  | .bool, .int i => if i = 0 then some [0] else if i = 1 then some [1] else none
  | .int8, .int i => if inRange (-128) 128 i then some (be 1 (toU m8 i)) else none
  | .int16, .int i => if inRange (-32768) 32768 i then some (be 2 (toU m16 i)) else none
  | .uint16, .int i => if inRange 0 65536 i then some (be 2 i.toNat) else none
  | .int32, .int i => if inRange (-2147483648) 2147483648 i then some (be 4 (toU m32 i)) else none
  | .uint32, .int i => if inRange 0 4294967296 i then some (be 4 i.toNat) else none
  | .int64, .int i => if inRange (-9223372036854775808) 9223372036854775808 i then some (be 8 (toU m64 i)) else none
  | .float64, .int i => if inRange 0 18446744073709551616 i then some (be 8 i.toNat) else none
  | .varint, .int i => if inRange (-2147483648) 2147483648 i then some (uvEnc 5 (zz i)) else none
  | .varlong, .int i => if inRange (-9223372036854775808) 9223372036854775808 i then some (uvEnc 10 (zz i)) else none
  | .uuid, .blob (some b) => if b.length = 16 then some b else none
  | _, _ => none

def decPrim : Prim → Bytes → Res Val
  | .bool, src => (readBE 1 src).map fun u => .int (if u = 0 then 0 else 1)
  | .int8, src => (readInt 1 m8 src).map .int
  | .int16, src => (readInt 2 m16 src).map .int
  | .uint16, src => (readUint 2 src).map .int
  | .int32, src => (readInt 4 m32 src).map .int
  | .uint32, src => (readUint 4 src).map .int
  | .int64, src => (readInt 8 m64 src).map .int
  | .float64, src => (readUint 8 src).map .int
  | .varint, src => (readVarint src).map .int
  | .varlong, src => (readVarlong src).map .int
  | .uuid, src => (span 16 src).map fun b => .blob (some b)

/-! ## Strings and bytes -/

def encInt16 (i : Int) : Bytes := be 2 (toU m16 i)
def encInt32 (i : Int) : Bytes := be 4 (toU m32 i)
def encUvarint (n : Nat) : Bytes := uvEnc 5 n
def encVarint (i : Int) : Bytes := uvEnc 5 (zz i)

/-- `nstr N` below version `N` is a plain string. -/
def SKind.eff (ver : Int) : SKind → SKind
  | .nstr n => if ver < n then .str else .nstr n
  | k => k

/-- the length `len` fits the prefix that is used (beyond it Go's `int16(len)` / `int32(len)` / `uint32` conversions wrap and the
bytes no longer decode to the value: outside the modelled domain, `enc` answers `none`). -/
def lenOK (flex : Bool) (k : SKind) (len : Nat) : Bool :=
  match k with
  | .str | .nstr _ => if flex then decide (len + 1 < 4294967296) else decide (len < 32768)
  | .bytes | .nbytes => if flex then decide (len + 1 < 4294967296) else decide (len < 2147483648)
  | .vstr | .vbytes => decide (len < 2147483648)

/-- length prefix + payload of a non-null value. -/
def encSome (flex : Bool) (k : SKind) (b : Bytes) : Bytes :=
  match k with
  | .str | .nstr _ => (if flex then encUvarint (b.length + 1) else encInt16 b.length) ++ b
  | .bytes | .nbytes => (if flex then encUvarint (b.length + 1) else encInt32 b.length) ++ b
  | .vstr | .vbytes => encVarint b.length ++ b

def encNull (flex : Bool) (k : SKind) : Option Bytes :=
  match k with
  | .str => none                      -- a Go `string` is never nil
  | .vstr => none
  | .nstr _ => some (if flex then [0] else encInt16 (-1))
  | .bytes => some (encSome flex .bytes [])      -- nil []byte in a non-nullable field: len 0
  | .nbytes => some (if flex then [0] else encInt32 (-1))
  | .vbytes => some (encVarint (-1))

def encStr (ver : Int) (flex : Bool) (k : SKind) : Val → Option Bytes
  | .blob (some b) => if lenOK flex k b.length then some (encSome flex (k.eff ver) b) else none
  | .blob none =>
    match k with
    | .nstr n => if ver < n then some (encSome flex .str []) else encNull flex (.nstr n)   -- nil pointer below N: ""
    | k => encNull flex k
  | _ => none

def decStr (ver : Int) (flex : Bool) (k : SKind) (src : Bytes) : Res Val :=
  match k.eff ver with
  | .str =>
    if flex then (readUvarint src).andThen fun u r => (span ((u : Int) - 1) r).map fun b => .blob (some b)
    else (readInt 2 m16 src).andThen fun l r => (span l r).map fun b => .blob (some b)
  | .nstr _ =>
    if flex then (readUvarint src).andThen fun u r =>
      if (u : Int) - 1 < 0 then .ok (.blob none) r else (span ((u : Int) - 1) r).map fun b => .blob (some b)
    else (readInt 2 m16 src).andThen fun l r =>
      if l < 0 then .ok (.blob none) r else (span l r).map fun b => .blob (some b)
  | .bytes =>
    if flex then (readUvarint src).andThen fun u r =>
      if (u : Int) - 1 = -1 then .ok (.blob (some [])) r else (span ((u : Int) - 1) r).map fun b => .blob (some b)
    else (readInt 4 m32 src).andThen fun l r =>
      if l = -1 then .ok (.blob (some [])) r else (span l r).map fun b => .blob (some b)
  | .nbytes =>
    if flex then (readUvarint src).andThen fun u r =>
      if (u : Int) - 1 < 0 then .ok (.blob none) r else (span ((u : Int) - 1) r).map fun b => .blob (some b)
    else (readInt 4 m32 src).andThen fun l r =>
      if l < 0 then .ok (.blob none) r else (span l r).map fun b => .blob (some b)
  | .vbytes =>
    (readVarint src).andThen fun l r =>
      if l < 0 then .ok (.blob none) r else (span l r).map fun b => .blob (some b)
  | .vstr =>
    (readVarint src).andThen fun l r =>
      if l < 0 then .ok (.blob (some [])) r else (span l r).map fun b => .blob (some b)

/-! ## Array headers -/

def AKind.nullableAt (ver : Int) : AKind → Bool
  | .nullable n => decide (ver ≥ n)
  | _ => false

def encArrHdr (ver : Int) (flex : Bool) (k : AKind) (isNull : Bool) (len : Nat) : Bytes :=
  match k with
  | .varint => encVarint len
  | k =>
    if k.nullableAt ver && isNull then (if flex then [0] else encInt32 (-1))
    else (if flex then encUvarint (len + 1) else encInt32 len)

/-- the length is refused when it exceeds the remaining bytes ("The min size of a Kafka type is a byte"). -/
def chkLen (l : Int) (r : Bytes) : Res Int := if (r.length : Int) < l then .err 0 else .ok l r

/-- `int32(b.Uvarint()) - 1` with Go's wrapping conversions. -/
def wrapLen (u : Nat) : Int :=
  if u < 2147483648 then (u : Int) - 1            -- int32(u) = u
  else if u = 2147483648 then 2147483647          -- int32(u) = -2^31, and -2^31 - 1 wraps
  else (u : Int) - 4294967297                     -- int32(u) = u - 2^32

/-- `Reader.ArrayLen` / `CompactArrayLen` / `VarintArrayLen`. -/
def decArrLen (flex : Bool) (k : AKind) (src : Bytes) : Res Int :=
  match k with
  | .varint => (readVarint src).andThen chkLen
  | .normal | .nullable _ =>
    if flex then (readUvarint src).andThen fun u r => chkLen (wrapLen u) r
    else (readInt 4 m32 src).andThen chkLen

/-- what the decoder leaves in the field when no element is decoded (`l ≤ 0`). -/
def emptyArr (ver : Int) (k : AKind) (l : Int) : Val :=
  match k with
  | .nullable n => if ver < n ∨ ver < 0 ∨ l = 0 then .list .nil else .null   -- generated: `if version < N || l == 0` with N = 0 when unversioned
  | _ => .null

/-! ## Defaults -/

def zero16 : Bytes := List.replicate 16 0

mutual
def dfltVal : Ty → Dflt → Val
  | .prim .uuid, _ => .blob (some zero16)
  | .prim _, .int i => .int i
  | .prim _, _ => .int 0
  | .str .str, _ => .blob (some [])
  | .str .vstr, _ => .blob (some [])
  | .str _, _ => .blob none
  | .arr _ _, _ => .null
  | .struct true _ _, _ => .null
  | .struct false _ fs, _ => .stru (dfltVals fs) []
def dfltVals : Fields → Vals
  | .nil => .nil
  | .cons _ _ _ _ d t rest => .cons (dfltVal t d) (dfltVals rest)
end

def present (minV : Int) (maxV : Option Int) (ver : Int) : Bool :=
  decide (minV ≤ ver) && (match maxV with | some m => decide (ver ≤ m) | none => true)

def flexAt (flexFrom : Option Int) (ver : Int) : Bool :=
  match flexFrom with | some f => decide (ver ≥ f) | none => false

/-- the generated `if` that decides whether a tagged field is written. -/
def tagIsDefault (ver : Int) (t : Ty) (d : Dflt) (v : Val) : Bool :=
  match t, v with
  | .arr (.nullable n) _, .null => true
  | .arr (.nullable n) _, .list vs => decide (ver < n) && vs.length == 0
  | .arr _ _, .null => true
  | .arr _ _, .list vs => vs.length == 0
  | t, v => Val.beq v (dfltVal t d)

/-! ## Tag sections -/

def encTagEntries : List (Nat × Bytes) → Bytes
  | [] => []
  | (k, b) :: r => encUvarint k ++ encUvarint b.length ++ b ++ encTagEntries r

/-- `Tags.Set` on the key-sorted view that `Tags.Each` exposes. -/
def tagSet : List (Nat × Bytes) → Nat → Bytes → List (Nat × Bytes)
  | [], k, b => [(k, b)]
  | (k', b') :: r, k, b =>
    if k < k' then (k, b) :: (k', b') :: r
    else if k = k' then (k, b) :: r
    else (k', b') :: tagSet r k b

/-- `num` × (key, size, Span(size)) in wire order. -/
def readRawTags : Nat → Bytes → Res (List (Nat × Bytes))
  | 0, src => .ok [] src
  | n+1, src =>
    match (readUvarint src).andThen fun key r1 =>
          (readUvarint r1).andThen fun size r2 =>
          (span size r2).map fun b => (key, b) with
    | .ok e r3 => (readRawTags n r3).map fun l => e :: l
    | .err _ => .err 0             -- the loop stops at its next `b.Ok()` test (/repo 994d56c)
    | .panic m => .panic m

/-- a struct with defined tags reads its tag section with a generated `switch`: on an invalidated reader the key is 0, tag 0 is
known, its decode fails and the function returns; a struct without defined tags calls `internalReadTags`, whose loop tests
`b.Ok()` before every iteration. Either way no iteration runs on an invalidated reader. -/
def readTagsOf (known : List Nat) (num : Nat) (src : Bytes) : Res (List (Nat × Bytes)) :=
  match readRawTags num src with
  | .err s => .err (if known.isEmpty then s else 0)
  | x => x

/-- keys and payload sizes fit a uvarint. -/
def entriesOK (l : List (Nat × Bytes)) : Bool := l.all fun e => decide (e.1 < 4294967296) && decide (e.2.length < 4294967296)

def keysSorted : List (Nat × Bytes) → Bool
  | [] => true
  | [_] => true
  | a :: b :: r => decide (a.1 < b.1) && keysSorted (b :: r)

/-- `UnknownTags` as `Tags.Each` exposes them: strictly increasing keys, none of them a defined tag (`Tags.Set`: "It is invalid to
set a key used by Kafka itself"). -/
def unkOK (known : List Nat) (unk : List (Nat × Bytes)) : Bool :=
  keysSorted unk && unk.all fun e => !known.contains e.1

def knownTags : Fields → List Nat
  | .nil => []
  | .cons _ _ _ (some k) _ _ rest => k :: knownTags rest
  | .cons _ _ _ none _ _ rest => knownTags rest

/-- the entries whose key is not a defined tag end in `UnknownTags` (`Tags.Set` per entry, in wire order). -/
def unknownOf (known : List Nat) (raw : List (Nat × Bytes)) : List (Nat × Bytes) :=
  (raw.filter fun e => !known.contains e.1).foldl (fun acc (e : Nat × Bytes) => tagSet acc e.1 e.2) []

/-- a nullable struct starts with a presence byte: `if present := b.Int8(); present != -1 && b.Ok()`. -/
def structPre (nullable : Bool) (src : Bytes) : Res Bool :=
  if nullable then (readInt 1 m8 src).map fun p => decide (p ≠ -1) else .ok true src

/-! ## The interpreter -/

mutual
/-- what `AppendTo` writes for a value of type `t` in a struct whose flexible flag is `flex`. `none`: the value tree does not
inhabit the type (cannot come from the Go struct). -/
def enc (ver : Int) (flex : Bool) : Ty → Val → Option Bytes
  | .prim p, v => encPrim p v
  | .str k, v => encStr ver flex k v
  | .arr k t, .null =>
    match k with
    | .varint => some (encArrHdr ver flex k true 0)
    | _ => some (encArrHdr ver flex k true 0)
  | .arr k t, .list vs =>
    match encList ver flex t vs with
    | some b => if vs.length < 2147483647 then some (encArrHdr ver flex k false vs.length ++ b) else none
    | none => none
  | .struct nullable ff fs, .null => if nullable then some [255] else none
  | .struct nullable ff fs, .stru vals unk =>
    let fl := flexAt ff ver
    match encFields ver fl fs vals, encTags ver fl fs vals with
    | some body, some tags =>
      if fl then
        if unkOK (knownTags fs) unk && entriesOK (tags ++ unk) && decide (tags.length + unk.length < 4294967296) then
          some ((if nullable then [1] else []) ++ (body ++ (encUvarint (tags.length + unk.length) ++ encTagEntries (tags ++ unk))))
        else none
      else some ((if nullable then [1] else []) ++ body)
    | _, _ => none
  | _, _ => none
def encList (ver : Int) (flex : Bool) : Ty → Vals → Option Bytes
  | _, .nil => some []
  | t, .cons v r =>
    match enc ver flex t v, encList ver flex t r with
    | some a, some b => some (a ++ b)
    | _, _ => none
/-- the untagged fields present at `ver`, in order. -/
def encFields (ver : Int) (flex : Bool) : Fields → Vals → Option Bytes
  | .nil, .nil => some []
  | .cons _ minV maxV tag _ t rest, .cons v r =>
    match encFields ver flex rest r with
    | none => none
    | some b =>
      if tag.isSome || !present minV maxV ver then some b
      else match enc ver flex t v with
        | some a => some (a ++ b)
        | none => none
  | _, _ => none
/-- the tagged fields that differ from their default, as (tag, payload), in tag order. -/
def encTags (ver : Int) (flex : Bool) : Fields → Vals → Option (List (Nat × Bytes))
  | .nil, .nil => some []
  | .cons _ _ _ tag d t rest, .cons v r =>
    match encTags ver flex rest r with
    | none => none
    | some l =>
      match tag with
      | none => some l
      | some k =>
        if tagIsDefault ver t d v then some l
        else match enc ver flex t v with
          | some a => some ((k, a) :: l)
          | none => none
  | _, _ => none
end

/-- allocation cap of `make` in the model: the decoder is run with the input length. -/
structure Cfg where
  ver : Int
  cap : Nat

mutual
def dec (c : Cfg) (flex : Bool) : Ty → Bytes → Res Val
  | .prim p, src => decPrim p src
  | .str k, src => decStr c.ver flex k src
  | .arr k t, src =>
    (decArrLen flex k src).andThen fun l r =>
      if l > 0 then
        (goMake l c.cap).andThen fun n _ => (decList c flex t n r).map .list
      else .ok (emptyArr c.ver k l) r
  | .struct nullable ff fs, src =>
    (structPre nullable src).andThen fun isPresent r0 =>
      if !isPresent then .ok .null r0 else
      (decFields c (flexAt ff c.ver) fs r0).andThen fun vals r =>
        if flexAt ff c.ver then
          (readUvarint r).andThen fun num r1 =>
          (readTagsOf (knownTags fs) num r1).andThen fun raw r2 =>
          (applyTags c (flexAt ff c.ver) fs raw vals).andThen fun vals' _ =>
            .ok (.stru vals' (unknownOf (knownTags fs) raw)) r2
        else .ok (.stru vals []) r
termination_by t => (sizeOf t, 0)
def decList (c : Cfg) (flex : Bool) : Ty → Nat → Bytes → Res Vals
  | _, 0, src => .ok .nil src
  | t, n+1, src =>
    (dec c flex t src).andThen fun v r => (decList c flex t n r).map fun vs => .cons v vs
termination_by t n => (sizeOf t, n + 1)
def decFields (c : Cfg) (flex : Bool) : Fields → Bytes → Res Vals
  | .nil, src => .ok .nil src
  | .cons _ minV maxV tag d t rest, src =>
    if tag.isSome || !present minV maxV c.ver then
      (decFields c flex rest src).map fun vs => .cons (dfltVal t d) vs
    else
      (dec c flex t src).andThen fun v r => (decFields c flex rest r).map fun vs => .cons v vs
termination_by fs => (sizeOf fs, 0)
/-- every raw entry whose key is a known tag is decoded (in wire order, a failure is an error) into its field. -/
def applyTags (c : Cfg) (flex : Bool) : Fields → List (Nat × Bytes) → Vals → Res Vals
  | .nil, _, .nil => .ok .nil []
  | .cons _ _ _ tag _ t rest, raw, .cons v r =>
    match applyTags c flex rest raw r with
    | .ok vs _ =>
      match tag with
      | none => .ok (.cons v vs) []
      | some k =>
        match decEach c flex t ((raw.filter fun e => e.1 == k).map Prod.snd) v with
        | .ok v' _ => .ok (.cons v' vs) []
        | .err s => .err s
        | .panic m => .panic m
    | .err s => .err s
    | .panic m => .panic m
  | _, _, vs => .ok vs []
termination_by fs => (sizeOf fs, 0)
def decEach (c : Cfg) (flex : Bool) : Ty → List Bytes → Val → Res Val
  | _, [], v => .ok v []
  | t, p :: ps, _ =>
    match dec c flex t p with
    | .ok v' _ => decEach c flex t ps v'
    | .err s => .err s
    | .panic m => .panic m
termination_by t ps => (sizeOf t, ps.length + 1)
end

/-! ## Spec-level normal form (independent of `dec`): what `ReadFrom` is required to recover -/

def canonStr (ver : Int) (k : SKind) : Val → Val
  | .blob none =>
    match k.eff ver with
    | .str => .blob (some [])
    | .bytes => .blob (some [])
    | _ => .blob none
  | v => v

mutual
def canon (ver : Int) : Ty → Val → Val
  | .prim _, v => v
  | .str k, v => canonStr ver k v
  | .arr k _, .null => if k.nullableAt ver then .null else emptyArr ver k 0
  | .arr k t, .list vs => if vs.length == 0 then emptyArr ver k 0 else .list (canonList ver t vs)
  | .struct _ _ _, .null => .null
  | .struct _ ff fs, .stru vals unk => .stru (canonFields ver (flexAt ff ver) fs vals) (if flexAt ff ver then unk else [])
  | _, v => v
def canonList (ver : Int) : Ty → Vals → Vals
  | _, .nil => .nil
  | t, .cons v r => .cons (canon ver t v) (canonList ver t r)
def canonFields (ver : Int) (flex : Bool) : Fields → Vals → Vals
  | .cons _ minV maxV tag d t rest, .cons v r =>
    let v' := match tag with
      | some _ => if flex && !tagIsDefault ver t d v then canon ver t v else dfltVal t d
      | none => if present minV maxV ver then canon ver t v else dfltVal t d
    .cons v' (canonFields ver flex rest r)
  | _, vs => vs
end

/-! ## Schema well-formedness (decidable; proved of the regenerated schema in Props/C15 for every definition and version) -/

def primW : Prim → Nat
  | .bool | .int8 | .varint | .varlong => 1
  | .int16 | .uint16 => 2
  | .int32 | .uint32 => 4
  | .int64 | .float64 => 8
  | .uuid => 16

mutual
/-- a lower bound of the number of bytes any value of the type occupies. -/
def minW (ver : Int) : Ty → Nat
  | .prim p => primW p
  | .str _ => 1
  | .arr _ _ => 1
  | .struct nullable ff fs => if nullable then 1 else minWF ver fs + (if flexAt ff ver then 1 else 0)
def minWF (ver : Int) : Fields → Nat
  | .nil => 0
  | .cons _ minV maxV tag _ t rest => (if tag.isSome || !present minV maxV ver then 0 else minW ver t) + minWF ver rest
end

def tagsDistinct : Fields → Bool
  | .nil => true
  | .cons _ _ _ (some k) _ _ rest => !(knownTags rest).contains k && tagsDistinct rest
  | .cons _ _ _ none _ _ rest => tagsDistinct rest

mutual
/-- every array element occupies at least one byte at `ver` (`Reader.ArrayLen` refuses a length above the remaining byte count:
"The min size of a Kafka type is a byte"), and the defined tags of a struct are pairwise distinct. -/
def schemaOK (ver : Int) : Ty → Bool
  | .prim _ => true
  | .str _ => true
  | .arr _ t => decide (1 ≤ minW ver t) && schemaOK ver t
  | .struct _ ff fs => tagsDistinct fs && schemaOKF ver (flexAt ff ver) fs
/-- only the fields that are written at `ver` matter: untagged ones present at `ver`, tagged ones when the struct is flexible. -/
def schemaOKF (ver : Int) (flex : Bool) : Fields → Bool
  | .nil => true
  | .cons _ minV maxV tag _ t rest =>
    ((match tag with | some _ => !flex | none => !present minV maxV ver) || schemaOK ver t) && schemaOKF ver flex rest
end

/-! ## Top level entry points (what the harness calls) -/

def verOfVal (top : Top) (ver : Int) (v : Val) : Int :=
  if top.withVersion then
    match v with
    | .stru (.cons (.int i) _) _ => i
    | _ => ver
  else ver

def nthVal : Vals → Nat → Option Val
  | .nil, _ => none
  | .cons v _, 0 => some v
  | .cons _ r, n+1 => nthVal r n

/-- `AppendTo` of a named definition. The value of a `raw` definition carries the raw field as a last extra blob. -/
def encTop (top : Top) (ver : Int) (v : Val) : Option Bytes :=
  let ver := verOfVal top ver v
  match top.raw, v with
  | some _, .stru vals unk =>
    let n := vals.length - 1
    match enc ver false top.ty (.stru (Vals.ofList (vals.toList.take n)) unk), nthVal vals n with
    | some b, some (.blob (some rawb)) => some (b ++ rawb)
    | some b, some (.blob none) => some b
    | _, _ => none
  | _, _ => enc ver false top.ty v

/-- `StickyMemberMetadata.readFrom` (hand written, api.go): no version anywhere; the assignments are read as at v0 and a
generation follows iff bytes remain (`if len(b.Src) > 0 { s.Generation = b.Int32() } else { s.Generation = -1 }`). -/
def decSticky (top : Top) (src : Bytes) : Res Val :=
  (dec { ver := 0, cap := src.length } false top.ty src).andThen fun v r =>
    match v, r with
    | .stru (.cons a _) unk, _ :: _ => (readInt 4 m32 r).map fun g => .stru (.cons a (.cons (.int g) .nil)) unk
    | v, r => .ok v r

/-- `ReadFrom` of a named definition on the whole input (`with version field` definitions take their version from the first
two bytes). The result is an error unless the reader is still valid at the end; trailing bytes are ignored as in Go. -/
def decTop (top : Top) (ver : Int) (src : Bytes) : Res Val :=
  if top.name == "StickyMemberMetadata" then decSticky top src else
  let ver := if top.withVersion then match readInt 2 m16 src with | .ok v _ => v | _ => 0 else ver
  let c : Cfg := { ver := ver, cap := src.length }
  match top.raw with
  | none => dec c false top.ty src
  | some (i, k) =>
    (dec c false top.ty src).andThen fun v r =>
      match v with
      | .stru vals unk =>
        match nthVal vals i with
        | some (.int len) => (span (len - k) r).map fun rawb => .stru (Vals.ofList (vals.toList ++ [.blob (some rawb)])) unk
        | _ => .err 0
      | _ => .err 0

def canonTop (top : Top) (ver : Int) (v : Val) : Val :=
  let ver := verOfVal top ver v
  match top.raw, v with
  | some _, .stru vals unk =>
    let n := vals.length - 1
    match canon ver top.ty (.stru (Vals.ofList (vals.toList.take n)) unk), nthVal vals n with
    | .stru vs u, some (.blob b) => .stru (Vals.ofList (vs.toList ++ [.blob (some (b.getD []))])) u
    | x, _ => x
  | _, _ => canon ver top.ty v

end Model.C15
