/-! C23 — sharded requests: the split / issue / re-split recursion of `handleShardedReq` and the per-sharder
grouping, plus the executable Spec evaluated by the driver on the real shards. Core Lean only.

-- models: pkg/kgo/client.go:Client.handleShardedReq
-- models: pkg/kgo/client.go:Client.Request
-- models: pkg/kgo/client.go:firstErrMerger
-- models: pkg/kgo/client.go:unknownErrShards.collect
-- models: pkg/kgo/client.go:listOffsetsSharder.shard
-- models: pkg/kgo/client.go:describeGroupsSharder.shard
-- models: pkg/kgo/client.go:findCoordinatorSharder.shard
-- models: pkg/kgo/client.go:Client.allBrokersShardedReq

What the Go code does, and how it is modelled.

* Every `*Sharder.shard` walks the requested items in order and appends each to a bucket chosen by the client's
  current view of the cluster (metadata for topic-partitions, `loadCoordinators` for groups / transactional ids):
  `brokerReqs[leader]`, or an error bucket (`unknownErrShards.mapped[err]`, `kerrs[ke]`), or — for coordinator
  load errors that are not `*kerr.Error` — a bucket of its own per occurrence (`unkerrs`). Here: a layout `Λ`,
  `place : Λ → ι → δ` (δ = destination: a broker, an error class, or "any broker"), `solo : δ → Bool` for the
  one-bucket-per-occurrence destinations, and `shardBy` = fold of `addTo` over the items. Go iterates the buckets
  in map order; everything here is stated up to permutation of the shards.
* `handleShardedReq.issue`: shards the request; an error bucket becomes an error shard at once (never issued); every
  other bucket is issued; on a retriable failure within the retry budget (`tries ≤ cfg.retries`, the counter is
  inherited by the pieces) a reshardable piece is handed to `issue` again *with the failed shard's own request*,
  whose renewed sharding uses whatever the client then believes (any layout). `shard` itself can fail wholesale
  (metadata load error): the piece becomes one error shard. A piece that is not reshardable (`goto start`) is
  re-issued unchanged, which changes neither its items nor its destination token, so it is a leaf here. If sharding
  returns no bucket at all the whole (empty) request goes to any broker so that one shard exists.
  The retriable failures, the layouts seen by later attempts and the wholesale failures are an arbitrary
  `oracle : tries → δ → items → Choice`; the theorems quantify over all oracles, layouts, item lists and budgets.
* `Request` = `merge` of the shards: responses of the shards without error are concatenated (per-kind regrouping by
  topic does not change the items), the first shard error is returned beside the merged response. -/
namespace Model.C23

variable {ι δ Λ : Type} [DecidableEq δ]

/-- One request piece: destination and the items of its request. -/
structure Shard (ι δ : Type) where
  dest : δ
  items : List ι
deriving Repr, DecidableEq

/-- `brokerReqs[d] = append(brokerReqs[d], x)` (a new bucket when `d` is new or is a one-per-occurrence destination). -/
def addTo (solo : δ → Bool) (d : δ) (x : ι) : List (Shard ι δ) → List (Shard ι δ)
  | [] => [⟨d, [x]⟩]
  | s :: rest =>
    if s.dest = d ∧ solo d = false then ⟨s.dest, s.items ++ [x]⟩ :: rest
    else s :: addTo solo d x rest

/-- A sharder's `shard`: every requested item, in order, into the bucket of its destination. -/
def shardBy (solo : δ → Bool) (place : ι → δ) (items : List ι) : List (Shard ι δ) :=
  items.foldl (fun acc x => addTo solo (place x) x acc) []

/-- What happens to an issued piece. -/
inductive Choice (Λ δ : Type) where
  | final                    -- a response, or an error that is not retried: returned as a shard
  | reshard (lay : Λ)        -- retriable failure within budget: the piece's own request is sharded again under the new view
  | reshardFails (e : δ)     -- retriable failure, and the renewed `shard` fails wholesale: one error shard with the piece's request

/-- Parameters of one sharded request kind. -/
structure Kind (ι δ Λ : Type) where
  place : Λ → ι → δ
  solo : δ → Bool
  isErr : δ → Bool      -- buckets that are returned as error shards without being issued
  anyDest : δ           -- "any broker"

/-- `handleShardedReq.issue` with `fuel` retries left. Returns the leaves = the returned shards. -/
def issue (k : Kind ι δ Λ) (oracle : Nat → δ → List ι → Choice Λ δ) : Nat → Nat → Λ → List ι → List (Shard ι δ)
  | 0, _, lay, items =>
    let ss := shardBy k.solo (k.place lay) items
    if ss.isEmpty then [⟨k.anyDest, items⟩] else ss
  | fuel + 1, tries, lay, items =>
    let ss := shardBy k.solo (k.place lay) items
    if ss.isEmpty then [⟨k.anyDest, items⟩] else
    ss.flatMap fun s =>
      if k.isErr s.dest then [s] else
      match oracle tries s.dest s.items with
      | .final => [s]
      | .reshard lay' => issue k oracle fuel (tries + 1) lay' s.items
      | .reshardFails e => [⟨e, s.items⟩]

/-- All items of a list of shards. -/
def allItems (ss : List (Shard ι δ)) : List ι := ss.flatMap (·.items)

/-- `merge` (through `firstErrMerger`): items of the shards without error, and the first error. A broker answers every
item of the request it received (checked on kfake by the driver), so a successful shard contributes its items. -/
def mergedItems (isErr : δ → Bool) (ss : List (Shard ι δ)) : List ι := allItems (ss.filter (fun s => !isErr s.dest))
def errItems (isErr : δ → Bool) (ss : List (Shard ι δ)) : List ι := allItems (ss.filter (fun s => isErr s.dest))
def firstErr (isErr : δ → Bool) (ss : List (Shard ι δ)) : Option δ := (ss.find? (fun s => isErr s.dest)).map (·.dest)

/-- `AllMappable`: no requested item lands in an error bucket (decidable; the driver evaluates it on the observed layouts). -/
def AllMappable (isErr : δ → Bool) (layout : ι → δ) (items : List ι) : Bool := items.all (fun x => !isErr (layout x))

/-! ## Executable Spec on observed behaviour (independent of the model above)

`Obs`: what the harness saw. Items and destinations are strings. -/

structure ObsShard where
  dest : String                       -- broker id, `any`, or `E<error>` for an error shard
  req : List String                   -- items of the shard's request
  resp : Option (List (String × Int)) -- items of the shard's response with their error codes
  err : String                        -- `-` when the shard has no error
  ver : Option Nat := none            -- layout version when its final attempt reached the broker (from the wire view)
deriving Repr

def isErrDest (d : String) : Bool := d.startsWith "E"

/-- Answers by which a broker says "not mine (any more)": UNKNOWN_TOPIC_OR_PARTITION, NOT_LEADER_FOR_PARTITION,
COORDINATOR_LOAD_IN_PROGRESS, COORDINATOR_NOT_AVAILABLE, NOT_COORDINATOR. Every other answer (success or an item-level
error such as GROUP_ID_NOT_FOUND) means the broker accepted responsibility for the item. -/
def staleCode (c : Int) : Bool := c == 3 || c == 6 || c == 14 || c == 15 || c == 16

def countOf (x : String) (l : List String) : Nat := l.count x

/-- Multiset equality of string lists. -/
def sameMultiset (a b : List String) : Bool :=
  a.length == b.length && a.all (fun x => countOf x a == countOf x b)

def dedupS (l : List String) : List String := l.eraseDups

/-- Clause 1 of the property: every requested item appears in exactly one returned shard (a broker's or an error
shard), and nothing else does. For a duplicated requested item the code keeps as many copies as requested (all of
them in that one shard); the FindCoordinator sharder instead collapses duplicates — `dedup` says which reading applies. -/
def specPartition (dedup : Bool) (requested : List String) (shards : List ObsShard) : Option String :=
  let all := shards.flatMap (·.req)
  let want := if dedup then dedupS requested else requested
  if all.any (fun x => !requested.contains x) then some "C23.shard-has-unrequested-item"
  else if requested.any (fun x => !all.contains x) then some "C23.requested-item-in-no-shard"
  else if (dedupS requested).any (fun x => (shards.filter (fun s => s.req.contains x)).length != 1) then some "C23.item-in-two-shards"
  else if !sameMultiset all want then some "C23.item-count-differs-from-request"
  else none

/-- Each shard is where the layout says: an error shard holds exactly the items that are unmappable for that reason,
no unmappable item is sent to a broker, and an item a broker accepted (any answer but `staleCode`) was led / coordinated by that
broker when the request reached it (`ver` = layout version at that moment, from the wire view). Also a broker's
response names exactly the items of the request it got (as sets; not for the all-broker fan-outs, whose responses
list groups / transactions rather than requested items). -/
def specLayout (fan : Bool) (layouts : List (Nat × List (String × String))) (shards : List ObsShard) : Option String :=
  let lookup (v : Nat) (x : String) : Option String :=
    match layouts.find? (·.1 == v) with
    | some (_, kv) => (kv.find? (·.1 == x)).map (·.2)
    | none => none
  let lastVer := layouts.foldl (fun m l => max m l.1) 0
  if shards.any (fun s => isErrDest s.dest && s.req.any (fun x =>
      match lookup lastVer x with | some d => d != s.dest | none => true)) then some "C23.error-shard-holds-mappable-item"
  else if shards.any (fun s => !isErrDest s.dest && s.req.any (fun x =>
      match lookup lastVer x with | some d => isErrDest d | none => true)) then some "C23.unmappable-item-sent-to-broker"
  else if shards.any (fun s => match s.resp, s.ver with
      | some r, some v => !isErrDest s.dest && !fan && r.any (fun (x, c) => !staleCode c &&
          (match lookup v x with | some d => d != "any" && d != s.dest | none => true))
      | _, _ => false) then some "C23.item-answered-by-broker-not-in-layout"
  else if shards.any (fun s => !isErrDest s.dest && s.ver.isNone) then some "C23.shard-without-wire-request"
  else if shards.any (fun s => match s.resp with
      | some r => !fan && !isErrDest s.dest && !(r.all (fun (x, _) => s.req.contains x) && s.req.all (fun x => r.any (·.1 == x)))
      | none => false) then some "C23.response-items-differ-from-request-items"
  else none

/-- The per-replica fan-outs (DescribeLogDirs with topics, AlterReplicaLogDirs) send every requested partition to each
of its replicas. What is checked for them: an item is in exactly the shards of its replica brokers (layout value
`b1+b2+…`), or in one error shard when unmappable, as often as requested in each. The literal property ("in exactly
one shard") fails for them whenever a partition has two replicas; the driver reports that under its own stable key. -/
def specReplica (requested : List String) (layout : List (String × String)) (shards : List ObsShard) : Option String :=
  let want (x : String) : List String := match layout.find? (·.1 == x) with
    | some (_, d) => if isErrDest d then [d] else d.splitOn "+"
    | none => []
  if shards.any (fun s => s.req.any (fun x => !requested.contains x)) then some "C23.shard-has-unrequested-item"
  else if (dedupS requested).any (fun x => !sameMultiset ((shards.filter (fun s => s.req.contains x)).map (·.dest)) (want x)) then
    some "C23.replica-shards-differ-from-replica-set"
  else if shards.any (fun s => (dedupS s.req).any (fun x => countOf x s.req != countOf x requested)) then some "C23.item-count-differs-from-request"
  else none

/-- Some requested item has two or more replicas: the literal one-shard property cannot hold for a per-replica fan-out. -/
def replicated (requested : List String) (layout : List (String × String)) : Bool :=
  requested.any fun x => match layout.find? (·.1 == x) with
    | some (_, d) => !isErrDest d && (d.splitOn "+").length ≥ 2
    | none => false

def sameSet (a b : List String) : Bool := a.all b.contains && b.all a.contains

/-- Clause 2: the merged response of `Request` holds each requested item exactly once (as often as requested where the
broker echoes duplicates: compared as a multiset with the union of the successful shards' responses, and as a set with
the request). Stated under `allMappable`; otherwise `Request` returns the merge of the successful shards together with
the first shard error, which is what is then required. The all-broker fan-outs (ListGroups, ListTransactions) merge
with de-duplication by name: there the merged list must be duplicate-free and equal, as a set, to the union. -/
def specMerged (fan : Bool) (allMappable : Bool) (requested : List String) (mappable : List String) (shards : List ObsShard)
    (mergedErr : String) (merged : List String) : Option String :=
  let union := (shards.filter (fun s => !isErrDest s.dest)).flatMap (fun s => match s.resp with | some r => r.map (·.1) | none => [])
  if fan then
    if !sameSet merged union then some "C23.merged-differs-from-union-of-shard-responses"
    else if merged.length != (dedupS merged).length then some "C23.merged-fanout-has-duplicates"
    else if mergedErr != "-" then some "C23.merged-error-though-all-mappable"
    else none
  else if !sameMultiset merged union then some "C23.merged-differs-from-union-of-shard-responses"
  else if allMappable then
    if mergedErr != "-" then some "C23.merged-error-though-all-mappable"
    else if !sameSet requested merged then some "C23.merged-items-differ-from-request"
    else none
  else
    if mergedErr == "-" then some "C23.unmappable-items-but-no-error-from-request"
    else if !sameSet mappable merged then some "C23.merged-items-differ-from-mappable-request"
    else none

/-! ## The model instantiated for the driver: items and destinations as strings, a layout as an association list -/

def strKind : Kind String String (List (String × String)) where
  place := fun lay x => match lay.find? (·.1 == x) with | some (_, d) => d | none => "E?"
  solo := fun _ => false
  isErr := isErrDest
  anyDest := "any"

/-- The shards the model predicts for a request under a layout that does not change (retriable failures re-shard the
same piece under the same layout, so they do not change which destination holds which items): destination → items. -/
def predictStatic (dedup : Bool) (lay : List (String × String)) (requested : List String) : List (Shard String String) :=
  issue strKind (fun _ _ _ => .final) 0 0 lay (if dedup then dedupS requested else requested)

/-- When the layout changed during the request: every item ends in the shard of its destination under the layout that
was in force when the last attempt carrying it reached a broker (`verOf`), because an attempt that reaches a broker
that no longer leads / coordinates the item fails retriably and is re-split (`issue` with the oracle the wire view
shows). Items never sent (unmappable) keep their error destination. -/
def predictMoved (dedup : Bool) (layouts : List (Nat × List (String × String))) (verOf : String → Nat) (requested : List String) :
    List (Shard String String) :=
  let k : Kind String String (String → String) := { place := fun f x => f x, solo := fun _ => false, isErr := isErrDest, anyDest := "any" }
  let placeFn : String → String := fun x =>
    match layouts.find? (·.1 == verOf x) with
    | some (_, kv) => strKind.place kv x
    | none => "E?"
  issue k (fun _ _ _ => .final) 0 0 placeFn (if dedup then dedupS requested else requested)

end Model.C23
