import Std.Data.HashMap
import Std.Data.HashSet
import FranzVerif.Model.C25
/-! C26 — sticky balancing is optimal and keeps balanced assignments (core Lean + Std only; linked into the driver).

-- models: pkg/kgo/internal/sticky/sticky.go:balancer.parseMemberMetadata
-- models: pkg/kgo/internal/sticky/sticky.go:balancer.assignUnassignedAndInitGraph
-- models: pkg/kgo/internal/sticky/sticky.go:balancer.tryRestickyStales
-- models: pkg/kgo/internal/sticky/sticky.go:balancer.balance
-- models: pkg/kgo/internal/sticky/sticky.go:balancer.balanceComplex
-- models: pkg/kgo/internal/sticky/sticky.go:balancer.reassignPartition
-- models: pkg/kgo/internal/sticky/sticky.go:BalanceWithRacks
-- models: pkg/kgo/internal/sticky/graph.go:graph.findSteal

`parseMemberMetadata` is modelled exactly (`parse`, `initOwn`, `stales`). Everything after it is modelled as an
*abstract algorithm*: an acceptor (`step`) over the decision events the engine reports through the verif
trace sink.  The acceptor owns the state (owner function, given-up set) and re-checks the guard of every
decision: a drop only of a partition whose owner no longer subscribes, a restick only under the engine's
condition, an assignment only of an unassigned partition to a subscriber, a steal only along a valid chain
from a member holding at least two more, a give-up only when NO such chain exists (this is where
`findSteal`'s completeness is tied: the acceptor computes the set reachable from the member itself and
verifies that it is closed), `done` only when the members still active are within one of each other.
The level tree (rbtree.go), the heaps and the Dijkstra priorities only decide *which* enabled decision
is taken; they are not modelled. -/
namespace Model.C26
open Model.C25

/-! ## Spec (from the property text; independent of the acceptor) -/

/-- member `a` subscribes to topic `t`. -/
def subOf (ms : List Member) (a t : String) : Bool := ms.any fun x => x.id == a && x.topics.contains t

/-- number of partitions the plan gives to `m`. -/
def load (plan : List Triple) (m : String) : Nat := plan.countP (·.1 == m)

/-- `a` could take a partition from `b`: `b` holds a partition of a topic `a` subscribes to. -/
def CanTake (ms : List Member) (plan : List Triple) (a b : String) : Prop :=
  ∃ x ∈ plan, x.1 = b ∧ subOf ms a x.2.1 = true

/-- reflexive-transitive closure. -/
inductive Reach (E : String → String → Prop) : String → String → Prop
  | refl (a : String) : Reach E a a
  | tail {a b c : String} : Reach E a b → E b c → Reach E a c

/-- C26, first sentence: no partition can move, directly or through a chain of moves between members
subscribed to the moved topics, from a member `b` to a member `a` holding at least two fewer. -/
def Optimal (ms : List Member) (plan : List Triple) : Prop :=
  ∀ a ∈ ms.map (·.id), ∀ b, Reach (CanTake ms plan) a b → load plan b < load plan a + 2

/-- the prior assignment as the members state it: every owned entry, flattened. -/
def priorPlan (ms : List Member) : List Triple :=
  ms.flatMap fun m => m.owned.flatMap fun e => e.2.map fun q => (m.id, e.1, q)

/-! ### executable evaluation of the Spec (used by the driver on the engine's real output) -/

/-- certificate check: `S` is closed under "can take from". -/
def closedPlanB (ms : List Member) (plan : List Triple) (S : List String) : Bool :=
  let sm := ms.filter fun x => S.contains x.id
  let ts := (dedup (plan.map (·.2.1))).filter fun t => sm.any (·.topics.contains t)
  plan.all fun x => !ts.contains x.2.1 || S.contains x.1

/-- the members reachable from `a` (a search; its result is only trusted after `closedPlanB`). -/
def closurePlan (ms : List Member) (plan : List Triple) (a : String) : List String :=
  let byId : Std.HashMap String Member := ms.foldl (fun acc x => if acc.contains x.id then acc else acc.insert x.id x) {}
  let owners : Std.HashMap String (List String) :=
    plan.foldl (fun acc x => acc.insert x.2.1 (x.1 :: acc.getD x.2.1 [])) {}
  let rec go (fuel : Nat) (todo : List String) (seenM : Std.HashSet String) (seenT : Std.HashSet String) (acc : List String) :
      List String :=
    match fuel, todo with
    | 0, _ => acc
    | _, [] => acc
    | fuel + 1, m :: rest =>
      match byId[m]? with
      | none => go fuel rest seenM seenT acc
      | some x =>
        let ts := x.topics.filter fun t => !seenT.contains t
        let seenT := ts.foldl (fun s t => s.insert t) seenT
        let (todo, seenM, acc) := ts.foldl (fun st t =>
          (owners.getD t []).foldl (fun (st : List String × Std.HashSet String × List String) o =>
            if st.2.1.contains o then st else (o :: st.1, st.2.1.insert o, o :: st.2.2)) st) (rest, seenM, acc)
        go fuel todo seenM seenT acc
  go (ms.length + plan.length + 1) [a] (Std.HashSet.emptyWithCapacity.insert a) {} [a]

/-- `Optimal`, decided with a closure certificate per member. `optimalB = true → Optimal` is a theorem. -/
def optimalB (ms : List Member) (plan : List Triple) : Bool :=
  (ms.map (·.id)).all fun a =>
    let S := closurePlan ms plan a
    let la := load plan a
    S.contains a && closedPlanB ms plan S && S.all fun b => load plan b < la + 2

/-! ## `parseMemberMetadata` -/

abbrev Own := Std.HashMap TP String

structure Ctx where
  members : List Member            -- after `NewConsumerBalancer` (ids distinct)
  topics : List (String × Nat)     -- the `topics` argument of `Balance`
  racks : Bool := false            -- some partition rack information was supplied
deriving Inhabited

namespace Ctx
def ids (c : Ctx) : List String := c.members.map (·.id)
def sub (c : Ctx) (m t : String) : Bool := subOf c.members m t
def topicNames (c : Ctx) : List String := dedup (c.topics.map (·.1))
/-- the partition universe `b.partOwners` (as topic/partition pairs). -/
def parts (c : Ctx) : List TP := c.topicNames.flatMap fun t => (List.range (cnt c.topics t)).map fun i => (t, i)
/-- `partNumByTopic` succeeds. -/
def isPart (c : Ctx) (p : TP) : Bool := p.2 < cnt c.topics p.1
/-- `len(topicPotentials[topic]) > 0`. -/
def wanted (c : Ctx) (t : String) : Bool := c.members.any fun x => x.topics.contains t
end Ctx

/-- `memberGeneration` for one partition: the claimant of highest generation and the runner-up. -/
structure Claim where
  new : String × Nat
  old : Option (String × Nat) := none
deriving Inhabited

/-- the generation the engine uses: cooperative members with `Generation ≥ 0` use it directly, everyone
else the generation of the sticky user data, where anything `≤ 0` counts as 0. -/
def effGen (m : Member) : Nat := m.gen.toNat

def claimsOf (m : Member) : List TP := m.owned.flatMap fun e => e.2.map fun q => (e.1, q)

/-- one claimed partition (the `switch` in `parseMemberMetadata`). -/
def claimStep (c : Ctx) (m : Member) (acc : Std.HashMap TP Claim) (p : TP) : Std.HashMap TP Claim :=
  if !c.isPart p then acc else
  let g := effGen m
  match acc[p]? with
  | none => acc.insert p { new := (m.id, g) }
  | some cl =>
    if g > cl.new.2 then acc.insert p { new := (m.id, g), old := some cl.new }
    else match cl.old with
      | none => acc.insert p { cl with old := some (m.id, g) }
      | some o => if g > o.2 then acc.insert p { cl with old := some (m.id, g) } else acc

def parse (c : Ctx) : Std.HashMap TP Claim :=
  c.members.foldl (fun acc m => (claimsOf m).foldl (claimStep c m) acc) {}

/-- `b.plan` after `parseMemberMetadata`, as an owner function. -/
def initOwn (c : Ctx) : Own := (parse c).fold (fun o p cl => o.insert p cl.new.1) {}

/-- `b.stales`. -/
def stales (c : Ctx) : List (String × TP) :=
  (parse c).fold (fun l p cl => match cl.old with | some o => (o.1, p) :: l | none => l) []

/-! ## the acceptor -/

inductive Ev where
  | init (owns stales : List (String × TP))
  | drop (m : String) (p : TP)
  | restick (m : String) (p : TP)
  | assign (m : String) (p : TP)
  /-- a steal path applied for `m`: `x` gives `chain[0].1` to `chain[0].2`, which gives `chain[1].1` to `chain[1].2`, …, the last receiver is `m`. -/
  | steal (m x : String) (chain : List (TP × String))
  | giveup (m : String)
  | done
deriving Repr, Inhabited

structure St where
  own : Own := {}
  stale : List (String × TP) := []
  phase : Nat := 0        -- 0 before init, 1 assigning, 2 balancing, 3 done
  given : List String := []
deriving Inhabited

def level (c : Ctx) (o : Own) (m : String) : Nat := c.parts.countP fun p => o[p]? == some m

/-- every owner subscribes to the topic of what it owns, owns only existing partitions, and every
partition of a topic somebody subscribes to has an owner. -/
def validB (c : Ctx) (o : Own) : Bool :=
  (o.toList.all fun e => c.isPart e.1 && c.sub e.2 e.1.1) &&
  c.parts.all fun p => !c.wanted p.1 || (o[p]?).isSome

/-- chain check against the state `o` (all segments are checked against the state before the steal). -/
def chainOK (c : Ctx) (o : Own) : String → List (TP × String) → Bool
  | _, [] => true
  | src, (p, d) :: rest =>
    o[p]? == some src && c.sub d p.1 && c.isPart p && !(rest.map (·.1)).contains p && chainOK c o d rest

def chainEnd : String → List (TP × String) → String
  | src, [] => src
  | _, (_, d) :: rest => chainEnd d rest

def applyChain (o : Own) : List (TP × String) → Own
  | [] => o
  | (p, d) :: rest => applyChain (o.insert p d) rest

/-- certificate check: `S` is closed under "can take from" in state `o`. -/
def closedB (c : Ctx) (o : Own) (S : List String) : Bool :=
  let sm := c.members.filter fun x => S.contains x.id
  c.topicNames.all fun t =>
    !(sm.any (·.topics.contains t)) ||
      (List.range (cnt c.topics t)).all fun i => match o[(t, i)]? with
        | some b => S.contains b
        | none => true

/-- the members reachable from `m` in state `o` (a search; only trusted after `closedB`). -/
def closure (c : Ctx) (o : Own) (m : String) : List String :=
  let byId : Std.HashMap String Member := c.members.foldl (fun acc x => if acc.contains x.id then acc else acc.insert x.id x) {}
  let rec go (fuel : Nat) (todo : List String) (seenM : Std.HashSet String) (seenT : Std.HashSet String) (acc : List String) :
      List String :=
    match fuel, todo with
    | 0, _ => acc
    | _, [] => acc
    | fuel + 1, a :: rest =>
      match byId[a]? with
      | none => go fuel rest seenM seenT acc
      | some x =>
        let ts := x.topics.filter fun t => !seenT.contains t
        let seenT := ts.foldl (fun s t => s.insert t) seenT
        let (todo, seenM, acc) := ts.foldl (fun st t =>
          (List.range (cnt c.topics t)).foldl (fun (st : List String × Std.HashSet String × List String) i =>
            match o[(t, i)]? with
            | some b => if st.2.1.contains b then st else (b :: st.1, st.2.1.insert b, b :: st.2.2)
            | none => st) st) (rest, seenM, acc)
        go fuel todo seenM seenT acc
  go (c.members.length + c.parts.length + 1) [m] (Std.HashSet.emptyWithCapacity.insert m) {} [m]

/-- the guard of `giveup m`: nobody reachable from `m` holds two more than `m`. -/
def stuckB (c : Ctx) (o : Own) (m : String) : Bool :=
  let S := closure c o m
  let lm := level c o m
  S.contains m && closedB c o S && S.all fun b => level c o b < lm + 2

def active (c : Ctx) (s : St) : List String := c.ids.filter fun a => !s.given.contains a

/-- leaving the assignment phase: the plan must be valid from here on. -/
def enter (c : Ctx) (s : St) : Option St :=
  if s.phase == 2 then some s
  else if s.phase == 1 && validB c s.own then some { s with phase := 2 }
  else none

def sameSet (a b : List (String × TP)) : Bool :=
  a.length == b.length && a.all b.contains && b.all a.contains

/-- loads of all members in one pass (used only by a guard no theorem depends on). -/
def levelMap (c : Ctx) (o : Own) : Std.HashMap String Nat :=
  c.parts.foldl (fun acc p => match o[p]? with | some m => acc.insert m (acc.getD m 0 + 1) | none => acc) {}

/-- the engine's prior plan and stale claims are those of `parseMemberMetadata`. -/
def initOK (c : Ctx) (s : St) (owns stl : List (String × TP)) : Bool :=
  let io := initOwn c
  s.phase == 0 && owns.length == io.size && owns.all (fun e => io[e.2]? == some e.1) && sameSet stl (stales c)

/-- un-mapped: nobody wants the topic any more, or `m` itself does not. -/
def dropOK (c : Ctx) (s : St) (m : String) (p : TP) : Bool :=
  s.phase == 1 && s.own[p]? == some m && !c.sub m p.1

/-- `tryRestickyStales`: the stale claimant can consume the topic and the partition is unassigned or sits
on a member holding at least two more. -/
def restickOK (c : Ctx) (s : St) (m : String) (p : TP) : Bool :=
  s.phase == 1 && s.stale.contains (m, p) && c.sub m p.1 && c.isPart p &&
    match s.own[p]? with
    | none => true
    | some cur => level c s.own m + 1 < level c s.own cur

/-- an unassigned partition goes to a subscriber; without rack information to a least loaded one. -/
def assignOK (c : Ctx) (s : St) (m : String) (p : TP) : Bool :=
  s.phase == 1 && (s.own[p]?).isNone && c.sub m p.1 && c.isPart p
    && (c.racks || (let lm := levelMap c s.own
                    c.members.all fun x => !x.topics.contains p.1 || lm.getD m 0 ≤ lm.getD x.id 0))

/-- a steal path for the active member `m`: a valid chain from `x`, which holds at least two more. -/
def stealOK (c : Ctx) (s : St) (m x : String) (chain : List (TP × String)) : Bool :=
  c.ids.contains m && !s.given.contains m && chainOK c s.own x chain && chainEnd x chain == m
    && level c s.own m + 2 ≤ level c s.own x

/-- `m` is a least loaded active member and cannot improve. -/
def giveupOK (c : Ctx) (s : St) (m : String) : Bool :=
  let lm := level c s.own m
  c.ids.contains m && !s.given.contains m && ((active c s).all fun a => lm ≤ level c s.own a) && stuckB c s.own m

/-- the members still active are within one of each other. -/
def doneOK (c : Ctx) (s : St) : Bool :=
  let ls := (active c s).map (level c s.own)
  ls.all fun x => ls.all fun y => x ≤ y + 1

def step (c : Ctx) (s : St) : Ev → Option St
  | .init owns stl => if initOK c s owns stl then some { s with own := initOwn c, stale := stl, phase := 1 } else none
  | .drop m p => if dropOK c s m p then some { s with own := s.own.erase p } else none
  | .restick m p => if restickOK c s m p then some { s with own := s.own.insert p m } else none
  | .assign m p => if assignOK c s m p then some { s with own := s.own.insert p m } else none
  | .steal m x chain =>
    match enter c s with
    | none => none
    | some s => if stealOK c s m x chain then some { s with own := applyChain s.own chain } else none
  | .giveup m =>
    match enter c s with
    | none => none
    | some s => if giveupOK c s m then some { s with given := m :: s.given } else none
  | .done =>
    match enter c s with
    | none => none
    | some s => if doneOK c s then some { s with phase := 3 } else none

/-- replay; `Except.error i` = event `i` refused. -/
def run (c : Ctx) : St → Nat → List Ev → Except Nat St
  | s, _, [] => .ok s
  | s, i, e :: es =>
    match step c s e with
    | none => .error i
    | some s' => run c s' (i + 1) es

/-- the plan a state stands for. -/
def planOf (c : Ctx) (o : Own) : List Triple :=
  c.parts.filterMap fun p => (o[p]?).map fun m => (m, p.1, p.2)

end Model.C26
