/-! Frame parser of a broker connection (C22): what `brokerCxn.readConn` + `parseReadSize` + `readResponse`
(pkg/kgo/broker.go) and `kmsg.SkipTags` over a `kbin.Reader` do with the bytes a peer sends in reply to the oldest
outstanding request. Core Lean only. Go operations that can panic (`make([]byte, n)` with n < 0, `buf[4:]`,
`binary.BigEndian.Uint32(buf)` on a short slice) are explicit partial operations; "never panics" is a theorem
(`Props.C22.parseFrame_never_panics`). Every result carries an explicit step count (bytes read off the stream plus
iterations of the tag loop).
-- models: pkg/kgo/broker.go:brokerCxn.readConn
-- models: pkg/kgo/broker.go:brokerCxn.parseReadSize
-- models: pkg/kgo/broker.go:brokerCxn.readResponse
-- models: pkg/kmsg/api.go:SkipTags (with the `&& ok()` exit of the C22 repair)
-- models: pkg/kbin/primitives.go:Uvarint -/
namespace Model.C22Frame

abbrev Bytes := List UInt8

/-- what reading one response off the connection ends in -/
inductive Res where
  | deliver (body : Bytes)   -- header accepted: the raw body goes to the response decoder
  | negSize                  -- "invalid negative response size"
  | overSize                 -- "invalid large response size"
  | eof                      -- the peer closed before the frame was complete (io.EOF / io.ErrUnexpectedEOF)
  | needMore                 -- the stream so far ends inside the frame and the peer has not closed: the read blocks
  | short                    -- kbin.ErrNotEnoughData: frame shorter than a correlation id, or a broken tag section
  | mismatch                 -- errCorrelationIDMismatch
  | panic
deriving DecidableEq, Repr

structure Out where
  res : Res
  rest : Bytes      -- bytes of the stream not consumed
  steps : Nat
deriving Repr

/-- big-endian uint32 of the first four bytes; `none` is Go's index-out-of-range panic -/
def u32? : Bytes → Option Nat
  | a :: b :: c :: d :: _ => some (a.toNat * 16777216 + b.toNat * 65536 + c.toNat * 256 + d.toNat)
  | _ => none

/-- `int32(x)` of a uint32 -/
def toInt32 (n : Nat) : Int := if n < 2147483648 then (n : Int) else (n : Int) - 4294967296

/-- `make([]byte, n)`: panics for a negative length -/
def mkBuf? (n : Int) : Option Nat := if n < 0 then none else some n.toNat

/-- `buf[4:]`: panics when the slice is shorter -/
def from4? (b : Bytes) : Option Bytes := if b.length < 4 then none else some (b.drop 4)

/-- kbin.Uvarint: value and number of bytes consumed, `none` for its `n ≤ 0` results (short input, or a fifth byte
above 0x0f) -/
def uvarint : Bytes → Option (Nat × Nat)
  | [] => none
  | b0 :: t0 =>
    let x0 := b0.toNat % 128
    if b0.toNat < 128 then some (x0, 1) else
    match t0 with
    | [] => none
    | b1 :: t1 =>
      let x1 := x0 + (b1.toNat % 128) * 128
      if b1.toNat < 128 then some (x1, 2) else
      match t1 with
      | [] => none
      | b2 :: t2 =>
        let x2 := x1 + (b2.toNat % 128) * 16384
        if b2.toNat < 128 then some (x2, 3) else
        match t2 with
        | [] => none
        | b3 :: t3 =>
          let x3 := x2 + (b3.toNat % 128) * 2097152
          if b3.toNat < 128 then some (x3, 4) else
          match t3 with
          | [] => none
          | b4 :: _ => if b4.toNat ≤ 15 then some (x3 + b4.toNat * 268435456, 5) else none

/-- kbin.Reader: remaining bytes and the sticky failure flag -/
structure Rd where
  src : Bytes
  bad : Bool
deriving DecidableEq, Repr

def rdUvarint (r : Rd) : Nat × Rd :=
  match uvarint r.src with
  | none => (0, ⟨[], true⟩)
  | some (v, n) => (v, ⟨r.src.drop n, r.bad⟩)

def rdSpan (r : Rd) (l : Nat) : Rd :=
  if r.src.length < l then ⟨[], true⟩ else ⟨r.src.drop l, r.bad⟩

/-- one iteration of `for num := b.Uvarint(); num > 0; num-- { _, size := b.Uvarint(), b.Uvarint(); b.Span(int(size)) }` -/
def skipIter (r : Rd) : Rd :=
  let (_, r1) := rdUvarint r
  let (size, r2) := rdUvarint r1
  rdSpan r2 size

/-- `for num := b.Uvarint(); num > 0 && b.Ok(); num-- { … }` (SkipTags / ReadTags / internalReadTags after the repair
of C22.tag-count-unbounded-loop): stops once the reader has failed. Returns the reader and the iterations run. -/
def skipLoop : Nat → Rd → Rd × Nat
  | 0, r => (r, 0)
  | n + 1, r =>
    if r.bad then (r, 0) else
    let p := skipLoop n (skipIter r)
    (p.1, p.2 + 1)

/-- the loop as it was before the repair (`num > 0` only): it runs `num` times whatever the reader's state is. Kept
for the record of the defect (`Props.C22.unrepaired_tag_loop_not_linear`); not what the code does any more. -/
def skipLoopUnbounded : Nat → Rd → Rd × Nat
  | 0, r => (r, 0)
  | n + 1, r =>
    let p := skipLoopUnbounded n (skipIter r)
    (p.1, p.2 + 1)

/-- `parseFrame` with the tag loop as a parameter. `maxRead` = BrokerMaxReadBytes, `corr` the correlation id of the
oldest outstanding request, `flex` whether its response header is flexible, `closed` whether the peer has closed
after `stream`. -/
def parseFrameWith (loop : Nat → Rd → Rd × Nat) (maxRead corr : Nat) (flex closed : Bool) (stream : Bytes) : Out :=
  match u32? stream with
  | none => ⟨if closed then .eof else .needMore, [], stream.length⟩    -- io.ReadFull(conn, sizeBuf)
  | some sz =>
    let size := toInt32 sz
    if size < 0 then ⟨.negSize, stream.drop 4, 4⟩
    else if size > (maxRead : Int) then ⟨.overSize, stream.drop 4, 4⟩
    else
      match mkBuf? size with                                           -- buf = make([]byte, size)
      | none => ⟨.panic, stream.drop 4, 4⟩
      | some n =>
        let avail := stream.drop 4
        if avail.length < n then ⟨if closed then .eof else .needMore, [], 4 + avail.length⟩   -- io.ReadFull(conn, buf)
        else
          let buf := avail.take n
          let rest := avail.drop n
          if buf.length < 4 then ⟨.short, rest, 4 + n⟩
          else
            match u32? buf with                                        -- binary.BigEndian.Uint32(buf)
            | none => ⟨.panic, rest, 4 + n⟩
            | some got =>
              if got != corr then ⟨.mismatch, rest, 4 + n⟩
              else
                match from4? buf with                                  -- buf[4:]
                | none => ⟨.panic, rest, 4 + n⟩
                | some body =>
                  if flex then
                    let (num, r1) := rdUvarint ⟨body, false⟩
                    let p := loop num r1
                    ⟨if p.1.bad then .short else .deliver p.1.src, rest, 4 + n + p.2⟩
                  else ⟨.deliver body, rest, 4 + n⟩

def parseFrame := parseFrameWith skipLoop

/-- the parser with the tag loop as it was before the repair -/
def parseFrameUnrepaired := parseFrameWith skipLoopUnbounded

/-- number of tag-loop iterations a flexible header announces (0 when there is none) -/
def tagCount (frame : Bytes) : Nat := (rdUvarint ⟨frame.drop 8, false⟩).1

end Model.C22Frame
