/-! Direct-consumer history monitor (C04 each record once in order, C05 read_committed, C14 fetch hooks).
Events come from `harness/cmd/sim` (`cons` scenarios). `check` returns the rule an event breaks;
rule names start with the property they belong to. Core Lean only. -/
namespace Model.Consumer

abbrev Id := Nat

inductive Ev where
  | produced (id : Id) (part : Nat) (off : Nat) (txn : Nat)   -- D: acknowledged record (txn 0 = not transactional)
  | endDecided (txn : Nat) (commit : Bool)                      -- Ts: EndTransaction about to be called
  | endDone (txn : Nat) (commit : Bool) (ok : Bool)             -- Te
  | pollStart | pollEnd
  | returned (part : Nat) (off : Nat) (id : Id) (ctl : Bool)    -- V: a record a poll returned
  | hookBuf (part : Nat) (off : Nat)                            -- Hb
  | hookUnbuf (part : Nat) (off : Nat) (polled : Bool)          -- Hu
  | gauge (n : Nat)                                             -- G: BufferedFetchRecords after close
  | incomplete                                                  -- a producer-side step failed; completeness is not judged
  | quiesce
deriving DecidableEq, Repr

structure Cfg where
  committed : Bool      -- read_committed
  keepCtl : Bool
  start : Nat           -- start offset of every partition
deriving Repr

structure St where
  prod : List (Id × Nat × Nat × Nat) := []          -- (id, part, off, txn)
  decided : List (Nat × Bool × Nat) := []           -- (txn, commit, number of returned records when decided)
  ret : List (Nat × Nat × Id × Bool × Nat) := []    -- (part, off, id, ctl, index), newest first
  nret : Nat := 0
  last : List (Nat × Nat) := []                     -- per partition: last returned offset
  buffered : List (Nat × Nat) := []                 -- fetch records buffered and not yet unbuffered
  gauge : Option Nat := none
  incomplete : Bool := false
  quiet : Bool := false
deriving Repr

def lastOf (s : St) (part : Nat) : Option Nat := (s.last.find? (·.1 == part)).map (·.2)

def txnOf (s : St) (part off : Nat) (id : Id) : Option Nat :=
  (s.prod.find? (fun p => p.1 == id && p.2.1 == part && p.2.2.1 == off)).map (·.2.2.2)

/-- was the record's transaction decided to commit before the record (index `i`) was returned? -/
def committedBefore (s : St) (txn i : Nat) : Bool :=
  s.decided.any (fun d => d.1 == txn && d.2.1 && decide (d.2.2 ≤ i))

def check (c : Cfg) (s : St) : Ev → Option String
  | .produced id part off _ =>
    if s.prod.any (·.1 == id) then some "C04.harness-id-reused"
    else if s.prod.any (fun p => p.2.1 == part && p.2.2.1 == off) then some "C32.two-records-acknowledged-at-one-offset"
    else none
  | .endDecided txn _ => if s.decided.any (·.1 == txn) then some "C04.harness-txn-reused" else none
  | .endDone _ _ _ => none
  | .pollStart => none
  | .pollEnd => none
  | .returned part off id ctl =>
    if off < c.start then some "C04.returned-before-start-position"
    else match lastOf s part with
      | some l => if off ≤ l then some "C04.offset-not-increasing" else
          if ctl && !c.keepCtl then some "C05.control-record-returned" else
          if !ctl && id == 0 then some "C04.data-record-without-identity" else none
      | none =>
          if ctl && !c.keepCtl then some "C05.control-record-returned" else
          if !ctl && id == 0 then some "C04.data-record-without-identity" else none
  | .hookBuf _ _ => none
  | .hookUnbuf part off _ =>
    if s.buffered.contains (part, off) then none else some "C14.fetch-unbuffered-without-buffered"
  | .gauge _ => none
  | .incomplete => none
  | .quiesce =>
    -- everything returned is a produced record at its acknowledged place
    if s.ret.any (fun r => !r.2.2.2.1 && (txnOf s r.1 r.2.1 r.2.2.1).isNone) then some "C04.returned-record-never-produced-there"
    -- read_committed: nothing of an aborted transaction, nothing of a transaction not yet decided to commit
    else if c.committed && s.ret.any (fun r => !r.2.2.2.1 &&
        match txnOf s r.1 r.2.1 r.2.2.1 with
        | some 0 => false
        | some k => s.decided.any (fun d => d.1 == k && !d.2.1)
        | none => false) then some "C05.returned-record-of-aborted-transaction"
    else if c.committed && s.ret.any (fun r => !r.2.2.2.1 &&
        match txnOf s r.1 r.2.1 r.2.2.1 with
        | some 0 => false
        | some k => !committedBefore s k r.2.2.2.2
        | none => false) then some "C05.returned-record-of-open-transaction"
    -- fetch hooks pair up and the gauge is back to zero
    else if !s.buffered.isEmpty then some "C14.fetch-buffered-never-unbuffered"
    else if s.gauge != some 0 then some "C14.fetch-gauge-nonzero-after-close"
    else if s.incomplete then none
    -- completeness: every eligible record at or after the start position was returned
    else if s.prod.any (fun p => decide (p.2.2.1 ≥ c.start) &&
        (!c.committed || p.2.2.2 == 0 || s.decided.any (fun d => d.1 == p.2.2.2 && d.2.1)) &&
        !s.ret.any (fun r => r.1 == p.2.1 && r.2.1 == p.2.2.1 && r.2.2.1 == p.1)) then
      (if c.committed then some "C05.committed-record-never-returned" else some "C04.record-never-returned")
    else none

def apply (_c : Cfg) (s : St) : Ev → St
  | .produced id part off txn => { s with prod := (id, part, off, txn) :: s.prod }
  | .endDecided txn commit => { s with decided := (txn, commit, s.nret) :: s.decided }
  | .endDone _ _ ok => if ok then s else { s with incomplete := true }
  | .pollStart => s
  | .pollEnd => s
  | .returned part off id ctl =>
    { s with ret := (part, off, id, ctl, s.nret) :: s.ret, nret := s.nret + 1,
             last := (part, off) :: s.last.filter (·.1 != part) }
  | .hookBuf part off => { s with buffered := (part, off) :: s.buffered }
  | .hookUnbuf part off _ => { s with buffered := s.buffered.erase (part, off) }
  | .gauge n => { s with gauge := some n }
  | .incomplete => { s with incomplete := true }
  | .quiesce => { s with quiet := true }

def step (c : Cfg) (s : St) (e : Ev) : Option St :=
  match check c s e with
  | none => some (apply c s e)
  | some _ => none

def run (c : Cfg) : St → List Ev → Option St
  | s, [] => some s
  | s, e :: es => match step c s e with
    | some s' => run c s' es
    | none => none

def accepts (c : Cfg) (h : List Ev) : Bool := (run c {} h).isSome

end Model.Consumer
