import FranzVerif.Gen.C17
/-! C17 — wire primitives. Function-by-function transcription of `pkg/kbin/primitives.go`
(kmsg's private copy is the same file; `Gen.C17.privateCopyIdentical`).

-- models: pkg/kbin/primitives.go:AppendUvarint appendUvarlong Uvarint uvarlong Varint Varlong UvarintLen uvarlongLen Reader.*

Conventions: Go `uintN`/`intN` are `BitVec N` (signedness lives in the operations: `sshiftRight`,
`toInt`, `slt`); a byte slice is `List (BitVec 8)`; a nil slice / nil `*string` is `none` where the
code can tell the difference. Every place where the Go code indexes or slices is an explicit
`Option` operation: `none` = run-time panic (index out of range); "never panics" is a theorem
(`Props.C17.*_no_panic`). Core Lean only (linked into the driver). -/
namespace Model.C17

abbrev Byte := BitVec 8
abbrev Bytes := List Byte

/-! ## Go runtime operations that can panic -/

/-- `s[i]` -/
def idx? (s : Bytes) (i : Nat) : Option Byte := s[i]?
/-- `s[n:]` -/
def from? (s : Bytes) (n : Nat) : Option Bytes := if n ≤ s.length then some (s.drop n) else none
/-- `s[:n:n]` -/
def upto? (s : Bytes) (n : Nat) : Option Bytes := if n ≤ s.length then some (s.take n) else none

/-- `bits.Len32` / `bits.Len64` (standard library, modelled): minimum number of bits to represent `n`. -/
def bitsLen (n : Nat) : Nat := if n = 0 then 0 else n.log2 + 1

/-- `uvarintLens[byte(i)]`. The constant has 256 entries precisely so that a byte index is always in
range (the Go compiler drops the bounds check); `Props.C17.lens_index_in_range` proves the `getD`
default is never used. -/
def lensAt (i : Nat) : Nat := (Gen.C17.uvarintLens[i % 256]?).getD 0

/-! ## Length functions and zig-zag -/

/-- `uint32(i)<<1 ^ uint32(i>>31)` -/
def zigzag32 (i : BitVec 32) : BitVec 32 := (i <<< 1) ^^^ (i.sshiftRight 31)
/-- `uint64(i)<<1 ^ uint64(i>>63)` -/
def zigzag64 (i : BitVec 64) : BitVec 64 := (i <<< 1) ^^^ (i.sshiftRight 63)
/-- `int32((x >> 1) ^ -(x & 1))` -/
def unzigzag32 (x : BitVec 32) : BitVec 32 := (x >>> 1) ^^^ (-(x &&& 1#32))
def unzigzag64 (x : BitVec 64) : BitVec 64 := (x >>> 1) ^^^ (-(x &&& 1#64))

def uvarintLen (u : BitVec 32) : Nat := lensAt (bitsLen u.toNat)
def varintLen (i : BitVec 32) : Nat := uvarintLen (zigzag32 i)
def uvarlongLen (u : BitVec 64) : Nat := lensAt (bitsLen u.toNat)
def varlongLen (i : BitVec 64) : Nat := uvarlongLen (zigzag64 i)

/-! ## Fixed-width encoders -/

def appendBool (dst : Bytes) (v : Bool) : Bytes := if v then dst ++ [1#8] else dst ++ [0#8]
def appendInt8 (dst : Bytes) (i : BitVec 8) : Bytes := dst ++ [i]
def appendUint16 (dst : Bytes) (u : BitVec 16) : Bytes := dst ++ [(u >>> 8).setWidth 8, u.setWidth 8]
def appendInt16 (dst : Bytes) (i : BitVec 16) : Bytes := appendUint16 dst i
def appendUint32 (dst : Bytes) (u : BitVec 32) : Bytes :=
  dst ++ [(u >>> 24).setWidth 8, (u >>> 16).setWidth 8, (u >>> 8).setWidth 8, u.setWidth 8]
def appendInt32 (dst : Bytes) (i : BitVec 32) : Bytes := appendUint32 dst i
def appendUint64 (dst : Bytes) (u : BitVec 64) : Bytes :=
  dst ++ [(u >>> 56).setWidth 8, (u >>> 48).setWidth 8, (u >>> 40).setWidth 8, (u >>> 32).setWidth 8,
          (u >>> 24).setWidth 8, (u >>> 16).setWidth 8, (u >>> 8).setWidth 8, u.setWidth 8]
def appendInt64 (dst : Bytes) (i : BitVec 64) : Bytes := appendUint64 dst i
/-- `math.Float64bits` is the identity on the 64 bits; a float64 is represented by its bits. -/
def appendFloat64 (dst : Bytes) (bits : BitVec 64) : Bytes := appendUint64 dst bits
/-- `[16]byte`: callers pass a list of length 16. -/
def appendUuid (dst : Bytes) (uuid : Bytes) : Bytes := dst ++ uuid

/-! ## Varint encoders: the `switch UvarintLen(u)` -/

/-- `byte((u>>k)&0x7f|0x80)` -/
def cont32 (u : BitVec 32) (k : Nat) : Byte := (((u >>> k) &&& 0x7f#32) ||| 0x80#32).setWidth 8
def cont64 (u : BitVec 64) (k : Nat) : Byte := (((u >>> k) &&& 0x7f#64) ||| 0x80#64).setWidth 8
/-- `byte(u&0x7f|0x80)` -/
def cont32_0 (u : BitVec 32) : Byte := ((u &&& 0x7f#32) ||| 0x80#32).setWidth 8
def cont64_0 (u : BitVec 64) : Byte := ((u &&& 0x7f#64) ||| 0x80#64).setWidth 8
/-- `byte(u>>k)` -/
def last32 (u : BitVec 32) (k : Nat) : Byte := (u >>> k).setWidth 8
def last64 (u : BitVec 64) (k : Nat) : Byte := (u >>> k).setWidth 8

def appendUvarint (dst : Bytes) (u : BitVec 32) : Bytes :=
  match uvarintLen u with
  | 5 => dst ++ [cont32_0 u, cont32 u 7, cont32 u 14, cont32 u 21, last32 u 28]
  | 4 => dst ++ [cont32_0 u, cont32 u 7, cont32 u 14, last32 u 21]
  | 3 => dst ++ [cont32_0 u, cont32 u 7, last32 u 14]
  | 2 => dst ++ [cont32_0 u, last32 u 7]
  | 1 => dst ++ [u.setWidth 8]
  | _ => dst

def appendVarint (dst : Bytes) (i : BitVec 32) : Bytes := appendUvarint dst (zigzag32 i)

def appendUvarlong (dst : Bytes) (u : BitVec 64) : Bytes :=
  match uvarlongLen u with
  | 10 => dst ++ [cont64_0 u, cont64 u 7, cont64 u 14, cont64 u 21, cont64 u 28, cont64 u 35, cont64 u 42,
                  cont64 u 49, cont64 u 56, last64 u 63]
  | 9 => dst ++ [cont64_0 u, cont64 u 7, cont64 u 14, cont64 u 21, cont64 u 28, cont64 u 35, cont64 u 42,
                 cont64 u 49, last64 u 56]
  | 8 => dst ++ [cont64_0 u, cont64 u 7, cont64 u 14, cont64 u 21, cont64 u 28, cont64 u 35, cont64 u 42, last64 u 49]
  | 7 => dst ++ [cont64_0 u, cont64 u 7, cont64 u 14, cont64 u 21, cont64 u 28, cont64 u 35, last64 u 42]
  | 6 => dst ++ [cont64_0 u, cont64 u 7, cont64 u 14, cont64 u 21, cont64 u 28, last64 u 35]
  | 5 => dst ++ [cont64_0 u, cont64 u 7, cont64 u 14, cont64 u 21, last64 u 28]
  | 4 => dst ++ [cont64_0 u, cont64 u 7, cont64 u 14, last64 u 21]
  | 3 => dst ++ [cont64_0 u, cont64 u 7, last64 u 14]
  | 2 => dst ++ [cont64_0 u, last64 u 7]
  | 1 => dst ++ [u.setWidth 8]
  | _ => dst

def appendVarlong (dst : Bytes) (i : BitVec 64) : Bytes := appendUvarlong dst (zigzag64 i)

/-! ## The unrolled decoders. Result `(x, n)`; `none` = index out of range (panic). -/

/-- `uint32(b&0x7f)` -/
def m32 (b : Byte) : BitVec 32 := (b &&& 0x7f#8).setWidth 32
def m64 (b : Byte) : BitVec 64 := (b &&& 0x7f#8).setWidth 64
/-- `uint32(b&0x7f) << k` -/
def lo32 (b : Byte) (k : Nat) : BitVec 32 := m32 b <<< k
def lo64 (b : Byte) (k : Nat) : BitVec 64 := m64 b <<< k
/-- `b&0x80 == 0` -/
def fin (b : Byte) : Bool := (b &&& 0x80#8) == 0#8

/-- `uintN(b) << k` -/
def up16 (b : Byte) (k : Nat) : BitVec 16 := (b.setWidth 16) <<< k
def up32 (b : Byte) (k : Nat) : BitVec 32 := (b.setWidth 32) <<< k
def up64 (b : Byte) (k : Nat) : BitVec 64 := (b.setWidth 64) <<< k

def uvarint (inp : Bytes) : Option (BitVec 32 × Int) :=
  if inp.length < 1 then some (0, 0) else
  (idx? inp 0).bind fun b0 =>
  let x := m32 b0
  if fin b0 then some (x, 1) else if inp.length < 2 then some (0, 0) else
  (idx? inp 1).bind fun b1 =>
  let x := x ||| lo32 b1 7
  if fin b1 then some (x, 2) else if inp.length < 3 then some (0, 0) else
  (idx? inp 2).bind fun b2 =>
  let x := x ||| lo32 b2 14
  if fin b2 then some (x, 3) else if inp.length < 4 then some (0, 0) else
  (idx? inp 3).bind fun b3 =>
  let x := x ||| lo32 b3 21
  if fin b3 then some (x, 4) else if inp.length < 5 then some (0, 0) else
  (idx? inp 4).bind fun b4 =>
  let x := x ||| up32 b4 28
  if b4 ≤ 0x0f#8 then some (x, 5) else some (0, -5)

def varint (inp : Bytes) : Option (BitVec 32 × Int) :=
  (uvarint inp).map fun (x, n) => (unzigzag32 x, n)

def uvarlong (inp : Bytes) : Option (BitVec 64 × Int) :=
  if inp.length < 1 then some (0, 0) else
  (idx? inp 0).bind fun b0 =>
  let x := m64 b0
  if fin b0 then some (x, 1) else if inp.length < 2 then some (0, 0) else
  (idx? inp 1).bind fun b1 =>
  let x := x ||| lo64 b1 7
  if fin b1 then some (x, 2) else if inp.length < 3 then some (0, 0) else
  (idx? inp 2).bind fun b2 =>
  let x := x ||| lo64 b2 14
  if fin b2 then some (x, 3) else if inp.length < 4 then some (0, 0) else
  (idx? inp 3).bind fun b3 =>
  let x := x ||| lo64 b3 21
  if fin b3 then some (x, 4) else if inp.length < 5 then some (0, 0) else
  (idx? inp 4).bind fun b4 =>
  let x := x ||| lo64 b4 28
  if fin b4 then some (x, 5) else if inp.length < 6 then some (0, 0) else
  (idx? inp 5).bind fun b5 =>
  let x := x ||| lo64 b5 35
  if fin b5 then some (x, 6) else if inp.length < 7 then some (0, 0) else
  (idx? inp 6).bind fun b6 =>
  let x := x ||| lo64 b6 42
  if fin b6 then some (x, 7) else if inp.length < 8 then some (0, 0) else
  (idx? inp 7).bind fun b7 =>
  let x := x ||| lo64 b7 49
  if fin b7 then some (x, 8) else if inp.length < 9 then some (0, 0) else
  (idx? inp 8).bind fun b8 =>
  let x := x ||| lo64 b8 56
  if fin b8 then some (x, 9) else if inp.length < 10 then some (0, 0) else
  (idx? inp 9).bind fun b9 =>
  let x := x ||| up64 b9 63
  if b9 ≤ 0x01#8 then some (x, 10) else some (0, -10)

def varlong (inp : Bytes) : Option (BitVec 64 × Int) :=
  (uvarlong inp).map fun (x, n) => (unzigzag64 x, n)

/-! ## Length-prefixed encoders. `len(s)` is a Go `int`; the conversions truncate. -/

def appendString (dst : Bytes) (s : Bytes) : Bytes := appendInt16 dst (BitVec.ofNat 16 s.length) ++ s
def appendCompactString (dst : Bytes) (s : Bytes) : Bytes := appendUvarint dst (1#32 + BitVec.ofNat 32 s.length) ++ s
def appendNullableString (dst : Bytes) (s : Option Bytes) : Bytes :=
  match s with | none => appendInt16 dst (-1#16) | some s => appendString dst s
def appendCompactNullableString (dst : Bytes) (s : Option Bytes) : Bytes :=
  match s with | none => appendUvarint dst 0#32 | some s => appendCompactString dst s
def appendBytes (dst : Bytes) (b : Bytes) : Bytes := appendInt32 dst (BitVec.ofNat 32 b.length) ++ b
def appendCompactBytes (dst : Bytes) (b : Bytes) : Bytes := appendUvarint dst (1#32 + BitVec.ofNat 32 b.length) ++ b
def appendNullableBytes (dst : Bytes) (b : Option Bytes) : Bytes :=
  match b with | none => appendInt32 dst (-1#32) | some b => appendBytes dst b
def appendCompactNullableBytes (dst : Bytes) (b : Option Bytes) : Bytes :=
  match b with | none => appendUvarint dst 0#32 | some b => appendCompactBytes dst b
def appendVarintString (dst : Bytes) (s : Bytes) : Bytes := appendVarint dst (BitVec.ofNat 32 s.length) ++ s
def appendVarintBytes (dst : Bytes) (b : Option Bytes) : Bytes :=
  match b with | none => appendVarint dst (-1#32) | some b => appendVarint dst (BitVec.ofNat 32 b.length) ++ b
/-- `l` is a Go `int` -/
def appendArrayLen (dst : Bytes) (l : Int) : Bytes := appendInt32 dst (BitVec.ofInt 32 l)
def appendCompactArrayLen (dst : Bytes) (l : Int) : Bytes := appendUvarint dst (1#32 + BitVec.ofInt 32 l)
def appendNullableArrayLen (dst : Bytes) (l : Int) (isNil : Bool) : Bytes :=
  if isNil then appendInt32 dst (-1#32) else appendInt32 dst (BitVec.ofInt 32 l)
def appendCompactNullableArrayLen (dst : Bytes) (l : Int) (isNil : Bool) : Bytes :=
  if isNil then appendUvarint dst 0#32 else appendUvarint dst (1#32 + BitVec.ofInt 32 l)

/-! ## Reader. `srcNil` records whether `Src` is the nil slice (observable through `Span(0)`, hence
through `Bytes`/`NullableBytes`/… returning nil vs empty). Invariant: `srcNil → src = []`. -/

structure Reader where
  src : Bytes
  srcNil : Bool := false
  bad : Bool := false
deriving DecidableEq, Repr

/-- `b.bad = true; b.Src = nil` -/
def Reader.invalid : Reader := { src := [], srcNil := true, bad := true }

/-- `b.Src = b.Src[n:]` (a nil slice stays nil: only `nil[0:]` does not panic) -/
def Reader.advance (r : Reader) (n : Nat) : Option Reader :=
  (from? r.src n).map fun s => { r with src := s }

/-- `binary.BigEndian.Uint16(s)`: panics (`_ = b[1]`) when short -/
def beU16? (s : Bytes) : Option (BitVec 16) :=
  (idx? s 1).bind fun b1 => (idx? s 0).map fun b0 => up16 b1 0 ||| up16 b0 8
def beU32? (s : Bytes) : Option (BitVec 32) :=
  (idx? s 3).bind fun b3 => (idx? s 2).bind fun b2 => (idx? s 1).bind fun b1 => (idx? s 0).map fun b0 =>
    up32 b3 0 ||| up32 b2 8 ||| up32 b1 16 ||| up32 b0 24
def beU64? (s : Bytes) : Option (BitVec 64) :=
  (idx? s 7).bind fun b7 => (idx? s 6).bind fun b6 => (idx? s 5).bind fun b5 => (idx? s 4).bind fun b4 =>
  (idx? s 3).bind fun b3 => (idx? s 2).bind fun b2 => (idx? s 1).bind fun b1 => (idx? s 0).map fun b0 =>
    up64 b7 0 ||| up64 b6 8 ||| up64 b5 16 ||| up64 b4 24 ||| up64 b3 32 ||| up64 b2 40 ||| up64 b1 48 ||| up64 b0 56

namespace Reader

def bool (r : Reader) : Option (Bool × Reader) :=
  if r.src.length < 1 then some (false, invalid) else
  (idx? r.src 0).bind fun b0 => (r.advance 1).map fun r' => (b0 != 0#8, r')

def int8 (r : Reader) : Option (BitVec 8 × Reader) :=
  if r.src.length < 1 then some (0, invalid) else
  (idx? r.src 0).bind fun b0 => (r.advance 1).map fun r' => (b0, r')

def uint16 (r : Reader) : Option (BitVec 16 × Reader) :=
  if r.src.length < 2 then some (0, invalid) else
  (beU16? r.src).bind fun v => (r.advance 2).map fun r' => (v, r')
def int16 (r : Reader) : Option (BitVec 16 × Reader) := uint16 r

def uint32 (r : Reader) : Option (BitVec 32 × Reader) :=
  if r.src.length < 4 then some (0, invalid) else
  (beU32? r.src).bind fun v => (r.advance 4).map fun r' => (v, r')
def int32 (r : Reader) : Option (BitVec 32 × Reader) := uint32 r

def readUint64 (r : Reader) : Option (BitVec 64 × Reader) :=
  if r.src.length < 8 then some (0, invalid) else
  (beU64? r.src).bind fun v => (r.advance 8).map fun r' => (v, r')
def int64 (r : Reader) : Option (BitVec 64 × Reader) := readUint64 r
/-- the float64 is represented by its 64 bits (`math.Float64frombits` modelled as the identity) -/
def float64 (r : Reader) : Option (BitVec 64 × Reader) := readUint64 r

/-- shared tail of `Varint`/`Varlong`/`Uvarint`: `if n <= 0 { bad } ; b.Src = b.Src[n:]` -/
def afterVar {w : Nat} (r : Reader) (res : BitVec w × Int) : Option (BitVec w × Reader) :=
  if res.2 ≤ 0 then some (0, invalid) else (r.advance res.2.toNat).map fun r' => (res.1, r')

def varint (r : Reader) : Option (BitVec 32 × Reader) := (Model.C17.varint r.src).bind (afterVar r)
def varlong (r : Reader) : Option (BitVec 64 × Reader) := (Model.C17.varlong r.src).bind (afterVar r)
def uvarint (r : Reader) : Option (BitVec 32 × Reader) := (Model.C17.uvarint r.src).bind (afterVar r)

/-- `Span(l)`; result `none` = nil slice. `r := b.Src[:l:l]` is nil exactly when `Src` is nil (then `l = 0`). -/
def span (r : Reader) (l : Int) : Option (Option Bytes × Reader) :=
  if (r.src.length : Int) < l ∨ l < 0 then some (none, invalid) else
  (upto? r.src l.toNat).bind fun s => (r.advance l.toNat).map fun r' =>
    (if r.srcNil then none else some s, r')

/-- `copy(r[:], b.Span(16))`: 16 zero bytes when the span fails -/
def uuid (r : Reader) : Option (Bytes × Reader) :=
  (r.span 16).map fun (s, r') => (match s with | some s => s | none => List.replicate 16 0#8, r')

/-- `string(x)`: nil and empty are the same string -/
def str (s : Option Bytes) : Bytes := s.getD []

def string (r : Reader) : Option (Bytes × Reader) :=
  (r.int16).bind fun (l, r1) => (r1.span l.toInt).map fun (s, r2) => (str s, r2)

/-- `int(b.Uvarint()) - 1` with a 64-bit `int` -/
def uvm1 (u : BitVec 32) : Int := (u.toNat : Int) - 1

def compactString (r : Reader) : Option (Bytes × Reader) :=
  (r.uvarint).bind fun (u, r1) => (r1.span (uvm1 u)).map fun (s, r2) => (str s, r2)

/-- result `none` = nil `*string` -/
def nullableString (r : Reader) : Option (Option Bytes × Reader) :=
  (r.int16).bind fun (l, r1) =>
    if l.toInt < 0 then some (none, r1) else (r1.span l.toInt).map fun (s, r2) => (some (str s), r2)

def compactNullableString (r : Reader) : Option (Option Bytes × Reader) :=
  (r.uvarint).bind fun (u, r1) =>
    if uvm1 u < 0 then some (none, r1) else (r1.span (uvm1 u)).map fun (s, r2) => (some (str s), r2)

/-- result `none` = nil slice -/
def bytes (r : Reader) : Option (Option Bytes × Reader) :=
  (r.int32).bind fun (l, r1) => if l.toInt = -1 then some (some [], r1) else r1.span l.toInt

def compactBytes (r : Reader) : Option (Option Bytes × Reader) :=
  (r.uvarint).bind fun (u, r1) => if uvm1 u = -1 then some (some [], r1) else r1.span (uvm1 u)

def nullableBytes (r : Reader) : Option (Option Bytes × Reader) :=
  (r.int32).bind fun (l, r1) => if l.toInt < 0 then some (none, r1) else r1.span l.toInt

def compactNullableBytes (r : Reader) : Option (Option Bytes × Reader) :=
  (r.uvarint).bind fun (u, r1) => if uvm1 u < 0 then some (none, r1) else r1.span (uvm1 u)

/-- shared tail of the `*ArrayLen` methods: `if len(b.Src) < int(r) { bad; return 0 }; return r` -/
def arrayTail (r1 : Reader) (v : BitVec 32) : BitVec 32 × Reader :=
  if (r1.src.length : Int) < v.toInt then (0, invalid) else (v, r1)

def arrayLen (r : Reader) : Option (BitVec 32 × Reader) :=
  (r.int32).map fun (v, r1) => arrayTail r1 v
def varintArrayLen (r : Reader) : Option (BitVec 32 × Reader) :=
  (r.varint).map fun (v, r1) => arrayTail r1 v
/-- `int32(b.Uvarint()) - 1`: int32 arithmetic, wraps -/
def compactArrayLen (r : Reader) : Option (BitVec 32 × Reader) :=
  (r.uvarint).map fun (u, r1) => arrayTail r1 (u - 1#32)

def varintBytes (r : Reader) : Option (Option Bytes × Reader) :=
  (r.varint).bind fun (l, r1) => if l.toInt < 0 then some (none, r1) else r1.span l.toInt

def varintString (r : Reader) : Option (Bytes × Reader) :=
  (r.varintBytes).map fun (s, r') => (str s, r')

/-- `Ok()`; `Complete()` returns `ErrNotEnoughData` iff `!Ok()` -/
def ok (r : Reader) : Bool := !r.bad

end Reader

end Model.C17
