/-! Transaction monitors: `Model.Txn` for C11 (transaction end results are truthful, `txn` scenarios) and
`Model.Eos` for C10 (GroupTransactSession exactly-once pipelines, `eos` scenarios), `Model.TxnOffsets` for the
offsets half of C11 (GroupTransactSession.End commits or does not commit the consumed offsets, `tofs` scenarios).
`check` returns the rule an event breaks. Core Lean only. -/
namespace Model.Txn

abbrev Id := Nat

inductive Ev where
  | begin_ (k : Nat) (ok : Bool)
  | produce (id : Id) (k : Nat) (part : Nat)
  | promise (id : Id) (ok : Bool) (part : Nat) (off : Int)
  | endStart (k : Nat) (commit : Bool)
  | endDone (k : Nat) (commit : Bool) (ok : Bool)
  | visible (part off : Nat) (id : Id)          -- read_committed view at the end
  | raw (part off : Nat) (id : Id)              -- read_uncommitted view at the end
  | fault (key : Nat) (act : Nat)               -- an injected fault: act 2 = the broker handled the request, the response was dropped
  | incomplete
  | quiesce
deriving DecidableEq, Repr

structure St where
  ending : Option Nat := none                    -- the transaction whose EndTransaction call is in progress
  lostEnd : List Nat := []                       -- transactions one of whose EndTxn requests was handled by the broker but its response lost
  recs : List (Id × Nat × Nat) := []             -- (id, txn, part)
  acked : List Id := []                           -- ids whose promise reported success
  results : List (Nat × Bool × Bool) := []        -- (txn, commit requested, End returned nil)
  vis : List (Nat × Nat × Id) := []
  incomplete : Bool := false
  quiet : Bool := false
deriving Repr

def txnOf (s : St) (id : Id) : Option Nat := (s.recs.find? (·.1 == id)).map (·.2.1)
def resultOf (s : St) (k : Nat) : Option (Bool × Bool) := (s.results.find? (·.1 == k)).map (·.2)

def check (s : St) : Ev → Option String
  | .begin_ _ _ => none
  | .produce id _ _ => if s.recs.any (·.1 == id) then some "C11.harness-id-reused" else none
  | .promise id _ _ _ => if s.recs.any (·.1 == id) then none else some "C11.promise-for-unknown-record"
  | .endStart _ _ => none
  | .endDone k _ _ => if s.results.any (·.1 == k) then some "C11.harness-transaction-ended-twice" else none
  | .visible _ _ id =>
    match txnOf s id with
    | none => some "C11.visible-record-never-produced"
    | some k =>
      if s.vis.any (·.2.2 == id) then some "C11.record-visible-twice"
      else match resultOf s k with
        -- End reported a successful commit: its records are committed
        | some (true, true) => none
        -- End reported an abort: none of its records ever become visible
        | some (false, _) => some "C11.aborted-transaction-record-visible"
        -- End reported an error: none of its records ever become visible, not even through a later commit.
        -- (An error after the broker handled an EndTxn whose response was lost is the client's documented
        -- "outcome unconfirmed" case; it gets its own key so that any other class is still reported.)
        | some (true, false) => if s.lostEnd.contains k then some "C11.unconfirmed-commit-took-effect" else some "C11.failed-commit-record-visible"
        -- the transaction was never ended by this client (it restarted): never silently merged into a later one
        | none => some "C11.unended-transaction-record-visible"
  | .raw _ _ _ => none
  | .fault _ _ => none
  | .incomplete => none
  | .quiesce =>
    if s.incomplete then none
    -- a successful commit makes every acknowledged record of the transaction visible
    else if s.recs.any (fun r => s.acked.contains r.1 && resultOf s r.2.1 == some (true, true) && !s.vis.any (·.2.2 == r.1)) then
      some "C11.committed-record-not-visible"
    else none

def apply (s : St) : Ev → St
  | .begin_ _ _ => s
  | .produce id k part => { s with recs := (id, k, part) :: s.recs }
  | .promise id ok _ _ => if ok then { s with acked := id :: s.acked } else s
  | .endStart k _ => { s with ending := some k }
  | .endDone k commit ok => { s with results := (k, commit, ok) :: s.results, ending := none }
  | .visible part off id => { s with vis := (part, off, id) :: s.vis }
  | .raw _ _ _ => s
  | .fault key act =>
    match s.ending with
    | some k => if key == 26 && act == 2 then { s with lostEnd := k :: s.lostEnd } else s
    | none => s
  | .incomplete => { s with incomplete := true }
  | .quiesce => { s with quiet := true }

def step (s : St) (e : Ev) : Option St := match check s e with | none => some (apply s e) | some _ => none
def run : St → List Ev → Option St
  | s, [] => some s
  | s, e :: es => match step s e with | some s' => run s' es | none => none
def accepts (h : List Ev) : Bool := (run {} h).isSome

end Model.Txn

namespace Model.Eos

abbrev Id := Nat

inductive Ev where
  | input (id : Id)
  | memberStart (m : Nat) | memberStop (m : Nat)
  | batch (m t : Nat) (ids : List Id)                 -- transaction t of member m transforms these input records
  | endStart (m t : Nat) (commit : Bool)
  | endDone (m t : Nat) (res : Nat)                   -- 0 committed, 1 aborted, 2 error
  | output (off : Nat) (id : Id) (part : Nat) (t : Nat)   -- read_committed view of the output topic
  | incomplete
  | quiesce
deriving DecidableEq, Repr

structure St where
  inputs : List Id := []
  batches : List (Nat × List Id) := []               -- (t, ids)
  results : List (Nat × Nat) := []                   -- (t, res)
  outs : List (Id × Nat) := []                       -- (id, t)
  incomplete : Bool := false
  quiet : Bool := false
deriving Repr

def check (s : St) : Ev → Option String
  | .input id => if s.inputs.contains id then some "C10.harness-input-reused" else none
  | .memberStart _ => none
  | .memberStop _ => none
  | .batch _ t ids =>
    if s.batches.any (·.1 == t) then some "C10.harness-transaction-reused"
    else if ids.any (fun i => !s.inputs.contains i) then some "C10.polled-record-that-is-not-an-input" else none
  | .endStart _ _ _ => none
  | .endDone _ t _ => if s.batches.any (·.1 == t) then none else some "C10.end-of-unknown-transaction"
  | .output _ id _ t =>
    -- the read_committed view holds every input's output exactly once (what End reported for the writing
    -- transaction is C11's business: an unconfirmed End whose commit took effect also committed the
    -- consumed offsets, so the input is not processed again)
    if !s.inputs.contains id then some "C10.output-for-unknown-input"
    else if s.outs.any (·.1 == id) then some "C10.output-duplicated"
    else match s.batches.find? (·.1 == t) with
      | none => some "C10.output-of-unknown-transaction"
      | some (_, ids) => if !ids.contains id then some "C10.output-not-in-its-transaction" else none
  | .incomplete => none
  | .quiesce =>
    if s.incomplete then none
    else if s.inputs.any (fun i => !s.outs.any (·.1 == i)) then some "C10.input-without-output"
    else none

def apply (s : St) : Ev → St
  | .input id => { s with inputs := id :: s.inputs }
  | .memberStart _ => s
  | .memberStop _ => s
  | .batch _ t ids => { s with batches := (t, ids) :: s.batches }
  | .endStart _ _ _ => s
  | .endDone _ t res => { s with results := (t, res) :: s.results }
  | .output _ id _ t => { s with outs := (id, t) :: s.outs }
  | .incomplete => { s with incomplete := true }
  | .quiesce => { s with quiet := true }

def step (s : St) (e : Ev) : Option St := match check s e with | none => some (apply s e) | some _ => none
def run : St → List Ev → Option St
  | s, [] => some s
  | s, e :: es => match step s e with | some s' => run s' es | none => none
def accepts (h : List Ev) : Bool := (run {} h).isSome

end Model.Eos

namespace Model.TxnOffsets

/-! The offsets half of C11, `tofs` scenarios: GroupTransactSession members consume an input topic; each
transaction `t` polls some records (and so *sets out to commit* offset `last polled + 1` on every partition it
polled from: the `want` events), produces zero or more output records, and calls End. Right after End returns the
harness reads the group's committed offsets with a separate plain client (`observe`, one event per input
partition; `-1` = no committed offset) and the coordinator's state for the transactional id (`coord`).

Rules, from the property text:
* End reported a successful commit of `t` ⇒ the offsets observed right after it are, on every partition `t` polled
  from, at least what `t` set out to commit (exactly that when the scenario has a single member), and the
  coordinator has no open transaction for the id;
* an observed committed offset is always one that a transaction whose End *reported a successful commit* set out to
  commit (or `-1`): never the offset of a transaction whose End reported an abort or an error, or that the client
  never ended — also not later, through another transaction's commit. (With several members, a transaction whose
  End(TryCommit) call is in progress on another member when the observation is logged also counts.)
  An End(TryCommit) that reported an error after the broker handled one of its EndTxn(commit) requests and the
  response was lost is the listed finding `C11.unconfirmed-commit-took-effect`;
* single member: End reported an abort or an error ⇒ the observed offsets are those of the previous observation;
* the output records follow the rules of `Model.Txn` (visible only if End reported a successful commit; every
  acknowledged record of such a transaction visible at the end). -/

abbrev Id := Nat

inductive Res where
  | committed | aborted | error
deriving DecidableEq, Repr

inductive Ev where
  | memberStart (m slot : Nat)
  | memberStop (m : Nat)
  | memberKill (m t : Nat)                        -- the member was closed inside transaction t without calling End (a crash/restart)
  | begin_ (m t : Nat) (ok : Bool)
  | want (t part : Nat) (off : Int)               -- t polled from `part`; it sets out to commit `off` = last polled offset + 1
  | produce (t : Nat) (id : Id)
  | promise (id : Id) (ok : Bool)
  | endStart (m t : Nat) (commit : Bool)
  | endDone (m t : Nat) (res : Res)
  | retry (m t : Nat) (res : Res)                 -- the application retried End(TryAbort) after End reported an error
  | observe (m t part : Nat) (off : Int)          -- group committed offset of `part` read right after the End (or retry) of t returned
  | coord (m t : Nat) (isOpen : Bool)             -- the coordinator's state of the transactional id right after End returned
  | fault (key act t : Nat) (commit : Bool)       -- fault on a request of transaction t; act 2 = handled, response dropped; commit = the request is EndTxn(commit)
  | final (part : Nat) (off : Int)                -- group committed offset at the end of the scenario
  | output (part off : Nat) (id : Id)             -- read_committed view of the output topic at the end
  | incomplete
  | quiesce
deriving DecidableEq, Repr

structure St where
  single : Bool := false                          -- the scenario has one member slot (transactions are sequential)
  wants : List (Nat × Nat × Int) := []            -- (t, part, off)
  started : List (Nat × Bool) := []               -- (t, commit requested): End was called
  ending : List Nat := []                         -- End(TryCommit) calls in progress
  results : List (Nat × Res) := []
  lostEnd : List Nat := []                        -- an EndTxn(commit) of the End call was handled by the broker, its response lost
  obs : List (Nat × Nat × Int) := []              -- observations (t, part, off) made right after the End of t, newest first
  recs : List (Id × Nat) := []                    -- (id, t)
  acked : List Id := []
  vis : List Id := []
  incomplete : Bool := false
  quiet : Bool := false
deriving Repr

def resultOf (s : St) (t : Nat) : Option Res := (s.results.find? (·.1 == t)).map (·.2)
def wantOf (s : St) (t part : Nat) : Option Int := (s.wants.find? (fun w => w.1 == t && w.2.1 == part)).map (·.2.2)
def txnOf (s : St) (id : Id) : Option Nat := (s.recs.find? (·.1 == id)).map (·.2)
/-- the most recent observation of `part` (`-1`: never observed, nothing is committed at the start) -/
def lastOf (s : St) (part : Nat) : Int := match s.obs.find? (·.2.1 == part) with | some x => x.2.2 | none => -1

/-- may the offsets of `t` be committed, as far as the history so far tells: End reported a successful commit, or
(several members only) an End(TryCommit) of `t` is in progress and has not reported yet -/
def mayCommit (s : St) (t : Nat) : Bool :=
  resultOf s t == some .committed || (!s.single && s.ending.contains t && resultOf s t == none)

/-- the committed offset `off` of `part` is explained by the history so far -/
def justified (s : St) (part : Nat) (off : Int) : Bool :=
  off == -1 || s.wants.any (fun w => w.2.1 == part && w.2.2 == off && mayCommit s w.1)

/-- the key under which an unexplained committed offset is refused: by the kind of transaction that set out to commit it -/
def classKey (s : St) (part : Nat) (off : Int) : String :=
  let ts := (s.wants.filter (fun w => w.2.1 == part && w.2.2 == off)).map (·.1)
  if ts.any (fun t => resultOf s t == some .error && s.lostEnd.contains t) then "C11.unconfirmed-commit-took-effect"
  else if ts.any (fun t => resultOf s t == some .aborted) then "C11.aborted-transaction-offsets-committed"
  else if ts.any (fun t => resultOf s t == some .error) then "C11.failed-commit-offsets-committed"
  else if ts.isEmpty then "C11.observed-offset-never-requested"
  else "C11.unended-transaction-offsets-committed"

def check (s : St) : Ev → Option String
  | .memberStart _ _ => none
  | .memberStop _ => none
  | .memberKill _ _ => none
  | .begin_ _ _ _ => none
  | .want t part _ =>
    if s.started.any (·.1 == t) then some "C11.harness-want-after-end"
    else if s.wants.any (fun w => w.1 == t && w.2.1 == part) then some "C11.harness-want-twice" else none
  | .produce _ id => if s.recs.any (·.1 == id) then some "C11.harness-id-reused" else none
  | .promise id _ => if s.recs.any (·.1 == id) then none else some "C11.promise-for-unknown-record"
  | .endStart _ t _ => if s.started.any (·.1 == t) then some "C11.harness-transaction-ended-twice" else none
  | .endDone _ t res =>
    if s.results.any (·.1 == t) then some "C11.harness-transaction-ended-twice"
    else match s.started.find? (·.1 == t) with
      | none => some "C11.harness-end-result-without-call"
      | some (_, commit) => if res == .committed && !commit then some "C11.commit-reported-for-abort-request" else none
  | .retry _ _ _ => none
  | .observe _ t part off =>
    -- an observed committed offset was set by a transaction whose End reported a successful commit
    if !justified s part off then some (classKey s part off)
    else match resultOf s t with
      | none => some "C11.harness-observation-without-result"
      -- End reported a successful commit: the offsets the transaction set out to commit are committed
      | some .committed =>
        (match wantOf s t part with
         | none => none
         | some w => if off < w then some "C11.committed-offsets-not-committed"
                     else if s.single && off != w then some "C11.committed-offsets-differ" else none)
      -- End reported an abort / an error: the committed offsets are unchanged (single member: nobody else commits)
      | some .aborted => if s.single && off != lastOf s part then some "C11.aborted-transaction-changed-offsets" else none
      | some .error => if s.single && off != lastOf s part then some "C11.failed-commit-changed-offsets" else none
  | .coord _ t isOpen =>
    match resultOf s t with
    | none => some "C11.harness-observation-without-result"
    -- End reported a successful commit: the coordinator has no open transaction for the id
    | some r => if isOpen && r == .committed then some "C11.committed-end-left-transaction-open" else none
  | .fault _ _ _ _ => none
  | .final part off => if !justified s part off then some (classKey s part off) else none
  | .output _ _ id =>
    match txnOf s id with
    | none => some "C11.visible-record-never-produced"
    | some t =>
      if s.vis.contains id then some "C11.record-visible-twice"
      else match resultOf s t with
        | some .committed => none
        | some .aborted => some "C11.aborted-transaction-record-visible"
        | some .error => if s.lostEnd.contains t then some "C11.unconfirmed-commit-took-effect" else some "C11.failed-commit-record-visible"
        | none => some "C11.unended-transaction-record-visible"
  | .incomplete => none
  | .quiesce =>
    if s.incomplete then none
    else if s.recs.any (fun r => s.acked.contains r.1 && resultOf s r.2 == some .committed && !s.vis.contains r.1) then
      some "C11.committed-record-not-visible"
    -- every transaction whose End reported a successful commit was observed on every partition it polled from
    else if s.wants.any (fun w => resultOf s w.1 == some .committed && !s.obs.any (fun o => o.1 == w.1 && o.2.1 == w.2.1)) then
      some "C11.harness-committed-transaction-not-observed"
    else none

def apply (s : St) : Ev → St
  | .memberStart _ _ => s
  | .memberStop _ => s
  | .memberKill _ _ => s
  | .begin_ _ _ _ => s
  | .want t part off => { s with wants := (t, part, off) :: s.wants }
  | .produce t id => { s with recs := (id, t) :: s.recs }
  | .promise id ok => if ok then { s with acked := id :: s.acked } else s
  | .endStart _ t commit => { s with started := (t, commit) :: s.started, ending := if commit then t :: s.ending else s.ending }
  | .endDone _ t res => { s with results := (t, res) :: s.results, ending := s.ending.filter (· != t) }
  | .retry _ _ _ => s
  | .observe _ t part off => { s with obs := (t, part, off) :: s.obs }
  | .coord _ _ _ => s
  | .fault key act t commit =>
    if key == 26 && act == 2 && commit && s.ending.contains t then { s with lostEnd := t :: s.lostEnd } else s
  | .final _ _ => s
  | .output _ _ id => { s with vis := id :: s.vis }
  | .incomplete => { s with incomplete := true }
  | .quiesce => { s with quiet := true }

def step (s : St) (e : Ev) : Option St := match check s e with | none => some (apply s e) | some _ => none
def run : St → List Ev → Option St
  | s, [] => some s
  | s, e :: es => match step s e with | some s' => run s' es | none => none
/-- `single` = the scenario has one member slot -/
def accepts (single : Bool) (h : List Ev) : Bool := (run { single := single } h).isSome

end Model.TxnOffsets
