/-! Transaction monitors: `Model.Txn` for C11 (transaction end results are truthful, `txn` scenarios) and
`Model.Eos` for C10 (GroupTransactSession exactly-once pipelines, `eos` scenarios). `check` returns the rule
an event breaks. Core Lean only. -/
namespace Model.Txn

abbrev Id := Nat

inductive Ev where
  | begin_ (k : Nat) (ok : Bool)
  | produce (id : Id) (k : Nat) (part : Nat)
  | promise (id : Id) (ok : Bool) (part : Nat) (off : Int)
  | endStart (k : Nat) (commit : Bool)
  | endDone (k : Nat) (commit : Bool) (ok : Bool)
  | visible (part off : Nat) (id : Id)          -- read_committed view at the end
  | raw (part off : Nat) (id : Id)              -- read_uncommitted view at the end
  | fault (key : Nat) (act : Nat)               -- an injected fault: act 2 = the broker handled the request, the response was dropped
  | incomplete
  | quiesce
deriving DecidableEq, Repr

structure St where
  ending : Option Nat := none                    -- the transaction whose EndTransaction call is in progress
  lostEnd : List Nat := []                       -- transactions one of whose EndTxn requests was handled by the broker but its response lost
  recs : List (Id × Nat × Nat) := []             -- (id, txn, part)
  acked : List Id := []                           -- ids whose promise reported success
  results : List (Nat × Bool × Bool) := []        -- (txn, commit requested, End returned nil)
  vis : List (Nat × Nat × Id) := []
  incomplete : Bool := false
  quiet : Bool := false
deriving Repr

def txnOf (s : St) (id : Id) : Option Nat := (s.recs.find? (·.1 == id)).map (·.2.1)
def resultOf (s : St) (k : Nat) : Option (Bool × Bool) := (s.results.find? (·.1 == k)).map (·.2)

def check (s : St) : Ev → Option String
  | .begin_ _ _ => none
  | .produce id _ _ => if s.recs.any (·.1 == id) then some "C11.harness-id-reused" else none
  | .promise id _ _ _ => if s.recs.any (·.1 == id) then none else some "C11.promise-for-unknown-record"
  | .endStart _ _ => none
  | .endDone k _ _ => if s.results.any (·.1 == k) then some "C11.harness-transaction-ended-twice" else none
  | .visible _ _ id =>
    match txnOf s id with
    | none => some "C11.visible-record-never-produced"
    | some k =>
      if s.vis.any (·.2.2 == id) then some "C11.record-visible-twice"
      else match resultOf s k with
        -- End reported a successful commit: its records are committed
        | some (true, true) => none
        -- End reported an abort: none of its records ever become visible
        | some (false, _) => some "C11.aborted-transaction-record-visible"
        -- End reported an error: none of its records ever become visible, not even through a later commit.
        -- (An error after the broker handled an EndTxn whose response was lost is the client's documented
        -- "outcome unconfirmed" case; it gets its own key so that any other class is still reported.)
        | some (true, false) => if s.lostEnd.contains k then some "C11.unconfirmed-commit-took-effect" else some "C11.failed-commit-record-visible"
        -- the transaction was never ended by this client (it restarted): never silently merged into a later one
        | none => some "C11.unended-transaction-record-visible"
  | .raw _ _ _ => none
  | .fault _ _ => none
  | .incomplete => none
  | .quiesce =>
    if s.incomplete then none
    -- a successful commit makes every acknowledged record of the transaction visible
    else if s.recs.any (fun r => s.acked.contains r.1 && resultOf s r.2.1 == some (true, true) && !s.vis.any (·.2.2 == r.1)) then
      some "C11.committed-record-not-visible"
    else none

def apply (s : St) : Ev → St
  | .begin_ _ _ => s
  | .produce id k part => { s with recs := (id, k, part) :: s.recs }
  | .promise id ok _ _ => if ok then { s with acked := id :: s.acked } else s
  | .endStart k _ => { s with ending := some k }
  | .endDone k commit ok => { s with results := (k, commit, ok) :: s.results, ending := none }
  | .visible part off id => { s with vis := (part, off, id) :: s.vis }
  | .raw _ _ _ => s
  | .fault key act =>
    match s.ending with
    | some k => if key == 26 && act == 2 then { s with lostEnd := k :: s.lostEnd } else s
    | none => s
  | .incomplete => { s with incomplete := true }
  | .quiesce => { s with quiet := true }

def step (s : St) (e : Ev) : Option St := match check s e with | none => some (apply s e) | some _ => none
def run : St → List Ev → Option St
  | s, [] => some s
  | s, e :: es => match step s e with | some s' => run s' es | none => none
def accepts (h : List Ev) : Bool := (run {} h).isSome

end Model.Txn

namespace Model.Eos

abbrev Id := Nat

inductive Ev where
  | input (id : Id)
  | memberStart (m : Nat) | memberStop (m : Nat)
  | batch (m t : Nat) (ids : List Id)                 -- transaction t of member m transforms these input records
  | endStart (m t : Nat) (commit : Bool)
  | endDone (m t : Nat) (res : Nat)                   -- 0 committed, 1 aborted, 2 error
  | output (off : Nat) (id : Id) (part : Nat) (t : Nat)   -- read_committed view of the output topic
  | incomplete
  | quiesce
deriving DecidableEq, Repr

structure St where
  inputs : List Id := []
  batches : List (Nat × List Id) := []               -- (t, ids)
  results : List (Nat × Nat) := []                   -- (t, res)
  outs : List (Id × Nat) := []                       -- (id, t)
  incomplete : Bool := false
  quiet : Bool := false
deriving Repr

def check (s : St) : Ev → Option String
  | .input id => if s.inputs.contains id then some "C10.harness-input-reused" else none
  | .memberStart _ => none
  | .memberStop _ => none
  | .batch _ t ids =>
    if s.batches.any (·.1 == t) then some "C10.harness-transaction-reused"
    else if ids.any (fun i => !s.inputs.contains i) then some "C10.polled-record-that-is-not-an-input" else none
  | .endStart _ _ _ => none
  | .endDone _ t _ => if s.batches.any (·.1 == t) then none else some "C10.end-of-unknown-transaction"
  | .output _ id _ t =>
    -- the read_committed view holds every input's output exactly once (what End reported for the writing
    -- transaction is C11's business: an unconfirmed End whose commit took effect also committed the
    -- consumed offsets, so the input is not processed again)
    if !s.inputs.contains id then some "C10.output-for-unknown-input"
    else if s.outs.any (·.1 == id) then some "C10.output-duplicated"
    else match s.batches.find? (·.1 == t) with
      | none => some "C10.output-of-unknown-transaction"
      | some (_, ids) => if !ids.contains id then some "C10.output-not-in-its-transaction" else none
  | .incomplete => none
  | .quiesce =>
    if s.incomplete then none
    else if s.inputs.any (fun i => !s.outs.any (·.1 == i)) then some "C10.input-without-output"
    else none

def apply (s : St) : Ev → St
  | .input id => { s with inputs := id :: s.inputs }
  | .memberStart _ => s
  | .memberStop _ => s
  | .batch _ t ids => { s with batches := (t, ids) :: s.batches }
  | .endStart _ _ _ => s
  | .endDone _ t res => { s with results := (t, res) :: s.results }
  | .output _ id _ t => { s with outs := (id, t) :: s.outs }
  | .incomplete => { s with incomplete := true }
  | .quiesce => { s with quiet := true }

def step (s : St) (e : Ev) : Option St := match check s e with | none => some (apply s e) | some _ => none
def run : St → List Ev → Option St
  | s, [] => some s
  | s, e :: es => match step s e with | some s' => run s' es | none => none
def accepts (h : List Ev) : Bool := (run {} h).isSome

end Model.Eos
