import FranzVerif.Model.C25
/-! Line-protocol parsing and canonical printing shared by the C25 and C27 drivers (core Lean only). -/
namespace Model.C25.IO
open Model.C25


def splitNE (s : String) (sep : String) : List String :=
  if s == "-" || s == "" then [] else s.splitOn sep

def optStr (s : String) : Option String := if s == "-" then none else some (if s == "_" then "" else s)

def parseNats (s : String) : List Nat := ((s.splitOn ".").filter (· ≠ "")).filterMap (·.toNat?)

def parseOwned (s : String) : List (String × List Nat) :=
  (splitNE s "+").map fun e =>
    match e.splitOn ":" with
    | [t, ps] => (t, parseNats ps)
    | t :: _ => (t, [])
    | [] => ("", [])

def parseMember (s : String) : Option Member :=
  match s.splitOn "/" with
  | [id, inst, rack, gen, subs, owned] =>
    some { id := id, inst := optStr inst, rack := optStr rack, gen := gen.toInt?.getD (-1),
           topics := splitNE subs "+", owned := parseOwned owned }
  | _ => none

def parseMembers (s : String) : List Member := (splitNE s ";").filterMap parseMember

def parseTopics (s : String) : List (String × Nat) × List (String × List String) :=
  let es := (splitNE s ";").map fun e => e.splitOn ":"
  (es.filterMap fun e => match e with
      | t :: c :: _ => some (t, c.toNat?.getD 0)
      | _ => none,
   es.filterMap fun e => match e with
      | [t, _, r] => if r == "-" then none else some (t, (r.splitOn ".").map fun x => if x == "_" then "" else x)
      | _ => none)

def parseKMember (s : String) : Option KMember :=
  match s.splitOn "/" with
  | [id, inst, away, subs, target] =>
    some { id := id, inst := optStr inst, away := away == "1", subs := splitNE subs "+", target := parseOwned target }
  | _ => none

def parseKMembers (s : String) : List KMember := (splitNE s ";").filterMap parseKMember

def parsePlan (s : String) : List Triple :=
  (splitNE s ";").flatMap fun e =>
    match e.splitOn "=" with
    | [m, ts] => (splitNE ts ",").flatMap fun te =>
        match te.splitOn ":" with
        | [t, ps] => (parseNats ps).map fun p => (m, t, p)
        | _ => []
    | _ => []

def strLe (a b : String) : Bool := !(b < a)

def joinWith (sep : String) (l : List String) : String := sep.intercalate l

/-- canonical text of a plan over the given member ids (every id is printed, also with nothing assigned). -/
def showPlan (ids : List String) (plan : List Triple) : String :=
  let ids := (dedup ids).mergeSort strLe
  if ids.isEmpty then "-" else
  joinWith ";" <| ids.map fun m =>
    let mine := plan.filter (·.1 == m)
    let ts := (dedup (mine.map (·.2.1))).mergeSort strLe
    m ++ "=" ++ joinWith "," (ts.map fun t =>
      let ps := ((mine.filter (·.2.1 == t)).map (·.2.2)).mergeSort (fun a b => a ≤ b)
      t ++ ":" ++ joinWith "." (ps.map toString))

/-- two different consumers of some topic that `joinMemberLess` cannot order (same instance id). -/
def sortTies (ms : List Member) : Bool :=
  ms.any fun a => ms.any fun b => a.id != b.id && a.inst.isSome && a.inst == b.inst

def kSortTies (ms : List KMember) : Bool :=
  ms.any fun a => ms.any fun b => a.id != b.id && a.inst.isSome && a.inst == b.inst

def totalParts (ms : List Member) (topics : List (String × Nat)) : Nat :=
  ((subTopics ms).map (cnt topics)).sum

def verdict (ok : Bool) (key : String) : String := if ok then "1" else "0:" ++ key


end Model.C25.IO
