/-! Consumer-group history monitor (C07 ownership exclusion and coverage, C08 autocommit at-least-once).
Events come from `harness/cmd/sim` (`grp` scenarios). `check` returns the rule an event breaks; rule
names start with the property they belong to. Core Lean only. -/
namespace Model.Group

abbrev Mem := Nat
abbrev Id := Nat

inductive Ev where
  | produced (id : Id) (part off : Nat)
  | join (m : Mem)
  | leaveStart (m : Mem)
  | leaveDone (m : Mem)
  | assignStart (m : Mem) (parts : List Nat)     -- OnPartitionsAssigned entered
  | assignEnd (m : Mem)
  | revokeStart (m : Mem) (parts : List Nat)     -- OnPartitionsRevoked entered
  | revokeEnd (m : Mem)
  | lostStart (m : Mem) (parts : List Nat)
  | lostEnd (m : Mem)
  | pollStart (m : Mem)
  | pollEnd (m : Mem)
  | returned (m : Mem) (part off : Nat) (id : Id)
  | commit (m : Mem) (part : Nat) (off : Nat) (ok : Bool)   -- an autocommit / commit-on-revoke result
  | stable (live : List Mem)                     -- membership stopped changing long ago
  | finalCommitted (part : Nat) (off : Int)
  | incomplete
  | quiesce
deriving DecidableEq, Repr

structure Cfg where
  parts : Nat
deriving Repr

structure St where
  prod : List (Id × Nat × Nat) := []
  owner : List (Nat × Mem) := []                 -- partition ↦ current owner (from assigned callbacks)
  revoking : List (Mem × List Nat) := []          -- revoke/lost callbacks in progress
  ret : List (Mem × Nat × Nat × Id) := []         -- every returned record
  pending : List (Mem × Nat × Nat) := []          -- (m, part, next offset) returned by m's latest poll, not yet followed by another poll
  eligible : List (Mem × Nat × Nat) := []         -- (m, part, next offset) covered by polls that were followed by another poll
  committed : List (Nat × Nat) := []              -- per partition: highest successfully committed offset so far
  finals : List (Nat × Int) := []
  incomplete : Bool := false
  quiet : Bool := false
deriving Repr

def ownerOf (s : St) (p : Nat) : Option Mem := (s.owner.find? (·.1 == p)).map (·.2)
def eligibleOf (s : St) (m : Mem) (p : Nat) : Nat :=
  (s.eligible.filter (fun e => e.1 == m && e.2.1 == p)).foldl (fun a e => max a e.2.2) 0
def committedOf (s : St) (p : Nat) : Nat := ((s.committed.find? (·.1 == p)).map (·.2)).getD 0

def check (c : Cfg) (s : St) : Ev → Option String
  | .produced id part off =>
    if s.prod.any (·.1 == id) then some "C07.harness-id-reused"
    else if s.prod.any (fun p => p.2.1 == part && p.2.2 == off) then some "C32.two-records-acknowledged-at-one-offset" else none
  | .join _ => none
  | .leaveStart _ => none
  | .leaveDone m =>
    -- a member that left gracefully has given up everything through its revoked/lost callbacks
    if s.owner.any (·.2 == m) then some "C07.left-still-owning-partitions" else none
  | .assignStart m parts =>
    -- no partition is assigned to two members at once: the previous owner's revoke must have completed
    if parts.any (fun p => match ownerOf s p with | some o => o != m | none => false) then some "C07.assigned-while-owned-by-another"
    else if parts.any (fun p => decide (p ≥ c.parts)) then some "C07.assigned-unknown-partition" else none
  | .assignEnd _ => none
  | .revokeStart m parts =>
    if parts.any (fun p => ownerOf s p != some m) then some "C07.revoked-partition-not-owned" else none
  | .revokeEnd m => if s.revoking.any (·.1 == m) then none else some "C07.revoke-end-without-start"
  | .lostStart _ _ => none
  | .lostEnd m => if s.revoking.any (·.1 == m) then none else some "C07.lost-end-without-start"
  | .pollStart _ => none
  | .pollEnd _ => none
  | .returned _ _ _ _ => none
  | .commit m part off ok =>
    -- the committed offset only covers records m returned from a poll and then started another poll
    -- (or what the group had already committed: a member may re-commit the position it started from)
    if ok && decide (off > max (eligibleOf s m part) (committedOf s part)) then some "C08.committed-beyond-processed-records" else none
  | .stable live =>
    -- every partition of the subscribed topic is assigned to exactly one (live) member
    if (List.range c.parts).any (fun p => match ownerOf s p with | some o => !live.contains o | none => true) then some "C07.partition-unowned-at-stability"
    else none
  | .finalCommitted _ _ => none
  | .incomplete => none
  | .quiesce =>
    if s.incomplete then none
    -- every record below the group's final committed offset was returned to some member
    else if s.finals.any (fun f => s.prod.any (fun p => p.2.1 == f.1 && decide ((p.2.2 : Int) < f.2) &&
        !s.ret.any (fun r => r.2.1 == p.2.1 && r.2.2.1 == p.2.2 && r.2.2.2 == p.1))) then some "C08.committed-past-unreturned-record"
    else none

def apply (_c : Cfg) (s : St) : Ev → St
  | .produced id part off => { s with prod := (id, part, off) :: s.prod }
  | .join _ => s
  | .leaveStart _ => s
  | .leaveDone _ => s
  | .assignStart m parts => { s with owner := parts.map (fun p => (p, m)) ++ s.owner.filter (fun o => !parts.contains o.1) }
  | .assignEnd _ => s
  | .revokeStart m parts => { s with revoking := (m, parts) :: s.revoking }
  | .revokeEnd m =>
    match s.revoking.find? (·.1 == m) with
    | some (_, parts) => { s with owner := s.owner.filter (fun o => !(o.2 == m && parts.contains o.1)),
                                  revoking := s.revoking.filter (·.1 != m) }
    | none => s
  | .lostStart m parts => { s with revoking := (m, parts) :: s.revoking }
  | .lostEnd m =>
    match s.revoking.find? (·.1 == m) with
    | some (_, parts) => { s with owner := s.owner.filter (fun o => !(o.2 == m && parts.contains o.1)),
                                  revoking := s.revoking.filter (·.1 != m) }
    | none => s
  | .pollStart m =>
    -- what m's previous poll returned is now followed by another poll
    { s with eligible := s.pending.filter (·.1 == m) ++ s.eligible, pending := s.pending.filter (·.1 != m) }
  | .pollEnd _ => s
  | .returned m part off id => { s with ret := (m, part, off, id) :: s.ret, pending := (m, part, off + 1) :: s.pending }
  | .commit _ part off ok =>
    if ok && decide (off > committedOf s part) then { s with committed := (part, off) :: s.committed.filter (·.1 != part) } else s
  | .stable _ => s
  | .finalCommitted part off => { s with finals := (part, off) :: s.finals }
  | .incomplete => { s with incomplete := true }
  | .quiesce => { s with quiet := true }

def step (c : Cfg) (s : St) (e : Ev) : Option St :=
  match check c s e with
  | none => some (apply c s e)
  | some _ => none

def run (c : Cfg) : St → List Ev → Option St
  | s, [] => some s
  | s, e :: es => match step c s e with
    | some s' => run c s' es
    | none => none

def accepts (c : Cfg) (h : List Ev) : Bool := (run c {} h).isSome

end Model.Group
