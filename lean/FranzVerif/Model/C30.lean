/-! C30 — executable models of `workLoop` (pkg/kgo/atomic_maybe_work.go) and `ring[T]` (pkg/kgo/ring.go).
Core Lean only.

-- models: pkg/kgo/atomic_maybe_work.go:workLoop.maybeBegin
-- models: pkg/kgo/atomic_maybe_work.go:workLoop.maybeFinish
-- models: pkg/kgo/atomic_maybe_work.go:workLoop.hardFinish
-- models: pkg/kgo/ring.go:ring.doPush
-- models: pkg/kgo/ring.go:ring.resize
-- models: pkg/kgo/ring.go:ring.dropPeek
-- models: pkg/kgo/ring.go:ring.die
-- models: pkg/kgo/ring.go:ring.empty
-- models: pkg/kgo/ring.go:ring.initMaxLen

Conventions (DESIGN §4.5): a thread is a program counter; one model action = one shared-memory action
of the code (one atomic Load / CAS / Store of `workLoop.state`; one mutex-protected critical section of the
ring, with `cond.Wait` split into "release + park" and "woken + reacquire").  Everything a thread does between
two such actions is thread-local and is executed together with the preceding action.  The systems below are
total functions `step : State → Action → Option State` (`none` = not enabled); theorems quantify over
arbitrary action lists, i.e. over every interleaving of any number of threads. -/
namespace Model.C30

/-! ## 1. The work latch -/

/-- `workLoop.state`. -/
inductive WS | unstarted | working | cont
  deriving DecidableEq, Repr, Inhabited

/-- control points inside `maybeBegin` (the `for !done` loop): before the Load, and before each CAS. -/
inductive MbPc | load | casU | casW
  deriving DecidableEq, Repr

/-- control points inside `maybeFinish(again)`: before the Load, before the CAS (working, !again),
    before the Store (continue). -/
inductive MfPc | load (again : Bool) | cas | store
  deriving DecidableEq, Repr

/-- one atomic action of `maybeBegin`; `.inr b` = the call returns `b` (no further shared access). -/
def mbStep (st : WS) : MbPc → WS × Sum MbPc Bool
  | .load => match st with
    | .unstarted => (st, .inl .casU)
    | .working   => (st, .inl .casW)
    | .cont      => (st, .inr false)            -- done = true; state == stateWorking is false
  | .casU => if st = .unstarted then (.working, .inr true) else (st, .inl .load)
  | .casW => if st = .working then (.cont, .inr false) else (st, .inl .load)

/-- one atomic action of `maybeFinish`. -/
def mfStep (st : WS) : MfPc → WS × Sum MfPc Bool
  | .load again => match st with
    | .unstarted => (st, .inr again)             -- no case matches: `again` is returned unchanged
    | .working   => if again then (st, .inr true) else (st, .inl .cas)
    | .cont      => (st, .inl .store)
  | .cas => if st = .working then (.unstarted, .inr false) else (st, .inr true)
  | .store => (.working, .inr true)

/-- `hardFinish`: a single Store. -/
def hfStep (_ : WS) : WS := .unstarted

/-- Where a thread is. `beg`/`fin` are inside a *protocol* call (`if maybeBegin() { go loop }`,
    `for again { …work…; again = maybeFinish(…) }`); `work` is the top of a loop iteration of a worker;
    `rawB`/`rawF` are calls made outside the protocol (result discarded), used only by the differential run. -/
inductive Loc | idle | beg (pc : MbPc) | work | fin (pc : MfPc) | rawB (pc : MbPc) | rawF (pc : MfPc)
  deriving DecidableEq, Repr

/-- What a thread decides when it is at `idle` or `work` (ignored elsewhere). -/
inductive Choice
  | begin                 -- idle: call maybeBegin, start the loop if it returns true
  | work (again : Bool)   -- work: run one iteration, then call maybeFinish(again)
  | hard                  -- work: hardFinish and leave the loop (what sink.drain / source.loopFetch do)
  | rawBegin | rawFinish (again : Bool) | rawHard   -- idle: calls outside the protocol
  deriving DecidableEq, Repr

/-- observable event of a step -/
inductive Ev
  | none | beginRet (b : Bool) | worked | finishRet (b : Bool) | hard
  | rawBeginRet (b : Bool) | rawFinishRet (b : Bool) | rawHard
  deriving DecidableEq, Repr

def Choice.isRaw : Choice → Bool
  | .rawBegin | .rawFinish _ | .rawHard => true
  | _ => false

/-- one action of a thread at `l`. `none`: not enabled with this choice. -/
def tstep (st : WS) (l : Loc) (c : Choice) : Option (WS × Loc × Ev) :=
  match l with
  | .idle => match c with
    | .begin => (match mbStep st .load with
      | (st', .inl pc) => some (st', .beg pc, .none)
      | (st', .inr b) => some (st', if b then .work else .idle, .beginRet b))
    | .rawBegin => (match mbStep st .load with
      | (st', .inl pc) => some (st', .rawB pc, .none)
      | (st', .inr b) => some (st', .idle, .rawBeginRet b))
    | .rawFinish again => (match mfStep st (.load again) with
      | (st', .inl pc) => some (st', .rawF pc, .none)
      | (st', .inr b) => some (st', .idle, .rawFinishRet b))
    | .rawHard => some (hfStep st, .idle, .rawHard)
    | _ => none
  | .beg pc => (match mbStep st pc with
      | (st', .inl pc) => some (st', .beg pc, .none)
      | (st', .inr b) => some (st', if b then .work else .idle, .beginRet b))
  | .work => match c with
    | .work again => some (st, .fin (.load again), .worked)
    | .hard => some (hfStep st, .idle, .hard)
    | _ => none
  | .fin pc => (match mfStep st pc with
      | (st', .inl pc) => some (st', .fin pc, .none)
      | (st', .inr b) => some (st', if b then .work else .idle, .finishRet b))
  | .rawB pc => (match mbStep st pc with
      | (st', .inl pc) => some (st', .rawB pc, .none)
      | (st', .inr b) => some (st', .idle, .rawBeginRet b))
  | .rawF pc => (match mfStep st pc with
      | (st', .inl pc) => some (st', .rawF pc, .none)
      | (st', .inr b) => some (st', .idle, .rawFinishRet b))

/-- The latch system: shared state, one location per thread (any number of threads), and two ghost flags:
    `pending` = a signal (a completed `maybeBegin`) has been given that no later loop iteration has yet
    answered, where `hardFinish` discards it (its documented contract: the strand is moot or the caller
    compensates by re-triggering); `pendingStrict` = the same, not discarded by `hardFinish`. -/
structure LS where
  st : WS
  pcs : List Loc
  pending : Bool
  pendingStrict : Bool
  deriving Repr

def LS.init (n : Nat) : LS := { st := .unstarted, pcs := List.replicate n .idle, pending := false, pendingStrict := false }

/-- action = (thread index, choice) -/
def LS.step (s : LS) (a : Nat × Choice) : Option LS :=
  match s.pcs[a.1]? with
  | none => none
  | some l =>
    match tstep s.st l a.2 with
    | none => none
    | some (st', l', ev) =>
      let (p, ps) := match ev with
        | .beginRet _ => (true, true)
        | .worked => (false, false)
        | .hard => (false, s.pendingStrict)
        | _ => (s.pending, s.pendingStrict)
      some { st := st', pcs := s.pcs.set a.1 l', pending := p, pendingStrict := ps }

/-- same, also returning the event (used by the driver) -/
def LS.stepEv (s : LS) (a : Nat × Choice) : Option (LS × Ev) :=
  match s.pcs[a.1]? with
  | none => none
  | some l =>
    match tstep s.st l a.2 with
    | none => none
    | some (_, _, ev) => (s.step a).map fun s' => (s', ev)

def LS.run (s : LS) : List (Nat × Choice) → Option LS
  | [] => some s
  | a :: as => match s.step a with
    | none => none
    | some s' => s'.run as

def Loc.isWorker : Loc → Bool
  | .work | .fin _ => true
  | _ => false
def Loc.isRaw : Loc → Bool
  | .rawB _ | .rawF _ => true
  | _ => false

/-- number of threads inside the work loop: between a `maybeBegin` that returned true and the `maybeFinish`
    that returns false (or the `hardFinish`). -/
def LS.workers (s : LS) : Nat := s.pcs.countP Loc.isWorker

/-! ## 2. The ring -/

/-- `minRingCap` -/
def minRingCap : Nat := 8

/-- `ring[T]` with `T := Nat` (zero value 0); `cap(elems) = len(elems)` always (only `make([]T, n)` creates it).
    `parked`: threads inside `cond.Wait` in arrival order; `woken`: signalled, not yet rescheduled. -/
structure Ring where
  elems : List Nat := []
  head : Nat := 0
  l : Nat := 0
  maxLen : Int := 0
  hasCond : Bool := false
  dead : Bool := false
  parked : List Nat := []
  woken : List Nat := []
  deriving Repr, DecidableEq

/-- `initMaxLen(max)` on a zero ring -/
def Ring.initMaxLen (m : Int) : Ring := { maxLen := m, hasCond := true }

abbrev Res := Except String

/-- Go slice expression `s[a:b]` on a slice with len = cap -/
def slice (s : List Nat) (a b : Nat) : Res (List Nat) :=
  if a ≤ b ∧ b ≤ s.length then .ok ((s.drop a).take (b - a)) else .error "slice-bounds-out-of-range"

/-- Go `copy(dst, src)`: new dst and the number copied -/
def goCopy (dst src : List Nat) : List Nat × Nat :=
  let n := min dst.length src.length
  (src.take n ++ dst.drop n, n)

/-- `resize(newCap)` -/
def Ring.resize (r : Ring) (newCap : Nat) : Res Ring :=
  let new := List.replicate newCap 0
  let newR : Res (List Nat) :=
    if r.l > 0 then
      if r.head + r.l ≤ r.elems.length then
        (slice r.elems r.head (r.head + r.l)).map fun src => (goCopy new src).1
      else
        (slice r.elems r.head r.elems.length).bind fun s1 =>
          let c1 := goCopy new s1
          if r.l < c1.2 then .error "slice-bounds-out-of-range" else
          (slice r.elems 0 (r.l - c1.2)).bind fun s2 =>
            (slice c1.1 c1.2 c1.1.length).map fun tail =>
              c1.1.take c1.2 ++ (goCopy tail s2).1
    else .ok new
  newR.map fun e => { r with elems := e, head := 0 }

/-- the wait-loop condition of `doPush` -/
def Ring.needWait (r : Ring) : Bool := decide (r.maxLen > 0) && decide ((r.l : Int) ≥ r.maxLen) && !r.dead

/-- `doPush` after the wait loop -/
def Ring.pushTail (r : Ring) (e : Nat) : Res (Ring × Bool × Bool) :=
  if r.dead then .ok (r, false, true) else
  (if r.l = r.elems.length then r.resize (max (r.elems.length * 2) minRingCap) else .ok r).bind fun r =>
    if r.elems.length = 0 then .error "integer-divide-by-zero" else
    let wp := (r.head + r.l) % r.elems.length
    if wp < r.elems.length then
      .ok ({ r with elems := r.elems.set wp e, l := r.l + 1 }, r.l + 1 == 1, false)
    else .error "index-out-of-range"

inductive PushRes | blocked | done (first dead : Bool)
  deriving DecidableEq, Repr

/-- `doPush(elem, wait)` by thread `t`, from `Lock` or from the return of `cond.Wait` (the loop condition is
    re-evaluated): either the thread parks (mutex released) or the critical section completes. -/
def Ring.pushFrom (r : Ring) (t e : Nat) (wait : Bool) : Res (Ring × PushRes) :=
  if wait && r.needWait then
    if r.hasCond then .ok ({ r with parked := r.parked ++ [t] }, .blocked) else .error "nil-pointer-dereference"
  else (r.pushTail e).map fun (r', f, d) => (r', .done f d)

/-- `cond.Signal()`: one parked thread becomes runnable. Go's notifyList wakes the longest waiter (`k = 0`);
    the documentation promises only "one goroutine", so the choice is a parameter. -/
def Ring.signal (r : Ring) (k : Nat) : Ring :=
  if h : r.parked.length = 0 then r else
    let i := k % r.parked.length
    have : i < r.parked.length := Nat.mod_lt _ (by omega)
    { r with parked := r.parked.eraseIdx i, woken := r.woken ++ [r.parked[i]] }

/-- `cond.Broadcast()` -/
def Ring.broadcast (r : Ring) : Ring := { r with parked := [], woken := r.woken ++ r.parked }

/-- `dropPeek()`: returns (ring, next, more, dead) -/
def Ring.dropPeek (r : Ring) (k : Nat) : Res (Ring × Nat × Bool × Bool) :=
  if r.l = 0 then .ok (r, 0, false, r.dead) else
  if r.elems.length ≤ r.head then .error "index-out-of-range" else
  let r := { r with elems := r.elems.set r.head 0, head := (r.head + 1) % r.elems.length, l := r.l - 1 }
  let r := if r.hasCond then r.signal k else r
  (if r.l ≤ minRingCap / 2 ∧ r.elems.length > minRingCap then r.resize minRingCap else .ok r).bind fun r =>
    if r.l > 0 then
      match r.elems[r.head]? with
      | some x => .ok (r, x, true, r.dead)
      | none => .error "index-out-of-range"
    else .ok (r, 0, false, r.dead)

/-- `die()` -/
def Ring.die (r : Ring) : Ring :=
  let r := { r with dead := true }
  if r.hasCond then r.broadcast else r

/-- `empty()` -/
def Ring.empty (r : Ring) : Bool := r.l == 0

/-- Abstraction function: the queue contents in FIFO order, read through head / l / cap. -/
def Ring.abs (r : Ring) : List Nat := (r.elems.drop r.head ++ r.elems.take r.head).take r.l

/-! ### The queue protocol: `if first { go worker(elem) }` … `start: process(elem); elem, more, _ = dropPeek(); if more goto start` -/

/-- thread locations: `waiting e` = inside `push(e)` parked on the cond (or woken, not yet resumed);
    `drop` = a worker that has processed its current element and will call `dropPeek`. -/
inductive QLoc | idle | waiting (e : Nat) | drop
  deriving DecidableEq, Repr

inductive QAct
  | push (e : Nat) (wait : Bool)   -- idle: push / pushForce, fail the promise if dead, spawn-on-first
  | resume                         -- waiting: rescheduled after a Signal/Broadcast
  | dropPeek (k : Nat)             -- worker: dropPeek (k: which waiter Signal wakes), loop while more
  | die                            -- idle
  | empty                          -- idle
  deriving DecidableEq, Repr

/-- ring + per-thread locations + ghost logs: `accepted` = elements whose push returned dead = false, in the
    order of their critical sections; `handed` = elements processed by workers, in order. -/
structure QS where
  r : Ring
  pcs : List QLoc
  accepted : List Nat := []
  handed : List Nat := []
  deriving Repr

inductive QEv
  | pushBlocked | pushRet (first dead : Bool) | dropRet (next : Nat) (more dead : Bool) | died | emptyRet (b : Bool)
  deriving DecidableEq, Repr

/-- outcome of the push critical section for thread `i` -/
def QS.afterPush (s : QS) (i e : Nat) (res : Ring × PushRes) : QS × QEv :=
  match res with
  | (r', .blocked) => ({ s with r := r', pcs := s.pcs.set i (.waiting e) }, .pushBlocked)
  | (r', .done first dead) =>
    if dead then ({ s with r := r', pcs := s.pcs.set i .idle }, .pushRet first dead)
    else if first then
      ({ s with r := r', pcs := s.pcs.set i .drop, accepted := s.accepted ++ [e], handed := s.handed ++ [e] }, .pushRet first dead)
    else ({ s with r := r', pcs := s.pcs.set i .idle, accepted := s.accepted ++ [e] }, .pushRet first dead)

/-- one action of thread `i`; `.ok none` = not enabled; `.error` = the Go code would panic. -/
def QS.step (s : QS) (i : Nat) (a : QAct) : Res (Option (QS × QEv)) :=
  match s.pcs[i]?, a with
  | some .idle, .push e wait => (s.r.pushFrom i e wait).map fun res => some (s.afterPush i e res)
  | some (.waiting e), .resume =>
    if i ∈ s.r.woken then
      ({ s.r with woken := s.r.woken.erase i }.pushFrom i e true).map fun res => some (s.afterPush i e res)
    else .ok none
  | some .drop, .dropPeek k => (s.r.dropPeek k).map fun (r', next, more, dead) =>
      if more then some ({ s with r := r', handed := s.handed ++ [next] }, .dropRet next more dead)
      else some ({ s with r := r', pcs := s.pcs.set i .idle }, .dropRet next more dead)
  | some .idle, .die => .ok (some ({ s with r := s.r.die }, .died))
  | some .idle, .empty => .ok (some (s, .emptyRet s.r.empty))
  | _, _ => .ok none

/-- run an action list; `none` if some action is not enabled or the code would panic -/
def QS.run (s : QS) : List (Nat × QAct) → Option QS
  | [] => some s
  | (i, a) :: as => match s.step i a with
    | .ok (some (s', _)) => s'.run as
    | _ => none

def QS.workers (s : QS) : Nat := s.pcs.countP (· == .drop)

def QS.init (r : Ring) (n : Nat) : QS := { r := r, pcs := List.replicate n .idle }

end Model.C30
