/-! C21 — request versions are negotiated within all bounds.

`Model.C21`      : the Go code as it is — the version clamp of `broker.handleReq`, the table built by
                   `brokerCxn.requestAPIVersions`, the version of the connection-setup requests
                   (`requestAPIVersions`, `sasl`, `doSasl`) and the pin schedule of the two sharders that pin.
`Model.C21.Spec` : the property text as an executable predicate over what is seen on the wire
                   (a header version, or nothing), written with a naive scan over the client's version
                   range — it shares no definition with the clamp.
-- models: pkg/kgo/broker.go:broker.handleReq
-- models: pkg/kgo/broker.go:brokerCxn.requestAPIVersions
-- models: pkg/kgo/broker.go:brokerCxn.init
-- models: pkg/kgo/broker.go:brokerCxn.sasl
-- models: pkg/kgo/broker.go:brokerVersions.maxVersion
-- models: pkg/kgo/broker.go:brokerVersions.minVersion
-- models: pkg/kgo/broker.go:broker.storeVersions
-- models: pkg/kgo/broker.go:broker.loadVersions
-- models: pkg/kversion/kversion.go:Versions.LookupMaxKeyVersion
-- models: pkg/kversion/kversion.go:Versions.HasKey
-- models: pkg/kversion/kversion.go:Versions.SetMaxKeyVersion
Integers are unbounded (`Int`); the wire carries int16, and nothing here depends on the width.
Core Lean only (linked into the driver). -/
namespace Model.C21

/-! ### `kversion.Versions` (the user's MaxVersions / MinVersions) -/

/-- `Versions.reqs` as an association list (first match wins; `set` removes older entries). -/
abbrev Versions := List (Int × Int)

/-- `LookupMaxKeyVersion`: `(-1, false)` when the key is absent. -/
def Versions.lookup (vs : Versions) (k : Int) : Int × Bool :=
  match vs.find? (fun e => e.1 == k) with
  | some e => (e.2, true)
  | none => (-1, false)

def Versions.hasKey (vs : Versions) (k : Int) : Bool := (vs.lookup k).2

/-- `SetMaxKeyVersion`: a negative key or version deletes the key. -/
def Versions.set (vs : Versions) (k v : Int) : Versions :=
  if k < 0 ∨ v < 0 then vs.filter (fun e => e.1 != k)
  else (k, v) :: vs.filter (fun e => e.1 != k)

/-! ### `brokerVersions` and its loading from an ApiVersions response -/

/-- One `ApiKeys` element of an ApiVersions response. -/
structure ApiKey where
  key : Int
  min : Int
  max : Int
deriving DecidableEq, Repr

/-- `brokerVersions`: the two maps `maxVers`, `minVers` (always written together, so one list). -/
abbrev BrokerVersions := List ApiKey

/-- `newBrokerVersions(n)`: empty maps. Also what `init` stores when the user's MaxVersions has no
ApiVersions key ("pinned pre 0.10.0"): the code does not distinguish the two. -/
def BrokerVersions.empty : BrokerVersions := []

/-- the loop `for _, key := range resp.ApiKeys { v.maxVers[key.ApiKey] = …; v.minVers[key.ApiKey] = … }`:
a later element overwrites an earlier one with the same key. -/
def load (resp : List ApiKey) : BrokerVersions :=
  resp.foldl (fun m e => e :: m.filter (fun x => x.key != e.key)) []

def BrokerVersions.find (v : BrokerVersions) (k : Int) : Option ApiKey := List.find? (fun e => e.key == k) v

/-- `func (v *brokerVersions) maxVersion(key) int16` -/
def BrokerVersions.maxVersion (v : BrokerVersions) (k : Int) : Int :=
  match v.find k with | some e => e.max | none => -1

/-- `func (v *brokerVersions) minVersion(key) int16` -/
def BrokerVersions.minVersion (v : BrokerVersions) (k : Int) : Int :=
  match v.find k with | some e => e.min | none => -1

/-! ### the clamp of `broker.handleReq` -/

/-- `pinReq` found in the request context. -/
structure Pin where
  pinMax : Bool := false
  max : Int := 0
  pinMin : Bool := false
  min : Int := 0
deriving DecidableEq, Repr

/-- Everything the clamp reads. -/
structure In where
  key : Int
  /-- `req.MaxVersion()` -/
  cmax : Int
  pin : Option Pin := none
  /-- `b.loadVersions()` after `loadConnection` succeeded -/
  bv : BrokerVersions
  /-- `cfg.maxVersions` (`none` = nil) -/
  umax : Option Versions
  /-- `cfg.minVersions` -/
  umin : Option Versions
deriving Repr

inductive Out where
  | ok (v : Int)                         -- `req.SetVersion(ourMax)`, the request goes on to be written
  | errUnknownRequestKey
  | errBrokerTooOld
  | userMinError (ourMax userMin : Int)  -- "request key %d version returned has max version %d below the user defined min of %d"
deriving DecidableEq, Repr

/-- `if <x present> && x < ourMax { ourMax = x }` -/
def capO (o : Option Int) (ourMax : Int) : Int :=
  match o with | some x => if x < ourMax then x else ourMax | none => ourMax

/-- `if <x present> && x > ourMin { ourMin = x }` -/
def floorO (o : Option Int) (ourMin : Int) : Int :=
  match o with | some x => if x > ourMin then x else ourMin | none => ourMin

/-- `pr.pinMax` / `pr.max` of the context's `*pinReq`, when present and set. -/
def pinMaxO (pin : Option Pin) : Option Int :=
  match pin with | some p => if p.pinMax then some p.max else none | none => none
def pinMinO (pin : Option Pin) : Option Int :=
  match pin with | some p => if p.pinMin then some p.min else none | none => none
/-- `brokerMax >= 0 && …`: a negative (absent, −1) broker value is skipped. -/
def nonNegO (x : Int) : Option Int := if x ≥ 0 then some x else none

/-- `maxVersions != nil && !maxVersions.HasKey(key)` on the lookup result -/
def unknownKey (umax : Option (Int × Bool)) : Bool := match umax with | some l => !l.2 | none => false

/-- The body of `handleReq` from `v := b.loadVersions()` to `req.SetVersion(ourMax)`, check by check, on
the values it reads: `b0 = v.maxVersion(0)`, `bmax = v.maxVersion(key)`, `bmin = v.minVersion(key)`,
`umax`/`umin` = `LookupMaxKeyVersion(key)` on `cfg.maxVersions` / `cfg.minVersions` (`none` = nil option). -/
def clampCore (cmax : Int) (pin : Option Pin) (b0 bmax bmin : Int)
    (umax umin : Option (Int × Bool)) : Out :=
  -- if b.cl.cfg.maxVersions != nil && !b.cl.cfg.maxVersions.HasKey(req.Key())
  if unknownKey umax then .errUnknownRequestKey
  -- if v.maxVersion(0) >= 0 && v.maxVersion(req.Key()) < 0
  else if b0 ≥ 0 ∧ bmax < 0 then .errBrokerTooOld
  else
    -- ourMax := req.MaxVersion(); ourMin := int16(-1)
    -- if pr.pinMax && pr.max < ourMax { ourMax = pr.max }
    let ourMax := capO (pinMaxO pin) cmax
    -- if pr.pinMin { ourMin = pr.min }
    let ourMin : Int := match pinMinO pin with | some m => m | none => -1
    -- if brokerMax := v.maxVersion(req.Key()); brokerMax >= 0 && brokerMax < ourMax { ourMax = brokerMax }
    let ourMax := capO (nonNegO bmax) ourMax
    -- if brokerMin := v.minVersion(req.Key()); brokerMin >= 0 && brokerMin > ourMin { ourMin = brokerMin }
    let ourMin := floorO (nonNegO bmin) ourMin
    -- if b.cl.cfg.maxVersions != nil { userMax, _ := …; if userMax < ourMax { ourMax = userMax } }
    let ourMax := capO (umax.map (·.1)) ourMax
    -- if b.cl.cfg.minVersions != nil { … }
    match umin with
    | some l =>
      let userMin := l.1
      if userMin > ourMax then .userMinError ourMax userMin
      else
        let ourMin := floorO (some userMin) ourMin
        if ourMin > -1 ∧ ourMin > ourMax then .errBrokerTooOld else .ok ourMax
    | none =>
      if ourMin > -1 ∧ ourMin > ourMax then .errBrokerTooOld else .ok ourMax

/-- `handleReq` on its inputs: the lookups it performs, then the body above. -/
def clamp (i : In) : Out :=
  clampCore i.cmax i.pin (i.bv.maxVersion 0) (i.bv.maxVersion i.key) (i.bv.minVersion i.key)
    (i.umax.map (fun vs => vs.lookup i.key)) (i.umin.map (fun vs => vs.lookup i.key))

/-! ### connection setup: `init`, `requestAPIVersions`, `sasl` -/

/-- `init`: ApiVersions is requested iff `maxVersions == nil || maxVersions.HasKey(18)`. -/
def issuesApiVersions (umax : Option Versions) : Bool :=
  match umax with | none => true | some vs => vs.hasKey 18

/-- First version of `requestAPIVersions` (`tries < 3`): 4, or the user's max for key 18 — taken as it
is, also when it is above 4. -/
def initApiFirst (umax : Option Versions) : Int :=
  match umax with
  | none => 4
  | some vs => let (userMax, exists_) := vs.lookup 18; if exists_ ∧ userMax ≥ 0 then userMax else 4

/-- The answer of a broker that follows KIP-511, as scripted by the harness: a request above the
advertised ApiVersions max (4 when the script advertises none / a negative one) is refused with
UNSUPPORTED_VERSION and a v0 body holding only key 18 with that max; `none` = accepted. -/
def scriptRefuses (adv18 : Option ApiKey) (v : Int) : Option Int :=
  let hi : Int := match adv18 with | some e => if e.max ≥ 0 then e.max else 4 | none => 4
  if v > hi then some hi else none

/-- The `start:` loop of `requestAPIVersions` against such a broker: the versions written, in order,
and whether a table was finally loaded. `rawResp[1] == 35`: `maxVersion == 0` → error; one key 18 with
`0 ≤ v < maxVersion` → retry at `v`; otherwise error. -/
def initApiChain (adv18 : Option ApiKey) : Nat → Int → List Int × Bool
  | 0, v => ([v], false)
  | fuel + 1, v =>
    match scriptRefuses adv18 v with
    | none => ([v], true)
    | some r =>
      if v = 0 then ([v], false)
      else if r ≥ 0 ∧ r < v then
        let (vs, ok) := initApiChain adv18 fuel r
        (v :: vs, ok)
      else ([v], false)

/-- `sasl()`: `if v.maxVersion(17) >= 0 { req.Version = v.maxVersion(17) … }` — `none` = no handshake written. -/
def saslHandshakeVersion (bv : BrokerVersions) : Option Int :=
  if bv.maxVersion 17 ≥ 0 then some (bv.maxVersion 17) else none

/-- `doSasl(authenticate = req.Version == 1)`: `req.Version = loadVersions().maxVersion(36)` (−1 when the
key is not advertised). -/
def saslAuthVersion (bv : BrokerVersions) : Option Int :=
  if saslHandshakeVersion bv = some 1 then some (bv.maxVersion 36) else none

/-! ### the table of one broker object across its connections

`broker.versions` is one `atomic.Value` per broker object. Every new connection of the object — whichever of
the five (`cxnNormal`, `cxnProduce`, `cxnFetch`, `cxnGroup`, `cxnSlow`), first use or reconnect — runs
`brokerCxn.init`, whose `requestAPIVersions` ends in `cxn.b.storeVersions(v)`; `handleReq` reads
`b.loadVersions()` after `loadConnection` returned, for every request of the object whichever connection it
uses. `handleReqs` runs the requests of one broker object one after the other, so connects and clamps of
one object form a sequence. -/

/-- `broker.versions`: `none` = nothing stored yet (`loadVersions()` returns nil). -/
abbrev StoredV := Option BrokerVersions

/-- `func (b *broker) storeVersions(v *brokerVersions) { b.versions.Store(v) }`: whatever was stored is replaced. -/
def storeVersions (_old : StoredV) (v : BrokerVersions) : StoredV := some v

/-- `brokerCxn.init` of a new connection whose ApiVersions request (when one is issued) is answered with the key
table `resp`: the stored table afterwards, and whether `init` succeeded.
* `maxVersions == nil || maxVersions.HasKey(18)` → `requestAPIVersions`: `len(resp.ApiKeys) == 0` is an error
  returned before anything is stored; otherwise the loaded table is stored;
* else `if cxn.b.loadVersions() == nil { cxn.b.storeVersions(newBrokerVersions(0)) }`. -/
def initCxn (umax : Option Versions) (s : StoredV) (resp : List ApiKey) : StoredV × Bool :=
  if issuesApiVersions umax then
    if resp.isEmpty then (s, false) else (storeVersions s (load resp), true)
  else
    (if s.isNone then storeVersions s BrokerVersions.empty else s, true)

/-- What `handleReq` is given besides the configuration and the stored table. -/
structure Req where
  key : Int
  /-- `req.MaxVersion()` -/
  cmax : Int
  pin : Option Pin := none
deriving Repr

/-- One step of a broker object: `loadConnection` opened a new connection (of any class) whose ApiVersions was
answered with `resp`, or `handleReq` reached `v := b.loadVersions()` for a request. -/
inductive Ev where
  | connect (resp : List ApiKey)
  | request (r : Req)
deriving Repr

inductive EvOut where
  | connected
  /-- `init` returned an error: the connection dies, `loadConnection` fails, the request is promised the error -/
  | connectFailed
  | clamped (o : Out)
  /-- `v.maxVersion(0)` on a nil `*brokerVersions`: the Go code panics -/
  | nilVersions
deriving DecidableEq, Repr

def stepStored (umax : Option Versions) (s : StoredV) : Ev → StoredV
  | .connect resp => (initCxn umax s resp).1
  | .request _ => s

/-- what the clamp reads for a request of a client configured with `umax` / `umin` when `bv` is stored -/
def Req.toIn (r : Req) (bv : BrokerVersions) (umax umin : Option Versions) : In :=
  { key := r.key, cmax := r.cmax, pin := r.pin, bv := bv, umax := umax, umin := umin }

def stepOut (umax umin : Option Versions) (s : StoredV) : Ev → EvOut
  | .connect resp => if (initCxn umax s resp).2 then .connected else .connectFailed
  | .request r =>
    match s with
    | none => .nilVersions
    | some bv => .clamped (clamp (r.toIn bv umax umin))

/-- The stored table after a sequence of steps. -/
def storedAfter (umax : Option Versions) : StoredV → List Ev → StoredV
  | s, [] => s
  | s, e :: es => storedAfter umax (stepStored umax s e) es

/-- The outcomes of a sequence of steps, one per step. -/
def runEvs (umax umin : Option Versions) : StoredV → List Ev → List EvOut
  | _, [] => []
  | s, e :: es => stepOut umax umin s e :: runEvs umax umin (stepStored umax s e) es

/-! ### pin schedules of the sharders (`client.go`) that the harness reaches through `cl.Request` -/

/-- A request shape is tried with the first pin; on `errBrokerTooOld` it is split and reissued with the
second (`findCoordinatorSharder`: min 4 then max 3; `offsetFetchSharder`: min 8 then max 7). -/
def pinSchedule (kind : String) : List (Option Pin) :=
  if kind = "findcoord2" then [some { pinMin := true, min := 4 }, some { pinMax := true, max := 3 }]
  else if kind = "offsetfetch2" then [some { pinMin := true, min := 8 }, some { pinMax := true, max := 7 }]
  else [none]

/-- Run the schedule: the first attempt's outcome, unless it is `errBrokerTooOld` and another pin follows. -/
def clampSchedule (i : In) : List (Option Pin) → Out
  | [] => .errBrokerTooOld
  | [p] => clamp { i with pin := p }
  | p :: ps => match clamp { i with pin := p } with
    | .errBrokerTooOld => clampSchedule i ps
    | o => o

/-! ### Spec: the property text -/
namespace Spec

/-- What the broker told the client about one key. -/
inductive Broker where
  | noApi                    -- no ApiVersions exchange at all (pre-0.10 pin) / nothing known yet
  | missing                  -- an ApiVersions table was received and the key is not in it
  | range (min max : Int)    -- advertised `[min,max]`
deriving DecidableEq, Repr

/-- A user bound for one key. -/
inductive User where
  | unset                    -- option not given (nil)
  | missing                  -- a Versions without the key
  | val (v : Int)
deriving DecidableEq, Repr

structure Bounds where
  cmax : Int
  pinMax : Option Int := none
  pinMin : Option Int := none
  broker : Broker
  umax : User
  umin : User
deriving DecidableEq, Repr

/-- "at most" an optional upper bound (an internal pin) -/
def atMost (o : Option Int) (v : Int) : Bool := match o with | some p => decide (v ≤ p) | none => true
/-- "at least" an optional lower bound (an internal pin) -/
def atLeast (o : Option Int) (v : Int) : Bool := match o with | some p => decide (p ≤ v) | none => true
/-- within what the broker advertised for the key; a table without the key admits nothing -/
def inBroker (br : Broker) (v : Int) : Bool :=
  match br with | .noApi => true | .missing => false | .range lo hi => decide (lo ≤ v) && decide (v ≤ hi)
/-- at most the user's MaxVersions; a MaxVersions without the key admits nothing -/
def underUser (u : User) (v : Int) : Bool :=
  match u with | .unset => true | .missing => false | .val m => decide (v ≤ m)
/-- at least the user's MinVersions; a MinVersions without the key is no bound -/
def overUser (u : User) (v : Int) : Bool :=
  match u with | .unset => true | .missing => true | .val m => decide (m ≤ v)

/-- `v` satisfies every bound the property names. -/
def allowed (b : Bounds) (v : Int) : Bool :=
  decide (0 ≤ v) && decide (v ≤ b.cmax)
  && atMost b.pinMax v && atLeast b.pinMin v
  && inBroker b.broker v && underUser b.umax v && overUser b.umin v

/-- every candidate version of the client's codec, `0 … cmax` -/
def candidates (b : Bounds) : List Int := (List.range (b.cmax + 1).toNat).map (fun n : Nat => (n : Int))

/-- "the highest version that is at most … and at least …" -/
def isHighest (b : Bounds) (v : Int) : Bool :=
  allowed b v && (candidates b).all (fun w => !allowed b w || decide (w ≤ v))

/-- "no such version exists" -/
def noneAllowed (b : Bounds) : Bool := (candidates b).all (fun w => !allowed b w)

/-- The property on one observation: `some v` = a frame with header version `v` was written,
`none` = the request failed and nothing was written. -/
def ok (b : Bounds) : Option Int → Bool
  | some v => isHighest b v
  | none => noneAllowed b

/-- With a pin schedule (alternatives tried in order): the written version is the highest one of the
first alternative that admits any version; nothing is written iff no alternative admits one. -/
def okSchedule : List Bounds → Option Int → Bool
  | [], o => o.isNone
  | b :: bs, o => if noneAllowed b then okSchedule bs o else ok b o

/-! #### several connections: what one broker object was told, and what it wrote, in wire order -/

/-- One observation at the broker side of the connections of one broker object. -/
inductive Obs where
  /-- an ApiVersions response with this (non-empty) key table was delivered on a new connection -/
  | adv (table : List ApiKey)
  /-- a request frame with header version `v` was written, on whichever connection -/
  | wrote (key cmax : Int) (pinMax pinMin : Option Int) (umax umin : User) (v : Int)
  /-- a request failed and nothing was written -/
  | failed (key cmax : Int) (pinMax pinMin : Option Int) (umax umin : User)
deriving Repr

/-- The most recent advertisement in a history given newest first. -/
def latestAdv : List Obs → Option (List ApiKey)
  | [] => none
  | .adv t :: _ => some t
  | _ :: rest => latestAdv rest

/-- What a key table says of a key: its last element for the key (a table is a map; Kafka sends each key once). -/
def rangeIn (table : List ApiKey) (k : Int) : Broker :=
  match table.reverse.find? (fun e => e.key == k) with
  | some e => .range e.min e.max
  | none => .missing

/-- "The broker's advertised range" at a point of the history (newest first): that of the MOST RECENT
ApiVersions response the broker object received; nothing known when there was none. -/
def brokerAt (seenRev : List Obs) (k : Int) : Broker :=
  match latestAdv seenRev with
  | none => .noApi
  | some t => rangeIn t k

def obsOk (seenRev : List Obs) : Obs → Bool
  | .adv _ => true
  | .wrote k c pM pm um un v =>
    ok { cmax := c, pinMax := pM, pinMin := pm, broker := brokerAt seenRev k, umax := um, umin := un } (some v)
  | .failed k c pM pm um un =>
    ok { cmax := c, pinMax := pM, pinMin := pm, broker := brokerAt seenRev k, umax := um, umin := un } none

/-- The property over a whole history: every written request, and every failed one, is judged against
the advertisement that was the most recent one when it happened. -/
def traceOkFrom (seenRev : List Obs) : List Obs → Bool
  | [] => true
  | o :: rest => obsOk seenRev o && traceOkFrom (o :: seenRev) rest

def traceOk (os : List Obs) : Bool := traceOkFrom [] os

end Spec

/-! ### how the Spec sees the model's input -/

def specUserL (l : Option (Int × Bool)) : Spec.User :=
  match l with
  | none => .unset
  | some l => if l.2 then .val l.1 else .missing

def specUser (u : Option Versions) (k : Int) : Spec.User := specUserL (u.map (fun vs => vs.lookup k))

/-- `none` = no ApiVersions exchange took place (`init` stored the empty table). -/
def specBroker (table : Option BrokerVersions) (k : Int) : Spec.Broker :=
  match table with
  | none => .noApi
  | some bv => match bv.find k with
    | some e => .range e.min e.max
    | none => .missing

def coreBounds (cmax : Int) (pin : Option Pin) (br : Spec.Broker) (umax umin : Option (Int × Bool)) : Spec.Bounds :=
  { cmax := cmax,
    pinMax := pinMaxO pin,
    pinMin := pinMinO pin,
    broker := br,
    umax := specUserL umax,
    umin := specUserL umin }

def boundsOf (i : In) (table : Option BrokerVersions) : Spec.Bounds :=
  coreBounds i.cmax i.pin (specBroker table i.key)
    (i.umax.map (fun vs => vs.lookup i.key)) (i.umin.map (fun vs => vs.lookup i.key))

/-- what the wire shows for an outcome -/
def Out.written : Out → Option Int
  | .ok v => some v
  | _ => none

/-- What the broker side sees of one step of a broker object (nothing for a failed connect, for a connect of a
client that issues no ApiVersions, and for the panic). -/
def obsOf (umax umin : Option Versions) (e : Ev) (o : EvOut) : List Spec.Obs :=
  match e, o with
  | .connect resp, .connected => if issuesApiVersions umax then [.adv resp] else []
  | .request r, .clamped (.ok v) =>
    [.wrote r.key r.cmax (pinMaxO r.pin) (pinMinO r.pin) (specUser umax r.key) (specUser umin r.key) v]
  | .request r, .clamped _ =>
    [.failed r.key r.cmax (pinMaxO r.pin) (pinMinO r.pin) (specUser umax r.key) (specUser umin r.key)]
  | _, _ => []

/-- The history the broker side sees of a run. -/
def obsRun (umax umin : Option Versions) : StoredV → List Ev → List Spec.Obs
  | _, [] => []
  | s, e :: es => obsOf umax umin e (stepOut umax umin s e) ++ obsRun umax umin (stepStored umax s e) es

end Model.C21
