/-! C34 — kfake authorization (`pkg/kfake/acl.go`) against Apache Kafka's authorizer.

`Model.C34`      : the Go code as it is, function by function (enum values are kmsg's numeric codes, so
                   that "any other value" behaves as in the Go `switch`/`==` tests).
`Model.C34.Spec` : an independent transcription of Kafka's authorizer
                   (`StandardAuthorizerData.findResult`/`findAclRule` for `authorize`,
                   `Authorizer.authorizeByResourceType` / `AclAuthorizer.authorizeByResourceType` for the
                   any-resource check), written with filters over the ACL list, not with kfake's loops.
-- models: pkg/kfake/acl.go:acl.matchesResource
-- models: pkg/kfake/acl.go:acl.matchesPrincipal
-- models: pkg/kfake/acl.go:acl.matchesHost
-- models: pkg/kfake/acl.go:acl.matchesOp
-- models: pkg/kfake/acl.go:clusterACLs.allowed
-- models: pkg/kfake/acl.go:clusterACLs.anyAllowed
-- models: pkg/kfake/acl.go:Cluster.isSuperuser
-- models: pkg/kfake/acl.go:principal
-- models: pkg/kfake/acl.go:Cluster.allowedACL
-- models: pkg/kfake/acl.go:Cluster.allowedClusterACL
-- models: pkg/kfake/acl.go:Cluster.anyAllowedACL
-- models: pkg/kfake/22_init_producer_id.go:Cluster.handleInitProducerID
Core Lean only (linked into the driver). -/
namespace Model.C34

/-- Go strings are byte strings. -/
abbrev Str := List UInt8

/-! kmsg enum codes (pkg/kmsg/generated.go) -/
def rtTopic : Nat := 2
def rtGroup : Nat := 3
def rtCluster : Nat := 4
def rtTxnID : Nat := 5
def patLiteral : Nat := 3
def patPrefixed : Nat := 4
def opAll : Nat := 2
def opRead : Nat := 3
def opWrite : Nat := 4
def opCreate : Nat := 5
def opDelete : Nat := 6
def opAlter : Nat := 7
def opDescribe : Nat := 8
def opClusterAction : Nat := 9
def opDescribeConfigs : Nat := 10
def opAlterConfigs : Nat := 11
def opIdempotentWrite : Nat := 12
def permDeny : Nat := 2
def permAllow : Nat := 3

/-- `"*"` -/
def star : Str := [42]
/-- `"User:*"` -/
def userStar : Str := [85, 115, 101, 114, 58, 42]
/-- `"User:"` -/
def userPfx : Str := [85, 115, 101, 114, 58]
/-- `"ANONYMOUS"` -/
def anonymous : Str := [65, 78, 79, 78, 89, 77, 79, 85, 83]
/-- `aclClusterName = "kafka-cluster"` -/
def clusterName : Str := [107, 97, 102, 107, 97, 45, 99, 108, 117, 115, 116, 101, 114]

/-- `type acl struct` -/
structure Acl where
  principal : Str
  host : Str
  rtype : Nat
  name : Str
  pattern : Nat
  op : Nat
  perm : Nat
deriving DecidableEq, Repr, Inhabited

/-- The arguments of `clusterACLs.allowed` (`anyAllowed` ignores `name`). -/
structure Req where
  principal : Str
  host : Str
  name : Str
  rtype : Nat
  op : Nat
deriving DecidableEq, Repr, Inhabited

/-- `func (a *acl) matchesResource(resourceType, resourceName)` -/
def matchesResource (a : Acl) (rtype : Nat) (name : Str) : Bool :=
  if a.rtype != rtype then false
  else if a.pattern == patLiteral then a.name == name || a.name == star
  else if a.pattern == patPrefixed then a.name.isPrefixOf name      -- strings.HasPrefix(resourceName, a.resourceName)
  else false

/-- `func (a *acl) matchesPrincipal(principal)` -/
def matchesPrincipal (a : Acl) (principal : Str) : Bool :=
  a.principal == principal || a.principal == userStar

/-- `func (a *acl) matchesHost(host)` -/
def matchesHost (a : Acl) (host : Str) : Bool :=
  a.host == host || a.host == star

/-- `func (a *acl) matchesOp(op)` -/
def matchesOp (a : Acl) (op : Nat) : Bool :=
  if a.op == opAll || a.op == op then true
  else if a.perm != permAllow then false
  else if op == opDescribe then
    -- inner switch; `default:` falls out to `return false`
    a.op == opRead || a.op == opWrite || a.op == opDelete || a.op == opAlter
  else if op == opDescribeConfigs then a.op == opAlterConfigs
  else false

/-- The loop of `clusterACLs.allowed`; the accumulator is `hasAllow`. -/
def allowedLoop : List Acl → Req → Bool → Bool
  | [], _, hasAllow => hasAllow
  | a :: rest, q, hasAllow =>
    if !matchesResource a q.rtype q.name || !matchesPrincipal a q.principal ||
        !matchesHost a q.host || !matchesOp a q.op then
      allowedLoop rest q hasAllow
    else if a.perm == permDeny then false
    else allowedLoop rest q true

/-- `func (a *clusterACLs) allowed(principal, host, resourceName, resourceType, op)` -/
def allowed (acls : List Acl) (q : Req) : Bool := allowedLoop acls q false

/-- `func (a *clusterACLs) anyAllowed(principal, host, resourceType, op)`: first matching ALLOW wins; the
pattern type and every DENY entry are ignored. -/
def anyAllowed : List Acl → Req → Bool
  | [], _ => false
  | a :: rest, q =>
    if a.rtype != q.rtype || !matchesPrincipal a q.principal || !matchesHost a q.host || !matchesOp a q.op then
      anyAllowed rest q
    else if a.perm == permAllow then true
    else anyAllowed rest q

/-- The cluster state the ACL glue reads: `cfg.enableACLs`, `cfg.superusers` (user names), `c.acls.acls`. -/
structure Cfg where
  enableACLs : Bool := true
  superusers : List Str := []
  acls : List Acl := []
deriving Repr

/-- `func (c *Cluster) isSuperuser(user)` (a nil map has no members) -/
def isSuperuser (c : Cfg) (user : Str) : Bool := c.superusers.contains user

/-- `func principal(user string) string` -/
def principal (user : Str) : Str :=
  if user == [] then userPfx ++ anonymous else userPfx ++ user

/-- `func (c *Cluster) allowedACL(creq, resource, resourceType, op)`; `host` is `creq.clientHost()`. -/
def allowedACL (c : Cfg) (user host name : Str) (rtype op : Nat) : Bool :=
  if !c.enableACLs then true
  else if isSuperuser c user then true
  else allowed c.acls ⟨principal user, host, name, rtype, op⟩

/-- `func (c *Cluster) allowedClusterACL(creq, op)` -/
def allowedClusterACL (c : Cfg) (user host : Str) (op : Nat) : Bool :=
  allowedACL c user host clusterName rtCluster op

/-- `func (c *Cluster) anyAllowedACL(creq, resourceType, op)` -/
def anyAllowedACL (c : Cfg) (user host : Str) (rtype op : Nat) : Bool :=
  if !c.enableACLs then true
  else if isSuperuser c user then true
  else anyAllowed c.acls ⟨principal user, host, [], rtype, op⟩

/-- The ACL decision of `handleInitProducerID`: `true` = proceeds to `doInitProducerID`. -/
def initProducerIDAuthorized (c : Cfg) (user host : Str) (txnID : Option Str) : Bool :=
  match txnID with
  | some t => allowedACL c user host t rtTxnID opWrite
  | none => !(!allowedClusterACL c user host opIdempotentWrite && !anyAllowedACL c user host rtTopic opWrite)

/-! ## Spec: Apache Kafka's authorizer

Transcribed (from memory of the Apache Kafka sources; the sandbox has no network) from

* `org.apache.kafka.metadata.authorizer.StandardAuthorizerData`: `authorize` (super users first),
  `findAclRule` (candidates: PREFIXED ACLs whose name is a prefix of the resource name, LITERAL ACLs with the
  resource name, LITERAL ACLs named `*`; a DENY result wins over an ALLOW result; no result = denied, the
  default `allow.everyone.if.no.acl.found=false`) and `findResult` (principal ∈ {principal, `User:*`}; host
  equal or `*`; operation `ALL`, or equal, or — for ALLOW entries only — DESCRIBE implied by
  {DESCRIBE, READ, WRITE, DELETE, ALTER} and DESCRIBE_CONFIGS implied by {DESCRIBE_CONFIGS, ALTER_CONFIGS});
* `org.apache.kafka.server.authorizer.Authorizer.authorizeByResourceType` (the default method that
  `StandardAuthorizer` inherits) and `kafka.security.authorizer.AclAuthorizer.authorizeByResourceType`:
  the bindings of the resource type are filtered by host (equal or `*`), principal (equal or `User:*`) and
  operation (**equal or `ALL`; implied operations are not applied here**), then
    1. a DENY on the LITERAL pattern `*` ⇒ DENIED;
    2. DENY names are collected per pattern type, ALLOW names per pattern type; an ALLOW on LITERAL `*` ⇒ ALLOWED;
    3. a LITERAL ALLOW `x` counts unless `x` is a DENY LITERAL name or some *non-empty* prefix of `x` is a DENY
       PREFIXED name; a PREFIXED ALLOW `p` counts unless some non-empty prefix of `p` (including `p`) is a DENY
       PREFIXED name (`hasDominantPrefixedDeny`: the name is rebuilt character by character and each
       intermediate string is looked up in the DENY PREFIXED set);
    4. ALLOWED iff some ALLOW counts.
  The default interface method first probes `authorize` on the literal resource `"hardcode"` (so that super
  users pass); `authorizeByResourceTypeStd` below includes the probe, `authorizeByResourceType` is the
  AclAuthorizer form without it; `Props.C34.hardcode_probe_redundant` shows they agree for operations that
  are not implied by others (Kafka itself only ever asks for WRITE on TOPIC). -/
namespace Spec

def impliesDescribe : List Nat := [opDescribe, opRead, opWrite, opDelete, opAlter]
def impliesDescribeConfigs : List Nat := [opDescribeConfigs, opAlterConfigs]

/-- `matchingPrincipals.contains(acl.kafkaPrincipal())` with matchingPrincipals = {principal, User:*} -/
def principalMatches (a : Acl) (principal : Str) : Bool :=
  [principal, userStar].contains a.principal

/-- `acl.host().equals(WILDCARD) || acl.host().equals(host)` -/
def hostMatches (a : Acl) (host : Str) : Bool :=
  a.host == star || a.host == host

/-- operation part of `findResult` -/
def opMatches (a : Acl) (op : Nat) : Bool :=
  if a.op == opAll then true
  else if a.perm == permAllow then
    if op == opDescribe then impliesDescribe.contains a.op
    else if op == opDescribeConfigs then impliesDescribeConfigs.contains a.op
    else op == a.op
  else op == a.op

/-- candidate ACLs of `findAclRule` for a resource -/
def resourceMatches (a : Acl) (rtype : Nat) (name : Str) : Bool :=
  a.rtype == rtype &&
    ((a.pattern == patPrefixed && a.name.isPrefixOf name) ||
     (a.pattern == patLiteral && (a.name == name || a.name == star)))

def aclMatches (a : Acl) (q : Req) : Bool :=
  resourceMatches a q.rtype q.name && principalMatches a q.principal && hostMatches a q.host && opMatches a q.op

/-- `authorize` below the super-user test: DENY wins, then ALLOW, otherwise denied. -/
def authorizeAcls (acls : List Acl) (q : Req) : Bool :=
  let ms := acls.filter (aclMatches · q)
  if ms.any (·.perm == permDeny) then false else ms.any (·.perm == permAllow)

/-- `StandardAuthorizerData.authorize`: `supers` are principal strings (`super.users`). -/
def authorize (supers : List Str) (acls : List Acl) (q : Req) : Bool :=
  if supers.contains q.principal then true else authorizeAcls acls q

/-- bindings filter of `authorizeByResourceType` -/
def byTypeRelevant (a : Acl) (q : Req) : Bool :=
  a.rtype == q.rtype && hostMatches a q.host && principalMatches a q.principal && (a.op == q.op || a.op == opAll)

/-- names of the relevant bindings with the given permission and pattern type -/
def names (acls : List Acl) (q : Req) (perm pattern : Nat) : List Str :=
  (acls.filter fun a => byTypeRelevant a q && a.perm == perm && a.pattern == pattern).map (·.name)

/-- the non-empty prefixes of a name, shortest first (`sb.append(ch)` for each character) -/
def nonEmptyPrefixes (s : Str) : List Str := (List.range s.length).map fun i => s.take (i + 1)

/-- `hasDominantPrefixedDeny` -/
def hasDominantPrefixedDeny (name : Str) (denyPrefixes : List Str) : Bool :=
  (nonEmptyPrefixes name).any (denyPrefixes.contains ·)

/-- `authorizeByResourceType` below the super-user test (`AclAuthorizer` form). -/
def byTypeAcls (acls : List Acl) (q : Req) : Bool :=
  let denyLit := names acls q permDeny patLiteral
  let denyPre := names acls q permDeny patPrefixed
  let allowLit := names acls q permAllow patLiteral
  let allowPre := names acls q permAllow patPrefixed
  if denyLit.contains star then false
  else
    allowLit.any (fun l => l == star || (!denyLit.contains l && !hasDominantPrefixedDeny l denyPre)) ||
    allowPre.any (fun p => !hasDominantPrefixedDeny p denyPre)

def authorizeByResourceType (supers : List Str) (acls : List Acl) (q : Req) : Bool :=
  if supers.contains q.principal then true else byTypeAcls acls q

/-- `"hardcode"` -/
def hardcode : Str := [104, 97, 114, 100, 99, 111, 100, 101]

/-- The default interface method as `StandardAuthorizer` inherits it: the `"hardcode"` probe first. -/
def authorizeByResourceTypeStd (supers : List Str) (acls : List Acl) (q : Req) : Bool :=
  if authorize supers acls { q with name := hardcode } then true else byTypeAcls acls q

/-- `KafkaApis.handleInitProducerIdRequest`: WRITE on the transactional id, or (KIP-679)
IDEMPOTENT_WRITE on the cluster or WRITE on any topic. -/
def initProducerID (supers : List Str) (acls : List Acl) (principal host : Str) (txnID : Option Str) : Bool :=
  match txnID with
  | some t => authorize supers acls ⟨principal, host, t, rtTxnID, opWrite⟩
  | none => authorize supers acls ⟨principal, host, clusterName, rtCluster, opIdempotentWrite⟩ ||
            authorizeByResourceType supers acls ⟨principal, host, [], rtTopic, opWrite⟩

end Spec

/-- Entries Kafka can hold (and kfake's `validateACLCreation` admits): permission ALLOW or DENY, pattern type
LITERAL or PREFIXED. Outside this domain the Go code has quirks that have no Kafka counterpart (an entry with
another permission value counts as an ALLOW in `allowed`; `anyAllowed` never looks at the pattern type). -/
def Acl.WF (a : Acl) : Prop :=
  (a.perm = permAllow ∨ a.perm = permDeny) ∧ (a.pattern = patLiteral ∨ a.pattern = patPrefixed)

instance (a : Acl) : Decidable a.WF := by unfold Acl.WF; exact inferInstance

/-- Operations that no other operation implies (everything but DESCRIBE and DESCRIBE_CONFIGS). -/
def notImplied (op : Nat) : Prop := op ≠ opDescribe ∧ op ≠ opDescribeConfigs

instance (op : Nat) : Decidable (notImplied op) := by unfold notImplied; exact inferInstance

/-- `principal` maps distinct user names to distinct principals except for the pair "" / "ANONYMOUS";
the super-user theorems assume neither is configured as a super user. -/
def Cfg.noAnonSuper (c : Cfg) : Prop := anonymous ∉ c.superusers ∧ ([] : Str) ∉ c.superusers

instance (c : Cfg) : Decidable c.noAnonSuper := by unfold Cfg.noAnonSuper; exact inferInstance

/-- The repair proposed for `clusterACLs.anyAllowed` (see the report): the same loop structure, but DENY
entries are collected and an ALLOW only counts if it is not dominated. Not part of /repo. -/
def anyAllowedRepaired (acls : List Acl) (q : Req) : Bool :=
  let rel := acls.filter fun a =>
    a.rtype == q.rtype && matchesPrincipal a q.principal && matchesHost a q.host && (a.op == q.op || a.op == opAll)
  let denies := rel.filter (·.perm == permDeny)
  let allows := rel.filter (·.perm == permAllow)
  if denies.any (fun d => d.pattern == patLiteral && d.name == star) then false
  else allows.any fun al =>
    if al.pattern == patLiteral && al.name == star then true
    else if al.pattern != patLiteral && al.pattern != patPrefixed then false
    else if al.pattern == patLiteral && denies.any (fun d => d.pattern == patLiteral && d.name == al.name) then false
    else !denies.any (fun d => d.pattern == patPrefixed && d.name != [] && d.name.isPrefixOf al.name)

end Model.C34
