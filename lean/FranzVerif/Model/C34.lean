/-! C34 — kfake authorization (`pkg/kfake/acl.go`) against Apache Kafka's authorizer.

`Model.C34`      : the Go code as it is, function by function (enum values are kmsg's numeric codes, so
                   that "any other value" behaves as in the Go `switch`/`==` tests).
`Model.C34.Spec` : an independent transcription of Kafka's authorizer
                   (`StandardAuthorizerData.findResult`/`findAclRule` for `authorize`,
                   `Authorizer.authorizeByResourceType` / `AclAuthorizer.authorizeByResourceType` for the
                   any-resource check), written with filters over the ACL list, not with kfake's loops.
-- models: pkg/kfake/acl.go:acl.matchesResource
-- models: pkg/kfake/acl.go:acl.matchesPrincipal
-- models: pkg/kfake/acl.go:acl.matchesHost
-- models: pkg/kfake/acl.go:acl.matchesOp
-- models: pkg/kfake/acl.go:clusterACLs.allowed
-- models: pkg/kfake/acl.go:clusterACLs.anyAllowed
-- models: pkg/kfake/acl.go:Cluster.isSuperuser
-- models: pkg/kfake/acl.go:principal
-- models: pkg/kfake/acl.go:Cluster.allowedACL
-- models: pkg/kfake/acl.go:Cluster.allowedClusterACL
-- models: pkg/kfake/acl.go:Cluster.anyAllowedACL
-- models: pkg/kfake/22_init_producer_id.go:Cluster.handleInitProducerID
Core Lean only (linked into the driver). -/
namespace Model.C34

/-- Go strings are byte strings. -/
abbrev Str := List UInt8

/-! kmsg enum codes (pkg/kmsg/generated.go) -/
def rtTopic : Nat := 2
def rtGroup : Nat := 3
def rtCluster : Nat := 4
def rtTxnID : Nat := 5
def patLiteral : Nat := 3
def patPrefixed : Nat := 4
def opAll : Nat := 2
def opRead : Nat := 3
def opWrite : Nat := 4
def opCreate : Nat := 5
def opDelete : Nat := 6
def opAlter : Nat := 7
def opDescribe : Nat := 8
def opClusterAction : Nat := 9
def opDescribeConfigs : Nat := 10
def opAlterConfigs : Nat := 11
def opIdempotentWrite : Nat := 12
def permDeny : Nat := 2
def permAllow : Nat := 3

/-- `"*"` -/
def star : Str := [42]
/-- `"User:*"` -/
def userStar : Str := [85, 115, 101, 114, 58, 42]
/-- `"User:"` -/
def userPfx : Str := [85, 115, 101, 114, 58]
/-- `"ANONYMOUS"` -/
def anonymous : Str := [65, 78, 79, 78, 89, 77, 79, 85, 83]
/-- `aclClusterName = "kafka-cluster"` -/
def clusterName : Str := [107, 97, 102, 107, 97, 45, 99, 108, 117, 115, 116, 101, 114]

/-- `type acl struct` -/
structure Acl where
  principal : Str
  host : Str
  rtype : Nat
  name : Str
  pattern : Nat
  op : Nat
  perm : Nat
deriving DecidableEq, Repr, Inhabited

/-- The arguments of `clusterACLs.allowed` (`anyAllowed` ignores `name`). -/
structure Req where
  principal : Str
  host : Str
  name : Str
  rtype : Nat
  op : Nat
deriving DecidableEq, Repr, Inhabited

/-- `func (a *acl) matchesResource(resourceType, resourceName)` -/
def matchesResource (a : Acl) (rtype : Nat) (name : Str) : Bool :=
  if a.rtype != rtype then false
  else if a.pattern == patLiteral then a.name == name || a.name == star
  else if a.pattern == patPrefixed then a.name.isPrefixOf name      -- strings.HasPrefix(resourceName, a.resourceName)
  else false

/-- `func (a *acl) matchesPrincipal(principal)` -/
def matchesPrincipal (a : Acl) (principal : Str) : Bool :=
  a.principal == principal || a.principal == userStar

/-- `func (a *acl) matchesHost(host)` -/
def matchesHost (a : Acl) (host : Str) : Bool :=
  a.host == host || a.host == star

/-- `func (a *acl) matchesOp(op)` -/
def matchesOp (a : Acl) (op : Nat) : Bool :=
  if a.op == opAll || a.op == op then true
  else if a.perm != permAllow then false
  else if op == opDescribe then
    -- inner switch; `default:` falls out to `return false`
    a.op == opRead || a.op == opWrite || a.op == opDelete || a.op == opAlter
  else if op == opDescribeConfigs then a.op == opAlterConfigs
  else false

/-- The loop of `clusterACLs.allowed`; the accumulator is `hasAllow`. -/
def allowedLoop : List Acl → Req → Bool → Bool
  | [], _, hasAllow => hasAllow
  | a :: rest, q, hasAllow =>
    if !matchesResource a q.rtype q.name || !matchesPrincipal a q.principal ||
        !matchesHost a q.host || !matchesOp a q.op then
      allowedLoop rest q hasAllow
    else if a.perm == permDeny then false
    else allowedLoop rest q true

/-- `func (a *clusterACLs) allowed(principal, host, resourceName, resourceType, op)` -/
def allowed (acls : List Acl) (q : Req) : Bool := allowedLoop acls q false

/-- First loop of `clusterACLs.anyAllowed` (as repaired by /repo 46d17aa): entries of the resource type whose
principal and host match and whose operation is `op` or ALL (no implied operations) are sorted into `allows` and
`denies`; a DENY on the literal `*` returns false at once (`none`); any other permission value is dropped. -/
def anyAllowedCollect : List Acl → Req → List Acl → List Acl → Option (List Acl × List Acl)
  | [], _, allows, denies => some (allows, denies)
  | a :: rest, q, allows, denies =>
    if a.rtype != q.rtype || !matchesPrincipal a q.principal || !matchesHost a q.host ||
        (a.op != q.op && a.op != opAll) then
      anyAllowedCollect rest q allows denies
    else if a.perm == permDeny then
      if a.pattern == patLiteral && a.name == star then none
      else anyAllowedCollect rest q allows (denies ++ [a])
    else if a.perm == permAllow then anyAllowedCollect rest q (allows ++ [a]) denies
    else anyAllowedCollect rest q allows denies

/-- The inner `for _, d := range denies` loop; the accumulator is `dominated` (a DENY whose pattern type is
neither LITERAL nor PREFIXED leaves it unchanged). -/
def dominatedLoop (al : Acl) (literal : Bool) : List Acl → Bool → Bool
  | [], dominated => dominated
  | d :: ds, dominated =>
    let dominated' :=
      if d.pattern == patLiteral then literal && d.name == al.name
      else if d.pattern == patPrefixed then d.name != [] && d.name.isPrefixOf al.name   -- strings.HasPrefix(al.resourceName, d.resourceName)
      else dominated
    if dominated' then true else dominatedLoop al literal ds dominated'

/-- Second loop: the first ALLOW that is the literal `*`, or that is LITERAL/PREFIXED and not dominated, wins. -/
def anyAllowedScan (denies : List Acl) : List Acl → Bool
  | [] => false
  | al :: rest =>
    let literal := al.pattern == patLiteral
    if literal && al.name == star then true
    else if !literal && al.pattern != patPrefixed then anyAllowedScan denies rest
    else if !dominatedLoop al literal denies false then true
    else anyAllowedScan denies rest

/-- `func (a *clusterACLs) anyAllowed(principal, host, resourceType, op)` -/
def anyAllowed (acls : List Acl) (q : Req) : Bool :=
  match anyAllowedCollect acls q [] [] with
  | none => false
  | some (allows, denies) => anyAllowedScan denies allows

/-- The cluster state the ACL glue reads: `cfg.enableACLs`, `cfg.superusers` (user names), `c.acls.acls`. -/
structure Cfg where
  enableACLs : Bool := true
  superusers : List Str := []
  acls : List Acl := []
deriving Repr

/-- `func (c *Cluster) isSuperuser(user)` (a nil map has no members) -/
def isSuperuser (c : Cfg) (user : Str) : Bool := c.superusers.contains user

/-- `func principal(user string) string` -/
def principal (user : Str) : Str :=
  if user == [] then userPfx ++ anonymous else userPfx ++ user

/-- `func (c *Cluster) allowedACL(creq, resource, resourceType, op)`; `host` is `creq.clientHost()`. -/
def allowedACL (c : Cfg) (user host name : Str) (rtype op : Nat) : Bool :=
  if !c.enableACLs then true
  else if isSuperuser c user then true
  else allowed c.acls ⟨principal user, host, name, rtype, op⟩

/-- `func (c *Cluster) allowedClusterACL(creq, op)` -/
def allowedClusterACL (c : Cfg) (user host : Str) (op : Nat) : Bool :=
  allowedACL c user host clusterName rtCluster op

/-- `func (c *Cluster) anyAllowedACL(creq, resourceType, op)` -/
def anyAllowedACL (c : Cfg) (user host : Str) (rtype op : Nat) : Bool :=
  if !c.enableACLs then true
  else if isSuperuser c user then true
  else anyAllowed c.acls ⟨principal user, host, [], rtype, op⟩

/-- The ACL decision of `handleInitProducerID`: `true` = proceeds to `doInitProducerID`. -/
def initProducerIDAuthorized (c : Cfg) (user host : Str) (txnID : Option Str) : Bool :=
  match txnID with
  | some t => allowedACL c user host t rtTxnID opWrite
  | none => !(!allowedClusterACL c user host opIdempotentWrite && !anyAllowedACL c user host rtTopic opWrite)

/-! ## Spec: Apache Kafka's authorizer

Transcribed (from memory of the Apache Kafka sources; the sandbox has no network) from

* `org.apache.kafka.metadata.authorizer.StandardAuthorizerData`: `authorize` (super users first),
  `findAclRule` (candidates: PREFIXED ACLs whose name is a prefix of the resource name, LITERAL ACLs with the
  resource name, LITERAL ACLs named `*`; a DENY result wins over an ALLOW result; no result = denied, the
  default `allow.everyone.if.no.acl.found=false`) and `findResult` (principal ∈ {principal, `User:*`}; host
  equal or `*`; operation `ALL`, or equal, or — for ALLOW entries only — DESCRIBE implied by
  {DESCRIBE, READ, WRITE, DELETE, ALTER} and DESCRIBE_CONFIGS implied by {DESCRIBE_CONFIGS, ALTER_CONFIGS});
* `org.apache.kafka.server.authorizer.Authorizer.authorizeByResourceType` (the default method that
  `StandardAuthorizer` inherits) and `kafka.security.authorizer.AclAuthorizer.authorizeByResourceType`:
  the bindings of the resource type are filtered by host (equal or `*`), principal (equal or `User:*`) and
  operation (**equal or `ALL`; implied operations are not applied here**), then
    1. a DENY on the LITERAL pattern `*` ⇒ DENIED;
    2. DENY names are collected per pattern type, ALLOW names per pattern type; an ALLOW on LITERAL `*` ⇒ ALLOWED;
    3. a LITERAL ALLOW `x` counts unless `x` is a DENY LITERAL name or some *non-empty* prefix of `x` is a DENY
       PREFIXED name; a PREFIXED ALLOW `p` counts unless some non-empty prefix of `p` (including `p`) is a DENY
       PREFIXED name (`hasDominantPrefixedDeny`: the name is rebuilt character by character and each
       intermediate string is looked up in the DENY PREFIXED set);
    4. ALLOWED iff some ALLOW counts.
  The default interface method first probes `authorize` on the literal resource `"hardcode"` (so that super
  users pass); `authorizeByResourceTypeStd` below includes the probe, `authorizeByResourceType` is the
  AclAuthorizer form without it; `Props.C34.hardcode_probe_redundant` shows they agree for operations that
  are not implied by others (Kafka itself only ever asks for WRITE on TOPIC). -/
namespace Spec

def impliesDescribe : List Nat := [opDescribe, opRead, opWrite, opDelete, opAlter]
def impliesDescribeConfigs : List Nat := [opDescribeConfigs, opAlterConfigs]

/-- `matchingPrincipals.contains(acl.kafkaPrincipal())` with matchingPrincipals = {principal, User:*} -/
def principalMatches (a : Acl) (principal : Str) : Bool :=
  [principal, userStar].contains a.principal

/-- `acl.host().equals(WILDCARD) || acl.host().equals(host)` -/
def hostMatches (a : Acl) (host : Str) : Bool :=
  a.host == star || a.host == host

/-- operation part of `findResult` -/
def opMatches (a : Acl) (op : Nat) : Bool :=
  if a.op == opAll then true
  else if a.perm == permAllow then
    if op == opDescribe then impliesDescribe.contains a.op
    else if op == opDescribeConfigs then impliesDescribeConfigs.contains a.op
    else op == a.op
  else op == a.op

/-- candidate ACLs of `findAclRule` for a resource -/
def resourceMatches (a : Acl) (rtype : Nat) (name : Str) : Bool :=
  a.rtype == rtype &&
    ((a.pattern == patPrefixed && a.name.isPrefixOf name) ||
     (a.pattern == patLiteral && (a.name == name || a.name == star)))

def aclMatches (a : Acl) (q : Req) : Bool :=
  resourceMatches a q.rtype q.name && principalMatches a q.principal && hostMatches a q.host && opMatches a q.op

/-- `authorize` below the super-user test: DENY wins, then ALLOW, otherwise denied. -/
def authorizeAcls (acls : List Acl) (q : Req) : Bool :=
  let ms := acls.filter (aclMatches · q)
  if ms.any (·.perm == permDeny) then false else ms.any (·.perm == permAllow)

/-- `StandardAuthorizerData.authorize`: `supers` are principal strings (`super.users`). -/
def authorize (supers : List Str) (acls : List Acl) (q : Req) : Bool :=
  if supers.contains q.principal then true else authorizeAcls acls q

/-- bindings filter of `authorizeByResourceType` -/
def byTypeRelevant (a : Acl) (q : Req) : Bool :=
  a.rtype == q.rtype && hostMatches a q.host && principalMatches a q.principal && (a.op == q.op || a.op == opAll)

/-- names of the relevant bindings with the given permission and pattern type -/
def names (acls : List Acl) (q : Req) (perm pattern : Nat) : List Str :=
  (acls.filter fun a => byTypeRelevant a q && a.perm == perm && a.pattern == pattern).map (·.name)

/-- the non-empty prefixes of a name, shortest first (`sb.append(ch)` for each character) -/
def nonEmptyPrefixes (s : Str) : List Str := (List.range s.length).map fun i => s.take (i + 1)

/-- `hasDominantPrefixedDeny` -/
def hasDominantPrefixedDeny (name : Str) (denyPrefixes : List Str) : Bool :=
  (nonEmptyPrefixes name).any (denyPrefixes.contains ·)

/-- `authorizeByResourceType` below the super-user test (`AclAuthorizer` form). -/
def byTypeAcls (acls : List Acl) (q : Req) : Bool :=
  let denyLit := names acls q permDeny patLiteral
  let denyPre := names acls q permDeny patPrefixed
  let allowLit := names acls q permAllow patLiteral
  let allowPre := names acls q permAllow patPrefixed
  if denyLit.contains star then false
  else
    allowLit.any (fun l => l == star || (!denyLit.contains l && !hasDominantPrefixedDeny l denyPre)) ||
    allowPre.any (fun p => !hasDominantPrefixedDeny p denyPre)

def authorizeByResourceType (supers : List Str) (acls : List Acl) (q : Req) : Bool :=
  if supers.contains q.principal then true else byTypeAcls acls q

/-- `"hardcode"` -/
def hardcode : Str := [104, 97, 114, 100, 99, 111, 100, 101]

/-- The default interface method as `StandardAuthorizer` inherits it: the `"hardcode"` probe first. -/
def authorizeByResourceTypeStd (supers : List Str) (acls : List Acl) (q : Req) : Bool :=
  if authorize supers acls { q with name := hardcode } then true else byTypeAcls acls q

/-- `KafkaApis.handleInitProducerIdRequest`: WRITE on the transactional id, or (KIP-679)
IDEMPOTENT_WRITE on the cluster or WRITE on any topic. -/
def initProducerID (supers : List Str) (acls : List Acl) (principal host : Str) (txnID : Option Str) : Bool :=
  match txnID with
  | some t => authorize supers acls ⟨principal, host, t, rtTxnID, opWrite⟩
  | none => authorize supers acls ⟨principal, host, clusterName, rtCluster, opIdempotentWrite⟩ ||
            authorizeByResourceType supers acls ⟨principal, host, [], rtTopic, opWrite⟩

end Spec

/-- Entries Kafka can hold (and kfake's `validateACLCreation` admits): permission ALLOW or DENY, pattern type
LITERAL or PREFIXED. Outside this domain `allowed` has a quirk that has no Kafka counterpart (a matching entry with
another permission value counts as an ALLOW). `anyAllowed` (as repaired) drops such entries, as Kafka does. -/
def Acl.WF (a : Acl) : Prop :=
  (a.perm = permAllow ∨ a.perm = permDeny) ∧ (a.pattern = patLiteral ∨ a.pattern = patPrefixed)

instance (a : Acl) : Decidable a.WF := by unfold Acl.WF; exact inferInstance

/-- Operations that no other operation implies (everything but DESCRIBE and DESCRIBE_CONFIGS). -/
def notImplied (op : Nat) : Prop := op ≠ opDescribe ∧ op ≠ opDescribeConfigs

instance (op : Nat) : Decidable (notImplied op) := by unfold notImplied; exact inferInstance

/-- `principal` maps distinct user names to distinct principals except for the pair "" / "ANONYMOUS";
the super-user theorems assume neither is configured as a super user. -/
def Cfg.noAnonSuper (c : Cfg) : Prop := anonymous ∉ c.superusers ∧ ([] : Str) ∉ c.superusers

instance (c : Cfg) : Decidable c.noAnonSuper := by unfold Cfg.noAnonSuper; exact inferInstance

end Model.C34
