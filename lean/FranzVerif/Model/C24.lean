/-! C24 — protocol tables (kerr code table, kmsg key dispatch, kversion release tables).

The *model* of each table is the run-length encoded dump `Gen.C24.*` that `harness/cmd/c24 dump` produces
on every run by calling the public lookups of the tree under verification on every `int16` value
(tie T, regenerated). This file has the vocabulary of those dumps, the lookup that interprets them and
the executable Specs, written from the property text:

* every Kafka error code maps to an error carrying that code, code 0 maps to no error, unknown codes
  map to UNKNOWN_SERVER_ERROR                                                         (`errSpec`)
* every API key has request and response types that agree on key, name and maximum version
  (and a key without a type is absent on both sides)                                  (`keySpec`)
* no named release allows a request version beyond what the codec can encode
  (and every key a release names exists in the codec)                                 (`relSpec`)

Strings are the line-protocol tokens of the harness (`%` is the empty string, other bytes outside
`[A-Za-z0-9_.]` are `%XX`). Core Lean only (the driver links this file). -/
namespace Model.C24

/-- One maximal run of a dump: every `x` with `lo ≤ x ≤ hi` was observed to give `val`. -/
structure Entry (α : Type) where
  lo : Int
  hi : Int
  val : α
deriving Repr

/-- Table lookup. `none` = the dump does not answer for `x` (ruled out by `covers`). -/
def lookup {α : Type} : List (Entry α) → Int → Option α
  | [], _ => none
  | e :: t, x => if e.lo ≤ x ∧ x ≤ e.hi then some e.val else lookup t x

/-- The runs tile `[a, b]` exactly, in ascending order and without gaps or overlaps. -/
def covers {α : Type} : List (Entry α) → Int → Int → Bool
  | [], a, b => a == b + 1
  | e :: t, a, b => e.lo == a && decide (e.lo ≤ e.hi) && covers t (e.hi + 1) b

/-- `lo, lo+1, …, hi` -/
def span (lo hi : Int) : List Int :=
  (List.range (hi - lo + 1).toNat).map fun (i : Nat) => lo + (i : Int)

/-- Interval-level check of one run against a pointwise Spec `S`: short runs are checked point by point,
    long runs by a uniform criterion `U` (sound for `S` on the whole interval, see `Proof.C24`). -/
def runOk {α : Type} (S : Int → α → Bool) (U : Int → Int → α → Bool) (e : Entry α) : Bool :=
  if e.hi - e.lo < 64 then (span e.lo e.hi).all (fun x => S x e.val) else U e.lo e.hi e.val

def int16Min : Int := -32768
def int16Max : Int := 32767

/-- A whole dump is fine: it tiles int16 and every run passes. -/
def tableOk {α : Type} (S : Int → α → Bool) (U : Int → Int → α → Bool) (t : List (Entry α)) : Bool :=
  covers t int16Min int16Max && t.all (runOk S U)

/-! ## kerr -/

structure ErrVal where
  code : Int
  msg : String
  retriable : Bool
deriving DecidableEq, Repr

/-- What a lookup returned: no error, a `*kerr.Error`, or something else (foreign type, typed nil, panic). -/
inductive ErrRes where
  | nil
  | err (v : ErrVal)
  | other (what : String)
deriving DecidableEq, Repr

/-- `efc` = `ErrorForCode` (retriable as `kerr.IsRetriable` reports it), `typed` = `TypedErrorForCode`. -/
structure ErrOut where
  efc : ErrRes
  typed : ErrRes
deriving DecidableEq, Repr

/-- The highest error code Apache Kafka defines at the protocol level this tree tracks
    (`Errors.java`: SHARE_SESSION_LIMIT_REACHED = 133; codes −1 … 133 are all assigned). External reference,
    transcribed: a code in this range is a Kafka error code and must not fall back to UNKNOWN_SERVER_ERROR. -/
def refMaxCode : Int := 133

def isUnknownServerError (v : ErrVal) : Bool := v.code == -1 && v.msg == "UNKNOWN_SERVER_ERROR"

/-- Spec for one code. -/
def errSpec (code : Int) (o : ErrOut) : Bool :=
  o.efc == o.typed &&
  match o.efc with
  | .nil => code == 0
  | .err v => code != 0 && (v.code == code || (isUnknownServerError v && (decide (code < -1) || decide (refMaxCode < code))))
  | .other _ => false

/-- Uniform criterion for a long run of codes: all of them answer UNKNOWN_SERVER_ERROR and the run contains
    neither 0 nor a Kafka error code other than −1. -/
def errUniform (lo hi : Int) (o : ErrOut) : Bool :=
  o.efc == o.typed &&
  match o.efc with
  | .err v => isUnknownServerError v && (decide (hi < 0) || decide (0 < lo)) && (decide (hi ≤ -1) || decide (refMaxCode < lo))
  | _ => false

/-! ## kmsg -/

/-- A request (or response) value: its `Key()`, `MaxVersion()`, its Go type name without the suffix
    `Request` (`Response`), and the type name of its `ResponseKind()` (`RequestKind()`) without that suffix.
    A type that is not named `<Stem><suffix>` shows as `%21<full name>`. -/
structure MsgVal where
  key : Int
  max : Int
  stem : String
  kind : String
deriving DecidableEq, Repr

inductive MsgRes where
  | none
  | msg (v : MsgVal)
  | other (what : String)
deriving DecidableEq, Repr

/-- `RequestForKey`, `ResponseForKey`, `NameForKey`. -/
structure KeyOut where
  req : MsgRes
  resp : MsgRes
  name : String
deriving DecidableEq, Repr

/-- The name of a key without a type: the code answers "Unknown", its doc comment says "" (token `%`). -/
def isNoName (s : String) : Bool := s == "Unknown" || s == "%"

/-- Spec for one key. -/
def keySpec (key : Int) (o : KeyOut) : Bool :=
  match o.req, o.resp with
  | .none, .none => isNoName o.name
  | .msg q, .msg r =>
    q.key == key && r.key == key && q.max == r.max && decide (0 ≤ q.max) &&
    !isNoName o.name && q.stem == o.name && r.stem == o.name && q.kind == o.name && r.kind == o.name
  | _, _ => false

def keyUniform (_lo _hi : Int) (o : KeyOut) : Bool :=
  o.req == .none && o.resp == .none && isNoName o.name

def reqMaxOf (o : KeyOut) : Option Int := match o.req with | .msg v => some v.max | _ => none
def respMaxOf (o : KeyOut) : Option Int := match o.resp with | .msg v => some v.max | _ => none

/-! ## kversion -/

/-- `LookupMaxKeyVersion key` of one release. -/
structure RelVal where
  max : Int
  has : Bool
deriving DecidableEq, Repr

/-- A release's answer for a key together with what the codec has for that key. -/
structure RelOut where
  rel : RelVal
  reqMax : Option Int
  respMax : Option Int
deriving DecidableEq, Repr

/-- Spec for one (release, key). -/
def relSpec (o : RelOut) : Bool :=
  if o.rel.has then
    decide (0 ≤ o.rel.max) &&
    match o.reqMax, o.respMax with
    | some q, some r => decide (o.rel.max ≤ q) && decide (o.rel.max ≤ r)
    | _, _ => false
  else o.rel.max == -1

/-- The codec maxima of a key according to a key table (an unanswered key has no type). -/
def codecOf (kt : List (Entry KeyOut)) (key : Int) : Option Int × Option Int :=
  match lookup kt key with
  | some o => (reqMaxOf o, respMaxOf o)
  | none => (none, none)

def relPoint (kt : List (Entry KeyOut)) (key : Int) (v : RelVal) : Bool :=
  relSpec ⟨v, (codecOf kt key).1, (codecOf kt key).2⟩

def relUniform (_lo _hi : Int) (v : RelVal) : Bool := !v.has && v.max == -1

def relTableOk (kt : List (Entry KeyOut)) (t : List (Entry RelVal)) : Bool :=
  tableOk (relPoint kt) relUniform t

end Model.C24
