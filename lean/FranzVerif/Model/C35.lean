/-! C35 — kadm group lag.

Hand-written model of `CalculateGroupLag` / `CalculateGroupLagWithStartOffsets`, `GroupLag.Total`
and `GroupLag.TotalByTopic` of pkg/kadm/groups.go.
-- models: pkg/kadm/groups.go:CalculateGroupLagWithStartOffsets
-- models: pkg/kadm/groups.go:CalculateGroupLag
-- models: pkg/kadm/groups.go:GroupLag.Total
-- models: pkg/kadm/groups.go:GroupLag.TotalByTopic

Conventions.
* Topic names are abstracted to natural numbers (the code only compares them), partitions are
  `Int` (int32 on the wire), offsets are unbounded `Int` (the harness keeps |offset| < 2^40, so no
  int64 operation of the code overflows).
* `error` values are natural numbers: `0` is `nil`, `1` is kadm's private `errListMissing`, any
  other number is the identity of an error value found in the inputs (passed through untouched).
* Go maps are association lists read with first-match lookup (`alook`); `range m` is "for every key
  `k` of `m`, with `m[k]`". A nil map and an empty map are both `[]` (the code only reads them).
* The result `map[string]map[int32]GroupMemberLag` is kept as the set of its topic keys
  (`topics`; a topic can be present with no partition: the code "primes" join topics) and one flat
  partial map `(topic, partition) ↦ row`. This is the same information as a map of maps.
* Each of the three passes is the code's loop nest emitting its map writes in program order
  (`l[t] = make(…)` → `prime`, `lt[p] = …` → `put`, and a write guarded by
  `if _, ok := lt[p]; ok { continue }` → `putNew`, the guard being evaluated when the write is
  executed). The written rows of passes two and three depend on the inputs only, never on `l`, so
  emitting then executing is the program order of the code. Pass three ranges over the topic keys
  `l` has after pass two.
Core Lean only (linked into the driver). -/
namespace Model.C35

/-! ### association lists (Go maps) -/

def alook {κ α : Type} [DecidableEq κ] (k : κ) : List (κ × α) → Option α
  | [] => none
  | (k', v) :: m => if k' = k then some v else alook k m

/-- `m[k] = v` -/
def ains {κ α : Type} [DecidableEq κ] (k : κ) (v : α) : List (κ × α) → List (κ × α)
  | [] => [(k, v)]
  | (k', v') :: m => if k' = k then (k, v) :: m else (k', v') :: ains k v m

def keys {κ α : Type} (m : List (κ × α)) : List κ := m.map (·.1)

/-- `m[t][p]` with both "ok"s of the code (`tm := m[t]; if tm != nil { if v, ok := tm[p]; ok … } }`) -/
def get2 {α : Type} (m : List (Nat × List (Int × α))) (t : Nat) (p : Int) : Option α :=
  match alook t m with
  | some ps => alook p ps
  | none => none

/-- keys of `m[t]` (empty when the topic is absent) -/
def partsOf {α : Type} (m : List (Nat × List (Int × α))) (t : Nat) : List Int :=
  match alook t m with
  | some ps => keys ps
  | none => []

/-! ### inputs and outputs -/

/-- `OffsetResponse` as far as the code reads it: `Offset.At`, `Offset.LeaderEpoch`, `Err`. -/
structure Commit where
  at_ : Int
  epoch : Int
  err : Nat
deriving DecidableEq, Repr, Inhabited

/-- `ListedOffset`: `Offset`, `Err`. -/
structure Listed where
  off : Int
  err : Nat
deriving DecidableEq, Repr, Inhabited

def errMissing : Nat := 1

/-- `ListedOffset{Topic, Partition, Err: errListMissing}` -/
def missing : Listed := ⟨0, errMissing⟩

/-- A `DescribedGroupMember`: whether `Assigned.AsConsumer()` succeeds and its topics (order and
duplicates as given), whether `Join.AsConsumer()` succeeds and its topics. -/
structure Member where
  assignedConsumer : Bool
  assigned : List (Nat × List Int)
  joinConsumer : Bool
  join : List Nat
deriving DecidableEq, Repr, Inhabited

structure Input where
  members : List Member
  commit : List (Nat × List (Int × Commit))
  start : List (Nat × List (Int × Listed))
  end_ : List (Nat × List (Int × Listed))
deriving DecidableEq, Repr, Inhabited

/-- `GroupMemberLag`; `member` is the index into `group.Members` the pointer refers to, `-1` for nil. -/
structure Row where
  member : Int
  topic : Nat
  part : Int
  commitAt : Int
  commitEpoch : Int
  start : Listed
  end_ : Listed
  lag : Int
  err : Nat
deriving DecidableEq, Repr, Inhabited

/-- `map[string]map[int32]GroupMemberLag` -/
structure LagMap where
  topics : List Nat := []
  rows : List ((Nat × Int) × Row) := []
deriving Repr, DecidableEq

def prime (l : LagMap) (t : Nat) : LagMap :=
  if t ∈ l.topics then l else { l with topics := l.topics ++ [t] }

def put (l : LagMap) (t : Nat) (p : Int) (r : Row) : LagMap :=
  { prime l t with rows := ains (t, p) r l.rows }

def has (l : LagMap) (t : Nat) (p : Int) : Bool := (alook (t, p) l.rows).isSome

inductive Ins where
  | prime (t : Nat)
  | put (t : Nat) (p : Int) (r : Row)
  | putNew (t : Nat) (p : Int) (r : Row)
deriving Repr, DecidableEq

def step (l : LagMap) : Ins → LagMap
  | .prime t => prime l t
  | .put t p r => put l t p r
  | .putNew t p r => if has l t p then l else put l t p r

def exec (l : LagMap) : List Ins → LagMap
  | [] => l
  | i :: is => exec (step l i) is

/-! ### the lag arithmetic of passes one and two (the two blocks are textually the same) -/

/-- `perr`: missing end offset, else the commit error, else the end offset's error. -/
def perrOf (pcommit : Commit) (pendActual : Option Listed) : Nat :=
  match pendActual with
  | none => errMissing
  | some pe => if pcommit.err ≠ 0 then pcommit.err else pe.err

def calcLag (pcommit : Commit) (pstart pend : Listed) (perr : Nat) : Int :=
  if perr = 0 then
    let lag := pend.off
    let lag := if pstart.err = 0 then pend.off - pstart.off else lag
    let lag := if pcommit.at_ ≥ 0 then pend.off - pcommit.at_ else lag
    if lag < 0 then 0 else lag
  else -1

def mkRow (inp : Input) (member : Int) (t : Nat) (p : Int) (pcommit : Commit) : Row :=
  let pendA := get2 inp.end_ t p
  let pend := pendA.getD missing
  let pstart := (get2 inp.start t p).getD missing
  let perr := perrOf pcommit pendA
  { member := member, topic := t, part := p, commitAt := pcommit.at_, commitEpoch := pcommit.epoch,
    start := pstart, end_ := pend, lag := calcLag pcommit pstart pend perr, err := perr }

/-! ### pass one: assigned partitions of every member, then the member's join topics -/

/-- default `pcommit` of pass one: `At: -1`, zero leader epoch, nil error -/
def noCommit1 : Commit := ⟨-1, 0, 0⟩

def rowAssigned (inp : Input) (mi : Nat) (t : Nat) (p : Int) : Row :=
  mkRow inp (Int.ofNat mi) t p ((get2 inp.commit t p).getD noCommit1)

def insTopic1 (inp : Input) (mi : Nat) (tp : Nat × List Int) : List Ins :=
  .prime tp.1 :: tp.2.map (fun p => .put tp.1 p (rowAssigned inp mi tp.1 p))

def insMember1 (inp : Input) (mi : Nat) (m : Member) : List Ins :=
  if m.assignedConsumer then
    m.assigned.flatMap (insTopic1 inp mi) ++ (if m.joinConsumer then m.join.map .prime else [])
  else []   -- `continue` before the join topics are looked at

def ins1From (inp : Input) (mi : Nat) : List Member → List Ins
  | [] => []
  | m :: ms => insMember1 inp mi m ++ ins1From inp (mi + 1) ms

def ins1 (inp : Input) : List Ins := ins1From inp 0 inp.members

/-! ### pass two: everything committed that no member is assigned -/

def insTopic2 (inp : Input) (t : Nat) : List Ins :=
  .prime t :: (partsOf inp.commit t).flatMap (fun p =>
    match get2 inp.commit t p with
    | some pc => [Ins.putNew t p (mkRow inp (-1) t p pc)]
    | none => [])

def ins2 (inp : Input) : List Ins := (keys inp.commit).flatMap (insTopic2 inp)

/-! ### pass three: listed end offsets of every topic of `l` not seen so far -/

def rowListed (inp : Input) (t : Nat) (p : Int) (pend : Listed) : Row :=
  let perr := pend.err
  let lag : Int := if perr = 0 then pend.off else -1
  let pstartA := get2 inp.start t p
  let pstart := pstartA.getD missing
  let lag := match pstartA with
    | some ps => if ps.err = 0 then (if pend.off - ps.off < 0 then 0 else pend.off - ps.off) else lag
    | none => lag
  { member := -1, topic := t, part := p, commitAt := -1, commitEpoch := -1,
    start := pstart, end_ := pend, lag := lag, err := perr }

def insTopic3 (inp : Input) (t : Nat) : List Ins :=
  (partsOf inp.end_ t).flatMap (fun p =>
    match get2 inp.end_ t p with
    | some pe => [Ins.putNew t p (rowListed inp t p pe)]
    | none => [])

def ins3 (inp : Input) (topics : List Nat) : List Ins := topics.flatMap (insTopic3 inp)

/-- `CalculateGroupLagWithStartOffsets` (`CalculateGroupLag` is the same with `start = []`). -/
def run (inp : Input) : LagMap :=
  let l2 := exec (exec {} (ins1 inp)) (ins2 inp)
  exec l2 (ins3 inp l2.topics)

/-! ### totals -/

def sumBy {α : Type} (f : α → Int) : List α → Int
  | [] => 0
  | x :: xs => f x + sumBy f xs

/-- `for p := range ps { if ps[p].Lag > 0 { mt.Lag += ps[p].Lag } }` for `ps = l[t]` -/
def topicLag (l : LagMap) (t : Nat) : Int :=
  sumBy (fun kr : (Nat × Int) × Row => if kr.1.1 = t ∧ kr.2.lag > 0 then kr.2.lag else 0) l.rows

def totalByTopic (l : LagMap) : List (Nat × Int) := l.topics.map (fun t => (t, topicLag l t))

def total (l : LagMap) : Int := sumBy (·.2) (totalByTopic l)

/-- What the harness observes: every `GroupMemberLag` of the result, `TotalByTopic()`, `Total()`. -/
structure Out where
  rows : List Row
  byTopic : List (Nat × Int)
  total : Int
deriving Repr, DecidableEq

def runOut (inp : Input) : Out :=
  let l := run inp
  { rows := l.rows.map (·.2), byTopic := totalByTopic l, total := total l }

end Model.C35
