/-! Idempotent-producing history monitor (C02). Events come from `harness/cmd/sim02`: client-side
calls/promises, the wire-level view of every produce batch at the broker side, and the final log
contents read back by a fresh consumer. `check` returns the rule an event breaks. Core Lean only. -/
namespace Model.Idem

abbrev Id := Nat

inductive Ev where
  | call (id : Id) (part : Nat)
  | ret (id : Id)
  | promise (id : Id) (ok : Bool) (part : Nat) (off : Int)
  /-- a produce batch as it reached the broker side: `act` 0 = handed to the broker, 1 = connection killed
  before the broker saw it, 2 = handled by the broker but the response was swallowed -/
  | wreq (n : Nat) (act : Nat) (part : Nat) (pid : Nat) (epoch : Int) (seq : Nat) (cnt : Nat) (ids : List Id)
  | wresp (n : Nat) (part : Nat) (err : Int) (base : Int) (delivered : Bool)
  | logEntry (part : Nat) (off : Nat) (id : Id)
  | quiesce
deriving DecidableEq, Repr

structure Batch where
  part : Nat
  pid : Nat
  epoch : Int
  seq : Nat
  cnt : Nat
  ids : List Id
deriving DecidableEq, Repr

structure St where
  calls : List (Id × Nat) := []            -- (id, partition), newest first
  rets : List Id := []
  /-- for the produce-order clause: the ids whose call had returned when `id` was called -/
  before : List (Id × List Id) := []
  promises : List (Id × Bool × Nat × Int) := []
  batches : List Batch := []               -- distinct batches seen on the wire, newest first
  lostResp : List Id := []                 -- ids in a batch the broker appended (err 0) whose response was swallowed
  reqs : List (Nat × Batch × Nat) := []    -- request number, batch, act
  log : List (Nat × Nat × Id) := []        -- (part, off, id) in the order read back
  quiet : Bool := false
deriving Repr

def seqMod : Nat := 2147483648

def sameStream (a : Batch) (part pid : Nat) (epoch : Int) : Bool :=
  a.part == part && a.pid == pid && a.epoch == epoch

/-- The rule an event breaks, if any. -/
def check (s : St) : Ev → Option String
  | .call id _ => if s.calls.any (·.1 == id) then some "C02.id-reused" else none
  | .ret id => if s.calls.any (·.1 == id) then none else some "C02.return-unknown-record"
  | .promise id _ part _ =>
    match s.calls.find? (·.1 == id) with
    | none => some "C02.promise-for-unknown-record"
    | some (_, p) =>
      if s.promises.any (·.1 == id) then some "C02.promise-twice"
      else if p != part then some "C02.promise-wrong-partition"
      else none
  | .wreq _ _ part pid epoch seq cnt ids =>
    let stream := s.batches.filter (fun b => sameStream b part pid epoch)
    let failed (i : Id) : Bool := s.promises.any (fun p => p.1 == i && !p.2.1)
    match stream.find? (·.seq == seq) with
    | some b =>
      -- a sequence number seen before in this (producer id, epoch, partition) carries the same records
      -- (a retry), unless every record of the earlier batch was failed: then the number is free again
      -- (that those failed records are not in the log is checked when the log is read back)
      if b.ids == ids && b.cnt == cnt then none
      else if b.ids.all failed then none
      else some "C02.sequence-reused-for-different-records"
    | none =>
      -- (the broker-side view can miss requests written to a dying connection, so no contiguity rule here)
      if ids.any (fun i => stream.any (fun b => b.ids.contains i && !(b.ids.all failed))) then some "C02.record-in-two-batches-of-one-epoch" else none
  | .wresp _ _ _ _ _ => none
  | .logEntry part off id =>
    if s.log.any (fun e => e.1 == part && e.2.1 == off) then some "C02.two-records-at-one-offset"
    else if !s.calls.any (·.1 == id) then some "C02.log-has-unknown-record"
    else if s.log.any (fun e => e.2.2 == id) then some "C02.record-twice-in-log"
    else
      match s.promises.find? (·.1 == id) with
      | some (_, true, p, o) => if p != part || o != (off : Int) then some "C02.acked-record-at-other-offset" else none
      | some (_, false, _, _) =>
        -- an error promise for a record that is in the log: a known weakness when the broker appended the
        -- batch and the response was lost (the class is part of the key so that anything else is still reported)
        if s.lostResp.contains id then some "C02.failed-record-in-log-after-lost-response" else some "C02.failed-record-in-log"
      | none => some "C02.logged-record-never-promised"
  | .quiesce =>
    if s.calls.any (fun c => !s.promises.any (·.1 == c.1)) then some "C02.promise-never-called"
    else if s.promises.any (fun p => p.2.1 && !s.log.any (fun e => e.2.2 == p.1)) then some "C02.acked-record-not-in-log"
    else
      -- produce order: if a's call returned before b was called, both acked on one partition, then off a < off b
      let bad := s.promises.any (fun pb => pb.2.1 &&
        match s.before.find? (·.1 == pb.1) with
        | some (_, earlier) => earlier.any (fun a => s.promises.any (fun pa => pa.1 == a && pa.2.1 && pa.2.2.1 == pb.2.2.1 && pa.2.2.2 ≥ pb.2.2.2))
        | none => false)
      if bad then some "C02.acked-records-out-of-produce-order" else none

def apply (s : St) : Ev → St
  | .call id part => { s with calls := (id, part) :: s.calls, before := (id, s.rets) :: s.before }
  | .ret id => { s with rets := id :: s.rets }
  | .promise id ok part off => { s with promises := (id, ok, part, off) :: s.promises }
  | .wreq n act part pid epoch seq cnt ids =>
    let b : Batch := ⟨part, pid, epoch, seq, cnt, ids⟩
    let rest := s.batches.filter (fun x => !(sameStream x part pid epoch && x.seq == seq))
    { s with batches := b :: rest, reqs := (n, b, act) :: s.reqs }
  | .wresp n part err _ delivered =>
    if !delivered && err == 0 then
      match s.reqs.find? (fun r => r.1 == n && r.2.1.part == part) with
      | some (_, b, _) => { s with lostResp := b.ids ++ s.lostResp }
      | none => s
    else s
  | .logEntry part off id => { s with log := (part, off, id) :: s.log }
  | .quiesce => { s with quiet := true }

def step (s : St) (e : Ev) : Option St :=
  match check s e with
  | none => some (apply s e)
  | some _ => none

def run : St → List Ev → Option St
  | s, [] => some s
  | s, e :: es => match step s e with
    | some s' => run s' es
    | none => none

def accepts (h : List Ev) : Bool := (run {} h).isSome

end Model.Idem
