/-! Partition selection of the direct consumer (C39): the selection rule (which partitions are selected, given the
configuration and the calls so far) and the history monitor of the `sel` scenarios (`harness/cmd/sim/select_test.go`).
`check` returns the rule an event breaks; rule names start with `C39.`. Core Lean only. Topics are numbers.

-- models: pkg/kgo/consumer_direct.go:directConsumer.findNewAssignments
-- models: pkg/kgo/consumer.go:consumer.filterMetadataAllTopics
-- models: pkg/kgo/consumer.go:consumer.purgeTopics
-- models: pkg/kgo/consumer.go:Client.RemoveConsumePartitions

The selection rule, from the property text and the documentation of the calls:
* named mode (ConsumeTopics / ConsumePartitions): a partition is selected when its topic is selected as a whole
  (ConsumeTopics, AddConsumeTopics) and the partition was not removed since, or when the partition itself is pinned
  (ConsumePartitions, AddConsumePartitions). RemoveConsumePartitions unpins and, for a whole topic, removes the
  partition; once every existing partition of a whole topic is removed the topic is no longer selected (documented on
  RemoveConsumePartitions). PurgeTopicsFromConsuming drops the topic entirely. AddConsumeTopics on a topic that has pinned partitions
  changes nothing (documented on AddConsumeTopics); internal topics are selected like any other when named.
* regex mode (ConsumeRegex): every partition of a topic that matches an include pattern, matches no exclude pattern and
  is not internal. AddConsumeTopics / AddConsumePartitions / RemoveConsumePartitions are documented no-ops.
  PurgeTopicsFromConsuming(t): the topic is unselected until the next metadata refresh; if it still exists then it is
  legitimately re-discovered (documented on PurgeTopicsFromClient: "at most only temporarily remove"), if it was deleted
  it is gone for good (topics are never re-created in the scenarios). -/
namespace Model.Select

inductive Ev where
  | selTopic (t : Nat)                                         -- St: ConsumeTopics names t (named mode)
  | selPart (t p : Nat)                                        -- Sp: ConsumePartitions names t/p
  | created (t n : Nat) (internal incl excluded : Bool)     -- Cr
  | grown (t n : Nat)                                          -- Gr
  | deleted (t : Nat)                                          -- De
  | addTopic (t : Nat)                                         -- At (returned)
  | addPart (t p : Nat)                                        -- Ap
  | removePart (t p : Nat)                                     -- Rp
  | purged (t : Nat)                                           -- Pu
  | produced (id t p off : Nat)                                -- D
  | returned (t p off id : Nat)                                -- V
  | refresh                                                    -- M
  | incomplete                                                 -- Dx
  | quiesce                                                    -- Q
deriving DecidableEq, Repr

structure Cfg where
  regex : Bool
deriving Repr

structure Topic where
  id : Nat
  parts : Nat
  internal : Bool
  incl : Bool
  excluded : Bool
  alive : Bool
deriving DecidableEq, Repr

structure St where
  whole : List Nat := []                 -- named mode: topics selected as a whole
  pinned : List (Nat × Nat) := []        -- named mode: pinned partitions
  removed : List (Nat × Nat) := []       -- named mode: partitions removed from a whole topic
  purgedNamed : List Nat := []           -- named mode: topics purged (for the rule names only)
  topics : List Topic := []              -- every topic ever created
  waiting : List Nat := []               -- regex mode: purged, not yet re-discovered
  gone : List Nat := []                  -- regex mode: purged for good
  prod : List (Nat × Nat × Nat × Nat) := []   -- (id, t, p, off)
  ret : List (Nat × Nat × Nat × Nat) := []    -- (t, p, off, id)
  incomplete : Bool := false
  quiet : Bool := false
deriving Repr

def topicOf (s : St) (t : Nat) : Option Topic := s.topics.find? (·.id == t)

/-- regex mode: the topic matches an include pattern, no exclude pattern, and is not internal -/
def regexWants (s : St) (t : Nat) : Bool :=
  match topicOf s t with
  | some tp => tp.incl && !tp.excluded && !tp.internal
  | none => false

/-- the selection rule -/
def selected (c : Cfg) (s : St) (t p : Nat) : Bool :=
  if c.regex then regexWants s t && !s.waiting.contains t && !s.gone.contains t
  else (s.whole.contains t && !s.removed.contains (t, p)) || s.pinned.contains (t, p)

/-- every one of the `n ≥ 1` existing partitions of `t` is in `removed` -/
def allRemoved (removed : List (Nat × Nat)) (t n : Nat) : Bool :=
  decide (0 < n) && (List.range n).all (fun q => removed.contains (t, q))

def aliveParts (s : St) (t : Nat) : Nat :=
  match topicOf s t with
  | some tp => if tp.alive then tp.parts else 0
  | none => 0

/-- why a record of an unselected partition is refused -/
def unselectedRule (c : Cfg) (s : St) (t p : Nat) : String :=
  if c.regex then
    if s.waiting.contains t then "C39.record-of-purged-topic-before-rediscovery"
    else if s.gone.contains t then "C39.record-of-purged-topic-returned"
    else match topicOf s t with
      | some tp => if tp.internal then "C39.internal-topic-consumed-by-regex"
                   else if tp.excluded then "C39.excluded-topic-consumed"
                   else "C39.unselected-partition-consumed"
      | none => "C39.unselected-partition-consumed"
  else
    if s.removed.contains (t, p) then "C39.record-of-removed-partition-returned"
    else if s.purgedNamed.contains t && !s.whole.contains t then "C39.record-of-purged-topic-returned"
    else "C39.unselected-partition-consumed"

def check (c : Cfg) (s : St) : Ev → Option String
  | .selTopic _ => if c.regex then some "C39.harness-named-selection-in-regex-mode" else none
  | .selPart _ _ => if c.regex then some "C39.harness-named-selection-in-regex-mode" else none
  | .created t _ _ _ _ => if (topicOf s t).isSome then some "C39.harness-topic-created-twice" else none
  | .grown t _ => if aliveParts s t == 0 then some "C39.harness-grow-of-missing-topic" else none
  | .deleted t => if aliveParts s t == 0 then some "C39.harness-delete-of-missing-topic" else none
  | .addTopic _ => none
  | .addPart _ _ => none
  | .removePart _ _ => none
  | .purged _ => none
  | .produced id _ _ _ => if s.prod.any (·.1 == id) then some "C39.harness-id-reused" else none
  | .returned t p _ _ => if selected c s t p then none else some (unselectedRule c s t p)
  | .refresh => none
  | .incomplete => none
  | .quiesce =>
    if s.incomplete then none
    else if s.prod.any (fun d => decide (d.2.2.1 < aliveParts s d.2.1) && selected c s d.2.1 d.2.2.1 &&
        !s.ret.any (fun r => r.2.2.2 == d.1 && r.1 == d.2.1 && r.2.1 == d.2.2.1)) then
      some "C39.selected-partition-not-consumed"
    else none

def apply (c : Cfg) (s : St) : Ev → St
  | .selTopic t => { s with whole := t :: s.whole }
  | .selPart t p => { s with pinned := (t, p) :: s.pinned }
  | .created t n i m x => { s with topics := { id := t, parts := n, internal := i, incl := m, excluded := x, alive := true } :: s.topics }
  | .grown t n => { s with topics := s.topics.map (fun tp => if tp.id == t then { tp with parts := n } else tp) }
  | .deleted t => { s with topics := s.topics.map (fun tp => if tp.id == t then { tp with alive := false } else tp) }
  | .addTopic t =>
    if c.regex then s
    else if s.pinned.any (·.1 == t) then s
    else { s with whole := t :: s.whole, removed := s.removed.filter (·.1 != t) }
  | .addPart t p =>
    if c.regex then s
    else { s with pinned := (t, p) :: s.pinned, removed := s.removed.filter (· != (t, p)) }
  | .removePart t p =>
    if c.regex then s
    else if s.whole.contains t then
      -- "If you specified ConsumeTopics and this function removes all partitions for a topic, the topic will no longer be consumed."
      if allRemoved ((t, p) :: s.removed) t (aliveParts s t) then
        { s with pinned := s.pinned.filter (· != (t, p)), removed := (t, p) :: s.removed, whole := s.whole.filter (· != t) }
      else { s with pinned := s.pinned.filter (· != (t, p)), removed := (t, p) :: s.removed }
    else { s with pinned := s.pinned.filter (· != (t, p)) }
  | .purged t =>
    if c.regex then
      (match topicOf s t with
       | none => s                                            -- nothing known under that name: nothing to purge
       | some tp => if tp.alive then { s with waiting := t :: s.waiting } else { s with gone := t :: s.gone })
    else { s with whole := s.whole.filter (· != t), pinned := s.pinned.filter (·.1 != t),
                  removed := s.removed.filter (·.1 != t), purgedNamed := t :: s.purgedNamed }
  | .produced id t p off => { s with prod := s.prod ++ [(id, t, p, off)] }
  | .returned t p off id => { s with ret := s.ret ++ [(t, p, off, id)] }
  | .refresh =>
    { s with waiting := [], gone := (s.waiting.filter (fun t => aliveParts s t == 0)) ++ s.gone }
  | .incomplete => { s with incomplete := true }
  | .quiesce => { s with quiet := true }

def step (c : Cfg) (s : St) (e : Ev) : Option St :=
  match check c s e with
  | none => some (apply c s e)
  | some _ => none

def run (c : Cfg) : St → List Ev → Option St
  | s, [] => some s
  | s, e :: es => match step c s e with
    | some s' => run c s' es
    | none => none

def accepts (c : Cfg) (h : List Ev) : Bool := (run c {} h).isSome

/-- the monitor state after a history, ignoring refusals (what the selection is "at that moment") -/
def replay (c : Cfg) (h : List Ev) : St := h.foldl (apply c) {}

end Model.Select
