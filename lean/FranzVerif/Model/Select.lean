/-! Partition selection of the direct consumer (C39): the selection rule (which partitions are selected, given the
configuration and the calls so far) and the history monitor of the `sel` scenarios (`harness/cmd/sim/select_test.go`).
`check` returns the rule an event breaks; rule names start with `C39.`. Core Lean only. Topics are numbers.

-- models: pkg/kgo/consumer_direct.go:directConsumer.findNewAssignments
-- models: pkg/kgo/consumer.go:consumer.filterMetadataAllTopics
-- models: pkg/kgo/consumer.go:consumer.purgeTopics
-- models: pkg/kgo/consumer.go:Client.RemoveConsumePartitions

The selection rule, from the property text and the documentation of the calls:
* named mode (ConsumeTopics / ConsumePartitions): a partition is selected when its topic is selected as a whole
  (ConsumeTopics, AddConsumeTopics) and the partition was not removed since, or when the partition itself is pinned
  (ConsumePartitions, AddConsumePartitions). RemoveConsumePartitions unpins and, for a whole topic, removes the
  partition; once every existing partition of a whole topic is removed the topic is no longer selected (documented on
  RemoveConsumePartitions). PurgeTopicsFromConsuming drops the topic entirely. AddConsumeTopics on a topic that has pinned partitions
  changes nothing (documented on AddConsumeTopics); internal topics are selected like any other when named.
* regex mode (ConsumeRegex): every partition of a topic that matches an include pattern, matches no exclude pattern and
  is not internal. AddConsumeTopics / AddConsumePartitions / RemoveConsumePartitions are documented no-ops.
  PurgeTopicsFromConsuming(t): the topic is unselected until the next metadata refresh; if it still exists then it is
  legitimately re-discovered (documented on PurgeTopicsFromClient: "at most only temporarily remove"), if it was deleted
  that INCARNATION of the topic is gone for good.

Topic incarnations: a topic that is deleted and created again under the same name is a NEW topic (new topic ID, new log
from offset 0, possibly another partition count): `created t g n …` with `g` = 0 for the first incarnation and the
previous one + 1 for a re-creation (refused while the previous incarnation is alive). Acknowledged and returned records
carry the incarnation they were produced to (the harness knows it from when it produced the record; record keys are
unique, so a returned record is attributed to its incarnation unambiguously). Selection is by NAME (named mode) or by
the name's pattern verdicts (regex mode), so the new incarnation of a selected topic is selected like the old one;
* eventual coverage is owed for the CURRENT incarnation of a topic that is alive at the quiescent end (records of a
  deleted incarnation may or may not have been returned before the deletion: nothing is required of them),
* once the client returned a record of incarnation `g` of a topic, nothing of an older incarnation of that topic may be
  returned (`C39.record-of-deleted-incarnation-returned`); records of a deleted incarnation that the client had buffered
  may still come out before that. -/
namespace Model.Select

inductive Ev where
  | selTopic (t : Nat)                                         -- St: ConsumeTopics names t (named mode)
  | selPart (t p : Nat)                                        -- Sp: ConsumePartitions names t/p
  | created (t g n : Nat) (internal incl excluded : Bool)   -- Cr: incarnation g of topic t created with n partitions
  | grown (t n : Nat)                                          -- Gr
  | deleted (t : Nat)                                          -- De: the current incarnation of t deleted
  | addTopic (t : Nat)                                         -- At (returned)
  | addPart (t p : Nat)                                        -- Ap
  | removePart (t p : Nat)                                     -- Rp
  | purged (t : Nat)                                           -- Pu
  | produced (id t g p off : Nat)                              -- D: acknowledged by incarnation g of t
  | returned (t g p off id : Nat)                              -- V: record id, produced to incarnation g of t
  | refresh                                                    -- M
  | incomplete                                                 -- Dx
  | quiesce                                                    -- Q
deriving DecidableEq, Repr

structure Cfg where
  regex : Bool
deriving Repr

structure Topic where
  id : Nat
  gen : Nat                 -- the current (when `alive`) or the last incarnation
  parts : Nat
  internal : Bool
  incl : Bool
  excluded : Bool
  alive : Bool
deriving DecidableEq, Repr

structure St where
  whole : List Nat := []                 -- named mode: topics selected as a whole
  pinned : List (Nat × Nat) := []        -- named mode: pinned partitions
  removed : List (Nat × Nat) := []       -- named mode: partitions removed from a whole topic
  purgedNamed : List Nat := []           -- named mode: topics purged (for the rule names only)
  topics : List Topic := []              -- every incarnation ever created, the latest first (`topicOf` finds it)
  waiting : List Nat := []               -- regex mode: purged, not yet re-discovered
  gone : List (Nat × Nat) := []          -- regex mode: incarnations (t, g) purged for good
  prod : List (Nat × Nat × Nat × Nat × Nat) := []   -- (id, t, g, p, off)
  ret : List (Nat × Nat × Nat × Nat × Nat) := []    -- (t, g, p, off, id)
  incomplete : Bool := false
  quiet : Bool := false
deriving Repr

def topicOf (s : St) (t : Nat) : Option Topic := s.topics.find? (·.id == t)

/-- regex mode: the topic matches an include pattern, no exclude pattern, and is not internal -/
def regexWants (s : St) (t : Nat) : Bool :=
  match topicOf s t with
  | some tp => tp.incl && !tp.excluded && !tp.internal
  | none => false

/-- the selection rule (for partition `p` of incarnation `g` of topic `t`) -/
def selected (c : Cfg) (s : St) (t g p : Nat) : Bool :=
  if c.regex then regexWants s t && !s.waiting.contains t && !s.gone.contains (t, g)
  else (s.whole.contains t && !s.removed.contains (t, p)) || s.pinned.contains (t, p)

/-- every one of the `n ≥ 1` existing partitions of `t` is in `removed` -/
def allRemoved (removed : List (Nat × Nat)) (t n : Nat) : Bool :=
  decide (0 < n) && (List.range n).all (fun q => removed.contains (t, q))

def aliveParts (s : St) (t : Nat) : Nat :=
  match topicOf s t with
  | some tp => if tp.alive then tp.parts else 0
  | none => 0

/-- the latest incarnation of `t` (0 when the name is unknown) -/
def genOf (s : St) (t : Nat) : Nat :=
  match topicOf s t with
  | some tp => tp.gen
  | none => 0

/-- a record of a newer incarnation of `t` than `g` was returned already -/
def newerReturned (s : St) (t g : Nat) : Bool := s.ret.any (fun r => r.1 == t && decide (g < r.2.1))

/-- the acknowledged records that are owed at the quiescent end and were not returned: of the current incarnation of an
alive topic, of an existing partition that is selected -/
def uncovered (c : Cfg) (s : St) : List (Nat × Nat × Nat × Nat × Nat) :=
  s.prod.filter (fun d => d.2.2.1 == genOf s d.2.1 && decide (d.2.2.2.1 < aliveParts s d.2.1) && selected c s d.2.1 d.2.2.1 d.2.2.2.1 &&
        !s.ret.any (fun r => r.2.2.2.2 == d.1 && r.1 == d.2.1 && r.2.1 == d.2.2.1 && r.2.2.1 == d.2.2.2.1))

/-- why a record of an unselected partition is refused -/
def unselectedRule (c : Cfg) (s : St) (t g p : Nat) : String :=
  if c.regex then
    if s.waiting.contains t then "C39.record-of-purged-topic-before-rediscovery"
    else if s.gone.contains (t, g) then "C39.record-of-purged-topic-returned"
    else match topicOf s t with
      | some tp => if tp.internal then "C39.internal-topic-consumed-by-regex"
                   else if tp.excluded then "C39.excluded-topic-consumed"
                   else "C39.unselected-partition-consumed"
      | none => "C39.unselected-partition-consumed"
  else
    if s.removed.contains (t, p) then "C39.record-of-removed-partition-returned"
    else if s.purgedNamed.contains t && !s.whole.contains t then "C39.record-of-purged-topic-returned"
    else "C39.unselected-partition-consumed"

def check (c : Cfg) (s : St) : Ev → Option String
  | .selTopic _ => if c.regex then some "C39.harness-named-selection-in-regex-mode" else none
  | .selPart _ _ => if c.regex then some "C39.harness-named-selection-in-regex-mode" else none
  | .created t g _ _ _ _ =>
    (match topicOf s t with
     | none => if g == 0 then none else some "C39.harness-bad-incarnation"
     | some tp => if tp.alive then some "C39.harness-topic-created-twice"
                  else if g == tp.gen + 1 then none else some "C39.harness-bad-incarnation")
  | .grown t _ => if aliveParts s t == 0 then some "C39.harness-grow-of-missing-topic" else none
  | .deleted t => if aliveParts s t == 0 then some "C39.harness-delete-of-missing-topic" else none
  | .addTopic _ => none
  | .addPart _ _ => none
  | .removePart _ _ => none
  | .purged _ => none
  | .produced id _ _ _ _ => if s.prod.any (·.1 == id) then some "C39.harness-id-reused" else none
  | .returned t g p _ _ =>
    if !selected c s t g p then some (unselectedRule c s t g p)
    else if newerReturned s t g then some "C39.record-of-deleted-incarnation-returned"
    else none
  | .refresh => none
  | .incomplete => none
  | .quiesce =>
    if s.incomplete then none
    else match uncovered c s with
      | [] => none
      | us => if us.any (fun d => decide (0 < d.2.2.1)) then some "C39.recreated-topic-never-consumed"
              else some "C39.selected-partition-not-consumed"

def apply (c : Cfg) (s : St) : Ev → St
  | .selTopic t => { s with whole := t :: s.whole }
  | .selPart t p => { s with pinned := (t, p) :: s.pinned }
  | .created t g n i m x =>
    { s with topics := { id := t, gen := g, parts := n, internal := i, incl := m, excluded := x, alive := true } :: s.topics }   -- `topicOf` finds the latest incarnation first
  | .grown t n => { s with topics := s.topics.map (fun tp => if tp.id == t then { tp with parts := n } else tp) }
  | .deleted t => { s with topics := s.topics.map (fun tp => if tp.id == t then { tp with alive := false } else tp) }
  | .addTopic t =>
    if c.regex then s
    else if s.pinned.any (·.1 == t) then s
    else { s with whole := t :: s.whole, removed := s.removed.filter (·.1 != t) }
  | .addPart t p =>
    if c.regex then s
    else { s with pinned := (t, p) :: s.pinned, removed := s.removed.filter (· != (t, p)) }
  | .removePart t p =>
    if c.regex then s
    else if s.whole.contains t then
      -- "If you specified ConsumeTopics and this function removes all partitions for a topic, the topic will no longer be consumed."
      if allRemoved ((t, p) :: s.removed) t (aliveParts s t) then
        { s with pinned := s.pinned.filter (· != (t, p)), removed := (t, p) :: s.removed, whole := s.whole.filter (· != t) }
      else { s with pinned := s.pinned.filter (· != (t, p)), removed := (t, p) :: s.removed }
    else { s with pinned := s.pinned.filter (· != (t, p)) }
  | .purged t =>
    if c.regex then
      (match topicOf s t with
       | none => s                                            -- nothing known under that name: nothing to purge
       | some tp => if tp.alive then { s with waiting := t :: s.waiting } else { s with gone := (t, tp.gen) :: s.gone })
    else { s with whole := s.whole.filter (· != t), pinned := s.pinned.filter (·.1 != t),
                  removed := s.removed.filter (·.1 != t), purgedNamed := t :: s.purgedNamed }
  | .produced id t g p off => { s with prod := s.prod ++ [(id, t, g, p, off)] }
  | .returned t g p off id => { s with ret := s.ret ++ [(t, g, p, off, id)] }
  | .refresh =>
    { s with waiting := [], gone := ((s.waiting.filter (fun t => aliveParts s t == 0)).map (fun t => (t, genOf s t))) ++ s.gone }
  | .incomplete => { s with incomplete := true }
  | .quiesce => { s with quiet := true }

def step (c : Cfg) (s : St) (e : Ev) : Option St :=
  match check c s e with
  | none => some (apply c s e)
  | some _ => none

def run (c : Cfg) : St → List Ev → Option St
  | s, [] => some s
  | s, e :: es => match step c s e with
    | some s' => run c s' es
    | none => none

def accepts (c : Cfg) (h : List Ev) : Bool := (run c {} h).isSome

/-- the monitor state after a history, ignoring refusals (what the selection is "at that moment") -/
def replay (c : Cfg) (h : List Ev) : St := h.foldl (apply c) {}

end Model.Select
