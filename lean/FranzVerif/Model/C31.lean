/-! C31 — executable models of the poll/rebalance gate and of the synctest channel mutexes.

-- models: pkg/kgo/consumer.go:consumer.waitAndAddPoller
-- models: pkg/kgo/consumer.go:consumer.unaddPoller
-- models: pkg/kgo/consumer.go:consumer.allowRebalance
-- models: pkg/kgo/consumer.go:consumer.waitAndAddRebalanceMaybeSignal
-- models: pkg/kgo/consumer.go:consumer.unaddRebalance
-- models: pkg/kgo/internal/xsync/synctest_mutex.go:Mutex.Lock
-- models: pkg/kgo/internal/xsync/synctest_mutex.go:Mutex.TryLock
-- models: pkg/kgo/internal/xsync/synctest_mutex.go:Mutex.Unlock
-- models: pkg/kgo/internal/xsync/synctest_mutex.go:RWMutex.RLock
-- models: pkg/kgo/internal/xsync/synctest_mutex.go:RWMutex.TryRLock
-- models: pkg/kgo/internal/xsync/synctest_mutex.go:RWMutex.RUnlock
-- models: pkg/kgo/internal/xsync/synctest_mutex.go:RWMutex.Lock
-- models: pkg/kgo/internal/xsync/synctest_mutex.go:RWMutex.TryLock
-- models: pkg/kgo/internal/xsync/synctest_mutex.go:RWMutex.Unlock

Granularity.  A thread is a program counter plus the rest of its program.  One *action* of a thread is
one synchronisation operation of the Go code together with the thread-local code that follows it up to
(not including) the next synchronisation operation:

* gate: `pollWaitMu.Lock()` (enabled iff the mutex is free), `pollWaitMu.Unlock()`, the first half of
  `pollWaitC.Wait()` (release the mutex and park), its second half (enabled iff notified and the mutex
  is free: reacquire).  `Broadcast` happens inside the action that performs it (the mutex is held).
* mutexes: one channel receive (enabled iff a token is buffered), one blocking channel send (enabled
  iff the buffer is empty), one `select … default` (always enabled).

The harness drives the real code at exactly these points (every such operation of the copied source is
a scheduling point of a cooperative scheduler), so a schedule determines the same run on both sides.
Core Lean only (the driver links against this file). -/
namespace Model.C31

/-- Sum of an indicator over a thread list: "number of threads such that …". -/
def cnt {α : Type} (f : α → Nat) : List α → Nat
  | [] => 0
  | a :: l => f a + cnt f l

/-- A system of threads over a shared state: `stepT sh t = some (sh', t', bcast, event)`,
`none` = the thread's next action is not enabled. `wake` is what a broadcast does to every thread. -/
structure Sys (σ τ : Type) where
  stepT : σ → τ → Option (σ × τ × Bool × String)
  wake : τ → τ
  doneT : τ → Bool

structure St (σ τ : Type) where
  sh : σ
  ths : List τ
  deriving DecidableEq

section
variable {σ τ : Type}

def Sys.wakeAll (S : Sys σ τ) (b : Bool) (l : List τ) : List τ := if b then l.map S.wake else l

/-- Thread `i` performs its next action. -/
def Sys.step (S : Sys σ τ) (s : St σ τ) (i : Nat) : Option (St σ τ × String) :=
  match s.ths[i]? with
  | none => none
  | some t =>
    match S.stepT s.sh t with
    | none => none
    | some (sh', t', b, ev) => some (⟨sh', (S.wakeAll b s.ths).set i t'⟩, ev)

/-- Reachability under arbitrary interleavings (any thread ids, any length). -/
inductive Sys.Reach (S : Sys σ τ) (s0 : St σ τ) : St σ τ → Prop
  | init : Sys.Reach S s0 s0
  | step {s s' : St σ τ} {ev : String} (i : Nat) : Sys.Reach S s0 s → S.step s i = some (s', ev) → Sys.Reach S s0 s'

def Sys.enabled (S : Sys σ τ) (s : St σ τ) : List Nat :=
  (List.range s.ths.length).filter fun i => (S.step s i).isSome

def Sys.allDone (S : Sys σ τ) (s : St σ τ) : Bool := s.ths.all S.doneT

/-- Some unfinished thread is not enabled (it is blocked by another thread). -/
def Sys.contended (S : Sys σ τ) (s : St σ τ) : Bool :=
  (S.enabled s).length < (s.ths.filter fun t => !S.doneT t).length

/-- Run a schedule: each choice `c` selects the `c mod n`-th of the `n` enabled threads; when the
schedule is used up, choice 0 is repeated (bounded by `fuel`). Output: one token `tid event/state`
per action, then `done`, `deadlock` (no thread enabled, some not finished) or `cap`; the flag says
whether some state of the run was contended. -/
def Sys.run (S : Sys σ τ) (show_ : σ → String) : Nat → St σ τ → List Nat → List String → Bool → List String × Bool
  | 0, _, _, acc, ct => (("cap" :: acc).reverse, ct)
  | fuel + 1, s, sched, acc, ct =>
    match S.enabled s with
    | [] => (((if S.allDone s then "done" else "deadlock") :: acc).reverse, ct)
    | e :: es =>
      let en := e :: es
      let (c, rest) := match sched with | [] => (0, []) | c :: r => (c, r)
      let i := en.getD (c % en.length) e
      match S.step s i with
      | none => (("bug" :: acc).reverse, ct)
      | some (s', ev) => S.run show_ fuel s' rest (s!"{i}{ev}/{show_ s'.sh}" :: acc) (ct || S.contended s)

/-- The state reached by a list of thread ids (used in witnesses). -/
def Sys.exec (S : Sys σ τ) : St σ τ → List Nat → Option (St σ τ)
  | s, [] => some s
  | s, i :: r => match S.step s i with | none => none | some (s', _) => S.exec s' r
end

/-! ## The poll/rebalance gate (`consumer.go`) -/
namespace Gate

/-- Client operations. `P`: a poll that returns records (`waitAndAddPoller`, poller kept).
`Q`: a poll whose fill finds nothing (`waitAndAddPoller` … deferred `unaddPoller`).
`A`: `AllowRebalance`. `R`: a rebalance (`waitAndAddRebalance`, revocation section, `unaddRebalance`). -/
inductive Op | P | Q | A | R
  deriving DecidableEq, Repr

inductive PC
  | pLock (q : Bool) | pPark (q : Bool) | pWait (q : Bool) | pWake (q : Bool) | pUnlock (q : Bool)
  | uLock (e : Nat) | uUnlock (e : Nat)
  | aLock | aUnlock
  | rLock | rPark (b : Bool) | rWait (b : Bool) | rWake (b : Bool) | rUnlock
  | xLock | xUnlock
  | done
  deriving DecidableEq, Repr

structure Th where
  pc : PC
  prog : List Op
  deriving DecidableEq, Repr

/-- Shared state: the mutex, the two halves of `pollWaitState`, `corrupt` = a subtraction wrapped
(the borrow the code comment of `unaddPoller` describes). Ghost fields (not read by the code):
`out` = polls outstanding by the observable bookkeeping (returned `waitAndAddPoller` not yet followed by
the return of its `unaddPoller` or of an `AllowRebalance`), `fill` = threads between the return of
`waitAndAddPoller` and the return of their `unaddPoller`, `viol` = an `AllowRebalance` returned while `fill > 0`,
`ep` = number of `AllowRebalance` returns so far; a thread in its fill remembers the `ep` of its `padd` (the
parameter of `uLock`/`uUnlock`): its `unadd` removes its poll from `out` only if no `allow` cleared it meanwhile. -/
structure Sh where
  mu : Bool := false
  pollers : Nat := 0
  rebal : Nat := 0
  corrupt : Bool := false
  out : Nat := 0
  fill : Nat := 0
  viol : Bool := false
  ep : Nat := 0
  deriving DecidableEq, Repr

/-- Start of the next client operation (the thread runs up to its first `Lock`). -/
def start : List Op → Th
  | [] => ⟨.done, []⟩
  | .P :: r => ⟨.pLock false, r⟩
  | .Q :: r => ⟨.pLock true, r⟩
  | .A :: r => ⟨.aLock, r⟩
  | .R :: r => ⟨.rLock, r⟩

/-- The body of `waitAndAddPoller` after `Lock`: `if pollers == 0 { for rebal != 0 { Wait } }; state++`. -/
def pollerEnter (sh : Sh) (q : Bool) (prog : List Op) : Sh × Th × Bool × String :=
  if sh.pollers = 0 ∧ sh.rebal ≠ 0 then ({ sh with mu := true }, ⟨.pPark q, prog⟩, false, "")
  else ({ sh with mu := true, pollers := sh.pollers + 1 }, ⟨.pUnlock q, prog⟩, false, "")

/-- After a wake-up only the inner loop condition is re-evaluated: `for rebal != 0`. -/
def pollerRewake (sh : Sh) (q : Bool) (prog : List Op) : Sh × Th × Bool × String :=
  if sh.rebal ≠ 0 then ({ sh with mu := true }, ⟨.pPark q, prog⟩, false, "")
  else ({ sh with mu := true, pollers := sh.pollers + 1 }, ⟨.pUnlock q, prog⟩, false, "")

/-- The loop of `waitAndAddRebalanceMaybeSignal`: `for pollers != 0 { onBlocked once; Wait }`. -/
def rebalLoop (sh : Sh) (b : Bool) (prog : List Op) : Sh × Th × Bool × String :=
  if sh.pollers ≠ 0 then ({ sh with mu := true }, ⟨.rPark true, prog⟩, false, if b then "" else ":blocked")
  else ({ sh with mu := true }, ⟨.rUnlock, prog⟩, false, "")

def stepT (sh : Sh) (t : Th) : Option (Sh × Th × Bool × String) :=
  match t.pc with
  | .pLock q => if sh.mu then none else some (pollerEnter sh q t.prog)
  | .pPark q => some ({ sh with mu := false }, ⟨.pWait q, t.prog⟩, false, "")
  | .pWait _ => none
  | .pWake q => if sh.mu then none else some (pollerRewake sh q t.prog)
  | .pUnlock q =>
    if q then some ({ sh with mu := false, out := sh.out + 1, fill := sh.fill + 1 }, ⟨.uLock sh.ep, t.prog⟩, false, ":padd")
    else some ({ sh with mu := false, out := sh.out + 1 }, start t.prog, false, ":padd")
  | .uLock e => if sh.mu then none else
      some ({ sh with mu := true, pollers := if sh.pollers > 0 then sh.pollers - 1 else sh.pollers }, ⟨.uUnlock e, t.prog⟩, true, "")
  | .uUnlock e => some ({ sh with mu := false, out := if e = sh.ep then sh.out - 1 else sh.out, fill := sh.fill - 1 }, start t.prog, false, ":unadd")
  | .aLock => if sh.mu then none else some ({ sh with mu := true, pollers := 0 }, ⟨.aUnlock, t.prog⟩, true, "")
  | .aUnlock => some ({ sh with mu := false, out := 0, ep := sh.ep + 1, viol := sh.viol || decide (sh.fill > 0) }, start t.prog, false, ":allow")
  | .rLock => if sh.mu then none else some (rebalLoop { sh with rebal := sh.rebal + 1 } false t.prog)
  | .rPark b => some ({ sh with mu := false }, ⟨.rWait b, t.prog⟩, false, "")
  | .rWait _ => none
  | .rWake b => if sh.mu then none else some (rebalLoop sh b t.prog)
  | .rUnlock => some ({ sh with mu := false }, ⟨.xLock, t.prog⟩, false, ":enter")
  | .xLock => if sh.mu then none else
      some ({ sh with mu := true, rebal := sh.rebal - 1, corrupt := sh.corrupt || decide (sh.rebal = 0) }, ⟨.xUnlock, t.prog⟩, true, "")
  | .xUnlock => some ({ sh with mu := false }, start t.prog, false, ":exit")
  | .done => none

/-- `Broadcast`: every parked waiter becomes runnable. -/
def wake (t : Th) : Th :=
  match t.pc with
  | .pWait q => { t with pc := .pWake q }
  | .rWait b => { t with pc := .rWake b }
  | _ => t

def sys : Sys Sh Th := { stepT := stepT, wake := wake, doneT := fun t => t.pc == .done }

def init (progs : List (List Op)) : St Sh Th := ⟨{}, progs.map start⟩

def showSh (sh : Sh) : String := s!"{sh.pollers}.{sh.rebal}.{if sh.mu then 1 else 0}{if sh.corrupt then "!" else ""}"

end Gate

/-! ## `xsync.Mutex` (channel of capacity 1 holding one token) -/
namespace Mx

/-- `L`: `Lock` … `Unlock`. `T`: `TryLock`, and `Unlock` if it succeeded. `U`: a bare `Unlock` (unbalanced client). -/
inductive Op | L | T | U
  deriving DecidableEq, Repr

inductive PC | lock | tryl | unlock (own : Bool) | done
  deriving DecidableEq, Repr

structure Th where
  pc : PC
  prog : List Op
  deriving DecidableEq, Repr

/-- `ch` = number of tokens buffered in `m.ch` (0 or 1). -/
structure Sh where
  ch : Nat := 1
  deriving DecidableEq, Repr

def start : List Op → Th
  | [] => ⟨.done, []⟩
  | .L :: r => ⟨.lock, r⟩
  | .T :: r => ⟨.tryl, r⟩
  | .U :: r => ⟨.unlock false, r⟩

def stepT (sh : Sh) (t : Th) : Option (Sh × Th × Bool × String) :=
  match t.pc with
  | .lock => if sh.ch = 0 then none else some ({ ch := sh.ch - 1 }, ⟨.unlock true, t.prog⟩, false, ":in")
  | .tryl => if sh.ch = 0 then some (sh, start t.prog, false, ":t0") else some ({ ch := sh.ch - 1 }, ⟨.unlock true, t.prog⟩, false, ":t1")
  | .unlock _ => if sh.ch = 0 then some ({ ch := 1 }, start t.prog, false, ":out") else some (sh, ⟨.done, []⟩, false, ":panic")
  | .done => none

def sys : Sys Sh Th := { stepT := stepT, wake := id, doneT := fun t => t.pc == .done }
def init (progs : List (List Op)) : St Sh Th := ⟨{}, progs.map start⟩
def showSh (sh : Sh) : String := s!"{sh.ch}"

end Mx

/-! ## `xsync.RWMutex` (gate token, inner `Mutex`, `readerCount`, `writerSignal`) -/
namespace Rw

/-- `R`: `RLock` … `RUnlock`. `W`: `Lock` … `Unlock`. `TR`/`TW`: `TryRLock`/`TryLock` (+ unlock on success).
`UR`/`UW`: a bare `RUnlock`/`Unlock` (unbalanced client). -/
inductive Op | R | W | TR | TW | UR | UW
  deriving DecidableEq, Repr

/-- Locations; the flag `y` of the reader entry path says the call is `TryRLock`. -/
inductive PC
  | rl1                                   -- RLock: `<-rw.gate`
  | trl1                                  -- TryRLock: `select { case <-rw.gate: default: return false }`
  | rl2 (y : Bool) | rl3 (y : Bool) | rl4 (y : Bool)   -- `mu.Lock(); readerCount++` / `mu.Unlock()` / `rw.gate <- {}`
  | rsec                                  -- the read section (one action of the client between RLock and RUnlock)
  | ru1 (own : Bool) | ru2 | ru3 | ruP    -- RUnlock: `mu.Lock(); readerCount--` / signal / `mu.Unlock()` / `mu.Unlock(); panic`
  | wl1 | wl2 | wl3 | wl4a | wl4b | wl5   -- Lock: gate / drain signal / `mu.Lock()` read count / unlock (>0) / unlock (=0) / `<-writerSignal`
  | twl1 | twl2 | twl3 | twl4a | twl4b | twl5  -- TryLock: gate? / drain / `mu.Lock()` / unlock (>0) / unlock (=0) / give the gate back
  | wu (own : Bool)                        -- Unlock
  | done
  deriving DecidableEq, Repr

structure Th where
  pc : PC
  prog : List Op
  deriving DecidableEq, Repr

/-- `gate`, `mu`, `sig`: tokens buffered in the three channels (0 or 1); `rc` = `readerCount`. -/
structure Sh where
  gate : Nat := 1
  mu : Nat := 1
  sig : Nat := 0
  rc : Int := 0
  deriving DecidableEq, Repr

def start : List Op → Th
  | [] => ⟨.done, []⟩
  | .R :: r => ⟨.rl1, r⟩
  | .TR :: r => ⟨.trl1, r⟩
  | .W :: r => ⟨.wl1, r⟩
  | .TW :: r => ⟨.twl1, r⟩
  | .UR :: r => ⟨.ru1 false, r⟩
  | .UW :: r => ⟨.wu false, r⟩

/-- `Mutex.Unlock` of the inner mutex: `select { case mu.ch <- {}: default: panic }`. -/
def muUnlock (sh : Sh) (t' : Th) (ev : String) : Sh × Th × Bool × String :=
  if sh.mu = 0 then ({ sh with mu := 1 }, t', false, ev) else (sh, ⟨.done, []⟩, false, ":panic")

def stepT (sh : Sh) (t : Th) : Option (Sh × Th × Bool × String) :=
  let p := t.prog
  match t.pc with
  | .rl1 => if sh.gate = 0 then none else some ({ sh with gate := sh.gate - 1 }, ⟨.rl2 false, p⟩, false, "")
  | .trl1 => if sh.gate = 0 then some (sh, start p, false, ":tr0") else some ({ sh with gate := sh.gate - 1 }, ⟨.rl2 true, p⟩, false, "")
  | .rl2 y => if sh.mu = 0 then none else some ({ sh with mu := sh.mu - 1, rc := sh.rc + 1 }, ⟨.rl3 y, p⟩, false, "")
  | .rl3 y => some (muUnlock sh ⟨.rl4 y, p⟩ "")
  | .rl4 y => if sh.gate ≠ 0 then none else some ({ sh with gate := 1 }, ⟨.rsec, p⟩, false, if y then ":tr1" else ":rin")
  | .rsec => some (sh, ⟨.ru1 true, p⟩, false, ":rout")
  | .ru1 _ => if sh.mu = 0 then none else
      let sh' := { sh with mu := sh.mu - 1, rc := sh.rc - 1 }
      if sh'.rc < 0 then some (sh', ⟨.ruP, p⟩, false, "")
      else if sh'.rc = 0 then some (sh', ⟨.ru2, p⟩, false, "")
      else some (sh', ⟨.ru3, p⟩, false, "")
  | .ru2 => some ({ sh with sig := 1 }, ⟨.ru3, p⟩, false, "")
  | .ru3 => some (muUnlock sh (start p) "")
  | .ruP => some (muUnlock sh ⟨.done, []⟩ ":panic")
  | .wl1 => if sh.gate = 0 then none else some ({ sh with gate := sh.gate - 1 }, ⟨.wl2, p⟩, false, "")
  | .wl2 => some ({ sh with sig := 0 }, ⟨.wl3, p⟩, false, "")
  | .wl3 => if sh.mu = 0 then none else
      some ({ sh with mu := sh.mu - 1 }, ⟨if sh.rc > 0 then .wl4a else .wl4b, p⟩, false, "")
  | .wl4a => some (muUnlock sh ⟨.wl5, p⟩ "")
  | .wl4b => some (muUnlock sh ⟨.wu true, p⟩ ":win")
  | .wl5 => if sh.sig = 0 then none else some ({ sh with sig := sh.sig - 1 }, ⟨.wu true, p⟩, false, ":win")
  | .twl1 => if sh.gate = 0 then some (sh, start p, false, ":tw0") else some ({ sh with gate := sh.gate - 1 }, ⟨.twl2, p⟩, false, "")
  | .twl2 => some ({ sh with sig := 0 }, ⟨.twl3, p⟩, false, "")
  | .twl3 => if sh.mu = 0 then none else
      some ({ sh with mu := sh.mu - 1 }, ⟨if sh.rc > 0 then .twl4a else .twl4b, p⟩, false, "")
  | .twl4a => some (muUnlock sh ⟨.twl5, p⟩ "")
  | .twl4b => some (muUnlock sh ⟨.wu true, p⟩ ":tw1")
  | .twl5 => if sh.gate ≠ 0 then none else some ({ sh with gate := 1 }, start p, false, ":tw0")
  | .wu _ => if sh.gate = 0 then some ({ sh with gate := 1 }, start p, false, ":wout") else some (sh, ⟨.done, []⟩, false, ":panic")
  | .done => none

def sys : Sys Sh Th := { stepT := stepT, wake := id, doneT := fun t => t.pc == .done }
def init (progs : List (List Op)) : St Sh Th := ⟨{}, progs.map start⟩
def showSh (sh : Sh) : String := s!"{sh.gate}.{sh.mu}.{sh.rc}.{sh.sig}"

end Rw

end Model.C31
