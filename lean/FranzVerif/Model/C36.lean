/-! C36 — schema-registry serde header and the `Serde` registry (pkg/sr/serde.go).

Hand-written model, function by function, of what the Go code does (tie D: the Go harness
`harness/cmd/c36` and the driver `Driver/C36.lean` run the same operations and the outputs are diffed).
-- models: pkg/sr/serde.go:ConfluentHeader.AppendEncode
-- models: pkg/sr/serde.go:ConfluentHeader.DecodeID
-- models: pkg/sr/serde.go:ConfluentHeader.DecodeIndex
-- models: pkg/sr/serde.go:bReader.ReadByte
-- models: pkg/sr/serde.go:Serde.Register
-- models: pkg/sr/serde.go:tserdeMapClone
-- models: pkg/sr/serde.go:Serde.AppendEncode
-- models: pkg/sr/serde.go:Serde.Decode
-- models: pkg/sr/serde.go:Serde.DecodeNew
-- models: pkg/sr/serde.go:Serde.decodeFind
Also modelled (Go standard library, not part of /repo): `encoding/binary` `AppendUvarint`, `AppendVarint`,
`ReadUvarint`, `ReadVarint`.

Conventions: Go `int`/`int64` are `Int` (64-bit platform; the range predicate `I64` is explicit where it
matters), bytes are `List UInt8`, a Go map is an association list read with `List.lookup` and written by
consing (a newer binding shadows an older one; nothing observable iterates these maps). A missing key
reads as Go's zero value. Every allocation/index/slice in the modelled code is guarded: since /repo a468db8
`DecodeIndex` allocates `make([]int, 0, n)` with `0 ≤ n ≤ len(remaining input)` (before that commit it ran
`make([]int, l)` on the count `l` read from the input and panicked or aborted on hostile counts). The `panic`
constructor of `Out` remains: it is how the driver represents a panic observed on the implementation, and
"never panics" stays a theorem about the model. Core Lean only. -/
namespace Model.C36

abbrev Bytes := List UInt8

/-- Error kinds the code returns: `io.EOF`, `io.ErrUnexpectedEOF`, binary's overflow error,
`sr.ErrBadHeader`, `sr.ErrNotRegistered`. -/
inductive Err where
  | eof | unexpectedEOF | overflow | badHeader | notRegistered
deriving DecidableEq, Repr

/-- Outcome of a call: a value, a returned error, or a run-time panic. -/
inductive Out (α : Type) where
  | ok (a : α)
  | err (e : Err)
  | panic
deriving DecidableEq, Repr

def Out.isErr {α} : Out α → Bool
  | .err _ => true
  | _ => false

/-! ### encoding/binary -/

/-- `binary.AppendUvarint`: `for x >= 0x80 { buf = append(buf, byte(x)|0x80); x >>= 7 }; append(buf, byte(x))`. -/
def appendUvarint (x : Nat) : Bytes :=
  if _h : x ≥ 128 then UInt8.ofNat ((x % 256) ||| 128) :: appendUvarint (x >>> 7)
  else [UInt8.ofNat x]
termination_by x
decreasing_by simp only [Nat.shiftRight_eq_div_pow]; omega

/-- `int64` range. -/
def I64 (x : Int) : Prop := -9223372036854775808 ≤ x ∧ x < 9223372036854775808

instance (x : Int) : Decidable (I64 x) := by unfold I64; infer_instance

/-- Zig-zag of `binary.AppendVarint`: `ux := uint64(x) << 1; if x < 0 { ux = ^ux }` (as arithmetic on an
int64 value: `2x` for `x ≥ 0`, `-2x-1` for `x < 0`). -/
def zigzag (x : Int) : Nat := if x < 0 then (-2 * x - 1).toNat else (2 * x).toNat

def appendVarint (x : Int) : Bytes := appendUvarint (zigzag x)

/-- `binary.ReadUvarint` over `bReader`: loop state `i` (iteration), `x`, `s`; at most `MaxVarintLen64 = 10`
bytes; the tenth byte must be ≤ 1; running out of bytes is `io.EOF` at `i = 0` and `io.ErrUnexpectedEOF`
after. No 64-bit wrap can occur in `x |= uint64(b&0x7f) << s` (`s ≤ 56` for continuation bytes, the last
byte is ≤ 1 at `s = 63`), so `Nat` is exact. Returns the value and the unread bytes. -/
def readUvarint (i x s : Nat) : Bytes → Except Err (Nat × Bytes)
  | [] => .error (if i > 0 then .unexpectedEOF else .eof)
  | c :: rest =>
    if i ≥ 10 then .error .overflow
    else if c.toNat < 128 then
      if i = 9 ∧ c.toNat > 1 then .error .overflow
      else .ok (x ||| (c.toNat <<< s), rest)
    else if i = 9 then .error .overflow   -- the loop ends after ten continuation bytes
    else readUvarint (i + 1) (x ||| ((c.toNat &&& 127) <<< s)) (s + 7) rest

/-- `x := int64(ux >> 1); if ux&1 != 0 { x = ^x }`. -/
def unzigzag (ux : Nat) : Int := if ux % 2 = 1 then -((ux / 2 : Nat) : Int) - 1 else ((ux / 2 : Nat) : Int)

/-- `binary.ReadVarint` (the value is dropped when an error is returned: every caller here does). -/
def readVarint (b : Bytes) : Except Err (Int × Bytes) :=
  match readUvarint 0 0 0 b with
  | .error e => .error e
  | .ok (ux, r) => .ok (unzigzag ux, r)

/-! ### ConfluentHeader -/

/-- `byte(v)` of a Go int. -/
def byteOf (v : Int) : UInt8 := UInt8.ofNat (v % 256).toNat

/-- The index part written by `AppendEncode` (nothing for an empty index, a lone 0 for `[0]`). -/
def encodeIndex (index : List Int) : Bytes :=
  if index.isEmpty then []
  else if index = [0] then [0]
  else appendVarint index.length ++ index.flatMap appendVarint

/-- `ConfluentHeader.AppendEncode` (the error is always nil). `id>>k` is an arithmetic shift of a Go int. -/
def appendEncode (b : Bytes) (id : Int) (index : List Int) : Bytes :=
  b ++ [0, byteOf (id / 16777216), byteOf (id / 65536), byteOf (id / 256), byteOf id] ++ encodeIndex index

/-- `ConfluentHeader.DecodeID`: `len(b) < 5 || b[0] != 0` ⇒ `ErrBadHeader`; the slice expressions are
guarded by the length test, so there is no panic path. -/
def decodeID : Bytes → Out (Int × Bytes)
  | m :: a :: b :: c :: d :: rest =>
    if m ≠ 0 then .err .badHeader
    else .ok ((a.toNat * 16777216 + b.toNat * 65536 + c.toNat * 256 + d.toNat : Nat), rest)
  | _ => .err .badHeader

/-- The loop `for i := int64(0); i < l; i++ { idx, err := ReadVarint; if err != nil return err; index = append(index, idx) }`. -/
def readN : Nat → Bytes → Out (List Int × Bytes)
  | 0, b => .ok ([], b)
  | n + 1, b =>
    match readVarint b with
    | .error e => .err e
    | .ok (v, r) =>
      match readN n r with
      | .ok (vs, r') => .ok (v :: vs, r')
      | .err e => .err e
      | .panic => .panic

/-- The capacity of `make([]int, 0, n)`: `n := l; if n > int64(len(r.b)) { n = int64(len(r.b)) }`.
`0 ≤ n ≤ len(r.b)`, the length of a slice that exists, so the `make` cannot panic; `append` never does. -/
def allocCap (l : Int) (r : Bytes) : Int := if l > (r.length : Int) then (r.length : Int) else l

/-- `ConfluentHeader.DecodeIndex` (as of /repo a468db8). The capacity only sizes the allocation; the result is
what the append loop collects. -/
def decodeIndex (b : Bytes) (maxLength : Int) : Out (List Int × Bytes) :=
  match readVarint b with
  | .error e => .err e
  | .ok (l, r) =>
    if l = 0 then .ok ([0], r)
    else if l < 0 then .err .badHeader
    else if maxLength > 0 ∧ l > maxLength then .err .notRegistered
    else if allocCap l r < 0 ∨ allocCap l r > (r.length : Int) then .panic   -- make([]int, 0, n) out of range: unreachable (theorem)
    else readN l.toNat r

/-! ### Serde registry -/

/-- The fields of `tserde` other than the subindex tree. `ty` stands for the `reflect.Type`, `tag`
identifies the encode/decode closures given at registration. -/
structure Data where
  exists_ : Bool := false
  id32 : Int := 0
  enc : Bool := false
  dec : Bool := false
  ty : Nat := 0
  tag : Nat := 0
  index : List Int := []
deriving DecidableEq, Repr

/-- `tserde`: data, `subindex map[int]tserde`, `subindexDepth`. -/
inductive Node where
  | mk (d : Data) (sub : List (Int × Node)) (depth : Nat)

abbrev Map := List (Int × Node)

def Node.d : Node → Data | .mk d _ _ => d
def Node.sub : Node → Map | .mk _ s _ => s
def Node.depth : Node → Nat | .mk _ _ n => n

/-- Go's zero `tserde`. -/
def Node.zero : Node := .mk {} [] 0

/-- `m[k]` (zero value when absent). -/
def mget (m : Map) (k : Int) : Node := (m.lookup k).getD Node.zero

/-- `m[k] = v`. -/
def mset (m : Map) (k : Int) (v : Node) : Map := (k, v) :: m

/-- `Register`'s work on the id tree: `tserdeMapClone` initialises the path, the loop raises
`subindexDepth` along it (`depth` counts down from `len(index)`), the end node gets the new data and
keeps the `subindex`/`subindexDepth` it had. -/
def insertPath (m : Map) (k : Int) (index : List Int) (depth : Nat) (d : Data) : Map :=
  match index with
  | [] => mset m k (.mk d (mget m k).sub (mget m k).depth)
  | idx :: rest =>
    mset m k (.mk (mget m k).d (insertPath (mget m k).sub idx rest (depth - 1) d) (max (mget m k).depth depth))

/-- The node reached from `n` by following `index` through the subindex maps (zero value when absent). -/
def walk (n : Node) : List Int → Node
  | [] => n
  | idx :: rest => walk (mget n.sub idx) rest

/-- The walk of `decodeFind`: `if t.subindex == nil { return ErrNotRegistered }; t = t.subindex[idx]`
(a non-nil subindex map is never empty: `Register` always stores a key in every map it creates). -/
def findWalk (t : Node) : List Int → Out Node
  | [] => .ok t
  | idx :: rest => if t.sub.isEmpty then .err .notRegistered else findWalk (mget t.sub idx) rest

structure RegOp where
  id : Int
  ty : Nat
  tag : Nat
  index : List Int
  enc : Bool
  dec : Bool
deriving DecidableEq, Repr

/-- `Serde`: `ids` and `types`. -/
structure Reg where
  ids : Map := []
  types : List (Nat × Data) := []

/-- `Serde.Register(id, v, opts…)`: the previous occupant of the end node loses its type mapping, the new
`tserde` (with `id: uint32(id)`) is stored at the end node and under its type. -/
def register (s : Reg) (o : RegOp) : Reg :=
  let old := walk (mget s.ids o.id) o.index
  let d : Data := { exists_ := true, id32 := o.id % 4294967296, enc := o.enc, dec := o.dec, ty := o.ty, tag := o.tag, index := o.index }
  let types1 := if old.d.exists_ then s.types.filter (fun p => p.1 != old.d.ty) else s.types
  { ids := insertPath s.ids o.id o.index o.index.length d, types := (o.ty, d) :: types1 }

def build (ops : List RegOp) : Reg := ops.foldl register {}

/-- `Serde.AppendEncode(b, v)` with `ty = reflect.TypeOf(v)` and `payload` what the registered encode
function produces for `v`. -/
def encode (s : Reg) (b : Bytes) (ty : Nat) (payload : Bytes) : Out Bytes :=
  match s.types.lookup ty with
  | none => .err .notRegistered
  | some t => if !t.enc then .err .notRegistered else .ok (appendEncode b t.id32 t.index ++ payload)

def finish (t : Node) (b : Bytes) : Out (Data × Bytes) :=
  if !t.d.exists_ || !t.d.dec then .err .notRegistered else .ok (t.d, b)

/-- `Serde.decodeFind` followed by the call of the found decoder (`Decode`/`DecodeNew`): the result names
the registration whose decoder runs and the bytes it is given. -/
def decodeFind (s : Reg) (b : Bytes) : Out (Data × Bytes) :=
  match decodeID b with
  | .err e => .err e
  | .panic => .panic
  | .ok (id, b1) =>
    let t := mget s.ids id
    if !t.sub.isEmpty then
      match decodeIndex b1 t.depth with
      | .err e => .err e
      | .panic => .panic
      | .ok (index, b2) =>
        match findWalk t index with
        | .ok t' => finish t' b2
        | .err e => .err e
        | .panic => .panic
    else finish t b1

end Model.C36
