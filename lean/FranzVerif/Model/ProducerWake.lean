/-! Producer wake-up protocol monitor (C03: "a blocked Produce resumes once space frees", "Flush never stays
blocked once nothing is buffered"). The producer's condition variable is shared by blocked producers and by
flushers; every state change that can make a parked waiter's predicate true must be followed by a Broadcast.
Events come from verif-tagged hooks inside the producer mutex (`unblocked`, `admitted`, `released`) and right
before each `p.c.Broadcast()` (`bcast`). `check` returns the rule an event breaks. Core Lean only. -/
namespace Model.ProducerWake

abbrev Id := Nat

inductive Ev where
  /-- a blocked producer stopped blocking: `blocked` producers still blocked, `buffered` records buffered, `flushing` Flush calls in progress -/
  | unblocked (id : Id) (blocked buffered flushing : Nat)
  /-- the record was admitted (same critical section as its `unblocked` when it had been blocked) -/
  | admitted (id : Id)
  /-- a record's accounting was released: `buffered` records left, `blocked` producers, `flushing` flushers -/
  | released (id : Id) (buffered blocked flushing : Nat)
  | bcast (site : Nat)
  /-- the produce call of `id` returned to its caller -/
  | returned (id : Id)
  /-- a Flush / AbortBufferedRecords call returned to its caller -/
  | flushReturned
  | quiesce
deriving DecidableEq, Repr

structure St where
  /-- number of wake-up obligations not yet covered by a Broadcast -/
  need : Nat := 0
  /-- an obligation raised by the `unblocked` event of this record; withdrawn if the record is admitted in the
  same critical section (then nothing observable changed), due at the latest when its produce call returns -/
  tentative : Option Id := none
  /-- a release reported "nothing buffered or blocked" while a Flush was in progress. The number of flushers is an
  atomic counter that the hook reads after the code took its decision, and a flusher that had not parked yet
  re-checks its predicate under the mutex, so this obligation is covered by a Broadcast *or* by a flusher returning. -/
  flushNeed : Bool := false
deriving Repr, DecidableEq

/-- does this change make the predicate of some parked waiter true?  blocked producers wait for space,
flushers wait for `buffered + blocked = 0` -/
def wakeNeeded (buffered blocked flushing : Nat) (spaceFreed : Bool) : Bool :=
  (spaceFreed && decide (blocked > 0)) || (decide (buffered + blocked = 0) && decide (flushing > 0))

def check (s : St) : Ev → Option String
  | .unblocked _ _ _ _ => none
  | .admitted _ => none
  | .released _ _ _ _ => none
  | .bcast _ => none
  | .returned id =>
    -- a produce call that stopped blocking without being admitted (cancelled) and thereby made a flusher's
    -- predicate true must have broadcast before it returns
    if s.tentative == some id then some "C03.cancelled-produce-returned-without-broadcast" else none
  | .flushReturned => none
  | .quiesce =>
    if s.need > 0 then some "C03.wakeup-never-broadcast"
    else if s.flushNeed then some "C03.flush-wakeup-never-broadcast" else none

def apply (s : St) : Ev → St
  | .unblocked id blocked buffered flushing =>
    if wakeNeeded buffered blocked flushing false then { s with need := s.need + 1, tentative := some id } else { s with tentative := none }
  | .admitted id =>
    if s.tentative == some id then { s with need := s.need - 1, tentative := none } else s
  | .released _ buffered blocked flushing =>
    -- the number of blocked producers is exact (it only changes under the producer mutex)
    let s := if blocked > 0 then { s with need := s.need + 1 } else s
    if buffered + blocked = 0 && decide (flushing > 0) then { s with flushNeed := true } else s
  | .bcast _ => { need := 0, tentative := none, flushNeed := false }
  | .returned id => if s.tentative == some id then { s with tentative := none } else s
  | .flushReturned => { s with flushNeed := false }
  | .quiesce => s

def step (s : St) (e : Ev) : Option St := match check s e with | none => some (apply s e) | some _ => none
def run : St → List Ev → Option St
  | s, [] => some s
  | s, e :: es => match step s e with | some s' => run s' es | none => none
def accepts (h : List Ev) : Bool := (run {} h).isSome

end Model.ProducerWake
