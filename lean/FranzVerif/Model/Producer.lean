/-! Producer history monitor (C01 promises, C03 buffering limits and Flush, C14 produce hooks).

The *model* here is an acceptor over event histories of the real producer (see
`harness/cmd/sim01`): `step` refuses an event exactly when a local rule that the soundness
theorems use is broken.  The theorems (Props/C01, C03, C14) say that *every* accepted history — any
length, any interleaving, any fault sequence — satisfies the property's Spec; the correspondence
check says the implementation's histories are accepted.  Core Lean only. -/
namespace Model.Producer

abbrev Id := Nat

inductive Kind where
  | produce | try_ | sync
deriving DecidableEq, Repr

/-- The error a hook or promise receives: its class as far as the properties care, and an opaque tag
(a hash of the message) so that "the same error" can be compared. -/
inductive ErrClass where
  | ok | maxBuffered | other
deriving DecidableEq, Repr

structure Err where
  cls : ErrClass
  tag : Nat
deriving DecidableEq, Repr

def Err.ok : Err := ⟨.ok, 0⟩

/-- Events (one token each in the line protocol). -/
inductive Ev where
  | call (id : Id) (k : Kind) (sz : Nat)      -- P: Produce/TryProduce/ProduceSync called
  | hookB (id : Id)                            -- B: OnProduceRecordBuffered
  | admit (id : Id) (n b sz : Nat)             -- A: admitted under the producer mutex (client counters after)
  | block (id : Id)                            -- K
  | unblock (id : Id)                          -- W
  | hookU (id : Id) (e : Err)               -- U: OnProduceRecordUnbuffered
  | promise (id : Id) (e : Err)             -- R
  | release (id : Id) (n b : Nat)              -- D: accounting released (client counters after)
  | ret (id : Id)                              -- X: the produce call returned
  | flushStart (k : Nat)                       -- Fs / As
  | flushEnd (k : Nat) (ok : Bool)             -- Fe / Ae
  | closeStart | closeEnd
  | quiesce (n b : Nat)                        -- Q: nothing can run any more; gauges
deriving DecidableEq, Repr

structure Cfg where
  maxRecs : Nat
  maxBytes : Nat     -- 0 = unlimited
  manual : Bool
deriving Repr

structure Rec where
  id : Id
  kind : Kind
  sz : Nat
  hookB : Bool := false
  admitted : Bool := false
  blocked : Bool := false
  wasBlocked : Bool := false
  sawFull : Bool := false          -- the buffer was at its limit at some point since the call began
  hookU : Option Err := none
  promised : Option Err := none
  released : Bool := false
  returned : Bool := false
deriving Repr

/-- A pending Flush/Abort: the records it must wait for (returned or blocked when it began). -/
structure Flush where
  k : Nat
  waitFor : List Id
  done : Bool := false
deriving Repr

structure St where
  recs : List Rec := []            -- newest first
  occ : Nat := 0                   -- admitted and not yet released (the client's bufferedRecords)
  occBytes : Nat := 0
  flushes : List Flush := []
  closing : Bool := false
  quiet : Bool := false
deriving Repr

def find (rs : List Rec) (id : Id) : Option Rec := rs.find? (·.id == id)

def upd (rs : List Rec) (id : Id) (f : Rec → Rec) : List Rec :=
  rs.map (fun r => if r.id == id then f r else r)

def full (c : Cfg) (occ occBytes sz : Nat) : Bool :=
  decide (occ ≥ c.maxRecs) || (decide (c.maxBytes > 0) && decide (occBytes + sz > c.maxBytes))

/-- mark every record whose call is in progress and that has not been admitted as having seen a full buffer -/
def markFull (c : Cfg) (s : St) : List Rec :=
  s.recs.map (fun r => if !r.admitted && r.promised.isNone && full c s.occ s.occBytes r.sz then { r with sawFull := true } else r)

def isMaxBuf (e : Err) : Bool := e.cls == .maxBuffered

/-- The rule an event breaks, if any (`none` = the event is acceptable). Rule names start with the
property they belong to. -/
def check (c : Cfg) (s : St) : Ev → Option String
  | .call id _ _ =>
    if (find s.recs id).isSome then some "C01.id-reused" else if s.quiet then some "C01.call-after-quiescence" else none
  | .hookB id =>
    match find s.recs id with
    | some r => if r.hookB then some "C14.buffered-hook-twice" else if r.hookU.isSome then some "C14.buffered-after-unbuffered" else none
    | none => some "C14.buffered-hook-for-unknown-record"
  | .block id =>
    match find s.recs id with
    | some r =>
      -- only a blocking Produce outside manual flushing may block, and only when the buffer is full
      if r.kind == .try_ then some "C03.tryproduce-blocked"
      else if c.manual then some "C03.blocked-under-manual-flushing"
      else if r.admitted || r.blocked || r.hookU.isSome then some "C03.block-out-of-order"
      else if !r.sawFull then some "C03.blocked-below-limit"
      else none
    | none => some "C03.block-unknown-record"
  | .unblock id =>
    match find s.recs id with
    | some r => if !r.blocked then some "C03.unblock-not-blocked" else none
    | none => some "C03.unblock-unknown-record"
  | .admit id n b sz =>
    match find s.recs id with
    | some r =>
      if r.admitted then some "C03.admitted-twice"
      else if r.blocked || r.hookU.isSome || sz != r.sz then some "C03.admit-out-of-order"
      else if !r.hookB then some "C14.admitted-without-buffered-hook"
      -- the limits (C03) and the client's own counters
      else if s.occ + 1 > c.maxRecs then some "C03.over-max-buffered-records"
      else if c.maxBytes > 0 && s.occBytes + sz > c.maxBytes then some "C03.over-max-buffered-bytes"
      else if n != s.occ + 1 || b != s.occBytes + sz then some "C03.counter-mismatch-at-admit"
      else none
    | none => some "C03.admit-unknown-record"
  | .hookU id e =>
    match find s.recs id with
    | some r =>
      if !r.hookB then some "C14.unbuffered-without-buffered"
      else if r.hookU.isSome then some "C14.unbuffered-hook-twice"
      else if r.blocked then some "C03.finished-while-blocked"
      -- a record is failed with ErrMaxBuffered only when it was not admitted and the buffer was full
      else if isMaxBuf e && (r.admitted || !r.sawFull) then some "C03.maxbuffered-error-below-limit"
      else none
    | none => some "C14.unbuffered-hook-for-unknown-record"
  | .promise id e =>
    match find s.recs id with
    | some r =>
      if r.promised.isSome then some "C01.promise-called-twice"
      else if r.hookU.isNone then some "C14.promise-before-unbuffered-hook"
      else if r.hookU != some e then some "C14.hook-error-differs-from-promise-error"
      else none
    | none => some "C01.promise-for-unknown-record"
  | .release id n b =>
    match find s.recs id with
    | some r =>
      if !r.admitted || r.released || r.hookU.isNone then some "C03.release-out-of-order"
      -- the accounting is released only after the promise ran (ProduceSync: the harness logs R at return)
      else if r.kind != .sync && r.promised.isNone then some "C03.released-before-promise"
      else if n + 1 != s.occ || b + r.sz != s.occBytes then some "C03.counter-mismatch-at-release"
      else none
    | none => some "C03.release-unknown-record"
  | .ret id =>
    match find s.recs id with
    | some r =>
      if r.returned then some "C01.returned-twice"
      else if r.blocked then some "C03.returned-while-blocked"
      -- ProduceSync returns only after the promise ran (the harness logs R at return, so R precedes X)
      else if r.kind == .sync && r.promised.isNone then some "C01.producesync-returned-before-promise"
      else none
    | none => some "C01.return-unknown-record"
  | .flushStart k => if s.flushes.any (·.k == k) then some "C03.flush-id-reused" else none
  | .flushEnd k ok =>
    match s.flushes.find? (·.k == k) with
    | some f =>
      if f.done then some "C03.flush-returned-twice"
      -- Flush returns nil only after every record admitted or blocked before it began is finished:
      -- no longer blocked, and if it was admitted: unbuffered hook ran, promise ran, accounting released
      else if ok && f.waitFor.any (fun id => match find s.recs id with
            | some r => r.blocked || (r.admitted && (r.hookU.isNone || !r.released || (r.kind != .sync && r.promised.isNone)))
            | none => true) then some "C03.flush-nil-before-promises"
      else none
    | none => some "C03.flush-end-without-start"
  | .closeStart => none
  | .closeEnd => if s.closing then none else some "C13.close-end-without-start"
  | .quiesce n b =>
    -- nothing can run any more: every produced record has been promised and released, nobody is
    -- blocked, every Flush has returned, and the gauges are back to zero
    if s.recs.any (fun r => r.promised.isNone) then some "C01.promise-never-called"
    else if s.recs.any (fun r => r.hookU.isNone) then some "C14.unbuffered-hook-never-called"
    else if s.recs.any (fun r => r.blocked || !r.returned) then some "C03.produce-still-blocked-at-quiescence"
    else if s.recs.any (fun r => r.admitted && !r.released) then some "C03.record-never-released"
    else if s.flushes.any (fun f => !f.done) then some "C03.flush-still-blocked-at-quiescence"
    else if n != 0 || b != 0 then some "C01.gauge-nonzero-at-quiescence"
    else if s.occ != 0 || s.occBytes != 0 then some "C03.occupancy-nonzero-at-quiescence"
    else none

/-- The state update of an event (total; used by the driver to keep going after a refusal). -/
def apply (c : Cfg) (s : St) : Ev → St
  | .call id k sz => { s with recs := { id := id, kind := k, sz := sz, sawFull := full c s.occ s.occBytes sz } :: s.recs }
  | .hookB id => { s with recs := upd s.recs id (fun r => { r with hookB := true }) }
  | .block id => { s with recs := upd s.recs id (fun r => { r with blocked := true, wasBlocked := true }) }
  | .unblock id => { s with recs := upd s.recs id (fun r => { r with blocked := false }) }
  | .admit id _ _ sz =>
    let s' := { s with recs := upd s.recs id (fun r => { r with admitted := true }), occ := s.occ + 1, occBytes := s.occBytes + sz }
    { s' with recs := markFull c s' }
  | .hookU id e => { s with recs := upd s.recs id (fun r => { r with hookU := some e }) }
  | .promise id e => { s with recs := upd s.recs id (fun r => { r with promised := some e }) }
  | .release id _ _ =>
    match find s.recs id with
    | some r => { s with recs := upd s.recs id (fun r => { r with released := true }), occ := s.occ - 1, occBytes := s.occBytes - r.sz }
    | none => s
  | .ret id => { s with recs := upd s.recs id (fun r => { r with returned := true }) }
  | .flushStart k =>
    let w := (s.recs.filter (fun r => (r.admitted || r.blocked) && !r.released)).map (·.id)
    { s with flushes := { k := k, waitFor := w } :: s.flushes }
  | .flushEnd k _ => { s with flushes := s.flushes.map (fun f => if f.k == k then { f with done := true } else f) }
  | .closeStart => { s with closing := true }
  | .closeEnd => s
  | .quiesce _ _ => { s with quiet := true }

/-- One event. `none` = the monitor refuses the event (a local rule is broken). -/
def step (c : Cfg) (s : St) (e : Ev) : Option St :=
  match check c s e with
  | none => some (apply c s e)
  | some _ => none

/-- Run a history; `none` as soon as an event is refused. Also returns how many events were accepted. -/
def run (c : Cfg) : St → List Ev → Option St
  | s, [] => some s
  | s, e :: es => match step c s e with
    | some s' => run c s' es
    | none => none

def refusedAt (c : Cfg) : St → List Ev → Nat → Option Nat
  | _, [], _ => none
  | s, e :: es, i => match step c s e with
    | some s' => refusedAt c s' es (i + 1)
    | none => some i

def accepts (c : Cfg) (h : List Ev) : Bool := (run c {} h).isSome

end Model.Producer
