/-! Share-group history monitor (C12 protocol half). Events come from `harness/cmd/sim` (`share` scenarios):
the public API of every member (records returned by polls with their delivery count, `Record.Ack` calls, the
auto-accept a new poll implies, `ShareAckCallback` results, `FlushAcks`, `Close`) and the wire (every
acknowledgement batch of every ShareFetch / ShareAcknowledge request in wire order, the per-partition
acknowledge result of every delivered response, the acquired ranges of every delivered ShareFetch response).
`check` returns the rule an event breaks (rule names start with the property); `apply` advances the ledgers.
Times are virtual milliseconds (synctest): an event stamped strictly later than another was caused later.
Core Lean only. -/
namespace Model.Share

inductive Ev where
  | delivered (m part off dc : Nat)            -- V: a poll of member m returned the record
  | ack (m part off st : Nat)                  -- K: Record.Ack(st) is about to be called (1 accept 2 release 3 reject 4 renew)
  | autoAccept (m part off : Nat)              -- Ka: m polls again, the record of its previous poll has no final ack
  | callback (m part err t : Nat)              -- Cb: ShareAckCallback result (0 = nil)
  | flushStart (m : Nat)                       -- Fs
  | flushEnd (m : Nat) (ok : Bool)             -- Fe
  | wireAck (m rid part first last ty t : Nat) -- Wa: one AcknowledgementBatch of request rid
  | wireRes (m rid part code : Nat)            -- Wr: acknowledge result delivered for request rid
  | wireLost (m rid : Nat)                     -- Wx: the response of request rid was lost with its connection
  | connCut (m : Nat)                          -- Xc: a share connection of member m was cut (the broker releases what m acquired on it)
  | acquired (m part first last dc t : Nat)    -- Wq: AcquiredRecords range delivered to m
  | closeStart (m : Nat)                       -- Cs
  | closed (m : Nat)                           -- Cl
  | quiesce                                    -- Q
deriving DecidableEq, Repr

structure Batch where
  m : Nat
  rid : Nat
  part : Nat
  first : Nat
  last : Nat
  ty : Nat
  t : Nat
deriving DecidableEq, Repr

structure Acq where
  m : Nat
  part : Nat
  first : Nat
  last : Nat
  dc : Nat
  t : Nat
deriving DecidableEq, Repr

/-- A final acknowledgement made through the API and not yet resolved. `stage`: 0 made, not seen on the wire;
1 carried by request `rid`; 2 request `rid` was answered without error for the partition. After an error callback
for the partition the decision is `lost`: the client may have dropped it (it need not reach the wire any more, it
demands no type, but it can still back a batch). -/
structure Pend where
  m : Nat
  part : Nat
  off : Nat
  st : Nat
  stage : Nat := 0
  rid : Nat := 0
  lost : Bool := false   -- an error callback for the partition ran since: the client may have dropped it unsent
deriving DecidableEq, Repr

structure St where
  lock : Nat := 0                               -- acquisition lock duration (ms) of the scenario
  batches : List Batch := []                    -- every wire batch, newest first
  acqs : List Acq := []                         -- acquisitions, newest first
  pend : List Pend := []
  confirmed : List (Nat × Nat × Nat) := []      -- (part, off, time): accept/reject confirmed without error
  openRecs : List (Nat × Nat × Nat × Nat) := [] -- (m, part, off, wire batches seen at delivery): handed to the application, no final ack yet
  uncalled : List (Nat × Nat × Bool) := []      -- (m, part, a FlushAcks started since): acks whose callback has not run
  closing : List Nat := []
  closeErr : List (Nat × Nat) := []             -- (m, part): error callback while closing
  isClosed : List Nat := []
  renewed : List (Nat × Nat × Nat) := []        -- (m, part, off): renewed through the API since the record was handed out
deriving Repr

/-- the monitor's initial state for a scenario with the given lock duration -/
def init (lock : Nat) : St := { lock := lock }

def covers (first last off : Nat) : Bool := decide (first ≤ off) && decide (off ≤ last)
def isFinalTy (ty : Nat) : Bool := ty == 0 || ty == 1 || ty == 2 || ty == 3

/-- the newest acquisition of `(part, off)` by anybody -/
def holder (s : St) (part off : Nat) : Option Acq :=
  s.acqs.find? (fun a => a.part == part && covers a.first a.last off)

def offsetsOf (b : Batch) : List Nat := (List.range (b.last + 1 - b.first)).map (· + b.first)

/-- A final batch of member `m` covers an offset for which `m` has unsent final decisions, none of them of the
batch's type. (The same offset can carry decisions of several deliveries; the request carries one of them. The
releases a closing member sends for records it holds undecided or still buffered are not judged.) -/
def typeDiffers (s : St) (m part first last ty : Nat) : Bool :=
  (ty == 1 || ty == 2 || ty == 3) && !(ty == 2 && s.closing.contains m) &&
  s.pend.any (fun p => p.m == m && p.part == part && covers first last p.off && p.stage == 0 && !p.lost &&
    !(s.pend.any (fun q => q.m == m && q.part == part && q.off == p.off && q.stage == 0 && q.st == ty)))

/-- An accept/reject batch of member `m` covers an offset for which `m` has no unsent final decision: the
decision was already carried by an earlier request that has not failed (a second final acknowledgement of the
same delivery), or nobody made it. -/
def unbacked (s : St) (m part first last ty : Nat) : Bool :=
  (ty == 1 || ty == 3) &&
  (List.range (last + 1 - first)).any (fun i =>
    !(s.pend.any (fun p => p.m == m && p.part == part && p.off == i + first && p.stage == 0)))

/-- mark the first element satisfying `f` -/
def markFirst (f : Pend → Bool) (g : Pend → Pend) : List Pend → List Pend
  | [] => []
  | p :: ps => if f p then g p :: ps else p :: markFirst f g ps

/-- A batch `[first,last]` of type `ty` in request `rid` carries, for each of its offsets, the oldest unsent decision
of that type (the member may have made the same decision for a later delivery after the request was built: that one
stays unsent and can back a later batch); the other unsent decisions for a covered offset may have been dropped
by the client's per-offset dedupe: they become `lost`. -/
def carry (ps : List Pend) (m rid part first last ty : Nat) : List Pend :=
  let sent := (List.range (last + 1 - first)).foldl (fun (acc : List Pend) i =>
    (markFirst (fun p => p.m == m && p.part == part && p.off == i + first && p.stage == 0 && p.st == ty)
      (fun p => { p with stage := 1, rid := rid }) acc.reverse).reverse) ps
  -- (a renew batch, type 4, is not a final acknowledgement: it replaces no decision, nothing is dropped for it)
  if ty == 4 then sent else
  sent.map (fun p => if p.m == m && p.part == part && covers first last p.off && p.stage == 0
                     then { p with lost := true } else p)

/-- The key of a second final acknowledgement: when every unbacked offset was renewed through the API since it was
handed out, it is the window the code documents (the drained renew entry reads the terminal status the later
`Ack` call stored, and that call's own entry sends it again). -/
def twiceKey (s : St) (m part first last : Nat) : String :=
  if (List.range (last + 1 - first)).all (fun i =>
      s.pend.any (fun p => p.m == m && p.part == part && p.off == i + first && p.stage == 0) ||
      s.renewed.contains (m, part, i + first))
  then "C12.final-ack-twice-renew-window" else "C12.final-ack-twice"

def check (s : St) : Ev → Option String
  | .delivered _ _ _ _ => none
  | .ack _ _ _ _ => none
  | .autoAccept _ _ _ => none
  | .callback _ _ _ _ => none
  | .flushStart _ => none
  | .flushEnd m ok =>
    if ok && s.uncalled.any (fun u => u.1 == m && u.2.2) then some "C12.flush-returned-before-callback" else none
  | .wireAck m rid part first last ty _ =>
    if first > last then some "C12.wire-batches-not-ascending"
    else match s.batches.find? (fun b => b.rid == rid && b.part == part) with
      | some b => if first ≤ b.last then
            -- the same gap range twice in a row (a requeued gap acknowledgement and the gap of a re-acquisition of the
            -- same offsets; the range builder dedupes user entries only) is told apart from other disorder
            (if b.first == first && b.last == last && b.ty == 0 && ty == 0 then some "C12.wire-gap-batch-duplicated"
             else some "C12.wire-batches-not-ascending") else
          if unbacked s m part first last ty then some (twiceKey s m part first last) else
          if typeDiffers s m part first last ty then some "C12.wire-type-differs-from-ack" else none
      | none =>
          if unbacked s m part first last ty then some (twiceKey s m part first last) else
          if typeDiffers s m part first last ty then some "C12.wire-type-differs-from-ack" else none
  | .wireLost _ _ => none
  | .connCut _ => none
  | .wireRes m rid part code =>
    if code != 0 then none
    -- the broker said yes to a final ack of a record that another member holds (acquired strictly before the request
    -- arrived, its lock not yet expired then,
    -- and that member has not sent a final acknowledgement for it since): such an ack cannot be honoured and
    -- must be answered with an error
    else if (s.batches.filter (fun b => b.rid == rid && b.part == part && b.m == m && (b.ty == 1 || b.ty == 3))).any (fun b =>
        (offsetsOf b).any (fun o => match holder s part o with
          | some a => a.m != m && decide (a.t < b.t) && decide (b.t < a.t + s.lock) &&
              !(s.batches.any (fun hb => hb.m == a.m && hb.part == part && covers hb.first hb.last o && isFinalTy hb.ty && decide (a.t ≤ hb.t)))
          | none => false)) then some "C12.ack-confirmed-for-record-held-by-another-member"
    else none
  | .acquired _ part first last _ t =>
    if s.confirmed.any (fun c => c.1 == part && covers first last c.2.1 && decide (c.2.2 < t))
    then some "C12.confirmed-record-redelivered" else none
  | .closeStart _ => none
  | .closed m =>
    if s.openRecs.any (fun r => r.1 == m &&
        !((s.batches.take (s.batches.length - r.2.2.2)).any (fun b => b.m == m && b.part == r.2.1 && covers b.first b.last r.2.2.1 && (b.ty == 1 || b.ty == 2 || b.ty == 3))) &&
        !(s.closeErr.contains (m, r.2.1))) then some "C12.unacked-not-released-on-close" else none
  | .quiesce =>
    if s.pend.any (fun p => p.stage == 0 && !p.lost && s.isClosed.contains p.m) then some "C12.ack-never-sent" else none

def apply (s : St) : Ev → St
  | .delivered m part off _ =>
    { s with openRecs := (m, part, off, s.batches.length) :: s.openRecs.filter (fun r => !(r.1 == m && r.2.1 == part && r.2.2.1 == off)),
             renewed := s.renewed.filter (fun r => !(r.1 == m && r.2.1 == part && r.2.2 == off)) }
  | .ack m part off st =>
    if st == 4 then { s with uncalled := (m, part, false) :: s.uncalled, renewed := (m, part, off) :: s.renewed }
    else { s with openRecs := s.openRecs.filter (fun r => !(r.1 == m && r.2.1 == part && r.2.2.1 == off)),
                  pend := { m := m, part := part, off := off, st := st } :: s.pend,
                  uncalled := (m, part, false) :: s.uncalled }
  | .autoAccept m part off =>
    { s with openRecs := s.openRecs.filter (fun r => !(r.1 == m && r.2.1 == part && r.2.2.1 == off)),
             pend := { m := m, part := part, off := off, st := 1 } :: s.pend,
             uncalled := (m, part, false) :: s.uncalled }
  | .callback m part err t =>
    let s := { s with uncalled := s.uncalled.filter (fun u => !(u.1 == m && u.2.1 == part)),
                      closeErr := if err != 0 && s.closing.contains m then (m, part) :: s.closeErr else s.closeErr }
    if err == 0 then
      { s with confirmed := ((s.pend.filter (fun p => p.m == m && p.part == part && p.stage == 2 && (p.st == 1 || p.st == 3))).map
                               (fun p => (p.part, p.off, t))) ++ s.confirmed,
               pend := s.pend.filter (fun p => !(p.m == m && p.part == part && p.stage == 2)) }
    -- an acknowledge error for the partition: decisions in flight may have been dropped; and a record the member
    -- renewed through the API whose partition is then refused (INVALID_RECORD_STATE after a leader move, a lost share
    -- session, …) is no longer known to be held by the member: Close is not required to release it on the wire
    else { s with pend := s.pend.map (fun p => if p.m == m && p.part == part then { p with stage := 0, lost := true } else p),
                  openRecs := s.openRecs.filter (fun r => !(r.1 == m && r.2.1 == part && s.renewed.contains (m, part, r.2.2.1))) }
  | .flushStart m => { s with uncalled := s.uncalled.map (fun u => if u.1 == m then (u.1, u.2.1, true) else u) }
  | .flushEnd m _ => { s with uncalled := s.uncalled.map (fun u => if u.1 == m then (u.1, u.2.1, false) else u) }
  | .wireAck m rid part first last ty t =>
    { s with batches := { m := m, rid := rid, part := part, first := first, last := last, ty := ty, t := t } :: s.batches,
             pend := carry s.pend m rid part first last ty }
  | .wireRes m rid part code =>
    if code == 0 then
      { s with pend := s.pend.map (fun p => if p.m == m && p.part == part && p.stage == 1 && p.rid == rid then { p with stage := 2 } else p) }
    else
      { s with pend := s.pend.map (fun p => if p.m == m && p.part == part && p.stage == 1 && p.rid == rid then { p with stage := 0 } else p) }
  | .wireLost m rid =>
    -- the member cannot know whether the broker applied the request: the decisions it carried are unsent again
    -- (a retry is not a second acknowledgement; an error callback may drop them instead)
    { s with pend := s.pend.map (fun p => if p.m == m && p.stage == 1 && p.rid == rid then { p with stage := 0 } else p) }
  | .connCut m =>
    -- the broker drops the session of that connection and releases its records: m no longer counts as holding them
    { s with acqs := s.acqs.filter (fun a => a.m != m) }
  | .acquired m part first last dc t =>
    { s with acqs := { m := m, part := part, first := first, last := last, dc := dc, t := t } :: s.acqs }
  | .closeStart m => { s with closing := m :: s.closing }
  | .closed m => { s with isClosed := m :: s.isClosed, openRecs := s.openRecs.filter (fun r => r.1 != m) }
  | .quiesce => s

def step (s : St) (e : Ev) : Option St :=
  match check s e with
  | none => some (apply s e)
  | some _ => none

def run : St → List Ev → Option St
  | s, [] => some s
  | s, e :: es => match step s e with
    | some s' => run s' es
    | none => none

def accepts (lock : Nat) (h : List Ev) : Bool := (run (init lock) h).isSome

end Model.Share
