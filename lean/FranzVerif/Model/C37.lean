/-! C37 — kotel `RecordCarrier` as a string map over record headers.

Hand-written model of the three carrier methods and of what a TextMap propagator does with them
(`TraceContext.Inject` = a sequence of `Set`s, `Extract` = `Get`s).
-- models: plugin/kotel/carrier.go:RecordCarrier.Get
-- models: plugin/kotel/carrier.go:RecordCarrier.Set
-- models: plugin/kotel/carrier.go:RecordCarrier.Keys
Core Lean only (linked into the driver). -/
namespace Model.C37

abbrev Bytes := List UInt8

/-- `kgo.RecordHeader{Key string; Value []byte}`. A Go string cannot be nil; a `[]byte` can, and the
wire keeps nil and empty apart, so the value is an `Option`. -/
structure Hdr where
  key : Bytes
  val : Option Bytes
deriving DecidableEq, Repr

/-- `string(h.Value)`: a nil slice reads as the empty string. -/
def Hdr.str (h : Hdr) : Bytes :=
  match h.val with
  | some v => v
  | none => []

/-- `Get`: `for _, h := range Headers { if h.Key == key { return string(h.Value) } }; return ""` —
the FIRST header with the key wins. -/
def cget : List Hdr → Bytes → Bytes
  | [], _ => []
  | h :: hs, k => if h.key = k then h.str else cget hs k

/-- `Set`: overwrite the value of the FIRST header with the key (`Headers[i].Value = []byte(val)`, always
non-nil), else append `{key, []byte(val)}`. -/
def cset : List Hdr → Bytes → Bytes → List Hdr
  | [], k, v => [⟨k, some v⟩]
  | h :: hs, k, v => if h.key = k then ⟨h.key, some v⟩ :: hs else h :: cset hs k v

/-- `Keys`: `out[i] = h.Key` for every header, duplicates included. -/
def ckeys : List Hdr → List Bytes
  | [] => []
  | h :: hs => h.key :: ckeys hs

/-- A TextMap injection: a sequence of `Set`s in order. -/
def setAll (h : List Hdr) (kvs : List (Bytes × Bytes)) : List Hdr :=
  kvs.foldl (fun acc kv => cset acc kv.1 kv.2) h

/-- The last value given to `k` in a sequence of `Set`s, if any. -/
def lastVal (kvs : List (Bytes × Bytes)) (k : Bytes) : Option Bytes :=
  kvs.foldl (fun acc kv => if kv.1 = k then some kv.2 else acc) none

/-! ### W3C trace-context propagation through the carrier (what the tracer hooks do) -/

/-- "traceparent" -/
def traceparentKey : Bytes := [116, 114, 97, 99, 101, 112, 97, 114, 101, 110, 116]
/-- "tracestate" -/
def tracestateKey : Bytes := [116, 114, 97, 99, 101, 115, 116, 97, 116, 101]

/-- `propagation.TraceContext.Inject` on a valid span context: `Set("tracestate", ts)` when `ts ≠ ""`,
then `Set("traceparent", tp)`. -/
def inject (h : List Hdr) (tp ts : Bytes) : List Hdr :=
  cset (if ts = [] then h else cset h tracestateKey ts) traceparentKey tp

/-- `TraceContext.Extract` reads `Get("traceparent")` and `Get("tracestate")`. -/
def extract (h : List Hdr) : Bytes × Bytes := (cget h traceparentKey, cget h tracestateKey)

/-! ### Observations and the executable Spec (string-map laws of the property text)

After every carrier operation the harness dumps what a user can observe of the record: the header
list, `Keys()`, `Get(key)` for the key of every header position, and `Get` of the operation's key. -/

structure Obs where
  hdrs : List Hdr
  keys : List Bytes
  gets : List Bytes
  getK : Bytes
deriving DecidableEq, Repr

/-- what the model observes -/
def obs (h : List Hdr) (k : Bytes) : Obs := ⟨h, ckeys h, h.map (fun x => cget h x.key), cget h k⟩

/-- "no other header changes": old → new differ by at most one header whose key is `k` and which now is
`(k, v)`, or by one appended `(k, v)`. -/
def changeOK (k v : Bytes) : List Hdr → List Hdr → Bool
  | [], new => new == [] || new == [⟨k, some v⟩]
  | a :: old, b :: new => if a == b then changeOK k v old new else (a.key == k && b == ⟨k, some v⟩ && old == new)
  | _ :: _, [] => false

/-- `Get` of every other key present before is unchanged (positions are stable by `changeOK`). -/
def othersSame (k : Bytes) : List Hdr → List Bytes → List Bytes → Bool
  | [], _, _ => true
  | x :: xs, a :: as, b :: bs => (x.key == k || a == b) && othersSame k xs as bs
  | _ :: _, _, _ => false

/-- Keys lists the header keys. -/
def specKeys (o : Obs) : Bool := o.keys == o.hdrs.map (·.key)

/-- The property for `Set(k, v)`: before-observation `P`, after-observation `N`. -/
def specSet (P : Obs) (k v : Bytes) (N : Obs) : Bool :=
  N.getK == v && specKeys N && changeOK k v P.hdrs N.hdrs && othersSame k P.hdrs P.gets N.gets

/-- What `Get(k)` must answer given the previous observation: the value observed for that key if some
header carries it, the empty string otherwise. -/
def expectGet : List Hdr → List Bytes → Bytes → Bytes
  | x :: xs, g :: gs, k => if x.key == k then g else expectGet xs gs k
  | _, _, _ => []

/-- The property for a read (`Get`/`Keys`): nothing changes and the answer agrees with the map. -/
def specRead (P : Obs) (k : Bytes) (N : Obs) : Bool :=
  N.hdrs == P.hdrs && N.gets == P.gets && specKeys N && N.getK == expectGet P.hdrs P.gets k

/-- The wire half: what was injected is what is extracted. -/
def specPropagate (tpIn tsIn tpOut tsOut : Bytes) : Bool := tpOut == tpIn && tsOut == tsIn

end Model.C37
