/-! C37 — kotel `RecordCarrier` as a string map over record headers.

Hand-written model of the three carrier methods and of what a TextMap propagator does with them
(`TraceContext.Inject` = a sequence of `Set`s, `Extract` = `Get`s).
-- models: plugin/kotel/carrier.go:RecordCarrier.Get
-- models: plugin/kotel/carrier.go:RecordCarrier.Set
-- models: plugin/kotel/carrier.go:RecordCarrier.Keys
The records of a fetched batch (`Batch`) are independent header lists: that is the specification of what
pkg/kgo/source.go `recordToRecord` hands out (each record's `Headers` is a window of one per-batch slab whose
capacity is capped at its length, so an `append` by `Set` can never reach a neighbour's slots).
-- models: pkg/kgo/source.go:recordToRecord
Core Lean only (linked into the driver). -/
namespace Model.C37

abbrev Bytes := List UInt8

/-- `kgo.RecordHeader{Key string; Value []byte}`. A Go string cannot be nil; a `[]byte` can, and the
wire keeps nil and empty apart, so the value is an `Option`. -/
structure Hdr where
  key : Bytes
  val : Option Bytes
deriving DecidableEq, Repr

/-- `string(h.Value)`: a nil slice reads as the empty string. -/
def Hdr.str (h : Hdr) : Bytes :=
  match h.val with
  | some v => v
  | none => []

/-- `Get`: `for _, h := range Headers { if h.Key == key { return string(h.Value) } }; return ""` —
the FIRST header with the key wins. -/
def cget : List Hdr → Bytes → Bytes
  | [], _ => []
  | h :: hs, k => if h.key = k then h.str else cget hs k

/-- `Set`: overwrite the value of the FIRST header with the key (`Headers[i].Value = []byte(val)`, always
non-nil), else append `{key, []byte(val)}`. -/
def cset : List Hdr → Bytes → Bytes → List Hdr
  | [], k, v => [⟨k, some v⟩]
  | h :: hs, k, v => if h.key = k then ⟨h.key, some v⟩ :: hs else h :: cset hs k v

/-- `Keys`: `out[i] = h.Key` for every header, duplicates included. -/
def ckeys : List Hdr → List Bytes
  | [] => []
  | h :: hs => h.key :: ckeys hs

/-- A TextMap injection: a sequence of `Set`s in order. -/
def setAll (h : List Hdr) (kvs : List (Bytes × Bytes)) : List Hdr :=
  kvs.foldl (fun acc kv => cset acc kv.1 kv.2) h

/-- The last value given to `k` in a sequence of `Set`s, if any. -/
def lastVal (kvs : List (Bytes × Bytes)) (k : Bytes) : Option Bytes :=
  kvs.foldl (fun acc kv => if kv.1 = k then some kv.2 else acc) none

/-! ### W3C trace-context propagation through the carrier (what the tracer hooks do) -/

/-- "traceparent" -/
def traceparentKey : Bytes := [116, 114, 97, 99, 101, 112, 97, 114, 101, 110, 116]
/-- "tracestate" -/
def tracestateKey : Bytes := [116, 114, 97, 99, 101, 115, 116, 97, 116, 101]

/-- `propagation.TraceContext.Inject` on a valid span context: `Set("tracestate", ts)` when `ts ≠ ""`,
then `Set("traceparent", tp)`. -/
def inject (h : List Hdr) (tp ts : Bytes) : List Hdr :=
  cset (if ts = [] then h else cset h tracestateKey ts) traceparentKey tp

/-- `TraceContext.Extract` reads `Get("traceparent")` and `Get("tracestate")`. -/
def extract (h : List Hdr) : Bytes × Bytes := (cget h traceparentKey, cget h tracestateKey)

/-! ### Observations and the executable Spec (string-map laws of the property text)

After every carrier operation the harness dumps what a user can observe of the record: the header
list, `Keys()`, `Get(key)` for the key of every header position, and `Get` of the operation's key. -/

structure Obs where
  hdrs : List Hdr
  keys : List Bytes
  gets : List Bytes
  getK : Bytes
deriving DecidableEq, Repr

/-- what the model observes -/
def obs (h : List Hdr) (k : Bytes) : Obs := ⟨h, ckeys h, h.map (fun x => cget h x.key), cget h k⟩

/-- "no other header changes": old → new differ by at most one header whose key is `k` and which now is
`(k, v)`, or by one appended `(k, v)`. -/
def changeOK (k v : Bytes) : List Hdr → List Hdr → Bool
  | [], new => new == [] || new == [⟨k, some v⟩]
  | a :: old, b :: new => if a == b then changeOK k v old new else (a.key == k && b == ⟨k, some v⟩ && old == new)
  | _ :: _, [] => false

/-- `Get` of every other key present before is unchanged (positions are stable by `changeOK`). -/
def othersSame (k : Bytes) : List Hdr → List Bytes → List Bytes → Bool
  | [], _, _ => true
  | x :: xs, a :: as, b :: bs => (x.key == k || a == b) && othersSame k xs as bs
  | _ :: _, _, _ => false

/-- Keys lists the header keys. -/
def specKeys (o : Obs) : Bool := o.keys == o.hdrs.map (·.key)

/-- The property for `Set(k, v)`: before-observation `P`, after-observation `N`. -/
def specSet (P : Obs) (k v : Bytes) (N : Obs) : Bool :=
  N.getK == v && specKeys N && changeOK k v P.hdrs N.hdrs && othersSame k P.hdrs P.gets N.gets

/-- What `Get(k)` must answer given the previous observation: the value observed for that key if some
header carries it, the empty string otherwise. -/
def expectGet : List Hdr → List Bytes → Bytes → Bytes
  | x :: xs, g :: gs, k => if x.key == k then g else expectGet xs gs k
  | _, _, _ => []

/-- The property for a read (`Get`/`Keys`): nothing changes and the answer agrees with the map. -/
def specRead (P : Obs) (k : Bytes) (N : Obs) : Bool :=
  N.hdrs == P.hdrs && N.gets == P.gets && specKeys N && N.getK == expectGet P.hdrs P.gets k

/-- The wire half: what was injected is what is extracted. -/
def specPropagate (tpIn tsIn tpOut tsOut : Bytes) : Bool := tpOut == tpIn && tsOut == tsIn

/-! ### The records of a fetched batch

`kgo.ProcessFetchPartition` decodes a record batch into records whose header lists are, to every user of the
records, independent values. The carrier works on ONE record; the model of a carrier operation on record `i`
of a batch therefore rewrites element `i` and nothing else. (That this is what the code does — that the Go
slices do not alias — is not provable from here; the differential run on really fetched records checks it.) -/

abbrev Batch := List (List Hdr)

/-- apply `f` to the header list of record `i` (a carrier built on that record); out of range: nothing -/
def bmod (f : List Hdr → List Hdr) : Batch → Nat → Batch
  | [], _ => []
  | h :: rs, 0 => f h :: rs
  | h :: rs, i + 1 => h :: bmod f rs i

/-- `NewRecordCarrier(batch[i]).Set(k, v)` -/
def bset (b : Batch) (i : Nat) (k v : Bytes) : Batch := bmod (fun h => cset h k v) b i

/-- the producer-side hook on record `i`: `TraceContext.Inject` through a carrier on that record -/
def binj (b : Batch) (i : Nat) (tp ts : Bytes) : Batch := bmod (fun h => inject h tp ts) b i

/-- a bridge forwards the records of a batch in some order, each with its own trace context -/
def binjAll (b : Batch) (ops : List (Nat × Bytes × Bytes)) : Batch :=
  ops.foldl (fun acc o => binj acc o.1 o.2.1 o.2.2) b

/-- observation of one record of a batch (no operation key) -/
def robs (h : List Hdr) : Obs := obs h []

/-- what the harness dumps after every batch operation: every record's observation -/
def bobs (b : Batch) : List Obs := b.map robs

/-- Spec, "no other header changes" across records: every record other than `i` is observed exactly as
before (headers, Keys, Gets), and no record appears or disappears. -/
def othersUntouched : Nat → List Obs → List Obs → Bool
  | _, [], [] => true
  | 0, _ :: ps, _ :: ns => ps == ns
  | i + 1, p :: ps, n :: ns => p == n && othersUntouched i ps ns
  | _, _, _ => false

/-- Spec of `Set(k, v)` on record `i` of a batch: the other records are untouched, record `i` obeys `specSet`.
`r` is the observed `Get(k)` on record `i` afterwards. -/
def specBSet (P : List Obs) (i : Nat) (k v : Bytes) (N : List Obs) (r : Bytes) : Bool :=
  othersUntouched i P N &&
  match P[i]?, N[i]? with
  | some p, some n => specSet p k v { n with getK := r }
  | _, _ => false

/-- Spec of a read on record `i`: no record changes, the answer agrees with record `i` seen as a map. -/
def specBRead (P : List Obs) (i : Nat) (k : Bytes) (N : List Obs) (r : Bytes) : Bool :=
  N == P &&
  match P[i]? with
  | some p => specKeys p && r == expectGet p.hdrs p.gets k
  | none => false

def isPropKey (k : Bytes) : Bool := k == traceparentKey || k == tracestateKey

/-- the application's headers: everything that is not a W3C propagation field -/
def appHdrs (h : List Hdr) : List Hdr := h.filter (fun x => !isPropKey x.key)

/-- Spec of what a forwarding hop may do to ONE record's headers (`orig` as produced upstream, `sink` as
consumed downstream): the application headers arrive unchanged and in order, and at most the two
propagation fields were added. -/
def specForward (orig sink : List Hdr) : Bool :=
  appHdrs sink == appHdrs orig && orig.length ≤ sink.length && sink.length ≤ orig.length + 2

/-- Spec of the producer-side hook on record `i` of a batch: other records untouched; on record `i` the
application headers are intact, Keys is right and `Get("traceparent")` (observed `r`) is the injected one. -/
def specBInj (P : List Obs) (i : Nat) (tp : Bytes) (N : List Obs) (r : Bytes) : Bool :=
  othersUntouched i P N &&
  match P[i]?, N[i]? with
  | some p, some n => specKeys n && specForward p.hdrs n.hdrs && r == tp
  | _, _ => false

end Model.C37
