/-! C38 — `kgo.Fetches` accessors.

Hand-written model of the accessors of pkg/kgo/record_and_fetch.go, function by function. `Fetches` is a
nested list (fetch → topics → partitions → records); a record is its identity (an integer the harness
stores in `Record.Offset`), an error is a small code (0 = nil), a topic ID a natural number (0 = the zero
`[16]byte`). The record iterator is the `prepareNext` index machine (`ti/pi/ri` over `fetches[0]`) with
its three `goto`s as one step function iterated under explicit fuel; the fuel is proved sufficient in
Props/C38, so "out of fuel" never happens, and `Next`'s unguarded triple index is an explicit panic outcome.
-- models: pkg/kgo/record_and_fetch.go:Fetches.RecordIter
-- models: pkg/kgo/record_and_fetch.go:FetchesRecordIter.Done
-- models: pkg/kgo/record_and_fetch.go:FetchesRecordIter.Next
-- models: pkg/kgo/record_and_fetch.go:FetchesRecordIter.prepareNext
-- models: pkg/kgo/record_and_fetch.go:Fetches.RecordsAll
-- models: pkg/kgo/record_and_fetch.go:Fetches.EachRecord
-- models: pkg/kgo/record_and_fetch.go:Fetches.Records
-- models: pkg/kgo/record_and_fetch.go:Fetches.NumRecords
-- models: pkg/kgo/record_and_fetch.go:Fetches.Empty
-- models: pkg/kgo/record_and_fetch.go:Fetches.EachPartition
-- models: pkg/kgo/record_and_fetch.go:Fetches.EachTopic
-- models: pkg/kgo/record_and_fetch.go:Fetches.Errors
-- models: pkg/kgo/record_and_fetch.go:Fetches.EachError
-- models: pkg/kgo/record_and_fetch.go:Fetches.Err
-- models: pkg/kgo/record_and_fetch.go:Fetches.Err0
-- models: pkg/kgo/record_and_fetch.go:Fetches.IsClientClosed
Core Lean only (linked into the driver). -/
namespace Model.C38

structure Part where
  num : Int            -- FetchPartition.Partition
  err : Nat            -- 0 = nil; 1 = ErrClientClosed; 2 = an error wrapping ErrClientClosed; ≥ 3 other errors
  recs : List Int      -- record identities
deriving DecidableEq, Repr

structure Topic where
  name : String
  id : Nat             -- 0 = zero TopicID
  parts : List Part
deriving DecidableEq, Repr

/-- `Fetch{Topics []FetchTopic}` -/
abbrev Fetch := List Topic
abbrev Fetches := List Fetch

/-! ### The record iterator -/

structure It where
  fetches : List Fetch
  ti : Nat
  pi : Nat
  ri : Nat
deriving DecidableEq, Repr

/-- One pass through the labels of `prepareNext` up to the next `goto` (`some` = state after the goto)
or to the `return` (`none`). `l[i]? = none` is the guard `i >= len(l)`; every index is guarded.
Note that popping a fetch resets only `ti`, and advancing the topic resets only `pi`. -/
def prepStep (s : It) : Option It :=
  match s.fetches with
  | [] => none                                               -- len(i.fetches) == 0: return
  | f0 :: rest =>
    match f0[s.ti]? with
    | none => some { s with fetches := rest, ti := 0 }       -- i.fetches = i.fetches[1:]; i.ti = 0; goto beforeFetch0
    | some topic =>
      match topic.parts[s.pi]? with
      | none => some { s with ti := s.ti + 1, pi := 0 }      -- i.ti++; i.pi = 0; goto beforeTopic
      | some p =>
        if s.ri ≥ p.recs.length then some { s with pi := s.pi + 1, ri := 0 }   -- i.pi++; i.ri = 0; goto beforePartition
        else none                                            -- a record is ready: return

/-- `prepareNext` under fuel: `none` = fuel exhausted (proved impossible with `fuelOf`). -/
def prepareNext : Nat → It → Option It
  | 0, _ => none
  | n + 1, s =>
    match prepStep s with
    | none => some s
    | some s' => prepareNext n s'

def sizeT (ts : List Topic) : Nat := (ts.map fun t => 1 + t.parts.length).sum
def sizeFs (fs : List Fetch) : Nat := (fs.map fun f => 1 + sizeT f).sum

/-- the fuel: total structural size (fetches + topics + partitions) of what is left, plus one -/
def fuelOf (s : It) : Nat := sizeFs s.fetches + 1

inductive Err where
  | panic       -- index out of range
  | outOfFuel   -- the model's fuel ran out (never: Props.C38)
deriving DecidableEq, Repr

/-- `RecordIter`: `iter := &FetchesRecordIter{fetches: fs}; iter.prepareNext()` -/
def recordIter (fs : Fetches) : Except Err It :=
  let s : It := ⟨fs, 0, 0, 0⟩
  match prepareNext (fuelOf s) s with
  | none => .error .outOfFuel
  | some s' => .ok s'

/-- `Done`: `len(i.fetches) == 0` -/
def done (s : It) : Bool := s.fetches.isEmpty

/-- `Next`: `next := i.fetches[0].Topics[i.ti].Partitions[i.pi].Records[i.ri]; i.ri++; i.prepareNext()`;
the four indexes are unguarded. -/
def next (s : It) : Except Err (Int × It) :=
  match s.fetches with
  | [] => .error .panic
  | f0 :: _ =>
    match f0[s.ti]? with
    | none => .error .panic
    | some topic =>
      match topic.parts[s.pi]? with
      | none => .error .panic
      | some p =>
        match p.recs[s.ri]? with
        | none => .error .panic
        | some r =>
          let s' := { s with ri := s.ri + 1 }
          match prepareNext (fuelOf s') s' with
          | none => .error .outOfFuel
          | some s'' => .ok (r, s'')

/-- The consumer loop `for !iter.Done() { if !yield(iter.Next()) { return } }`. `lim = 0`: yield always
answers true; `lim = k+1`: yield answers false at its (k+1)-th call (a `break` in a range-over-func). -/
def drain : Nat → Nat → It → Except Err (List Int)
  | 0, _, _ => .error .outOfFuel
  | n + 1, lim, s =>
    if done s then .ok []
    else
      match next s with
      | .error e => .error e
      | .ok (r, s') =>
        if lim = 1 then .ok [r]
        else match drain n (lim - 1) s' with
          | .error e => .error e
          | .ok rs => .ok (r :: rs)

def precs (p : Part) : List Int := p.recs
def trecs (t : Topic) : List Int := t.parts.flatMap precs
def frecs (f : Fetch) : List Int := f.flatMap trecs
/-- all records in fetch / topic / partition order -/
def flatten (fs : Fetches) : List Int := fs.flatMap frecs

/-- fuel for the consumer loops: one more than the number of records -/
def loopFuel (fs : Fetches) : Nat := (flatten fs).length + 1

/-- the records `RecordIter`'s `Done/Next` loop visits -/
def iterRecords (fs : Fetches) : Except Err (List Int) :=
  match recordIter fs with
  | .error e => .error e
  | .ok s => drain (loopFuel fs) 0 s

/-- `RecordsAll` ranged over, breaking after `lim` records when `lim > 0` -/
def recordsAll (fs : Fetches) (lim : Nat) : Except Err (List Int) :=
  match recordIter fs with
  | .error e => .error e
  | .ok s => drain (loopFuel fs) lim s

/-- `EachRecord`: the same loop with `fn` -/
def eachRecord (fs : Fetches) : Except Err (List Int) := iterRecords fs

/-! ### Partition-wise accessors -/

/-- `EachPartition`: three nested range loops, `FetchTopicPartition{topic.Topic, partition}` -/
def eachPartition (fs : Fetches) : List (String × Part) :=
  fs.flatMap fun f => f.flatMap fun t => t.parts.map fun p => (t.name, p)

/-- `NumRecords`: `n += len(p.Records)` over `EachPartition` -/
def numRecords (fs : Fetches) : Nat := (eachPartition fs).foldl (fun n p => n + p.2.recs.length) 0

/-- `Records`: `rs = append(rs, p.Records...)` over `EachPartition` -/
def records (fs : Fetches) : List Int := (eachPartition fs).foldl (fun rs p => rs ++ p.2.recs) []

/-- `Empty`: false at the first partition with `len(Records) > 0` -/
def empty (fs : Fetches) : Bool :=
  fs.all fun f => f.all fun t => t.parts.all fun p => !(decide (p.recs.length > 0))

/-- `EachError`: every partition with `Err != nil`, with its topic and partition number -/
def eachError (fs : Fetches) : List (String × Int × Nat) :=
  fs.flatMap fun f => f.flatMap fun t => t.parts.filterMap fun p =>
    if p.err ≠ 0 then some (t.name, p.num, p.err) else none

/-- `Errors`: appends what `EachError` reports -/
def errors (fs : Fetches) : List (String × Int × Nat) :=
  (eachError fs).foldl (fun acc e => acc ++ [e]) []

/-- `Err`: the first non-nil partition error (0 = nil) -/
def err (fs : Fetches) : Nat :=
  match (fs.flatMap fun f => f.flatMap fun t => t.parts).find? (fun p => p.err ≠ 0) with
  | some p => p.err
  | none => 0

/-- `Err0`: the error at index 0/0/0 if those exist -/
def err0 (fs : Fetches) : Nat :=
  match fs with
  | (t :: _) :: _ => match t.parts with
    | p :: _ => p.err
    | [] => 0
  | _ => 0

/-- `errors.Is(e, ErrClientClosed)` for the harness's error pool -/
def isClosedErr (e : Nat) : Bool := e == 1 || e == 2

/-- `IsClientClosed`: exactly one fetch, one topic, one partition, whose error is ErrClientClosed -/
def isClientClosed (fs : Fetches) : Bool :=
  match fs with
  | [[t]] => match t.parts with
    | [p] => isClosedErr p.err
    | _ => false
  | _ => false

/-! ### EachTopic -/

/-- `topics[name] = append(topics[name], parts...)` on an insertion-ordered association list (Go's map has
no order; outputs are compared as sets of topics). -/
def upsert (m : List (String × List Part)) (k : String) (ps : List Part) : List (String × List Part) :=
  match m with
  | [] => [(k, ps)]
  | (k', v) :: m' => if k' = k then (k', v ++ ps) :: m' else (k', v) :: upsert m' k ps

/-- `ids[name] = id` -/
def setId (m : List (String × Nat)) (k : String) (id : Nat) : List (String × Nat) :=
  match m with
  | [] => [(k, id)]
  | (k', v) :: m' => if k' = k then (k', id) :: m' else (k', v) :: setId m' k id

/-- `ids[name]`, the zero ID when absent -/
def lookupId (m : List (String × Nat)) (k : String) : Nat :=
  match m with
  | [] => 0
  | (k', v) :: m' => if k' = k then v else lookupId m' k

/-- all topics of all fetches, in order -/
def allTopics (fs : Fetches) : List Topic := fs.flatMap id

def mergeParts (ts : List Topic) (m : List (String × List Part)) : List (String × List Part) :=
  ts.foldl (fun m t => upsert m t.name t.parts) m

/-- `if topic.TopicID != ([16]byte{}) { ids[topic.Topic] = topic.TopicID }`: the LAST non-zero ID wins -/
def mergeIds (ts : List Topic) (m : List (String × Nat)) : List (String × Nat) :=
  ts.foldl (fun m t => if t.id ≠ 0 then setId m t.name t.id else m) m

/-- `EachTopic`: nothing for no fetch, the topics as they are for one fetch, otherwise one `FetchTopic` per
topic name with the partitions of all fetches appended in order and the recorded ID. -/
def eachTopic (fs : Fetches) : List Topic :=
  match fs with
  | [] => []
  | [f] => f
  | _ =>
    let ids := mergeIds (allTopics fs) []
    (mergeParts (allTopics fs) []).map fun kv => ⟨kv.1, lookupId ids kv.1, kv.2⟩

/-! ### Executable Spec (from the property text), over the accessors' observable results -/

/-- everything one run of the accessors shows -/
structure Obs where
  iter : List Int                      -- RecordIter Done/Next loop
  all : List Int                       -- range RecordsAll
  allBrk : List Int                    -- range RecordsAll with a break after `lim` records
  each : List Int                      -- EachRecord
  recs : List Int                      -- Records
  num : Nat                            -- NumRecords
  empty : Bool                         -- Empty
  parts : List (String × Part)         -- EachPartition
  topics : List Topic                  -- EachTopic
  errors : List (String × Int × Nat)   -- Errors
  eachError : List (String × Int × Nat)
deriving DecidableEq, Repr

/-- run every accessor the way the harness does -/
def run (fs : Fetches) (lim : Nat) : Except Err Obs := do
  let a ← iterRecords fs
  let b ← recordsAll fs 0
  let c ← recordsAll fs lim
  let d ← eachRecord fs
  pure ⟨a, b, c, d, records fs, numRecords fs, empty fs, eachPartition fs, eachTopic fs, errors fs, eachError fs⟩

/-- partitions reported under topic name `n` -/
def partsOf (n : String) (ts : List Topic) : List Part := (ts.filter (·.name == n)).flatMap (·.parts)

/-- the non-zero topic IDs the input reports for topic name `n` -/
def cands (inp : List Topic) (n : String) : List Nat :=
  ((inp.filter (·.name == n)).map (·.id)).filter (· != 0)

/-- the topic ID kept for a merged topic: zero only if every fetch reported zero, otherwise one of the
non-zero IDs reported for that name -/
def idOK (inp : List Topic) (t : Topic) : Bool :=
  if (cands inp t.name).isEmpty then t.id == 0 else (cands inp t.name).contains t.id

def nodupB : List String → Bool
  | [] => true
  | x :: xs => !xs.contains x && nodupB xs

/-- `EachTopic` covers every partition exactly once, grouped by topic: under every topic name the emitted
partitions are the input's partitions of that name in order; with one fetch the topics pass through; with
several fetches there is one entry per topic name, with a kept topic ID. -/
def specEachTopic (fs : Fetches) (out : List Topic) : Bool :=
  let inp := allTopics fs
  (inp.map (·.name) ++ out.map (·.name)).all (fun n => partsOf n out == partsOf n inp)
  && (match fs with
      | [] => out == []
      | [f] => out == f
      | _ => nodupB (out.map (·.name)) && out.all (idOK inp)
             && inp.all (fun t => (out.map (·.name)).contains t.name)
             && out.all (fun t => (inp.map (·.name)).contains t.name))

/-- every partition of a topic list with its topic name, in order -/
def tparts : List Topic → List (String × Part)
  | [] => []
  | t :: ts => t.parts.map (fun p => (t.name, p)) ++ tparts ts

/-- every partition of the input exactly once, in fetch / topic / partition order -/
def inputParts : Fetches → List (String × Part)
  | [] => []
  | f :: fs => tparts f ++ inputParts fs

/-- the partitions that carry an error, in order -/
def errParts (fs : Fetches) : List (String × Int × Nat) :=
  (inputParts fs).filterMap fun tp => if tp.2.err != 0 then some (tp.1, tp.2.num, tp.2.err) else none

def spec (fs : Fetches) (lim : Nat) (o : Obs) : Bool :=
  -- the four record accessors visit the same records in the same order: the input's records in order
  o.iter == flatten fs && o.all == o.iter && o.each == o.iter && o.recs == o.iter
  -- a `break` stops RecordsAll after exactly `lim` records
  && o.allBrk == (if lim = 0 then o.iter else o.iter.take lim)
  -- NumRecords is that count, Empty iff it is zero
  && o.num == o.iter.length && o.empty == (o.num == 0)
  -- EachPartition: every partition exactly once (in order, under its topic)
  && o.parts == inputParts fs
  && specEachTopic fs o.topics
  -- Errors / EachError: exactly the partitions with an error
  && o.errors == errParts fs && o.eachError == errParts fs

end Model.C38
