import FranzVerif.Model.C15
/-! # C16: the tag-count loop as the code runs it (step counting)

`Model.C15.dec` ends a decode at the first failed read.  The Go reader does not: a failed read sets `bad`, empties `Src`, and the
caller goes on.  `kmsg.internalReadTags` / `ReadTags` / `SkipTags` run (since /repo 994d56c "tag readers stop once the reader has failed")

    for num := b.Uvarint(); num > 0 && b.Ok(); num-- { key, size := b.Uvarint(), b.Uvarint(); t.Set(key, b.Span(int(size))) }

with `num` taken from the input.  This file transcribes `kbin.Reader` with its `bad` flag and that loop with an explicit step
counter, so that "the number of loop iterations is bounded by the input length" is a theorem (Props/C16 `tag_loop_steps_linear`;
before 994d56c the loop had no `b.Ok()` test and ran `num` ≤ 2^32−1 iterations on 5 input bytes) and so that the early exit of
`Model.C15.readRawTags` is justified by lemmas (`early_exit_justified`: same tags on success, an invalidated reader exactly when the
model says `.err`).

-- models: pkg/kbin/primitives.go:Reader.Uvarint Reader.Span Reader.Ok
-- models: pkg/kmsg/api.go:internalReadTags ReadTags SkipTags Tags.Set
-/
namespace Model.C16
open Model.C15

/-- `kbin.Reader` -/
structure Reader where
  src : Bytes
  bad : Bool

/-- `Reader.Uvarint`: on `n <= 0` the reader is invalidated (`bad = true; Src = nil`) and 0 is returned. -/
def Reader.uvarint (b : Reader) : Nat × Reader :=
  match uvDec 4 15 b.src with
  | some (x, r) => (x, { b with src := r })
  | none => (0, { src := [], bad := true })

/-- `Reader.Span(l)` -/
def Reader.span (b : Reader) (l : Int) : Bytes × Reader :=
  if (b.src.length : Int) < l ∨ l < 0 then ([], { src := [], bad := true })
  else (b.src.take l.toNat, { b with src := b.src.drop l.toNat })

/-- the loop of `internalReadTags`: at most `num` iterations, each guarded by `b.Ok()`; `steps` counts iterations. -/
def tagLoop : Nat → Reader → List (Nat × Bytes) → Nat → List (Nat × Bytes) × Reader × Nat
  | 0, b, t, steps => (t, b, steps)
  | n+1, b, t, steps =>
    if b.bad then (t, b, steps) else      -- `num > 0 && b.Ok()`
    let (key, b1) := b.uvarint
    let (size, b2) := b1.uvarint
    let (v, b3) := b2.span size
    tagLoop n b3 (tagSet t key v) (steps + 1)

/-- `internalReadTags(&b)`: tags, reader afterwards, loop iterations executed. -/
def internalReadTags (b : Reader) : List (Nat × Bytes) × Reader × Nat :=
  let (num, b1) := b.uvarint
  tagLoop num b1 [] 0

def steps (src : Bytes) : Nat := (internalReadTags { src := src, bad := false }).2.2

end Model.C16
