import FranzVerif.Model.C22Frame
/-! Connection monitor (C22). Events come from `harness/cmd/sim` (`conn` scenarios): a real kgo client talks to a
scripted peer over an in-bubble pipe. The monitor keeps, per connection, the requests in the order the peer read
them (= the order the client wrote them, each with its correlation id) and the bytes the peer sent; running the
frame parser (`Model.C22Frame`) over that stream against that FIFO says, for every request, whether a response can
have been delivered to it. `check` returns the rule an event breaks. Core Lean only.

SASL scenarios add the vocabulary of KIP-368 re-authentication (pkg/kgo/broker.go: `handleReq`'s expiry arm, `park`,
`failParked`, `takeParked`, `handleReauthDrain`): the peer reads a SASLHandshake request (`authBegin`), answers the
SASLAuthenticate request successfully (`authEnd`), the client parks a request issued after the session expiry while
responses are in flight (`park`). A parked request is either failed when the connection dies (then it must never reach
the wire afterwards) or written exactly once, on a connection that completed an authentication after the request was
parked (the replay of `handleReauthDrain`); no request is written while an authentication exchange is open, and a
re-authentication begins only when every response of that connection has been received.
-- models: pkg/kgo/broker.go:brokerCxn.park
-- models: pkg/kgo/broker.go:brokerCxn.failParked
-- models: pkg/kgo/broker.go:brokerCxn.takeParked
-- models: pkg/kgo/broker.go:broker.handleReauthDrain -/
namespace Model.Conn
open Model.C22Frame

/-- error classes of `Broker.Request` as the harness reports them -/
inductive Cls where
  | canceled | ctxdeadline | timeout | clientclosed | eof | closedpipe | negsize | oversize | mismatch | short
  | bodyshort | dead | dial | apiversions | other
deriving DecidableEq, Repr

structure Waiter where
  c : Nat        -- connection
  corr : Nat     -- correlation id the request was written with
  id : Nat       -- request
  flex : Bool    -- flexible response header
  tw : Nat       -- virtual ms at which the peer had read it
deriving DecidableEq, Repr

structure Frame where
  c : Nat
  f : Nat
  full : Bytes   -- the frame as scripted
  sent : Bytes   -- the prefix that is put on the wire
deriving DecidableEq, Repr

inductive Ev where
  | cfg (maxRead tmo : Nat) (strict racy huge sasl : Bool)
  | issue (i t : Nat)
  | hsReq (c corr : Nat)                        -- ApiVersions request of connection c
  | hsFrame (c : Nat) (sent : Bytes)            -- the peer's answer to it
  | written (w : Waiter)
  | frame (fr : Frame)
  | peerClose (c : Nat)
  | ok (i : Nat) (f : Int) (t : Nat)            -- Broker.Request returned the payload of frame f (-1: unrecognisable)
  | err (i : Nat) (cls : Cls) (t : Nat)
  | never (i : Nat)                             -- did not return before the scenario gave up
  | cpu (ms : Nat)
  | quiesce
  | authBegin (c n t : Nat)                     -- the peer read the SASLHandshake request of the n-th authentication on connection c
  | authEnd (c n life t : Nat)                  -- the peer answers its SASLAuthenticate request successfully (session lifetime life ms)
  | park (i t : Nat)                            -- the client parked request i (session expired, responses in flight)
deriving DecidableEq, Repr

structure St where
  maxRead : Nat := 4096
  tmo : Nat := 1000
  strict : Bool := false
  racy : Bool := true
  huge : Bool := false
  issued : List (Nat × Nat) := []            -- (id, t), newest first
  outs : List (Nat × Bool × Nat) := []       -- (id, ok, t), newest first
  hsReqs : List (Nat × Nat) := []            -- (c, corr)
  hsSent : List (Nat × Bytes) := []          -- oldest first
  waiters : List Waiter := []                -- oldest first
  frames : List Frame := []                  -- oldest first
  closed : List Nat := []
  cpu : Nat := 0
  sasl : Bool := false
  authOpen : List Nat := []                  -- connections with an authentication exchange in progress
  authed : List Nat := []                    -- connections that completed an authentication
  parked : List Nat := []                    -- parked requests, newest first
  ready : List (Nat × Nat) := []             -- (i, c): an authentication completed on connection c after request i was last parked
deriving Repr

def fifoOf (s : St) (c : Nat) : List Waiter := s.waiters.filter (·.c == c)
def streamOf (s : St) (c : Nat) : Bytes := (s.frames.filter (·.c == c)).flatMap (·.sent)
def closedOf (s : St) (c : Nat) : Bool := s.closed.contains c
def hsStreamOf (s : St) (c : Nat) : Bytes := (s.hsSent.filter (·.1 == c)).flatMap (·.2)

/-- what the frame parser says about a request, given the connection's FIFO and stream -/
inductive Expect where
  | deliver (body : Bytes)   -- every older request got a body and this frame passes all header checks
  | fail (r : Res)           -- the frame at this position is refused: the connection dies here
  | pending                  -- the stream so far ends before / inside this frame
  | behind                   -- an older request failed or is still pending: nothing can be delivered here
  | unwritten
deriving DecidableEq, Repr

def simulate (maxRead : Nat) (closed : Bool) : List Waiter → Bytes → List (Nat × Expect)
  | [], _ => []
  | w :: ws, stream =>
    let o := parseFrame maxRead w.corr w.flex closed stream
    match o.res with
    | .deliver body => (w.id, .deliver body) :: simulate maxRead closed ws o.rest
    | .needMore => (w.id, .pending) :: ws.map (fun x => (x.id, .behind))
    | r => (w.id, .fail r) :: ws.map (fun x => (x.id, .behind))

def lookup (i : Nat) : List (Nat × Expect) → Expect
  | [] => .unwritten
  | (j, e) :: rest => if j == i then e else lookup i rest

def expectOf (s : St) (i : Nat) : Expect :=
  match s.waiters.find? (·.id == i) with
  | none => .unwritten
  | some w => lookup i (simulate s.maxRead (closedOf s w.c) (fifoOf s w.c) (streamOf s w.c))

def Expect.isDeliver : Expect → Bool
  | .deliver _ => true
  | _ => false

def clsOf : Res → Cls
  | .negSize => .negsize | .overSize => .oversize | .eof => .eof | .short => .short | .mismatch => .mismatch
  | _ => .other

/-- the handshake of connection c was answered acceptably (non-flexible header, correlation id of the request) -/
def hsOk (s : St) (c : Nat) : Bool :=
  match s.hsReqs.find? (·.1 == c) with
  | none => false
  | some (_, corr) =>
    match (parseFrame s.maxRead corr false (closedOf s c) (hsStreamOf s c)).res with
    | .deliver _ => true
    | _ => false

def hasOut (s : St) (i : Nat) : Bool := s.outs.any (·.1 == i)
def outTime (s : St) (i : Nat) : Nat := match s.outs.find? (·.1 == i) with | some (_, _, t) => t | none => 0

/-- latest moment the answer to waiter `w` may arrive: it becomes the oldest outstanding request when it was written
or when its predecessor on the connection finished, whichever is later, and then has the read timeout -/
def deadlineOf (s : St) (w : Waiter) : Nat :=
  let older := (fifoOf s w.c).filter (fun x => x.corr < w.corr)
  let prev := older.foldl (fun m x => max m (outTime s x.id)) 0
  max w.tw prev + s.tmo

def check (s : St) : Ev → Option String
  | .cfg .. => none
  | .issue i _ => if s.issued.any (·.1 == i) then some "C22.harness-duplicate-request-id" else none
  | .hsReq .. => none
  | .hsFrame .. => none
  | .written w =>
    if !s.issued.any (·.1 == w.id) then some "C22.unknown-request-on-wire"
    else if s.waiters.any (·.id == w.id) then some "C22.request-written-twice"
    else if (fifoOf s w.c).any (fun x => x.corr ≥ w.corr) then some "C22.correlation-id-not-increasing"
    else if !hsOk s w.c then some "C22.request-after-failed-handshake"
    else if hasOut s w.id && outTime s w.id < w.tw then some "C22.failed-request-written-after-disconnect"
    else if s.authOpen.contains w.c then some "C22.request-written-during-authentication"
    else if s.sasl && !s.authed.contains w.c then some "C22.request-written-before-authentication"
    else if s.parked.contains w.id && !s.ready.contains (w.id, w.c) then some "C22.parked-request-written-without-reauthentication"
    else none
  | .frame .. => none
  | .peerClose _ => none
  | .ok i f _ =>
    if !s.issued.any (·.1 == i) then some "C22.outcome-of-unknown-request"
    else if hasOut s i then some "C22.second-outcome"
    else match expectOf s i with
      | .deliver body =>
        if f < 0 then none
        else match s.frames.find? (fun fr => fr.f == f.toNat) with
          | none => some "C22.payload-of-unknown-frame"
          | some fr =>
            match s.waiters.find? (·.id == i) with
            | none => some "C22.delivery-to-unwritten-request"
            | some w => if fr.c == w.c && body.isSuffixOf fr.full then none else some "C22.payload-of-another-frame"
      | .unwritten => some "C22.delivery-to-unwritten-request"
      | .fail .mismatch => some "C22.delivered-despite-correlation-mismatch"
      | .fail _ => some "C22.delivered-malformed-frame"
      | .pending => some "C22.delivered-incomplete-frame"
      | .behind => some "C22.delivered-out-of-order-or-after-death"
  | .err i cls _ =>
    if !s.issued.any (·.1 == i) then some "C22.outcome-of-unknown-request"
    else if hasOut s i then some "C22.second-outcome"
    else if s.strict && s.sasl then some "C22.request-failed-without-fault"
    else match expectOf s i with
      | .deliver _ => if s.strict then some "C22.valid-response-not-delivered" else none
      | .fail r =>
        if s.racy then none
        else if cls == clsOf r then none
        else if r == .eof && (cls == .dead || cls == .closedpipe) then none
        else some "C22.error-class-differs-from-frame-model"
      | _ => none
  | .never _ => none
  | .cpu _ => none
  | .quiesce =>
    if s.issued.any (fun i => !hasOut s i.1) then some "C22.request-never-finished"
    else if s.waiters.any (fun w => hasOut s w.id && outTime s w.id > deadlineOf s w + 5) then some "C22.waited-beyond-timeout"
    else if s.cpu > 1000 then some (if s.huge then "C22.tag-count-unbounded-loop" else "C22.cpu-burn")
    else none
  | .authBegin c _ _ =>
    -- a RE-authentication reads its responses on the request goroutine: every response of the connection must be in
    if s.authed.contains c && (fifoOf s c).any (fun w => !hasOut s w.id && !(expectOf s w.id).isDeliver)
    then some "C22.reauthentication-with-response-in-flight" else none
  | .authEnd .. => none
  | .park i _ =>
    if !s.issued.any (·.1 == i) then some "C22.harness-park-of-unknown-request"
    else if s.waiters.any (·.id == i) then some "C22.written-request-parked"
    else none

def apply (s : St) : Ev → St
  | .cfg maxRead tmo strict racy huge sasl => { s with maxRead := maxRead, tmo := tmo, strict := strict, racy := racy, huge := huge, sasl := sasl }
  | .issue i t => { s with issued := (i, t) :: s.issued }
  | .hsReq c corr => { s with hsReqs := s.hsReqs ++ [(c, corr)] }
  | .hsFrame c sent => { s with hsSent := s.hsSent ++ [(c, sent)] }
  | .written w => { s with waiters := s.waiters ++ [w] }
  | .frame fr => { s with frames := s.frames ++ [fr] }
  | .peerClose c => { s with closed := c :: s.closed }
  | .ok i _ t => { s with outs := (i, true, t) :: s.outs }
  | .err i _ t => { s with outs := (i, false, t) :: s.outs }
  | .never _ => s
  | .cpu ms => { s with cpu := ms }
  | .quiesce => s
  | .authBegin c _ _ => { s with authOpen := c :: s.authOpen }
  | .authEnd c _ _ _ => { s with authOpen := s.authOpen.filter (· != c), authed := c :: s.authed, ready := s.parked.map (fun i => (i, c)) ++ s.ready }
  | .park i _ => { s with parked := i :: s.parked, ready := s.ready.filter (·.1 != i) }

def step (s : St) (e : Ev) : Option St :=
  match check s e with
  | none => some (apply s e)
  | some _ => none

def run : St → List Ev → Option St
  | s, [] => some s
  | s, e :: es => match step s e with
    | some s' => run s' es
    | none => none

def accepts (h : List Ev) : Bool := (run {} h).isSome

end Model.Conn
