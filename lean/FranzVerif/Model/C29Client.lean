import FranzVerif.Gen.C29
/-! C29 — client side: every USE of sequence arithmetic in `pkg/kgo`.

`Gen.C29S` (regenerated from /repo on every run by `tools/extract seqsites`) holds, for every write to
`recBuf.seq`, `recBuf.batch0Seq` and `seqRecBatch.seq` in the package, the value written as a function
of the current `(batch0Seq, seq)` and the record count `n` of the batch at hand. The model below is the
sequence bookkeeping of one partition's `recBuf`, function by function, with those generated functions
plugged in at the places where the Go code has the writes:

  * `(*sink).createReq`            drains `batches[batchDrainIdx]`, `seq = createReq_seq …`
  * `(*produceRequest).tryAddBatch` for `batches[0]` with `needSeqReset`: `seq = …; batch0Seq = …`, then
                                   `addBatch(…, recBuf.seq, batch)` puts `seqRecBatch{seq, batch}` on the wire
  * `(*Client).finishBatch`        success: `batch0Seq = finishBatch_batch0Seq …`, `batches = batches[1:]`, `batchDrainIdx--`
  * `(*recBuf).resetBatchDrainIdx` `seq = resetBatchDrainIdx_seq …`, `batchDrainIdx = 0`   (the REWIND)
  * `failProducerID` → … → `resetAllProducerSequences`: `needSeqReset = true` (modelled together with the
    rewind of the partition's in-flight batches that precedes the next drain, and the epoch bump)

-- models: pkg/kgo/sink.go:createReq (sequence part), tryAddBatch (sequence part), finishBatch (sequence part), resetBatchDrainIdx
Core Lean only (linked into the driver). -/
namespace Model.C29C

/-- 2^31 -/
def seqMod : Int := 2147483648

/-- Spec-level successor `(s+n) mod 2^31`. -/
def next (s n : Int) : Int := (s + n) % seqMod

/-! ### The monitor: what the property says about the produce batches one partition's leader sees -/

/-- What reaches the broker side for one partition, in arrival order. -/
inductive Ev where
  /-- a produce batch: producer epoch, FirstSequence, NumRecords (as on the wire: signed) -/
  | batch (epoch first n : Int)
  /-- a genuine reason for a new producer epoch: the broker rejected a batch that conformed to the
  chain (the client then fails its producer id), or — in the client model — the producer id was failed -/
  | reset
deriving DecidableEq, Repr

/-- Monitor state. `chain` holds every `(first, n)` sent under the current epoch, newest first;
`nextSeq` is `(first+n) mod 2^31` of the newest. -/
structure Mon where
  started : Bool := false
  epoch : Int := 0
  nextSeq : Int := 0
  chain : List (Int × Int) := []
  allow : Bool := false
deriving Repr, DecidableEq

/-- One step; `none` = the property is violated by this event.
* a FirstSequence is never negative (and below 2^31), a batch has at least one record;
* under an unchanged epoch a batch either continues the chain (`first = (last.first + last.n) mod 2^31`)
  or repeats an earlier `(first, n)` pair exactly (a re-send carries its original first sequence);
* the epoch changes only after a genuine reason, and the new epoch starts at sequence 0. -/
def Mon.step (m : Mon) : Ev → Option Mon
  | .reset => some { m with allow := true }
  | .batch e f n =>
    if f < 0 || f ≥ seqMod || n < 1 || n ≥ seqMod then none
    else if !m.started then
      some { started := true, epoch := e, nextSeq := next f n, chain := [(f, n)], allow := false }
    else if e == m.epoch then
      if f == m.nextSeq then some { m with nextSeq := next f n, chain := (f, n) :: m.chain }
      else if m.chain.contains (f, n) then some m
      else none
    else if m.allow && f == 0 then
      some { started := true, epoch := e, nextSeq := next 0 n, chain := [(0, n)], allow := false }
    else none

def Mon.run : Mon → List Ev → Option Mon
  | m, [] => some m
  | m, e :: es => match m.step e with
    | none => none
    | some m' => m'.run es

/-- The property on a whole history. -/
def chainOk (es : List Ev) : Bool := (Mon.run {} es).isSome

/-! ### The same monitor for what ARRIVES at the broker side

`Mon` speaks about the order in which the client WRITES batches. The wire view of a scenario records what reached
the broker side: a request written on a connection that died before it was read is missing there, so a later batch
can arrive before an earlier one arrives for the first time (batches 45+5, 50+18, 68+5 written in that order on a
connection that is cut after the first: the client re-sends from 45, but a request carrying 68+5 that was already
on its way arrives first and is answered OUT_OF_ORDER_SEQUENCE_NUMBER). The numbering is what the property is
about, not the arrival order: `LMon` keeps such a batch aside (`ahead`) until the chain reaches it, still refuses two
different batches with one first sequence, and `LMon.done` requires that nothing is left aside at the end. On
histories `Mon` accepts it behaves exactly like `Mon` (`Props.C29.lmon_generalises`). -/

structure LMon where
  started : Bool := false
  epoch : Int := 0
  nextSeq : Int := 0
  chain : List (Int × Int) := []
  allow : Bool := false
  /-- batches that arrived before the chain reached their first sequence -/
  ahead : List (Int × Int) := []
deriving Repr, DecidableEq

/-- move batches from `ahead` into the chain while one of them starts at the frontier -/
def LMon.absorb : Nat → LMon → LMon
  | 0, m => m
  | fuel + 1, m =>
    match m.ahead.find? (fun p => p.1 == m.nextSeq) with
    | none => m
    | some p => LMon.absorb fuel { m with nextSeq := next p.1 p.2, chain := p :: m.chain, ahead := m.ahead.filter (· != p) }

/-- a batch under the monitor's current epoch: it continues the chain, repeats a batch seen before, or is kept aside -/
def LMon.sameEpoch (m : LMon) (f n : Int) : Option LMon :=
  if f == m.nextSeq then
    let m' := { m with nextSeq := next f n, chain := (f, n) :: m.chain }
    some (LMon.absorb m'.ahead.length m')
  else if m.chain.contains (f, n) || m.ahead.contains (f, n) then some m
  else if (m.chain ++ m.ahead).any (fun p => p.1 == f) then none     -- two different batches with one first sequence
  else some { m with ahead := (f, n) :: m.ahead }

/-- The first batch to ARRIVE need not be the first one written (the first request can be the one that is lost), neither
at the start of the history (the chain starts at `nextSeq` of the initial state, the partition's starting sequence) nor
after an epoch change (the chain of a new epoch starts at 0). A `.reset` seen before the first batch arrives stays
pending (`allow` is kept when the monitor starts): the batches written before it may all have been lost. -/
def LMon.step (m : LMon) : Ev → Option LMon
  | .reset => some { m with allow := true }
  | .batch e f n =>
    if f < 0 || f ≥ seqMod || n < 1 || n ≥ seqMod then none
    else if !m.started then
      LMon.sameEpoch { m with started := true, epoch := e, chain := [], ahead := [] } f n
    else if e == m.epoch then LMon.sameEpoch m f n
    else if m.allow then
      LMon.sameEpoch { started := true, epoch := e, nextSeq := 0, chain := [], allow := false, ahead := [] } f n
    else none

/-- the initial state of a partition whose first batch is numbered `start` -/
def LMon.init (start : Int) : LMon := { nextSeq := start }

def LMon.run : LMon → List Ev → Option LMon
  | m, [] => some m
  | m, e :: es => match m.step e with
    | none => none
    | some m' => m'.run es

/-- at the end of a history in which everything was delivered nothing is left aside -/
def LMon.done (m : LMon) : Bool := m.ahead.isEmpty

def LMon.ofMon (m : Mon) : LMon :=
  { started := m.started, epoch := m.epoch, nextSeq := m.nextSeq, chain := m.chain, allow := m.allow, ahead := [] }

/-! ### The client model -/

/-- The sequence-relevant fields of `recBuf`. A batch is represented by its record count
`int32(len(batch.records))` at the time it is first drained (from then on `batch.frozen`).
`epoch` (the producer epoch requests are stamped with) and `sentHi` (how many of the leading batches
have been sent at least once under the current epoch) are history variables. -/
structure RecBuf where
  seq : BitVec 32
  batch0Seq : BitVec 32
  batches : List (BitVec 32) := []
  drainIdx : Nat := 0
  needSeqReset : Bool := false
  epoch : Int := 0
  sentHi : Nat := 0
deriving Repr, DecidableEq

inductive Op where
  | buffer (n : BitVec 32)   -- a new batch of `n` records is appended to `batches`
  | drain                    -- createReq/tryAddBatch take `batches[batchDrainIdx]` into a request
  | finish                   -- finishBatch(batches[0]) with a success answer
  | rewind                   -- resetBatchDrainIdx
  | epochReset               -- the producer id was failed; next use: new epoch, sequences restart at 0
deriving Repr, DecidableEq

def sumN (l : List (BitVec 32)) : Nat := (l.map (·.toNat)).sum

/-- One step of the client; returns the new state and what it puts on the wire. -/
def RecBuf.step (r : RecBuf) : Op → RecBuf × List Ev
  | .buffer n =>
    -- a batch holds at least one record; a partition never buffers 2^31 records (assumption of the property's model)
    if 1 ≤ n.toNat ∧ sumN r.batches + n.toNat < 2147483648 then ({ r with batches := r.batches ++ [n] }, []) else (r, [])
  | .drain =>
    match r.batches[r.drainIdx]? with
    | none => (r, [])
    | some n =>
      -- tryAddBatch: `if recBuf.batches[0] == batch { … if recBuf.needSeqReset { needSeqReset = false; seq = 0; batch0Seq = 0 } }`
      let reset := r.drainIdx == 0 && r.needSeqReset
      let seq1 := if reset then Gen.C29S.tryAddBatch_seq r.batch0Seq r.seq n else r.seq
      let b01 := if reset then Gen.C29S.tryAddBatch_batch0Seq r.batch0Seq seq1 n else r.batch0Seq
      -- `p.batches.addBatch(topic, topicID, partition, recBuf.seq, batch)` -> `seqRecBatch{seq, batch}` -> FirstSequence
      let first := Gen.C29S.addBatch_seqRecBatch_seq b01 seq1 n
      -- createReq: `recBuf.batchDrainIdx++ … recBuf.seq = incrementSequence(recBuf.seq, int32(len(batch.records)))`
      ({ r with seq := Gen.C29S.createReq_seq b01 seq1 n, batch0Seq := b01, drainIdx := r.drainIdx + 1,
                needSeqReset := if reset then false else r.needSeqReset,
                sentHi := max r.sentHi (r.drainIdx + 1) },
       [.batch r.epoch first.toInt n.toInt])
  | .finish =>
    match r.batches, r.drainIdx with
    | n :: rest, k + 1 =>
      ({ r with batch0Seq := Gen.C29S.finishBatch_batch0Seq r.batch0Seq r.seq n, batches := rest, drainIdx := k,
                sentHi := r.sentHi - 1 }, [])
    | _, _ => (r, [])
  | .rewind =>
    ({ r with seq := Gen.C29S.resetBatchDrainIdx_seq r.batch0Seq r.seq 0, drainIdx := 0 }, [])
  | .epochReset =>
    ({ r with seq := Gen.C29S.resetBatchDrainIdx_seq r.batch0Seq r.seq 0, drainIdx := 0, needSeqReset := true,
              epoch := r.epoch + 1, sentHi := 0 }, [.reset])

/-- Everything the client puts on the wire over a schedule of operations. -/
def RecBuf.wire : RecBuf → List Op → List Ev
  | _, [] => []
  | r, o :: os => (r.step o).2 ++ (r.step o).1.wire os

/-- A partition on which `s` records have been produced and acknowledged (what the verif hook sets up). -/
def RecBuf.init (s : BitVec 32) : RecBuf := { seq := s, batch0Seq := s }

end Model.C29C
