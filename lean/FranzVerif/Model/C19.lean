/-! C19 — compression codec selection, bounded decompression, xerial framing (pkg/kgo/compression.go).

Hand-written model, function by function, of what the Go code does (tie D: `harness/cmd/c19` and
`Driver/C19.lean` run the same operations and the outputs are diffed).
-- models: pkg/kgo/compression.go:DefaultCompressor
-- models: pkg/kgo/compression.go:compressor.Compress
-- models: pkg/kgo/compression.go:mkCompressFlags
-- models: pkg/kgo/compression.go:decompressor.Decompress
-- models: pkg/kgo/compression.go:xerialDecode

The third-party codecs (compress/gzip, klauspost s2 and zstd, pierrec lz4) are *parameters* (`Lib`, `Enc`):
the theorems that need a fact about them take it as an explicit hypothesis and are named `…_partial`.
Bytes are `List UInt8`. Every slice / index operation of the modelled Go code is an explicit operation
that answers `panic` when out of range. Core Lean only. -/
namespace Model.C19

abbrev Bytes := List UInt8

/-! ### Codec selection: `DefaultCompressor`, `compressor.Compress`, `mkCompressFlags` -/

/-- `CompressionCodec{codec, level}`; `codec` is an int8 (`CodecNone`=0, gzip 1, snappy 2, lz4 3, zstd 4). -/
structure Pref where
  codec : Int
  level : Int
deriving DecidableEq, Repr

/-- The dedup loop: `used[codec.codec]` map, first occurrence of every codec number is kept (with its level). -/
def dedup : List Pref → List Int → List Pref
  | [], _ => []
  | p :: ps, seen => if seen.contains p.codec then dedup ps seen else p :: dedup ps (p.codec :: seen)

/-- The `out:` loop: `c.options = append(c.options, codec.codec)`, `break out` after appending `CodecNone`. -/
def cutNone : List Pref → List Int
  | [] => []
  | p :: ps => if p.codec == 0 then [0] else p.codec :: cutNone ps

/-- What `DefaultCompressor` returns. -/
inductive Built where
  | noCompressor                 -- `nil, nil`: the client does not compress
  | unknownCodec                 -- `nil, errors.New("unknown compression codec")`
  | comp (options : List Int)    -- a compressor with this `options` list
  | panic                        -- `c.options[0]` out of range
deriving DecidableEq, Repr

def build (prefs : List Pref) : Built :=
  if prefs.isEmpty then .noCompressor
  else
    let ps := dedup prefs []
    if ps.any (fun p => p.codec < 0 || p.codec > 4) then .unknownCodec
    else
      match cutNone ps with
      | [] => .panic                                   -- `c.options[0]`
      | o :: rest => if o == 0 then .noCompressor else .comp (o :: rest)

/-- `for _, flag := range flags { if flag == CompressDisableZstd { disableZstd = true } }` (the flag is 1). -/
def disableZstd (flags : List Int) : Bool := flags.any (· == 1)

/-- The selection loop of `Compress`; `use` keeps its zero value `CodecNone` when no option is usable. -/
def choose : List Int → Bool → Int
  | [], _ => 0
  | o :: rest, dis => if o == 4 && dis then choose rest dis else o

/-- `mkCompressFlags`. -/
def mkCompressFlags (produceVersion : Int) : List Int := if produceVersion < 7 then [1] else []

/-- The level a codec ends up with: the level of its first occurrence. -/
def levelOf (prefs : List Pref) (c : Int) : Int :=
  match prefs.find? (fun p => p.codec == c) with
  | some p => p.level
  | none => 0

/-- gzip: `level := gzip.DefaultCompression; if codec.level != 0 { if NewWriterLevel(nil, codec.level) ok { level = codec.level } }`;
`NewWriterLevel` accepts `HuffmanOnly (-2) ..= BestCompression (9)`. -/
def gzipLevel (l : Int) : Int := if l != 0 && (-2 ≤ l && l ≤ 9) then l else -1

/-- byte 8 (XFL) of the header compress/gzip writes: 2 for BestCompression, 4 for BestSpeed, else 0. -/
def gzipXfl (eff : Int) : Nat := if eff == 9 then 2 else if eff == 1 then 4 else 0

/-- The compressing side of the libraries: `enc codec level src = none` is a writer error. -/
abbrev Enc := Int → Int → Bytes → Option Bytes

/-- `Compress` on a built compressor: returned bytes and reported codec (`CodecError` = -1 with nil bytes). -/
def compress (enc : Enc) (prefs : List Pref) (options : List Int) (flags : List Int) (src : Bytes) : Option Bytes × Int :=
  let use := choose options (disableZstd flags)
  if use == 0 then (some src, 0)
  else match enc use (levelOf prefs use) src with
    | some out => (some out, use)
    | none => (none, -1)

/-! ### Bounded decompression: `decompressor.Decompress`, `xerialDecode` -/

/-- `errDecompressedTooLarge`, `errMalformedXerial`, any other error (library error, unknown codec). -/
inductive Err where
  | tooLarge | xerial | other
deriving DecidableEq, Repr

inductive Out (α : Type) where
  | ok (a : α)
  | err (e : Err)
  | panic
deriving DecidableEq, Repr

/-- The decompressing side of the libraries, as the Go code uses them.
* `stream c src`: the gzip (1) / lz4 (3) reader over `src` read to its end: the bytes it yields, whether it
  ended with a clean EOF (`clean`; a `Reset` error is no bytes and not clean), and whether a final error is handed
  over by the same `Read` call that returns the last bytes (`errWithLast`; only matters at exactly `max+1` bytes);
* `snapLen` = `s2.DecodedLen`, `snapDec` = `s2.Decode` (`none` = error);
* `zstd max src` = `DecodeAll` of a decoder created `WithDecoderMaxMemory(max)`. -/
structure Stream where
  bytes : Bytes
  clean : Bool
  errWithLast : Bool

structure Lib where
  stream : Int → Bytes → Stream
  snapLen : Bytes → Option Nat
  snapDec : Bytes → Option Bytes
  zstd : Nat → Bytes → Option Bytes

/-- `n, err := io.Copy(out, io.LimitReader(r, max+1))`; `err != nil → err`; `n > max → errDecompressedTooLarge`.
The limited reader stops after `max+1` bytes without looking at what follows, so an error of the underlying
reader behind that point is not seen - unless it arrives together with byte `max+1`. -/
def limitedCopy (max : Nat) (s : Stream) : Out Bytes :=
  if s.bytes.length ≥ max + 2 then .err .tooLarge
  else if s.bytes.length = max + 1 then (if !s.clean && s.errWithLast then .err .other else .err .tooLarge)
  else if !s.clean then .err .other
  else .ok s.bytes

/-- `s[lo:]` -/
def sliceFrom (s : Bytes) (lo : Int) : Option Bytes :=
  if 0 ≤ lo ∧ lo ≤ s.length then some (s.drop lo.toNat) else none

/-- `s[:hi]` -/
def sliceTo (s : Bytes) (hi : Int) : Option Bytes :=
  if 0 ≤ hi ∧ hi ≤ s.length then some (s.take hi.toNat) else none

/-- `binary.BigEndian.Uint32(s)` (panics when `len(s) < 4`). -/
def u32be : Bytes → Option Nat
  | a :: b :: c :: d :: _ => some (a.toNat * 16777216 + b.toNat * 65536 + c.toNat * 256 + d.toNat)
  | _ => none

/-- `int32(u)` for `u < 2^32`. -/
def toInt32 (u : Nat) : Int := if u ≥ 2147483648 then (u : Int) - 4294967296 else u

theorem sliceFrom_length {s t : Bytes} {lo : Int} (h : sliceFrom s lo = some t) :
    0 ≤ lo ∧ lo ≤ s.length ∧ t.length = s.length - lo.toNat := by
  unfold sliceFrom at h
  split at h
  · rename_i hc
    cases h
    refine ⟨hc.1, hc.2, ?_⟩
    simp
  · cases h

/-- The `for len(src) > 0` loop of `xerialDecode`. -/
def xerialLoop (lib : Lib) (max : Nat) (dst src : Bytes) : Out Bytes :=
  if _hs : src.length = 0 then .ok dst
  else if _h4 : src.length < 4 then .err .xerial
  else
    match u32be src with                                   -- binary.BigEndian.Uint32(src)
    | none => .panic
    | some u =>
      let size := toInt32 u                                -- int32(...)
      match _h1 : sliceFrom src 4 with                      -- src = src[4:]
      | none => .panic
      | some src1 =>
        if size < 0 ∨ (src1.length : Int) < size then .err .xerial
        else
          match sliceTo src1 size with                     -- src[:size]
          | none => .panic
          | some blk =>
            match lib.snapLen blk with
            | none => .err .other
            | some l =>
              if (l : Int) > (max : Int) - (dst.length : Int) then .err .tooLarge
              else
                match lib.snapDec blk with
                | none => .err .other
                | some chunk =>
                  match _h2 : sliceFrom src1 size with      -- src = src[size:]
                  | none => .panic
                  | some src2 => xerialLoop lib max (dst ++ chunk) src2   -- dst = append(dst, chunk...)
termination_by src.length
decreasing_by
  have a := sliceFrom_length _h1
  have b := sliceFrom_length _h2
  omega

/-- `xerialDecode(dst, src)`: `src = src[16:]`, then the loop. -/
def xerialDecode (lib : Lib) (max : Nat) (dst src : Bytes) : Out Bytes :=
  match sliceFrom src 16 with
  | none => .panic
  | some body => xerialLoop lib max dst body

def xerialPfx : Bytes := [130, 83, 78, 65, 80, 80, 89, 0]

/-- `bytes.HasPrefix` -/
def hasPrefix : Bytes → Bytes → Bool
  | _, [] => true
  | [], _ :: _ => false
  | a :: as, b :: bs => a == b && hasPrefix as bs

/-- `decompressor.Decompress` (without user pools). -/
def decompress (lib : Lib) (max : Nat) (codec : Int) (src : Bytes) : Out Bytes :=
  if codec == 0 then .ok src
  else if codec == 1 then limitedCopy max (lib.stream 1 src)
  else if codec == 2 then
    if src.length > 16 && hasPrefix src xerialPfx then xerialDecode lib max [] src
    else
      match lib.snapLen src with
      | none => .err .other
      | some l =>
        if l > max then .err .tooLarge
        else match lib.snapDec src with
          | none => .err .other
          | some d => .ok d
  else if codec == 3 then limitedCopy max (lib.stream 3 src)
  else if codec == 4 then
    match lib.zstd max src with
    | none => .err .other
    | some d => .ok d
  else .err .other

/-! ### Spec (from the property text; independent of the model) -/
namespace Spec

/-- A preference is usable unless it is zstd while zstd is disabled. -/
def usable (dis : Bool) (c : Int) : Bool := !(c == 4 && dis)

/-- "The first usable preference", no compression when there is none. -/
def firstUsable (prefs : List Int) (dis : Bool) : Int :=
  match prefs.find? (usable dis) with
  | some c => c
  | none => 0

/-- Selection clause on an observed choice. -/
def selectionOk (prefs : List Int) (dis : Bool) (used : Int) : Bool :=
  !(dis && used == 4) && used == firstUsable prefs dis

/-- Outcome classes of a decompression. -/
inductive Obs where
  | ok (len : Nat)
  | err
  | panic
  | hang
deriving DecidableEq, Repr

/-- "returns data or an error, never panics, and never returns more than the maximum decompressed size" -/
def boundedOk (max : Nat) : Obs → Bool
  | .ok len => len ≤ max
  | .err => true
  | .panic => false
  | .hang => false

/-- big-endian value of a byte string -/
def beNat (bs : Bytes) : Nat := bs.foldl (fun acc b => acc * 256 + b.toNat) 0

/-- Reference framing of xerial snappy: after the 16-byte header, blocks of a 4-byte big-endian length
(a non-negative int32) and that many bytes. `none` = malformed framing. -/
def frames (src : Bytes) : Option (List Bytes) :=
  if _h0 : src.length = 0 then some []
  else if _h4 : src.length < 4 then none
  else
    if beNat (src.take 4) ≥ 2147483648 ∨ (src.drop 4).length < beNat (src.take 4) then none
    else match frames ((src.drop 4).drop (beNat (src.take 4))) with
      | some bs => some ((src.drop 4).take (beNat (src.take 4)) :: bs)
      | none => none
termination_by src.length
decreasing_by simp only [List.length_drop]; omega

end Spec

/-! ### Reference decoders (independent implementations used by the driver on the real compressor's output)

Written from the format descriptions (snappy `format_description.txt`, LZ4 frame and block format), on
`Array UInt8`, with every read an explicit operation (`panic` when out of range). -/

inductive R (α : Type) where
  | ok (a : α)
  | err
  | panic
deriving Repr

abbrev Arr := Array UInt8

/-- `a[i]` -/
def rd (a : Arr) (i : Nat) : R Nat := if h : i < a.size then .ok a[i].toNat else .panic

/-- `a[lo:hi]` -/
def slice (a : Arr) (lo hi : Nat) : R Arr := if lo ≤ hi ∧ hi ≤ a.size then .ok (a.extract lo hi) else .panic

/-- little-endian number of `n` bytes at `i` -/
def rdLE (a : Arr) (i : Nat) : Nat → R Nat
  | 0 => .ok 0
  | n + 1 =>
    match rd a i with
    | .ok b => match rdLE a (i + 1) n with
      | .ok v => .ok (b + 256 * v)
      | .err => .err
      | .panic => .panic
    | .err => .err
    | .panic => .panic

/-- Overlapping back-reference copy: append `n` bytes, each the byte `off` positions before the end. -/
def copyBack : Nat → Nat → Arr → R Arr
  | 0, _, out => .ok out
  | n + 1, off, out =>
    if h : 0 < off ∧ off ≤ out.size then copyBack n off (out.push out[out.size - off]) else .panic

/-- Base-128 varint (at most 10 bytes): value and number of bytes. -/
def uvarintGo (a : Arr) : Nat → Nat → Nat → Nat → R (Nat × Nat)
  | 0, _, _, _ => .err
  | fuel + 1, i, shift, acc =>
    if i ≥ a.size then .err
    else match rd a i with
      | .ok b =>
        if b < 128 then .ok (acc + b * 2 ^ shift, i + 1)
        else uvarintGo a fuel (i + 1) (shift + 7) (acc + (b - 128) * 2 ^ shift)
      | .err => .err
      | .panic => .panic

/-- Elements of a raw snappy block from position `s`; `dLen` is the declared length. -/
def snapLoop (src : Arr) (dLen : Nat) : Nat → Nat → Arr → R Arr
  | 0, _, _ => .err
  | fuel + 1, s, out =>
    if s ≥ src.size then (if out.size = dLen then .ok out else .err)
    else
      match rd src s with
      | .err => .err
      | .panic => .panic
      | .ok tag =>
        if tag % 4 = 0 then
          -- literal: length-1 in the upper six bits, or in the next 1..4 bytes for 60..63
          let x := tag / 4
          let nb := if x < 60 then 0 else x - 59
          if s + 1 + nb > src.size then .err
          else match rdLE src (s + 1) nb with
            | .err => .err
            | .panic => .panic
            | .ok v =>
              let len := (if x < 60 then x else v) + 1
              let s' := s + 1 + nb
              if len > dLen - out.size ∨ len > src.size - s' then .err
              else match slice src s' (s' + len) with
                | .err => .err
                | .panic => .panic
                | .ok lit => snapLoop src dLen fuel (s' + len) (out ++ lit)
        else
          -- copy with 1-, 2- or 4-byte offset
          let nb := if tag % 4 = 1 then 1 else if tag % 4 = 2 then 2 else 4
          if s + 1 + nb > src.size then .err
          else match rdLE src (s + 1) nb with
            | .err => .err
            | .panic => .panic
            | .ok v =>
              let len := if tag % 4 = 1 then 4 + (tag / 4) % 8 else 1 + tag / 4
              let off := if tag % 4 = 1 then (tag / 32) * 256 + v else v
              if off = 0 ∨ off > out.size ∨ len > dLen - out.size then .err
              else match copyBack len off out with
                | .err => .err
                | .panic => .panic
                | .ok out' => snapLoop src dLen fuel (s + 1 + nb) out'

/-- Declared length of a raw snappy block. -/
def snappyLen (src : Arr) : R (Nat × Nat) :=
  match uvarintGo src 10 0 0 0 with
  | .ok (v, n) => if v > 4294967295 then .err else .ok (v, n)
  | .err => .err
  | .panic => .panic

/-- Reference decoder of a raw snappy block; refuses declared lengths above `limit` before allocating anything. -/
def snappyDecode (limit : Nat) (src : Arr) : R Arr :=
  match snappyLen src with
  | .err => .err
  | .panic => .panic
  | .ok (dLen, n) =>
    if dLen > limit then .err
    else snapLoop src dLen (src.size + 1) n (Array.emptyWithCapacity dLen)

/-! #### LZ4 (frame format 1.6.x, block format) -/

/-- Length continuation of the block format: add bytes while they are 255, and the first one that is not. -/
def lenExt (a : Arr) : Nat → Nat → Nat → R (Nat × Nat)
  | 0, _, _ => .err
  | fuel + 1, i, acc =>
    if i ≥ a.size then .err
    else match rd a i with
      | .ok b => if b < 255 then .ok (acc + b, i + 1) else lenExt a fuel (i + 1) (acc + 255)
      | .err => .err
      | .panic => .panic

/-- Sequences of one compressed block `blk` from position `s`. `cap` bounds `out.size`; a match may reach back
to `base` (start of the block's own output when blocks are independent). -/
def lz4Seqs (blk : Arr) (cap base : Nat) : Nat → Nat → Arr → R Arr
  | 0, _, _ => .err
  | fuel + 1, s, out =>
    if s ≥ blk.size then .err
    else match rd blk s with
      | .err => .err
      | .panic => .panic
      | .ok tok =>
        match (if tok / 16 = 15 then lenExt blk blk.size (s + 1) 15 else .ok (tok / 16, s + 1)) with
        | .err => .err
        | .panic => .panic
        | .ok (ll, s1) =>
          if s1 > blk.size ∨ ll > blk.size - s1 ∨ ll > cap - out.size then .err
          else match slice blk s1 (s1 + ll) with
            | .err => .err
            | .panic => .panic
            | .ok lit =>
              if s1 + ll = blk.size then .ok (out ++ lit)          -- the last sequence has literals only
              else if s1 + ll + 2 > blk.size then .err
              else match rdLE blk (s1 + ll) 2 with
                | .err => .err
                | .panic => .panic
                | .ok off =>
                  match (if tok % 16 = 15 then lenExt blk blk.size (s1 + ll + 2) 19 else .ok (tok % 16 + 4, s1 + ll + 2)) with
                  | .err => .err
                  | .panic => .panic
                  | .ok (ml, s3) =>
                    if off = 0 ∨ off > (out ++ lit).size - base ∨ ml > cap - (out ++ lit).size then .err
                    else match copyBack ml off (out ++ lit) with
                      | .err => .err
                      | .panic => .panic
                      | .ok out2 => lz4Seqs blk cap base fuel s3 out2

/-- Data blocks up to the EndMark. Returns the output and the position behind the EndMark.
`xxh` is the checksum function (xxHash-32, a parameter). -/
def lz4Blocks (xxh : Arr → Nat) (src : Arr) (limit blockMax : Nat) (indep bchk : Bool) : Nat → Nat → Arr → R (Arr × Nat)
  | 0, _, _ => .err
  | fuel + 1, p, out =>
    if p + 4 > src.size then .err
    else match rdLE src p 4 with
      | .err => .err
      | .panic => .panic
      | .ok w =>
        if w = 0 then .ok (out, p + 4)
        else
          let n := w % 2147483648
          if n > blockMax ∨ n > src.size - (p + 4) then .err
          else match slice src (p + 4) (p + 4 + n) with
            | .err => .err
            | .panic => .panic
            | .ok blk =>
              let r := p + 4 + n
              if bchk && r + 4 > src.size then .err
              else match (if bchk then rdLE src r 4 else .ok 0) with
                | .err => .err
                | .panic => .panic
                | .ok sum =>
                  if bchk && sum != xxh blk then .err
                  else
                    let next := if bchk then r + 4 else r
                    if w ≥ 2147483648 then                        -- stored (uncompressed) block
                      if n > limit - out.size then .err else lz4Blocks xxh src limit blockMax indep bchk fuel next (out ++ blk)
                    else match lz4Seqs blk (min limit (out.size + blockMax)) (if indep then out.size else 0) (blk.size + 1) 0 out with
                      | .err => .err
                      | .panic => .panic
                      | .ok out' => lz4Blocks xxh src limit blockMax indep bchk fuel next out'

/-- Reference decoder of one LZ4 frame filling `src` exactly; output never longer than `limit`. -/
def lz4Frame (xxh : Arr → Nat) (limit : Nat) (src : Arr) : R Arr :=
  if src.size < 7 then .err
  else match rdLE src 0 4, rd src 4, rd src 5 with
    | .ok magic, .ok flg, .ok bd =>
      if magic ≠ 407708164 then .err                               -- 0x184D2204
      else if flg / 64 ≠ 1 ∨ (flg / 2) % 2 ≠ 0 ∨ bd / 128 ≠ 0 ∨ bd % 16 ≠ 0 then .err
      else
        let indep := (flg / 32) % 2 = 1
        let bchk := (flg / 16) % 2 = 1
        let csize := (flg / 8) % 2 = 1
        let cchk := (flg / 4) % 2 = 1
        let dict := flg % 2 = 1
        let code := (bd / 16) % 8
        if code < 4 then .err
        else
          let blockMax := if code = 4 then 65536 else if code = 5 then 262144 else if code = 6 then 1048576 else 4194304
          let hlen := 2 + (if csize then 8 else 0) + (if dict then 4 else 0)
          if 4 + hlen + 1 > src.size then .err
          else match slice src 4 (4 + hlen), rd src (4 + hlen), (if csize then rdLE src 6 8 else .ok 0) with
            | .ok desc, .ok hc, .ok csz =>
              if hc ≠ (xxh desc / 256) % 256 then .err
              else match lz4Blocks xxh src limit blockMax indep bchk (src.size + 1) (4 + hlen + 1) (Array.emptyWithCapacity 0) with
                | .err => .err
                | .panic => .panic
                | .ok (out, p) =>
                  if csize && out.size != csz then .err
                  else if cchk then
                    if p + 4 ≠ src.size then .err
                    else match rdLE src p 4 with
                      | .ok sum => if sum = xxh out then .ok out else .err
                      | .err => .err
                      | .panic => .panic
                  else if p = src.size then .ok out else .err
            | .panic, _, _ => .panic
            | _, .panic, _ => .panic
            | _, _, .panic => .panic
            | _, _, _ => .err
    | .panic, _, _ => .panic
    | _, .panic, _ => .panic
    | _, _, .panic => .panic
    | _, _, _ => .err

end Model.C19
