import FranzVerif.Model.C29
/-! C32 — kfake behaves like a Kafka partition log.

Hand-written model of kfake's partition log and transaction coordinator as the code performs them
(one topic, one or two brokers without followers; segments are flattened into one batch list: the default
`segment.bytes` is never reached by the histories of the correspondence run).
-- models: pkg/kfake/data.go:Cluster.pushBatch
-- models: pkg/kfake/data.go:partData.recalculateLSO
-- models: pkg/kfake/data.go:Cluster.trimLeft
-- models: pkg/kfake/data.go:partData.trimAbortedTxns
-- models: pkg/kfake/data.go:partData.searchOffset
-- models: pkg/kfake/00_produce.go:Cluster.handleProduce
-- models: pkg/kfake/01_fetch.go:Cluster.handleFetch
-- models: pkg/kfake/01_fetch.go:fetchSessions.getOrCreate
-- models: pkg/kfake/01_fetch.go:fetchSession.updatePartition
-- models: pkg/kfake/01_fetch.go:fetchSession.updateAndFilterResponse
-- models: pkg/kfake/01_fetch.go:watchFetch.push
-- models: pkg/kfake/01_fetch.go:watchFetch.addBytes
-- models: pkg/kfake/cluster.go:Cluster.MoveTopicPartition
-- models: pkg/kfake/21_delete_records.go:Cluster.handleDeleteRecords
-- models: pkg/kfake/txns.go:pids.doInitProducerID
-- models: pkg/kfake/txns.go:pids.doAddPartitions
-- models: pkg/kfake/txns.go:pids.doEnd
-- models: pkg/kfake/txns.go:pids.get
-- models: pkg/kfake/txns.go:pids.updateTimer
-- models: pkg/kfake/txns.go:pids.create
-- models: pkg/kfake/txns.go:pidinfo.endTx
The producer-state window is C29's `push` (proved there to refine the "last five accepted batches" spec).
Core Lean only (linked into the driver). -/
namespace Model.C32
open Model.C29 (Win Resp push)

/-! ### The partition log -/

structure Batch where
  first : Int
  n : Int            -- NumRecords (= LastOffsetDelta + 1: the produce handler rejects anything else)
  pid : Int          -- producer (index of the history; -1 = none)
  epoch : Int
  seq : Int
  txn : Bool         -- transactional attribute bit
  ctl : Bool         -- control batch (written by endTx only)
  commit : Bool      -- control type
  nbytes : Int
deriving DecidableEq, Repr, Inhabited

structure Aborted where
  pid : Int
  first : Int
  last : Int
deriving DecidableEq, Repr

/-- `partData`: the fields the property is about. `unc` is `uncommittedPIDs` (a map: keys unique). -/
structure Part where
  batches : List Batch := []
  hwm : Int := 0
  lso : Int := 0
  logStart : Int := 0
  unc : List (Int × Int) := []
  aborted : List Aborted := []
deriving Repr

/-- `if existing, ok := m[pid]; !ok || off < existing { m[pid] = off }` -/
def uncSet (unc : List (Int × Int)) (pid off : Int) : List (Int × Int) :=
  match unc.lookup pid with
  | some ex => if off < ex then unc.map (fun e => if e.1 == pid then (pid, off) else e) else unc
  | none => unc ++ [(pid, off)]

/-- `pushBatch`: the batch gets `FirstOffset = highWatermark`; returns the new state (the assigned offset is the old `hwm`). -/
def pushBatch (pd : Part) (b : Batch) (inTx : Bool) : Part :=
  let unc' := if inTx then uncSet pd.unc b.pid pd.hwm else pd.unc
  { pd with batches := pd.batches ++ [{ b with first := pd.hwm }], hwm := pd.hwm + b.n, unc := unc',
            lso := if unc'.isEmpty then pd.lso + b.n else pd.lso }

/-- the loop of `recalculateLSO`: `lso := hwm; for off in m { if off < lso { lso = off } }` -/
def minUnc (hwm : Int) : List (Int × Int) → Int
  | [] => hwm
  | (_, o) :: r => if o < minUnc hwm r then o else minUnc hwm r

def recalcLSO (pd : Part) : Part :=
  { pd with lso := if pd.unc.isEmpty then pd.hwm else minUnc pd.hwm pd.unc }

/-- size of the control batch `endTx` builds (61 header bytes + an 11 byte record). -/
def ctlBytes : Int := 72

/-- the per-partition body of `endTx`. -/
def endTxPart (pd : Part) (pid epoch : Int) (commit : Bool) : Part :=
  let fu := pd.unc.lookup pid
  let pd1 := { pd with unc := pd.unc.filter (fun e => e.1 != pid) }
  let pd2 := pushBatch pd1 ⟨0, 1, pid, epoch, -1, true, true, commit, ctlBytes⟩ false
  let pd3 := match commit, fu with
    | false, some f => { pd2 with aborted := pd2.aborted ++ [⟨pid, f, pd1.hwm⟩] }
    | _, _ => pd2
  recalcLSO pd3

/-- `trimLeft` + `trimAbortedTxns` (the binary search of the latter is a `dropWhile`: the index is sorted by `last`). -/
def trimLeft (pd : Part) : Part :=
  { pd with batches := pd.batches.dropWhile (fun m => m.first + m.n - 1 < pd.logStart),
            aborted := pd.aborted.dropWhile (fun a => a.last < pd.logStart) }

/-- `handleDeleteRecords` for one partition: (state, error code, low watermark). -/
def deleteRecords (pd : Part) (off : Int) : Part × Int × Int :=
  let to := if off == -1 then pd.hwm else off
  if to < pd.logStart || to > pd.hwm then (pd, 1, 0)
  else (trimLeft { pd with logStart := to }, 0, to)

inductive Search where
  | outOfRange
  | atEnd
  | found (rest : List Batch)
deriving Repr

/-- `searchOffset`: `found rest` carries the batches from the one containing `o` on. -/
def searchOffset (pd : Part) (o : Int) : Search :=
  if o < pd.logStart || o > pd.hwm then .outOfRange
  else match pd.batches.getLast? with
    | none => if o == pd.logStart then .atEnd else .outOfRange
    | some l => if o ≥ l.first + l.n then .atEnd
                else .found (pd.batches.dropWhile (fun m => m.first + m.n ≤ o))

/-- the batch walk of `handleFetch` for one partition. Returns the batches added, and the running
request byte count / batch count / `full` flag (all three are shared by the partitions of a request). -/
def walk (rc : Bool) (lso maxBytes pmax : Int) : List Batch → (pbytes nbytes : Int) → (added : Nat) → List Batch × Int × Nat × Bool
  | [], _, nb, ad => ([], nb, ad, false)
  | m :: r, pb, nb, ad =>
    if rc && m.first ≥ lso then ([], nb, ad, false)
    else if nb + m.nbytes > maxBytes && ad > 0 then ([], nb + m.nbytes, ad, true)
    else if pb + m.nbytes > pmax && ad > 0 then ([], nb + m.nbytes, ad, false)
    else
      let res := walk rc lso maxBytes pmax r (pb + m.nbytes) (nb + m.nbytes) (ad + 1)
      (m :: res.1, res.2)

/-- the `AbortedTransactions` lookup for the batches `out` returned for fetch offset `o`. -/
def abortedFor (aborted : List Aborted) (o : Int) (out : List Batch) : List (Int × Int) :=
  match out.getLast? with
  | none => []
  | some l => ((aborted.dropWhile (fun e => e.last < o)).filter (fun e => e.first < l.first + l.n)).map (fun e => (e.pid, e.first))

/-! ### Spec-level notions (Kafka's log semantics and the consumer's rule), independent of kfake's bookkeeping -/

/-- The log itself decides a transactional data batch's fate: the next control batch of its producer. -/
inductive Status where
  | open_ | committed | aborted
deriving DecidableEq, Repr

def statusIn (rest : List Batch) (pid : Int) : Status :=
  match rest.find? (fun m => m.ctl && m.pid == pid) with
  | none => .open_
  | some m => if m.commit then .committed else .aborted

/-- The data a read_committed consumer must see among `bs` (followed in the log by `after`):
non-transactional data and data of committed transactions. -/
def committedData : List Batch → List Batch → List Batch
  | [], _ => []
  | m :: r, after =>
    if m.ctl then committedData r after
    else if !m.txn || statusIn (r ++ after) m.pid == .committed then m :: committedData r after
    else committedData r after

/-- Kafka's consumer rule (Fetcher / kgo `aborter`): walking the returned batches, a producer becomes
"aborted" once a batch reaches the first offset of one of its listed aborted transactions, stops being
so at its abort marker; control batches and transactional batches of aborted producers are dropped. -/
def clientFilter : List Batch → (pending : List (Int × Int)) → (active : List Int) → List Batch
  | [], _, _ => []
  | m :: r, pend, act =>
    let last := m.first + m.n - 1
    let act1 := act ++ ((pend.filter (fun e => e.2 ≤ last)).map (·.1))
    let pend1 := pend.filter (fun e => !(e.2 ≤ last))
    if m.ctl then clientFilter r pend1 (if m.commit then act1 else act1.filter (· != m.pid))
    else if m.txn && act1.contains m.pid then clientFilter r pend1 act1
    else m :: clientFilter r pend1 act1

def clientView (ab : List (Int × Int)) (bs : List Batch) : List Batch := clientFilter bs ab []

/-! ### Coordinator, sessions, the whole broker -/

structure Prod where
  txnl : Bool := false
  epoch : Int := 0
  timeout : Int := 0
  inTx : Bool := false
  txStart : Int := 0
  txParts : List Nat := []
  lastWasCommit : Bool := false
  wins : List (Nat × Win) := []
  txBytes : List (Nat × Int) := []      -- txPartBytes: bytes of this transaction's batches per partition
deriving Repr

structure SPart where
  p : Nat
  off : Int
  pmax : Int
  lastHwm : Int := -1
  lastLs : Int := -1
deriving Repr, DecidableEq

structure Session where
  id : Int
  epoch : Int
  parts : List SPart
  broker : Nat := 0          -- sessions are kept per broker
deriving Repr

structure State where
  now : Int := 0
  parts : List Part := []
  prods : List (Int × Prod) := []
  sessions : List Session := []
  nextSid : Int := 1
  leaders : List Nat := []    -- leader of every partition
  nb : Nat := 1               -- brokers
  via : Nat := 0              -- the broker the history's client is talking to (partition-level requests)
deriving Repr

def init (np : Nat) (nb : Nat := 1) : State := { parts := List.replicate np {}, leaders := List.replicate np 0, nb := nb }

/-- is the broker the client talks to the leader of partition `p`? -/
def isLeader (s : State) (p : Nat) : Bool := s.leaders.getD p 0 == s.via

def getProd (s : State) (k : Int) : Option Prod := s.prods.lookup k
def setProd (s : State) (k : Int) (p : Prod) : State :=
  if (s.prods.lookup k).isSome then { s with prods := s.prods.map (fun e => if e.1 == k then (k, p) else e) }
  else { s with prods := s.prods ++ [(k, p)] }
def setPart (s : State) (p : Nat) (pd : Part) : State := { s with parts := s.parts.set p pd }

def getWin (pr : Prod) (p : Nat) : Win := (pr.wins.lookup p).getD {}
def setWin (pr : Prod) (p : Nat) (w : Win) : Prod :=
  if (pr.wins.lookup p).isSome then { pr with wins := pr.wins.map (fun e => if e.1 == p then (p, w) else e) }
  else { pr with wins := pr.wins ++ [(p, w)] }

/-- `maybeStart` -/
def maybeStart (now : Int) (pr : Prod) : Prod :=
  if pr.inTx then pr else { pr with inTx := true, txStart := now }

/-- `endTx` + `resetTx`: a marker on every registered partition that (still) exists. -/
def endTx (s : State) (k : Int) (pr : Prod) (commit : Bool) : State :=
  let parts := pr.txParts.foldl (fun (ps : List Part) p =>
    match ps[p]? with
    | some pd => ps.set p (endTxPart pd k pr.epoch commit)
    | none => ps) s.parts
  setProd { s with parts := parts } k
    { pr with txParts := [], inTx := false, lastWasCommit := commit, txBytes := [] }

/-- `bumpEpoch` below the exhaustion threshold (32766; the histories stay far below, see the assumptions). -/
def bump (pr : Prod) : Prod := { pr with epoch := pr.epoch + 1 }

/-- the inline part of `updateTimer`: abort every expired transaction, earliest expiry first. -/
def expireOne (s : State) : Option State :=
  let cands := s.prods.filter (fun e => e.2.inTx && e.2.txStart + e.2.timeout ≤ s.now)
  match cands with
  | [] => none
  | c :: cs =>
    let m := cs.foldl (fun (a : Int × Prod) e => if e.2.txStart + e.2.timeout < a.2.txStart + a.2.timeout then e else a) c
    if m.2.epoch ≥ 32766 then
      -- epoch exhaustion: `bumpEpoch` allocates a new producer (fresh random id, unknown to the history's
      -- clients) and forgets the old id; the timed out transaction is ended on the old producer state
      let s1 := endTx s m.1 m.2 false
      some { s1 with prods := s1.prods.filter (fun e => e.1 != m.1) }
    else some (endTx s m.1 (bump m.2) false)

def expire : Nat → State → State
  | 0, s => s
  | f + 1, s => match expireOne s with
    | none => s
    | some s' => expire f s'

def expireAll (s : State) : State := expire (s.prods.length + 1) s

/-- `doInitProducerID` with a transactional id (first or repeated init; `pid`/`epoch` = -1). -/
def initx (s : State) (k timeout : Int) : State × Int × Int :=
  if timeout ≤ 0 || timeout > 900000 then (s, 50, -1)
  else match getProd s k with
    | some pr =>
      -- `pids.create` for a known transactional id: abort what the previous incarnation left open, then bump
      let s1 := if pr.inTx then endTx s k pr false else s
      let pr' := bump ((getProd s1 k).getD pr)
      (setProd s1 k pr', 0, pr'.epoch)
    | none => (setProd s k { txnl := true, timeout := timeout }, 0, 0)

/-- `doInitProducerID` KIP-360 path (request carries producer id and epoch). -/
def initr (s : State) (k epoch : Int) : State × Int × Int :=
  if epoch < 0 then initx s k 1000
  else match getProd s k with
    | none => (s, 49, -1)
    | some pr =>
      if epoch > pr.epoch then (s, 90, -1)
      else
        let s1 := if pr.inTx then endTx s k pr false else s
        let pr1 := (getProd s1 k).getD pr
        let pr2 := bump pr1
        (setProd s1 k pr2, 0, pr2.epoch)

/-- `doAddPartitions` (v3): per requested partition an error code. -/
def addParts (s : State) (k epoch : Int) (ps : List Nat) : State × List (Nat × Int) :=
  let np := s.parts.length
  if ps.any (fun p => p ≥ np) then (s, ps.map (fun p => (p, if p ≥ np then 3 else 55)))
  else match getProd s k with
    | none => (s, ps.map (fun p => (p, 49)))
    | some pr =>
      if pr.epoch != epoch then (s, ps.map (fun p => (p, 90)))
      else
        let pr1 := { pr with txParts := ps.foldl (fun acc p => if acc.contains p then acc else acc ++ [p]) pr.txParts }
        (setProd s k (maybeStart s.now pr1), ps.map (fun p => (p, 0)))

/-- `doEnd`: (state, error code, producer epoch field of the response). `v5` = request version ≥ 5. -/
def endTxn (s : State) (v5 : Bool) (k epoch : Int) (commit : Bool) : State × Int × Int :=
  match getProd s k with
  | none => (s, 49, -1)
  | some pr =>
    if pr.epoch != epoch then
      if v5 && pr.epoch == epoch + 1 && !pr.inTx then
        if commit != pr.lastWasCommit then (s, 48, -1) else (s, 0, pr.epoch)
      else (s, 90, -1)
    else if !pr.inTx then
      if v5 && !commit then
        let pr' := { bump pr with lastWasCommit := false }
        (setProd s k pr', 0, pr'.epoch)
      else if commit == pr.lastWasCommit then (s, 0, -1)
      else (s, 48, -1)
    else
      let s1 := endTx s k pr commit
      if v5 then
        let pr1 := bump ((getProd s1 k).getD pr)
        (setProd s1 k pr1, 0, pr1.epoch)
      else (s1, 0, -1)

/-- `txPartBytes` bookkeeping of the produce handler. -/
def addTxBytes (pr : Prod) (p : Nat) (nb : Int) : Prod :=
  if (pr.txBytes.lookup p).isSome then { pr with txBytes := pr.txBytes.map (fun e => if e.1 == p then (p, e.2 + nb) else e) }
  else { pr with txBytes := pr.txBytes ++ [(p, nb)] }

/-- `pids.get` (with the implicit partition addition of produce v12+): the producer state whose window is used, if any. -/
def pidsGet (s : State) (v12 : Bool) (k : Int) (p : Nat) (tx : Bool) : State × Option Prod :=
  match getProd s k with
  | none => (s, none)
  | some pr =>
    if pr.txnl && !pr.txParts.contains p then
      if tx && v12 then
        let pr1 := maybeStart s.now { pr with txParts := pr.txParts ++ [p] }
        (setProd s k pr1, some pr1)
      else (s, none)
    else (s, some pr)

/-- `getOrCreateNonTx` as `handleProduce` calls it. -/
def getOrCreate (s : State) (k epoch : Int) (tx : Bool) (found : Option Prod) : State × Option Prod :=
  if !tx && found.isNone && epoch != -1 then
    match getProd s k with
    | some pr => (s, some pr)
    | none => (setProd s k { epoch := epoch }, some { epoch := epoch })
  else (s, found)

/-- `handleProduce` for one batch: (state, error code, BaseOffset, LogStartOffset) as in the response.
`v12` = request version ≥ 12 (implicit partition addition). `k < 0` = no producer id. -/
def produce (s : State) (v12 : Bool) (k epoch seq n nbytes : Int) (p : Nat) (tx : Bool) : State × Int × Int × Int :=
  match s.parts[p]? with
  | none => (s, 3, 0, -1)
  | some pd =>
    if !isLeader s p then (s, 6, 0, -1)
    else if tx && k < 0 then (s, 49, 0, -1)
    else if k < 0 then (setPart s p (pushBatch pd ⟨0, n, k, epoch, seq, tx, false, false, nbytes⟩ tx), 0, pd.hwm, pd.logStart)
    else
      let r1 := pidsGet s v12 k p tx
      let r2 := getOrCreate r1.1 k epoch tx r1.2
      match r2.2 with
      | none => (r2.1, 48, 0, -1)     -- transactional without a window, or epoch ≠ -1 without producer state
      | some pr =>
        if pr.inTx && !tx then (r2.1, 48, 0, -1)
        else if epoch < pr.epoch then (r2.1, 47, 0, -1)
        else
          let pr1 := if epoch > pr.epoch then { pr with epoch := epoch } else pr
          let wr := push Model.C29.seqMod (getWin pr1 p) epoch seq n pd.hwm
          let s3 := setProd r2.1 k (setWin pr1 p wr.1)
          match wr.2 with
          | .reject => (s3, 45, 0, -1)
          | .dup off => (s3, 0, off, -1)
          | .accept =>
            let s4 := if tx then setProd r2.1 k (addTxBytes (setWin pr1 p wr.1) p nbytes) else s3
            (setPart s4 p (pushBatch pd ⟨0, n, k, epoch, seq, tx, false, false, nbytes⟩ tx), 0, pd.hwm, pd.logStart)

/-! ### Fetch -/

structure FReq where
  p : Nat
  off : Int
  pmax : Int
deriving Repr, DecidableEq

structure PResp where
  p : Nat
  code : Int
  hwm : Int
  lso : Int
  logStart : Int
  batches : List Batch
  aborted : List (Int × Int)
deriving Repr, DecidableEq

/-- the response loop of `handleFetch` over `toFetch`. `unk` = error code for an unknown partition. -/
def fetchLoop (parts : List Part) (rc : Bool) (maxBytes unk : Int) (lead : Nat → Bool) : List FReq → (nbytes : Int) → (added : Nat) → List PResp
  | [], _, _ => []
  | fp :: rest, nb, ad =>
    match parts[fp.p]? with
    | none => ⟨fp.p, unk, 0, -1, -1, [], []⟩ :: fetchLoop parts rc maxBytes unk lead rest nb ad
    | some pd =>
      if !lead fp.p then ⟨fp.p, 6, 0, -1, -1, [], []⟩ :: fetchLoop parts rc maxBytes unk lead rest nb ad else
      match searchOffset pd fp.off with
      | .atEnd => ⟨fp.p, 0, pd.hwm, pd.lso, pd.logStart, [], []⟩ :: fetchLoop parts rc maxBytes unk lead rest nb ad
      | .outOfRange => ⟨fp.p, 1, pd.hwm, pd.lso, pd.logStart, [], []⟩ :: fetchLoop parts rc maxBytes unk lead rest nb ad
      | .found bs =>
        let w := walk rc pd.lso maxBytes fp.pmax bs 0 nb ad
        let ab := if rc then abortedFor pd.aborted fp.off w.1 else []
        let r : PResp := ⟨fp.p, 0, pd.hwm, pd.lso, pd.logStart, w.1, ab⟩
        if w.2.2.2 then [r] else r :: fetchLoop parts rc maxBytes unk lead rest w.2.1 w.2.2.1

/-- `updatePartition` -/
def sessUpdate (ps : List SPart) (r : FReq) : List SPart :=
  if ps.any (fun e => e.p == r.p) then ps.map (fun e => if e.p == r.p then { e with off := r.off, pmax := r.pmax } else e)
  else ps ++ [{ p := r.p, off := r.off, pmax := r.pmax }]

/-- is a partition of the response kept by `updateAndFilterResponse`? -/
def sessInclude (filter : Bool) (ps : List SPart) (r : PResp) : Bool :=
  match ps.find? (fun e => e.p == r.p) with
  | none => true
  | some sp => !filter || !r.batches.isEmpty || r.code != 0 || r.hwm != sp.lastHwm || r.logStart != sp.lastLs

/-- the baseline recorded by `updateAndFilterResponse`. -/
def sessRecord (ps : List SPart) (resp : List PResp) : List SPart :=
  ps.map (fun sp => match resp.find? (fun r => r.p == sp.p) with
    | none => sp
    | some r => if r.code != 0 then { sp with lastHwm := -1, lastLs := -1 } else { sp with lastHwm := r.hwm, lastLs := r.logStart })

structure FetchOp where
  v13 : Bool
  rc : Bool
  maxBytes : Int
  sid : Int
  sepoch : Int
  req : List FReq
  forget : List Nat
  minBytes : Int := 0
  maxWait : Int := 0
deriving Repr

/-- The session partitions that are not named in the request are walked in Go map order: `ord` is that
order (any list; the entries that name implicit partitions are used first, the rest follows in
session order), a parameter of the step. -/
def implicitOrder (ord : List Nat) (impl : List SPart) : List SPart :=
  let chosen := ord.filterMap (fun p => impl.find? (fun e => e.p == p))
  let chosen := chosen.foldl (fun acc e => if acc.any (fun x => x.p == e.p) then acc else acc ++ [e]) []
  chosen ++ impl.filter (fun e => !chosen.any (fun x => x.p == e.p))

/-- `handleFetch` once it answers (no waiting, or woken): (state, top-level error, session id, partitions of the response). -/
def fetch (s : State) (f : FetchOp) (ord : List Nat) : State × Int × Int × List PResp :=
  let unk : Int := if f.v13 then 100 else 3
  let without (id : Int) := s.sessions.filter (fun x => !(x.id == id && x.broker == s.via))
  let lead := isLeader s
  if f.sepoch == -1 then
    let s1 := if f.sid > 0 then { s with sessions := without f.sid } else s
    (s1, 0, 0, fetchLoop s.parts f.rc f.maxBytes unk lead f.req 0 0)
  else if f.sepoch == 0 then
    let sess0 := if f.sid > 0 then without f.sid else s.sessions
    let ps := (f.req.foldl sessUpdate ([] : List SPart))
    let resp := fetchLoop s.parts f.rc f.maxBytes unk lead f.req 0 0
    let se : Session := ⟨s.nextSid, 1, sessRecord ps resp, s.via⟩
    ({ s with sessions := sess0 ++ [se], nextSid := s.nextSid + 1 }, 0, se.id, resp)
  else
    match s.sessions.find? (fun x => x.id == f.sid && x.broker == s.via) with
    | none => (s, 70, 0, [])
    | some se =>
      if f.sepoch != se.epoch then (s, 71, 0, [])
      else
        let ps0 := se.parts.filter (fun e => !f.forget.contains e.p)
        let ps := f.req.foldl sessUpdate ps0
        let impl := ps.filter (fun e => !f.req.any (fun r => r.p == e.p))
        let toFetch := f.req ++ (implicitOrder ord impl).map (fun e => ⟨e.p, e.off, e.pmax⟩)
        let resp := fetchLoop s.parts f.rc f.maxBytes unk lead toFetch 0 0
        let kept := resp.filter (sessInclude true ps)
        let se' : Session := ⟨se.id, se.epoch + 1, sessRecord ps resp, se.broker⟩
        ({ s with sessions := s.sessions.map (fun x => if x.id == se.id && x.broker == se.broker then se' else x) }, 0, se.id, kept)

/-! ### Waiting fetches (`MinBytes > 0`) -/

/-- the byte count of the first pass of `handleFetch` over one partition: (bytes, returnEarly). -/
def firstPassWalk (rc : Bool) (lso pmax : Int) : List Batch → Int → Int × Bool
  | [], acc => (acc, false)
  | m :: r, acc =>
    if rc && m.first ≥ lso then (acc, false)
    else if acc + m.nbytes ≥ pmax then (acc + m.nbytes, true)
    else firstPassWalk rc lso pmax r (acc + m.nbytes)

/-- the first pass: (returnEarly, bytes available, per-partition remaining bytes `needp`, watched partitions). -/
def firstPass (parts : List Part) (rc : Bool) (reqs : List FReq) (lead : Nat → Bool) : Bool × Int × List (Nat × Int) × List Nat :=
  reqs.foldl (fun (acc : Bool × Int × List (Nat × Int) × List Nat) fp =>
    match parts[fp.p]? with
    | none => acc
    | some pd =>
      if !lead fp.p then (true, acc.2) else
      let acc : Bool × Int × List (Nat × Int) × List Nat := (acc.1, acc.2.1, acc.2.2.1, acc.2.2.2 ++ [fp.p])
      match searchOffset pd fp.off with
      | .atEnd => acc
      | .outOfRange => (true, acc.2)
      | .found bs =>
        let w := firstPassWalk rc pd.lso fp.pmax bs 0
        (acc.1 || w.2, acc.2.1 + w.1, acc.2.2.1 ++ [(fp.p, fp.pmax - w.1)], acc.2.2.2)) (false, 0, [], [])

/-- `watchFetch`: bytes still needed in total and per partition, and the partitions it is registered on. -/
structure Watch where
  need : Int
  needp : List (Nat × Int)
  watched : List Nat
deriving Repr

/-- what the end of producer `pr`'s transaction adds to a waiting fetch on partition `p`: the marker
(`pushBatch` → `w.push`) and, for read_committed, the transaction's bytes there (`endTx` → `w.addBytes`). -/
def wakeBytes (rc : Bool) (pr : Prod) (p : Nat) : Int :=
  ctlBytes + (if rc then (match pr.txBytes.lookup p with | some b => if b > 0 then b else 0 | none => 0) else 0)

/-- While a fetch waits only transaction timeouts happen: the next one before the deadline, whether it wakes the fetch. -/
def waitStep (s : State) (rc : Bool) (w : Watch) (deadline : Int) : Option (State × Watch × Bool) :=
  let cands := s.prods.filter (fun e => e.2.inTx && e.2.txStart + e.2.timeout ≤ deadline)
  match cands with
  | [] => none
  | c :: cs =>
    let m := cs.foldl (fun (a : Int × Prod) e => if e.2.txStart + e.2.timeout < a.2.txStart + a.2.timeout then e else a) c
    let touched := m.2.txParts.filter (fun p => decide (p < s.parts.length) && w.watched.contains p)
    let need' := touched.foldl (fun a p => a - wakeBytes rc m.2 p) w.need
    let needp' := w.needp.map (fun e => if touched.contains e.1 then (e.1, e.2 - wakeBytes rc m.2 e.1) else e)
    let fired := decide (need' ≤ 0) || needp'.any (fun e => touched.contains e.1 && decide (e.2 ≤ 0))
    let s1 := { s with now := m.2.txStart + m.2.timeout }
    match expireOne s1 with
    | none => none
    | some s2 => some (s2, ⟨need', needp', w.watched⟩, fired)

def waitLoop : Nat → State → Bool → Watch → Int → State
  | 0, s, _, _, deadline => { s with now := deadline }
  | f + 1, s, rc, w, deadline =>
    match waitStep s rc w deadline with
    | none => { s with now := deadline }
    | some (s2, w2, fired) => if fired then s2 else waitLoop f s2 rc w2 deadline

/-- `handleFetch` including the wait: (state, elapsed ms, top-level error, session id, partitions). When it waits, the
handler has already run its session part once (a new session is created, and a second one when it is woken). -/
def fetchW (s : State) (f : FetchOp) (ord : List Nat) : State × Int × Int × Int × List PResp :=
  let toFetch : Option (List FReq) :=
    if f.sepoch == -1 || f.sepoch == 0 then some f.req
    else match s.sessions.find? (fun x => x.id == f.sid && x.broker == s.via) with
      | none => none
      | some se =>
        if f.sepoch != se.epoch then none
        else
          let ps := f.req.foldl sessUpdate (se.parts.filter (fun e => !f.forget.contains e.p))
          some (f.req ++ (ps.filter (fun e => !f.req.any (fun r => r.p == e.p))).map (fun e => ⟨e.p, e.off, e.pmax⟩))
  match toFetch with
  | none => let r := fetch s f ord; (r.1, 0, r.2)
  | some tf =>
    let fp := firstPass s.parts f.rc tf (isLeader s)
    if fp.1 || fp.2.1 ≥ f.minBytes || f.maxWait ≤ 0 then let r := fetch s f ord; (r.1, 0, r.2)
    else
      let without (id : Int) := s.sessions.filter (fun x => !(x.id == id && x.broker == s.via))
      let s1 : State :=
        if f.sepoch == 0 then
          { s with sessions := (if f.sid > 0 then without f.sid else s.sessions) ++ [⟨s.nextSid, 1, f.req.foldl sessUpdate [], s.via⟩],
                   nextSid := s.nextSid + 1 }
        else if f.sepoch == -1 && f.sid > 0 then { s with sessions := without f.sid }
        else s
      let s2 := waitLoop (s1.prods.length + 1) s1 f.rc ⟨f.minBytes - fp.2.1, fp.2.2.1, fp.2.2.2⟩ (s.now + f.maxWait)
      let r := fetch s2 f ord
      (r.1, s2.now - s.now, r.2)

/-! ### Operations of a history -/

inductive Op where
  | initx (k timeout : Int)
  | initr (k epoch : Int)
  | addp (k epoch : Int) (ps : List Nat)
  | prod (v12 : Bool) (k epoch seq n nbytes : Int) (p : Nat) (tx : Bool)
  | endt (v5 : Bool) (k epoch : Int) (commit : Bool)
  | del (p : Nat) (off : Int)
  | sleep (ms : Int)
  | fetch (f : FetchOp) (ord : List Nat)
  | move (p b : Nat)      -- `MoveTopicPartition`
  | via (b : Nat)         -- the client turns to broker `b`
deriving Repr

/-- what an operation answers (compared field by field with the implementation). -/
inductive Out where
  | codeVal (code v : Int)
  | addp (r : List (Nat × Int))
  | prod (code base ls : Int)
  | ok
  | fetch (elapsed err sid : Int) (ps : List PResp)
deriving Repr

/-- one request, then the `updateTimer` call that follows every request. -/
def step (s : State) : Op → State × Out
  | .initx k t => let r := initx s k t; (expireAll r.1, .codeVal r.2.1 r.2.2)
  | .initr k e => let r := initr s k e; (expireAll r.1, .codeVal r.2.1 r.2.2)
  | .addp k e ps => let r := addParts s k e ps; (expireAll r.1, .addp r.2)
  | .prod v k e q n nb p tx => let r := produce s v k e q n nb p tx; (expireAll r.1, .prod r.2.1 r.2.2.1 r.2.2.2)
  | .endt v k e c => let r := endTxn s v k e c; (expireAll r.1, .codeVal r.2.1 r.2.2)
  | .del p off =>
    match s.parts[p]? with
    | none => (s, .codeVal 3 0)
    | some pd =>
      if !isLeader s p then (expireAll s, .codeVal 6 0) else
      let r := deleteRecords pd off; (expireAll (setPart s p r.1), .codeVal r.2.1 r.2.2)
  | .move p b => (if p < s.parts.length && b < s.nb then { s with leaders := s.leaders.set p b } else s, .ok)
  | .via b => (if b < s.nb then { s with via := b } else s, .ok)
  | .sleep ms => (expireAll { s with now := s.now + ms }, .ok)
  | .fetch f ord => let r := fetchW s f ord; (expireAll r.1, .fetch r.2.1 r.2.2.1 r.2.2.2.1 r.2.2.2.2)

def run (s : State) : List Op → State
  | [] => s
  | o :: os => run (step s o).1 os

end Model.C32
