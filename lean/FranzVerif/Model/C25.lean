/-! C25 / C27 — balancers: executable models and executable Specs (core Lean only; linked into the drivers).

-- models: pkg/kgo/group_balancer.go:rangeBalancer.Balance
-- models: pkg/kgo/group_balancer.go:roundRobinBalancer.Balance
-- models: pkg/kgo/group_balancer.go:BalancePlan.AdjustCooperative
-- models: pkg/kgo/group_balancer.go:joinMemberLess
-- models: pkg/kfake/groups.go:group.computeTargetAssignment
-- models: pkg/kfake/groups.go:group.assignUniform
-- models: pkg/kfake/groups.go:group.assignRange

A plan is a multiset of triples `(member id, topic, partition)`: Go's `map[member]map[topic][]int32`
flattened (a topic key with an empty partition list and a missing key behave identically in every
function modelled here).  Anything whose Go order comes from map iteration is order-free here and the
drivers compare sorted forms. The sticky engine itself (internal/sticky) is NOT modelled: its output
is an input of `adjust` and is judged by the Specs below on every generated case. -/
namespace Model.C25

abbrev TP := String × Nat
abbrev Triple := String × String × Nat

def Triple.tp (x : Triple) : TP := (x.2.1, x.2.2)

/-- A member after `NewConsumerBalancer` parsed its `ConsumerMemberMetadata`. -/
structure Member where
  id : String
  inst : Option String := none
  rack : Option String := none          -- meta.Rack (nil = none)
  gen : Int := -1                        -- meta.Generation
  topics : List String := []             -- meta.Topics (duplicates possible)
  owned : List (String × List Nat) := [] -- meta.OwnedPartitions entries (a topic may occur twice)
deriving Repr, DecidableEq, Inhabited

/-- partition count of a topic: Go `topics[topic]` on a `map[string]int32` (0 when missing). -/
def cnt (topics : List (String × Nat)) (t : String) : Nat := (topics.lookup t).getD 0

/-- stable insertion sort (structural recursion, so that closed terms evaluate in the kernel); every use
below sorts by a total order on distinct keys, where it agrees with Go's `sort.Slice` / `slices.SortFunc`. -/
def insertBy (le : α → α → Bool) (x : α) : List α → List α
  | [] => [x]
  | y :: ys => if le x y then x :: y :: ys else y :: insertBy le x ys

def sortBy (le : α → α → Bool) : List α → List α
  | [] => []
  | x :: xs => insertBy le x (sortBy le xs)

/-- order-preserving removal of duplicates (first occurrence kept); `seen` = what was already emitted. -/
def dedupAux [BEq α] (seen : List α) : List α → List α
  | [] => []
  | x :: xs => if seen.contains x then dedupAux seen xs else x :: dedupAux (x :: seen) xs

def dedup [BEq α] (l : List α) : List α := dedupAux [] l

def dedupMembersAux (seen : List String) : List Member → List Member
  | [] => []
  | m :: ms => if seen.contains m.id then dedupMembersAux seen ms else m :: dedupMembersAux (m.id :: seen) ms

/-- `NewConsumerBalancer`: a member id listed twice keeps its first occurrence. The drivers apply this
before every balancer model, as the Go constructor does. -/
def dedupMembers (ms : List Member) : List Member := dedupMembersAux [] ms

/-- `b.topics` / the keys of `topics2PotentialConsumers`: every topic some member lists. -/
def subTopics (ms : List Member) : List String := dedup (ms.flatMap (·.topics))

/-! ## range (with racks) -/

/-- `joinMemberLess`. -/
def memberLess (l r : Member) : Bool :=
  match l.inst, r.inst with
  | some a, some b => a < b
  | some _, none => true
  | none, some _ => false
  | none, none => l.id < r.id

/-- `sortJoinMemberPtrs` (Go's sort is not stable; with pairwise comparable members the result is the same). -/
def sortMembers (ms : List Member) : List Member := sortBy (fun a b => !memberLess b a) ms

/-- `topics2PotentialConsumers[t]` after sorting: one entry per occurrence of `t` in a member's topics. -/
def consumersOf (ms : List Member) (t : String) : List Member :=
  sortMembers (ms.flatMap fun m => (m.topics.filter (· == t)).map fun _ => m)

def quotaOf (div rem ci : Nat) : Nat := if ci < rem then div + 1 else div

/-- Phase 1 for one consumer: rack-matching, still unassigned partitions, lowest first, at most its quota `q`.
`racks` is `partitionRacks[topic]` (`[]` when absent); a nil or empty member rack takes nothing. -/
def phase1Take (numP : Nat) (racks : List String) (q : Nat) (c : Member) (assigned : List Nat) : List Nat :=
  match c.rack with
  | some r =>
    if r == "" then []
    else ((List.range numP).filter fun p => !assigned.contains p && racks[p]? == some r).take q
  | none => []

/-- Phase 1 for the consumers from index `ci` on. -/
def phase1 (numP : Nat) (racks : List String) (div rem : Nat) : List Member → Nat → List Nat → List (List Nat)
  | [], _, _ => []
  | c :: cs, ci, assigned =>
    let taken := phase1Take numP racks (quotaOf div rem ci) c assigned
    taken :: phase1 numP racks div rem cs (ci + 1) (assigned ++ taken)

/-- Phase 2 hands the remaining partitions out in order, `quota` at a time. -/
def splitBy : List Nat → List α → List (List α)
  | [], _ => []
  | q :: qs, l => l.take q :: splitBy qs (l.drop q)

def indexFrom : Nat → List α → List Nat
  | _, [] => []
  | i, _ :: xs => i :: indexFrom (i + 1) xs

/-- triples of consumer `cs[i]` for the partition lists `ls[i]`. -/
def tag (t : String) : List Member → List (List Nat) → List Triple
  | c :: cs, l :: ls => l.map (fun p => (c.id, t, p)) ++ tag t cs ls
  | _, _ => []

/-- One topic of `rangeBalancer.Balance`. -/
def rangeTopic (ms : List Member) (topics : List (String × Nat)) (racks : List (String × List String)) (t : String) : List Triple :=
  let cs := consumersOf ms t
  let numP := cnt topics t
  let n := cs.length
  let div := numP / n
  let rem := numP % n
  let tr := (racks.lookup t).getD []
  let taken := phase1 numP tr div rem cs 0 []
  let unassigned := (List.range numP).filter fun p => !taken.flatten.contains p
  let quotas := (indexFrom 0 cs).zipWith (fun ci tk => quotaOf div rem ci - tk.length) taken
  tag t cs taken ++ tag t cs (splitBy quotas unassigned)

/-- `rangeBalancer.Balance` (members as left by `NewConsumerBalancer`). -/
def balanceRange (ms : List Member) (topics : List (String × Nat)) (racks : List (String × List String)) : List Triple :=
  (subTopics ms).flatMap (rangeTopic ms topics racks)

/-! ## round robin -/

def tpLe (a b : TP) : Bool := a.1 < b.1 || (a.1 == b.1 && a.2 ≤ b.2)

/-- `allParts`: every partition of every topic some member lists, sorted by topic then partition. -/
def allParts (ms : List Member) (topics : List (String × Nat)) : List TP :=
  sortBy tpLe ((subTopics ms).flatMap fun t => (List.range (cnt topics t)).map fun p => (t, p))

/-- the circular walk from `start`: the first member index (in walk order) listing `t`; `none` when nobody
does (the Go loop `for { … }` would never exit). -/
def rrFind (ms : List Member) (t : String) (start : Nat) : Option Nat :=
  ((List.range ms.length).map fun k => (start + k) % ms.length).find? fun i =>
    match ms[i]? with
    | some m => m.topics.contains t
    | none => false

/-- the assignment loop; `none` = the loop does not terminate. -/
def rrGo (ms : List Member) : Nat → List TP → Option (List Triple)
  | _, [] => some []
  | idx, (t, p) :: rest =>
    match rrFind ms t idx with
    | none => none
    | some i =>
      match ms[i]?, rrGo ms ((i + 1) % ms.length) rest with
      | some m, some out => some ((m.id, t, p) :: out)
      | _, _ => none

/-- `roundRobinBalancer.Balance`. -/
def balanceRR (ms : List Member) (topics : List (String × Nat)) : Option (List Triple) :=
  rrGo ms 0 (allParts ms topics)

/-! ## AdjustCooperative -/

def claims (m : Member) (tp : TP) : Bool := m.owned.any fun e => e.1 == tp.1 && e.2.contains tp.2

def maxStep (acc : Option Int) (m : Member) : Option Int :=
  match acc with
  | none => some m.gen
  | some g => if m.gen > g then some m.gen else some g

/-- `maxClaim[topic][partition]`: the highest generation among the members listing the partition as owned. -/
def maxClaim (ms : List Member) (tp : TP) : Option Int :=
  (ms.filter (claims · tp)).foldl maxStep none

def geMax (ms : List Member) (m : Member) (tp : TP) : Bool :=
  match maxClaim ms tp with
  | some g => m.gen ≥ g
  | none => true

/-- Is `(t,p)` recorded in `allAdded` for member `m`? Per owned entry of topic `t` the code computes
`planned[t] − {owned in that entry at a generation ≥ the max claim}`; a planned topic with no owned entry
is added entirely. -/
def isAdded (ms : List Member) (plan : List Triple) (m : Member) (tp : TP) : Bool :=
  plan.contains (m.id, tp.1, tp.2) &&
    (let es := m.owned.filter (·.1 == tp.1)
     es.isEmpty || es.any fun e => !(e.2.contains tp.2 && geMax ms m tp))

/-- `allAdded[t][p]`: a Go map, so the last member (in `EachMember` order) that records it wins. -/
def addedTo (ms : List Member) (plan : List Triple) (tp : TP) : Option Member :=
  (ms.filter fun m => isAdded ms plan m tp).getLast?

/-- the keys of `allRevoked`: owned by some member and not planned for it (any generation). -/
def revokedList (ms : List Member) (plan : List Triple) : List TP :=
  dedup (ms.flatMap fun m => m.owned.flatMap fun e =>
    (e.2.filter fun p => !plan.contains (m.id, e.1, p)).map fun p => (e.1, p))

/-- `(*BalancePlan).AdjustCooperative` on the deduplicated members. -/
def adjust (ms : List Member) (plan : List Triple) : List Triple :=
  (revokedList ms plan).foldl (fun acc tp =>
    match addedTo ms plan tp with
    | some a => acc.erase (a.id, tp.1, tp.2)
    | none => acc) plan

/-! ## kfake server-side assignors (through `computeTargetAssignment`) -/

structure KMember where
  id : String
  inst : Option String := none
  away : Bool := false                     -- memberEpoch == -2
  subs : List String := []
  target : List (String × List Nat) := []   -- prior targetAssignment (topic id ↦ partitions, keys unique)
deriving Repr, DecidableEq, Inhabited

def kSubscribed (ms : List KMember) : List String := dedup (ms.flatMap (·.subs))

/-- `allTPs`: partitions of subscribed topics present in the snapshot, sorted. -/
def kAllTPs (ms : List KMember) (snap : List (String × Nat)) : List TP :=
  sortBy tpLe (((kSubscribed ms).filter fun t => (snap.lookup t).isSome).flatMap fun t =>
      (List.range (cnt snap t)).map fun p => (t, p))

def kLessRange (a b : KMember) : Bool :=
  match a.inst, b.inst with
  | some x, some y => x < y
  | some _, none => true
  | none, some _ => false
  | none, none => a.id < b.id

def kSortIDs (assignor : String) (ms : List KMember) : List KMember :=
  if assignor == "range" then sortBy (fun a b => !kLessRange b a) ms
  else sortBy (fun a b => !(b.id < a.id)) ms

def tagK (t : String) : List KMember → List (List Nat) → List Triple
  | c :: cs, l :: ls => l.map (fun p => (c.id, t, p)) ++ tagK t cs ls
  | _, _ => []

/-- one topic of `assignRange`: contiguous blocks, the first `numP % numM` subscribers get one more. -/
def kRangeTopic (ms : List KMember) (snap : List (String × Nat)) (t : String) : List Triple :=
  let subs := ms.filter fun m => m.subs.contains t
  let numP := cnt snap t
  let numM := subs.length
  let quotas := (indexFrom 0 subs).map fun i => quotaOf (numP / numM) (numP % numM) i
  tagK t subs (splitBy quotas (List.range numP))

def kTopicsSorted (ms : List KMember) (snap : List (String × Nat)) : List String :=
  sortBy (fun a b => !(b < a)) ((kSubscribed ms).filter fun t => (snap.lookup t).isSome)

/-- `assignRange` on sorted active members. -/
def kAssignRange (ms : List KMember) (snap : List (String × Nat)) : List Triple :=
  (kTopicsSorted ms snap).flatMap (kRangeTopic ms snap)

/-- the prior target entries of one member that are still valid (member subscribes, partition exists), per
topic id — before the "already kept by another member" test of step 1. Used to classify inputs
(`disjointPriors`); the assignor itself uses `keepMembers` below. -/
def kKept (snap : List (String × Nat)) (m : KMember) : List (String × List Nat) :=
  m.target.filterMap fun e =>
    let k := e.2.filter fun p => (snap.lookup e.1).isSome && p < cnt snap e.1 && m.subs.contains e.1
    if k.isEmpty then none else some (e.1, k)

def flatTPs (l : List (String × List Nat)) : List TP := l.flatMap fun e => e.2.map fun p => (e.1, p)

def kCount (l : List (String × List Nat)) : Nat := (l.map (·.2.length)).sum

/-- step 1 for one prior target entry `(t, parts)`: a partition is kept when it is still valid (`ok`) and
`assigned[(t,p)]` is not yet set (`seen`); keeping it sets `assigned`. Returns (kept, new `assigned`). -/
def keepParts (ok : Nat → Bool) (t : String) : List TP → List Nat → List Nat × List TP
  | seen, [] => ([], seen)
  | seen, p :: ps =>
    if ok p && !seen.contains (t, p) then
      let r := keepParts ok t ((t, p) :: seen) ps
      (p :: r.1, r.2)
    else keepParts ok t seen ps

/-- step 1 for one member: its prior target entries in turn (an entry with nothing kept is deleted). -/
def keepEntries (snap : List (String × Nat)) (m : KMember) : List TP → List (String × List Nat) → List (String × List Nat) × List TP
  | seen, [] => ([], seen)
  | seen, e :: es =>
    let r := keepParts (fun p => (snap.lookup e.1).isSome && p < cnt snap e.1 && m.subs.contains e.1) e.1 seen e.2
    let r2 := keepEntries snap m r.2 es
    (if r.1.isEmpty then r2.1 else (e.1, r.1) :: r2.1, r2.2)

/-- step 1 over the members in `memberIDs` order: what each member keeps; a partition kept by an earlier
member is not kept again. -/
def keepMembers (snap : List (String × Nat)) : List TP → List KMember → List (List (String × List Nat))
  | _, [] => []
  | seen, m :: ms => (keepEntries snap m seen m.target).1 :: keepMembers snap (keepEntries snap m seen m.target).2 ms

/-- step 2 shedding for one member: topic ids ascending, partitions removed from the tail.
Returns (what stays, what is shed). -/
def kShed : List (String × List Nat) → Nat → List (String × List Nat) × List TP
  | [], _ => ([], [])
  | e :: es, excess =>
    if excess = 0 then (e :: es, [])
    else
      let remove := min excess e.2.length
      let keep := e.2.take (e.2.length - remove)
      let shed := (e.2.drop (e.2.length - remove)).map fun p => (e.1, p)
      let r := kShed es (excess - remove)
      (if keep.isEmpty then r.1 else (e.1, keep) :: r.1, shed ++ r.2)

/-- step 4: the first member (in member order) with the fewest partitions among the subscribers. -/
def kBest (ms : List KMember) (counts : List Nat) (t : String) : Option Nat :=
  let cands := (indexFrom 0 ms).filter fun i =>
    match ms[i]? with
    | some m => m.subs.contains t
    | none => false
  cands.foldl (fun best i => match best with
    | none => some i
    | some b => if counts.getD i 0 < counts.getD b 0 then some i else some b) none

def kDistribute (ms : List KMember) : List Nat → List TP → List Triple
  | _, [] => []
  | counts, (t, p) :: rest =>
    match kBest ms counts t with
    | none => kDistribute ms counts rest
    | some i =>
      match ms[i]? with
      | some m => (m.id, t, p) :: kDistribute ms (counts.set i (counts.getD i 0 + 1)) rest
      | none => kDistribute ms counts rest

structure KUniform where
  keptAll : List TP      -- every still-valid prior claim (`assigned[k] = true`)
  shedAll : List TP      -- every claim shed in step 2 (`delete(assigned, k)`)
  stay : List Triple     -- the targets after step 2
  fresh : List Triple    -- step 4

/-- steps 1 and 2 for every member: (member, kept, (what stays, what is shed)). `allowedOf i` is the number of
partitions member `i` may keep. -/
def kPerMember (ms : List KMember) (kept : List (List (String × List Nat))) (allowedOf : Nat → Nat) :
    List (KMember × List (String × List Nat) × List (String × List Nat) × List TP) :=
  ((indexFrom 0 ms).zip (ms.zip kept)).map fun im =>
    (im.2.1, im.2.2, kShed (sortBy (fun a b => !(b.1 < a.1)) im.2.2) (kCount im.2.2 - allowedOf im.1))

/-- steps 3 and 4 from the per-member results. -/
def kFinish (ms : List KMember) (allTPs : List TP)
    (per : List (KMember × List (String × List Nat) × List (String × List Nat) × List TP)) : KUniform :=
  let keptAll := per.flatMap fun x => flatTPs x.2.1
  let shedAll := per.flatMap fun x => x.2.2.2
  let unassigned := allTPs.filter fun tp => !(keptAll.contains tp && !shedAll.contains tp)
  { keptAll := keptAll, shedAll := shedAll,
    stay := per.flatMap fun x => (flatTPs x.2.2.1).map fun tp => (x.1.id, tp.1, tp.2),
    fresh := kDistribute ms (per.map fun x => kCount x.2.2.1) unassigned }

/-- `assignUniform` on sorted active members. -/
def kAssignUniformParts (ms : List KMember) (snap : List (String × Nat)) : KUniform :=
  let allTPs := kAllTPs ms snap
  let kept := keepMembers snap [] ms
  let counts := kept.map kCount
  let minCount := allTPs.length / ms.length
  let extra := allTPs.length % ms.length
  -- sorted by count descending, member id ascending
  let order := sortBy (fun a b =>
    a.2.2 > b.2.2 || (a.2.2 == b.2.2 && !(b.2.1.id < a.2.1.id))) ((indexFrom 0 ms).zip (ms.zip counts))
  let allowedOf := fun (i : Nat) =>
    match (indexFrom 0 order).zip order |>.find? (fun x => x.2.1 == i) with
    | some x => if x.1 < extra then minCount + 1 else minCount
    | none => minCount
  kFinish ms allTPs (kPerMember ms kept allowedOf)

def kAssignUniform (ms : List KMember) (snap : List (String × Nat)) : List Triple :=
  let r := kAssignUniformParts ms snap
  r.stay ++ r.fresh

/-- `computeTargetAssignment`: the new targets of the active members (away members keep theirs and are
not part of the result). With no active member nothing is computed. -/
def kCompute (assignor : String) (ms0 : List KMember) (snap : List (String × Nat)) : List Triple :=
  let ms := kSortIDs assignor (ms0.filter (!·.away))
  if ms.isEmpty then []
  else if assignor == "range" then kAssignRange ms snap
  else kAssignUniform ms snap

/-- no partition is listed twice among the still-valid prior claims of the active members. -/
def disjointPriors (ms0 : List KMember) (snap : List (String × Nat)) : Bool :=
  let ms := ms0.filter (!·.away)
  let l := ms.flatMap fun m => flatTPs (kKept snap m)
  l.all fun tp => l.count tp == 1

/-! ## Specs (written from the property text, independent of the models above) -/

/-- C25: every partition of every topic some member subscribes to is assigned to exactly one member, that
member subscribes to the topic, and nothing else is assigned.  `subs` = member id ↦ subscribed topics,
`n t` = number of partitions of `t`. -/
def validPlan (subs : List (String × List String)) (n : String → Nat) (plan : List Triple) : Bool :=
  plan.all (fun x => subs.any (fun s => s.1 == x.1 && s.2.contains x.2.1) && x.2.2 < n x.2.1)
  && (subs.flatMap (·.2)).all fun t =>
      ((plan.filter fun x => x.2.1 == t).map (·.2.2)).isPerm (List.range (n t))

def subsOf (ms : List Member) : List (String × List String) := ms.map fun m => (m.id, m.topics)
def kSubsOf (ms : List KMember) : List (String × List String) := (ms.filter (!·.away)).map fun m => (m.id, m.subs)

/-- the highest generation at which any member claims `tp` (Spec-side, independent of `maxClaim`). -/
def specMaxGen (ms : List Member) (tp : TP) : Option Int :=
  ((ms.filter (claims · tp)).map (·.gen)).max?

/-- `m` owns `tp` with a current claim: it lists it as owned and no member lists it at a higher generation. -/
def currentOwner (ms : List Member) (m : Member) (tp : TP) : Bool :=
  claims m tp && (ms.filter (claims · tp)).all fun o => o.gen ≤ m.gen

/-- C25, cooperative variant: as `validPlan`, but a partition may be assigned to nobody when a member that
currently owns it (current claim) is not assigned it in this plan, i.e. it is moving away from that member. -/
def validCoop (ms : List Member) (n : String → Nat) (plan : List Triple) : Bool :=
  plan.all (fun x => ms.any (fun m => m.id == x.1 && m.topics.contains x.2.1) && x.2.2 < n x.2.1)
  && (ms.flatMap (·.topics)).all fun t =>
      (List.range (n t)).all fun p =>
        let c := (plan.filter fun x => x.2.1 == t && x.2.2 == p).length
        c == 1 || (c == 0 && ms.any fun m => currentOwner ms m (t, p) && !plan.contains (m.id, t, p))

/-- C27 safety: a member is assigned a partition that another member owns with a current claim only if it
is itself a current owner of it (nothing is *handed* to a new owner while a current owner still holds it). -/
def safeHandoff (ms : List Member) (plan : List Triple) : Bool :=
  plan.all fun x =>
    ms.all fun o =>
      !(o.id != x.1 && currentOwner ms o (x.2.1, x.2.2)) ||
        ms.any fun m => m.id == x.1 && currentOwner ms m (x.2.1, x.2.2)

/-! ## C27: one cooperative rebalance round -/

/-- group a triple list into `OwnedPartitions` entries of one member (one entry per topic, topics in
first-occurrence order). -/
def ownedOf (plan : List Triple) (id : String) : List (String × List Nat) :=
  let mine := plan.filter (·.1 == id)
  (dedup (mine.map (·.2.1))).map fun t => (t, (mine.filter (·.2.1 == t)).map (·.2.2))

/-- After a round every member owns exactly what the adjusted plan gave it (it revokes the rest), and
rejoins at the new generation `g`. -/
def nextMembers (ms : List Member) (adjusted : List Triple) (g : Int) : List Member :=
  ms.map fun m => { m with gen := g, owned := ownedOf adjusted m.id }

/-- one rebalance round with `sticky` as the (unmodelled) plan function: (plan, adjusted plan, next members). -/
def round (sticky : List Member → List Triple) (ms : List Member) (g : Int) : List Triple × List Triple × List Member :=
  let p := sticky ms
  let a := adjust ms p
  (p, a, nextMembers ms a g)

/-- C27 convergence as judged on two recorded rounds: round 2 withholds nothing (`a2` = `p2` as multisets),
its plan is valid, and nobody loses anything it owned after round 1. -/
def settled (ms1 : List Member) (n : String → Nat) (a1 p2 a2 : List Triple) : Bool :=
  a2.isPerm p2 && validPlan (subsOf ms1) n p2 && a1.all fun x => p2.contains x

end Model.C25
