/-! C12 — share-group acknowledgements, pure half.

Hand-written model of the pure pieces of `pkg/kgo/consumer_share.go`, transcribed from the code as it is:
-- models: pkg/kgo/consumer_share.go:buildAckRanges
-- models: pkg/kgo/consumer_share.go:coalesceAppendRange
-- models: pkg/kgo/consumer_share.go:filterStaleEntries
-- models: pkg/kgo/consumer_share.go:shareAckState.tryAck

Conventions: offsets, epochs, ack types are `Int` (the code's int64/int32/int8; no arithmetic here can
overflow except `lastOffset+1` at 2^63-1, which is outside Kafka's offset domain); a `*source` is an
opaque identity token (`Int`); a `*shareAckState` in `pendingAcks` is the plain value
(offset, status read by `status.Load()` at build time, slab.ackSource, slab.sessionEpoch).
Core Lean only (linked into the driver). -/
namespace Model.C12

/-- One element of `cursor.pendingAcks` as `buildAckRanges` / `filterStaleEntries` read it. -/
structure Entry where
  offset : Int
  status : Int
  source : Int
  epoch : Int
deriving DecidableEq, Repr, Inhabited

/-- `shareAckRange`. -/
structure Range where
  first : Int
  last : Int
  source : Int
  epoch : Int
  ty : Int
deriving DecidableEq, Repr, Inhabited

/-! ### coalesceAppendRange

The Go slice `out` is kept reversed (`acc.head` is `out[n-1]`), which is what the function looks at. -/

/-- `coalesceAppendRange(out, r)` on the reversed slice. -/
def coalesceRev (acc : List Range) (r : Range) : List Range :=
  match acc with
  | last :: rest =>
    if last.ty = r.ty ∧ last.source = r.source ∧ last.epoch = r.epoch ∧ last.last + 1 = r.first then
      { last with last := r.last } :: rest
    else r :: acc
  | [] => [r]

/-- `coalesceAppendRange` on the slice in Go order. -/
def coalesceAppendRange (out : List Range) (r : Range) : List Range :=
  (coalesceRev out.reverse r).reverse

/-! ### buildAckRanges -/

/-- The wire range of one user entry. -/
def single (e : Entry) : Range := ⟨e.offset, e.offset, e.source, e.epoch, e.status⟩

/-- `for len(gaps) > 0 && gaps[0].firstOffset < off { ranges = coalesceAppendRange(ranges, gaps[0]); gaps = gaps[1:] }`:
new reversed ranges and remaining gaps. -/
def takeGapsBelow : List Range → Int → List Range → List Range × List Range
  | [], _, acc => (acc, [])
  | g :: gs, off, acc => if g.first < off then takeGapsBelow gs off (coalesceRev acc g) else (acc, g :: gs)

/-- The loop over the sorted user entries: state `(lastOffset, ranges reversed, remaining sorted gaps, hasRenew)`.
`t == 0` is skipped without touching `lastOffset`; an entry at `lastOffset` is a duplicate; the gap ranges
that start below an emitted entry are emitted before it (repair 5958f14). -/
def entryLoop : List Entry → Int → List Range → List Range → Bool → List Range × List Range × Bool
  | [], _, acc, gaps, hr => (acc, gaps, hr)
  | e :: es, lastOff, acc, gaps, hr =>
    if e.status = 0 then entryLoop es lastOff acc gaps hr
    else if e.offset = lastOff then entryLoop es lastOff acc gaps hr
    else
      let r := takeGapsBelow gaps e.offset acc
      entryLoop es e.offset (coalesceRev r.1 (single e)) r.2 (hr || e.status == 4)

/-- `slices.SortFunc(entries, cmp offset)`; Go's pdqsort is an insertion sort (stable) up to 12 elements and
unstable above: the model sorts stably, the driver does not compare outputs where instability could show. -/
def sortEntries (es : List Entry) : List Entry := es.mergeSort (fun a b => decide (a.offset ≤ b.offset))

/-- `slices.SortFunc(gaps, cmp firstOffset)`. -/
def sortGaps (gs : List Range) : List Range := gs.mergeSort (fun a b => decide (a.first ≤ b.first))

/-- The gap dedupe loop over the sorted gaps (repair 4fd6241): `kept[len(kept)-1]` is the head of the list here; a
gap that starts at or below the end of the last kept gap extends it (`if g.lastOffset > last.lastOffset`) and is
dropped, any other gap becomes the last kept one. -/
def mergeGaps : List Range → List Range
  | [] => []
  | [g] => [g]
  | g :: g' :: gs =>
    if g'.first ≤ g.last then mergeGaps ({ g with last := if g'.last > g.last then g'.last else g.last } :: gs)
    else g :: mergeGaps (g' :: gs)
termination_by l => l.length

/-- `buildAckRanges(entries, gaps)`: the user-entry ranges with the sorted, merged gap ranges merged in by offset, the
remaining gap ranges last, each coalesced onto the last range so far. Result in Go order, and `hasRenew`. -/
def buildAckRanges (es : List Entry) (gs : List Range) : List Range × Bool :=
  let r := entryLoop (sortEntries es) (-1) [] (mergeGaps (sortGaps gs)) false
  ((r.2.1.foldl coalesceRev r.1).reverse, r.2.2)

/-! ### filterStaleEntries (one drain) -/

inductive DropErr where
  | epoch   -- kerr.InvalidShareSessionEpoch
  | state   -- kerr.InvalidRecordState
deriving DecidableEq, Repr

/-- The entry loop of one drain: kept entries in order, deliverable count, pre-filtered count, `dropErr`
(the first drop decides the error). -/
def filterEntries (self epoch : Int) : List Entry → List Entry × Nat × Nat × Option DropErr
  | [] => ([], 0, 0, none)
  | e :: es =>
    let r := filterEntries self epoch es
    if e.source = self ∧ e.epoch > epoch then (r.1, r.2.1, r.2.2.1 + 1, some .epoch)
    else if e.source ≠ self then (r.1, r.2.1, r.2.2.1 + 1, some .state)
    else (e :: r.1, r.2.1 + 1, r.2.2.1, r.2.2.2)

/-- The gap loop of one drain. -/
def filterGaps (self epoch : Int) : List Range → List Range
  | [] => []
  | g :: gs =>
    if g.source = self ∧ g.epoch > epoch then filterGaps self epoch gs
    else if g.source ≠ self then filterGaps self epoch gs
    else g :: filterGaps self epoch gs

/-! ### tryAck — per-record ack state

Atomic actions are exactly the shared-memory operations of `tryAck`: one `CompareAndSwap` on the
strict/renew path; one `Load` and one `CompareAndSwap` per iteration of the terminal loop. Any number
of callers (`spawn`), any interleaving (`step i`), plus the environment's renew reset
`status.CompareAndSwap(AckRenew, 0)` that `shareAck` performs when a renew was answered. -/

inductive PC where
  | start                 -- before the first shared-memory operation (and after a failed loop CAS)
  | loaded (cur : Int)    -- terminal loop: `cur` was loaded and passed `cur == 0 || cur == AckRenew`
  | done (ok : Bool)      -- returned `ok`
deriving DecidableEq, Repr

structure Thread where
  status : Int    -- the AckStatus argument (1 accept, 2 release, 3 reject, 4 renew)
  strict : Bool   -- strictZero
  pc : PC := .start
deriving DecidableEq, Repr

structure TSt where
  status : Int := 0          -- shareAckState.status
  threads : List Thread := []
deriving Repr

inductive Act where
  | spawn (status : Int) (strict : Bool)   -- a new caller of tryAck(status, strict)
  | step (i : Nat)                         -- thread i performs its next shared-memory operation
  | reset                                  -- shareAck: status.CompareAndSwap(AckRenew, 0)
deriving Repr

def validStatus (s : Int) : Bool := s == 1 || s == 2 || s == 3 || s == 4
def isTerminal (s : Int) : Bool := s == 1 || s == 2 || s == 3

/-- One shared-memory operation of a thread: new shared status and new pc. `none`: the thread has returned. -/
def threadStep (shared : Int) (t : Thread) : Option (Int × PC) :=
  match t.pc with
  | .start =>
    if t.strict || t.status == 4 then
      -- return st.status.CompareAndSwap(0, int32(status))
      if shared = 0 then some (t.status, .done true) else some (shared, .done false)
    else
      -- cur := st.status.Load(); if cur != 0 && cur != int32(AckRenew) { return false }
      if shared ≠ 0 ∧ shared ≠ 4 then some (shared, .done false) else some (shared, .loaded shared)
  | .loaded cur =>
    -- if st.status.CompareAndSwap(cur, int32(status)) { return true }  (else: next iteration)
    if shared = cur then some (t.status, .done true) else some (shared, .start)
  | .done _ => none

/-- The transition system. `none` = action not enabled. Callers only pass valid statuses
(`Record.Ack` / `MarkAcks` reject anything else; internal callers pass constants). -/
def tstep (s : TSt) : Act → Option TSt
  | .spawn st strict => if validStatus st then some { s with threads := s.threads ++ [⟨st, strict, .start⟩] } else none
  | .reset => some { s with status := if s.status = 4 then 0 else s.status }
  | .step i =>
    match s.threads[i]? with
    | none => none
    | some t =>
      match threadStep s.status t with
      | none => none
      | some (sh, pc) => some { status := sh, threads := s.threads.set i { t with pc := pc } }

/-- States reachable from a fresh record by any list of actions. -/
inductive Reachable : TSt → Prop where
  | init : Reachable {}
  | step {s s' : TSt} (a : Act) : Reachable s → tstep s a = some s' → Reachable s'

/-- A thread that returned `true` for a terminal status. -/
def isTermWinner (t : Thread) : Bool := t.pc == .done true && isTerminal t.status

def termWinners (s : TSt) : Nat := s.threads.countP isTermWinner

/-- `tryAck` as one atomic call (what a caller running without interference observes):
new status and result. -/
def tryAckAtomic (cur status : Int) (strict : Bool) : Int × Bool :=
  if strict || status == 4 then
    if cur = 0 then (status, true) else (cur, false)
  else if cur ≠ 0 ∧ cur ≠ 4 then (cur, false)
  else (status, true)

/-- Run a list of actions (`none` as soon as one is not enabled). -/
def runActs : TSt → List Act → Option TSt
  | s, [] => some s
  | s, a :: as => match tstep s a with
    | none => none
    | some s' => runActs s' as

/-- `(status argument, result)` of every call that has returned. -/
def returnedOf (l : List Thread) : List (Int × Bool) :=
  l.filterMap (fun t => match t.pc with | .done ok => some (t.status, ok) | _ => none)

def returned (s : TSt) : List (Int × Bool) := returnedOf s.threads

end Model.C12
