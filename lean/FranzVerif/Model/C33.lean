/-! C33 — model of kfake's persistence (pkg/kfake/persist.go, persist_fs.go) under the property's crash model.

-- models: pkg/kfake/persist.go:writeEntry
-- models: pkg/kfake/persist.go:readEntries
-- models: pkg/kfake/persist.go:decodeIndexEntry
-- models: pkg/kfake/persist.go:decodeBatchRaw
-- models: pkg/kfake/persist.go:Cluster.loadSegmentBatches
-- models: pkg/kfake/persist.go:Cluster.loadPartition
-- models: pkg/kfake/persist.go:snapshotMatchesSegments
-- models: pkg/kfake/persist.go:Cluster.loadPartitionFromSnapshot
-- models: pkg/kfake/persist.go:Cluster.loadPartitionFullReplay
-- models: pkg/kfake/persist.go:Cluster.persistBatchToSegment
-- models: pkg/kfake/persist.go:writeJSONFile
-- models: pkg/kfake/persist.go:replayGroupsLog
-- models: pkg/kfake/persist.go:Cluster.loadFromDisk
-- models: pkg/kfake/persist.go:Cluster.loadGroupsLog
-- models: pkg/kfake/persist.go:Cluster.loadPIDsLog
-- models: pkg/kfake/persist.go:truncateLogFile
-- models: pkg/kfake/persist.go:Cluster.loadSessionState

Parts
 1. file system `path ↦ (synced bytes, unsynced tail)`, operations, crash;
 2. `writeEntry` / `readEntries` framing (CRC a parameter);
 3. segment (.dat, raw RecordBatches) + index (.idx, 15-byte entries) replay with the k ↔ k pairing;
 4. partition recovery (snapshot path / full replay), groups.log replay, start-up;
 5. record-level abstraction of the append protocols (multi-generation histories) used by the theorems.
JSON is not modelled: the meaning of a JSON payload is an annotation supplied with the write (see the harness). -/
namespace Model.C33

abbrev Bytes := List UInt8

/-! ## 1. File system -/

structure FileSt where
  synced : Bytes := []
  tail : Bytes := []
deriving Repr, DecidableEq, Inhabited

def FileSt.all (f : FileSt) : Bytes := f.synced ++ f.tail

/-- `Sync`: everything written so far becomes durable. -/
def FileSt.sync (f : FileSt) : FileSt := ⟨f.all, []⟩
/-- append-only `Write`. -/
def FileSt.write (f : FileSt) (bs : Bytes) : FileSt := ⟨f.synced, f.tail ++ bs⟩
/-- `Truncate(n)` (durable when it returns). -/
def FileSt.truncate (f : FileSt) (n : Nat) : FileSt :=
  if n ≤ f.synced.length then ⟨f.synced.take n, []⟩ else ⟨f.synced, f.tail.take (n - f.synced.length)⟩
/-- A crash keeps the synced bytes and the first `n` bytes of the unsynced tail. -/
def FileSt.crash (f : FileSt) (n : Nat) : FileSt := ⟨f.synced ++ f.tail.take n, []⟩

abbrev FS := List (String × FileSt)

def FS.get (fs : FS) (p : String) : Option FileSt :=
  match fs with
  | [] => none
  | (q, f) :: r => if q = p then some f else FS.get r p

def FS.erase (fs : FS) (p : String) : FS :=
  match fs with
  | [] => []
  | (q, f) :: r => if q = p then FS.erase r p else (q, f) :: FS.erase r p

def FS.set (fs : FS) (p : String) (f : FileSt) : FS := (p, f) :: FS.erase fs p

inductive Op where
  | create (p : String)            -- OpenFile O_CREATE on a missing path, or O_TRUNC on an existing one
  | write (p : String) (bs : Bytes)
  | sync (p : String)
  | rename (a b : String)
  | remove (p : String)
  | removeAll (p : String)
  | truncate (p : String) (n : Nat)
  | mkdir (p : String)
  | mark                           -- request issued / acknowledged / annotation: not an fs operation
deriving Repr, Inhabited

def isUnder (dir p : String) : Bool := p == dir || p.startsWith (dir ++ "/")

def FS.apply (fs : FS) : Op → FS
  | .create p => fs.set p {}
  | .write p bs => match fs.get p with | some f => fs.set p (f.write bs) | none => fs
  | .sync p => match fs.get p with | some f => fs.set p f.sync | none => fs
  | .rename a b => match fs.get a with | some f => (fs.erase a).set b f | none => fs
  | .remove p => fs.erase p
  | .removeAll p => fs.filter (fun x => !isUnder p x.1)
  | .truncate p n => match fs.get p with | some f => fs.set p (f.truncate n) | none => fs
  | .mkdir _ => fs
  | .mark => fs

def FS.run (fs : FS) (ops : List Op) : FS := ops.foldl FS.apply fs

/-- A crash: every file keeps its synced bytes plus `keep path file` bytes of its unsynced tail. -/
def FS.crash (fs : FS) (keep : String → FileSt → Nat) : FS :=
  fs.map fun (p, f) => (p, f.crash (keep p f))

/-- The crash points of the property: any prefix of the operation sequence, then any loss of unsynced tails. -/
def crashImage (base : FS) (ops : List Op) (k : Nat) (keep : String → FileSt → Nat) : FS :=
  (base.run (ops.take k)).crash keep

/-- file-local view of the append protocol (`Write` then `Sync` per record under SyncWrites). -/
inductive FOp where
  | write (bs : Bytes)
  | sync
deriving Repr

def FileSt.step (f : FileSt) : FOp → FileSt
  | .write bs => f.write bs
  | .sync => f.sync

def appendHist (encs : List Bytes) : List FOp := encs.flatMap fun b => [.write b, .sync]

/-- `writeJSONFile`: temp file, write, fsync, rename. -/
def writeJSONOps (path : String) (data : Bytes) : List Op :=
  [.create (path ++ ".tmp"), .write (path ++ ".tmp") data, .sync (path ++ ".tmp"), .rename (path ++ ".tmp") path]

/-! ## 2. Append-log framing: `writeEntry` / `readEntries` -/

def le16 (n : Nat) : Bytes := [UInt8.ofNat (n % 256), UInt8.ofNat (n / 256 % 256)]
def le32 (n : Nat) : Bytes :=
  [UInt8.ofNat (n % 256), UInt8.ofNat (n / 256 % 256), UInt8.ofNat (n / 65536 % 256), UInt8.ofNat (n / 16777216 % 256)]

def rdLe16 : Bytes → Nat
  | a :: b :: _ => a.toNat + 256 * b.toNat
  | _ => 0
def rdLe32 : Bytes → Nat
  | a :: b :: c :: d :: _ => a.toNat + 256 * b.toNat + 65536 * c.toNat + 16777216 * d.toNat
  | _ => 0

structure Entry where
  version : Nat
  data : Bytes
deriving Repr, DecidableEq

def currentPersistVersion : Nat := 1
def entryHeaderSize : Nat := 10

/-- The bytes `writeEntry` hands to one `Write` call: `[len u32le][crc u32le][version u16le][data]`,
len = 2 + |data|, crc over version ++ data. -/
def frame (crc : Bytes → Nat) (e : Entry) : Bytes :=
  let vd := le16 e.version ++ e.data
  le32 (2 + e.data.length) ++ le32 (crc vd) ++ vd

def frames (crc : Bytes → Nat) (es : List Entry) : Bytes := (es.map (frame crc)).flatten

/-- `readEntries`: the loop `for pos+10 <= len(raw)`, on the remaining bytes (`fuel` bounds the iterations; every
iteration consumes ≥ 10 bytes). Returns the entries and the number of valid bytes. -/
def readEntriesAux (crc : Bytes → Nat) : Nat → Bytes → List Entry × Nat
  | 0, _ => ([], 0)
  | fuel + 1, raw =>
    if raw.length < entryHeaderSize then ([], 0) else
    let length := rdLe32 raw
    if length < 2 then ([], 0) else
    if 8 + length > raw.length then ([], 0) else
    let stored := rdLe32 (raw.drop 4)
    let vd := (raw.drop 8).take length
    if crc vd ≠ stored then ([], 0) else
    let r := readEntriesAux crc fuel (raw.drop (8 + length))
    (⟨rdLe16 vd, vd.drop 2⟩ :: r.1, 8 + length + r.2)

def readEntries (crc : Bytes → Nat) (raw : Bytes) : List Entry × Nat := readEntriesAux crc raw.length raw

/-! CRC-32C (Castagnoli, reflected), used by the driver to instantiate the `crc` parameter. -/
def crcStep (c : UInt32) (b : UInt8) : UInt32 :=
  let c := c ^^^ b.toUInt32
  let f := fun (c : UInt32) => if c &&& 1 == 1 then (c >>> 1) ^^^ 0x82F63B78 else c >>> 1
  f (f (f (f (f (f (f (f c)))))))
def crc32c (bs : Bytes) : Nat := ((bs.foldl crcStep 0xFFFFFFFF) ^^^ 0xFFFFFFFF).toNat

/-! ## 3. Segment + index -/

def indexEntrySize : Nat := 15

def beNat (bs : Bytes) : Nat := bs.foldl (fun a b => a * 256 + b.toNat) 0
def leNat (bs : Bytes) : Nat := bs.foldr (fun b a => b.toNat + a * 256) 0
def slice (bs : Bytes) (lo n : Nat) : Bytes := (bs.drop lo).take n
def signed (bits : Nat) (n : Nat) : Int := if n ≥ 2 ^ (bits - 1) then (n : Int) - (2 ^ bits : Nat) else n

/-- Index metadata (`decodeIndexEntry`); a missing or checksum-failing entry yields zeros. -/
structure IdxMeta where
  epoch : Int := 0
  maxEarlierTS : Int := 0
  inTx : Bool := false
deriving Repr, DecidableEq, Inhabited

def decodeIndexEntry (crc : Bytes → Nat) (buf : Bytes) : IdxMeta :=
  if buf.length < indexEntrySize then {} else
  let body := slice buf 2 13
  if crc body % 256 ≠ (buf.getD 1 0).toNat then {} else
  { epoch := signed 32 (leNat (slice buf 2 4)), maxEarlierTS := signed 64 (leNat (slice buf 6 8)),
    inTx := (buf.getD 14 0).toNat % 2 = 1 }

/-- What the checks need of a RecordBatch v2 header. -/
structure Batch where
  first : Nat
  nrec : Nat           -- LastOffsetDelta + 1
  pid : Int
  epoch : Int
  seq : Int
  attrs : Nat
  crc : Nat
  size : Nat
  isControl : Bool
  isAbort : Bool       -- control batches: ABORT marker (unreadable control record ⇒ abort)
deriving Repr, DecidableEq, Inhabited

def Batch.last (b : Batch) : Nat := b.first + b.nrec - 1
def Batch.isTxnl (b : Batch) : Bool := b.attrs / 16 % 2 = 1

/-- unsigned varint (at most 5 groups here). -/
def uvarint : Nat → Bytes → Option (Nat × Bytes)
  | 0, _ => none
  | _, [] => none
  | f + 1, b :: r =>
    if b.toNat < 128 then some (b.toNat, r) else
    match uvarint f r with
    | some (v, r') => some (b.toNat - 128 + 128 * v, r')
    | none => none
def zigzag (n : Nat) : Int := if n % 2 = 0 then (n / 2 : Nat) else -((n / 2 : Nat) + 1 : Int)

/-- control record key type of the first record (`kmsg.Record.ReadFrom`, then `Key[2:4]`); `none` = unreadable. -/
def controlType (recs : Bytes) : Option Nat := do
  let (_, r) ← uvarint 5 recs            -- record length
  let r := r.drop 1                        -- attributes
  let (_, r) ← uvarint 10 r              -- timestamp delta
  let (_, r) ← uvarint 5 r               -- offset delta
  let (kl, r) ← uvarint 5 r
  let klen := zigzag kl
  if klen < 4 then none else
  if r.length < klen.toNat then none else
  some (beNat (slice r 2 2))

/-- `decodeBatchRaw` on exactly one batch (`raw.length = 12 + Length`): CRC over bytes 21.., `ReadFrom`
needs `Length ≥ 49`. -/
def decodeBatch (crc : Bytes → Nat) (raw : Bytes) : Option Batch :=
  if raw.length ≥ 21 ∧ crc (raw.drop 21) ≠ beNat (slice raw 17 4) then none else
  if raw.length < 61 then none else
  let attrs := beNat (slice raw 21 2)
  let isControl := attrs / 32 % 2 = 1
  let isAbort := match controlType (raw.drop 61) with
    | some t => t = 0
    | none => true
  some { first := beNat (slice raw 0 8), nrec := beNat (slice raw 23 4) + 1, pid := signed 64 (beNat (slice raw 43 8)),
         epoch := signed 16 (beNat (slice raw 51 2)), seq := signed 32 (beNat (slice raw 53 4)), attrs := attrs,
         crc := beNat (slice raw 17 4), size := raw.length, isControl := isControl, isAbort := isControl && isAbort }

/-- `loadSegmentBatches` (after fix fc48882): batch *k* of the segment file is paired with index entry *k*. When the
index file exists (`idx = some _`) and has no complete entry *k*, the batch is a torn append (never acknowledged): the
loop stops there and the segment is truncated. Without an index file (legacy data) every batch gets zero metadata. -/
def loadSegmentAux (crc : Bytes → Nat) (idx : Option Bytes) : Nat → Bytes → Nat → List (Batch × IdxMeta)
  | 0, _, _ => []
  | fuel + 1, raw, k =>
    if raw.length < 12 then [] else
    let bl := beNat (slice raw 8 4)
    if bl > 1073741824 then [] else
    let size := 12 + bl
    if size > raw.length then [] else
    match decodeBatch crc (raw.take size) with
    | none => []
    | some b =>
      match idx with
      | some i =>
        if k * indexEntrySize + indexEntrySize > i.length then [] else
        (b, decodeIndexEntry crc (slice i (k * indexEntrySize) indexEntrySize)) :: loadSegmentAux crc idx fuel (raw.drop size) (k + 1)
      | none => (b, {}) :: loadSegmentAux crc idx fuel (raw.drop size) (k + 1)

def loadSegment (crc : Bytes → Nat) (raw : Bytes) (idx : Option Bytes) : List (Batch × IdxMeta) :=
  loadSegmentAux crc idx raw.length raw 0

/-- the truncations `loadSegmentBatches` performs: the segment file to the end of the last accepted batch when bytes
remain, the index file to one entry per accepted batch when it is longer. -/
def segmentTruncs (crc : Bytes → Nat) (raw : Bytes) (idx : Option Bytes) : Option Nat × Option Nat :=
  let l := loadSegment crc raw idx
  let pos := (l.map (·.1.size)).foldl (· + ·) 0
  (if pos < raw.length then some pos else none,
   match idx with
   | some i => if i.length > l.length * indexEntrySize then some (l.length * indexEntrySize) else none
   | none => none)

/-- `loadPIDsLog` / `loadGroupsLog` (after fix a250036): a torn tail is cut off at the last valid entry. -/
def stateLogTrunc (crc : Bytes → Nat) (raw : Bytes) : Option Nat :=
  let n := (readEntries crc raw).2
  if n < raw.length then some n else none

/-! ## 4. Partition recovery, groups.log replay, start-up -/

structure Aborted where
  pid : Int
  first : Nat
  last : Nat
deriving Repr, DecidableEq

/-- harness annotation of a snapshot.json payload. -/
structure Snap where
  hwm : Nat
  lso : Nat
  start : Nat
  aborted : List Aborted
  segs : List (Nat × Nat)   -- base, size
deriving Repr

structure Part where
  batches : List (Batch × IdxMeta) := []
  hwm : Nat := 0
  lso : Nat := 0
  start : Nat := 0
  aborted : List Aborted := []
  viaSnapshot : Bool := false
deriving Repr

def insertBy {α} (lt : α → α → Bool) (x : α) : List α → List α
  | [] => [x]
  | y :: r => if lt x y then x :: y :: r else y :: insertBy lt x r
/-- stable insertion sort -/
def sortBy {α} (lt : α → α → Bool) (xs : List α) : List α := xs.foldr (fun x acc => insertBy (fun a b => lt a b) x acc) []

/-- `loadPartitionFullReplay`: transaction state from `inTx` flags and control batches; in-flight transactions are
implicitly aborted; `abortedTxns` sorted by lastOffset; LSO = HWM. -/
def fullReplayAborted (bs : List (Batch × IdxMeta)) : List Aborted :=
  let step := fun (st : List (Int × Nat) × List Aborted) (bm : Batch × IdxMeta) =>
    let (active, ab) := st
    let b := bm.1
    if !b.isControl then
      if bm.2.inTx && !(active.any (·.1 == b.pid)) then (active ++ [(b.pid, b.first)], ab) else (active, ab)
    else
      let ab := match active.find? (·.1 == b.pid) with
        | some (_, f) => if b.isAbort then ab ++ [⟨b.pid, f, b.first⟩] else ab
        | none => ab
      (active.filter (·.1 != b.pid), ab)
  let (active, ab) := bs.foldl step ([], [])
  -- Go iterates a map here; the order is canonicalised by the sort below and by sorting the pids first
  let active := sortBy (fun a b => a.1 < b.1) active
  let implicit := active.map fun (pid, f) =>
    let last := bs.foldl (fun l bm => if bm.1.pid == pid && bm.2.inTx && bm.1.last > l then bm.1.last else l) f
    (⟨pid, f, last⟩ : Aborted)
  sortBy (fun a b => a.last < b.last) (ab ++ implicit)

/-- one partition directory: `segs` are (base, .dat bytes, .idx bytes option) sorted by base. -/
def loadPartition (crc : Bytes → Nat) (segs : List (Nat × Bytes × Option Bytes)) (snapPresent : Bool) (snap : Option Snap) : Part :=
  let loaded := segs.map fun (_, raw, idx) => loadSegment crc raw idx
  let bs := loaded.flatten
  let useSnap : Option Snap :=
    if snapPresent && segs.length > 0 then
      match snap with
      | some s =>
        if s.segs.length = segs.length && (s.segs.zip segs).all (fun (ss, sg) => ss.1 = sg.1 && ss.2 = sg.2.1.length) then some s else none
      | none => none
    else none
  match useSnap with
  | some s =>
    let (hwm, lso) := match bs.getLast? with
      | some l => (min s.hwm (l.1.last + 1), min s.lso (l.1.last + 1))
      | none => (s.start, s.start)
    { batches := bs, hwm := hwm, lso := lso, start := min s.start hwm, aborted := s.aborted, viaSnapshot := true }
  | none =>
    match bs.head?, bs.getLast? with
    | some f, some l =>
      { batches := bs, hwm := l.1.last + 1, lso := l.1.last + 1, start := f.1.first, aborted := fullReplayAborted bs }
    | _, _ => {}

/-- `loadSessionState`, in-progress transactions (session_state.json exists only after a clean Close): every restored
transaction re-registers its first offset per partition and the partition's LSO is recalculated from those alone
(`recalculateLSO`: the minimum); partitions without a restored transaction keep what `loadPartition` gave. -/
def sessionLso (firsts : List Nat) (lso : Nat) : Nat :=
  match firsts with
  | [] => lso
  | f :: r => r.foldl min f

/-- group log entry meaning (annotation). -/
inductive GEntry where
  | commit (g tp : String) (off : Int)
  | delete (g tp : String)
  | other
deriving Repr, DecidableEq

/-- `replayGroupsLog` restricted to commits: last entry per key wins, `delete` removes. -/
def replayCommits (es : List GEntry) : List ((String × String) × Int) :=
  es.foldl (fun m e => match e with
    | .commit g tp o => (m.filter (·.1 ≠ (g, tp))) ++ [((g, tp), o)]
    | .delete g tp => m.filter (·.1 ≠ (g, tp))
    | .other => m) []

/-! ## 5. Record-level abstraction of the append protocols

A durable append log of records: `dur` are the records that certainly survive, `pend` the record whose bytes are
written but not synced (at most one under SyncWrites: every append is followed by a sync before the next). The
byte-level theorems (`Props.C33.readEntries_*`, `crash_append_*`) justify the abstraction: a torn tail is a proper
prefix of one record's bytes and is ignored by replay. -/

/-- One partition at record level: segment records and index records are separate files. -/
structure SegIdx (β μ : Type) where
  seg : List β
  idx : List μ
deriving Repr, DecidableEq

/-- `persistBatchToSegment` at record level: write batch, write index entry, sync both. A crash inside may keep
either, both or none of the two unsynced records. -/
inductive Torn where
  | none | both | segOnly | idxOnly
deriving Repr, DecidableEq

def SegIdx.append {β μ} (s : SegIdx β μ) (b : β) (m : μ) : SegIdx β μ := ⟨s.seg ++ [b], s.idx ++ [m]⟩

def SegIdx.tornAppend {β μ} (s : SegIdx β μ) (b : β) (m : μ) : Torn → SegIdx β μ
  | .none => s
  | .both => s.append b m
  | .segOnly => ⟨s.seg ++ [b], s.idx⟩
  | .idxOnly => ⟨s.seg, s.idx ++ [m]⟩

/-- restart (`loadSegmentBatches`, after fix fc48882): surplus index entries are truncated, and so are batches
without an index entry. -/
def SegIdx.recover {β μ} (s : SegIdx β μ) : SegIdx β μ := ⟨s.seg.take s.idx.length, s.idx.take s.seg.length⟩

/-- what replay pairs: batch k with index entry k (`none` = no entry at that position: zeros). -/
def pairFrom {β μ} : List β → List μ → List (β × Option μ)
  | [], _ => []
  | b :: bs, [] => (b, none) :: pairFrom bs []
  | b :: bs, m :: ms => (b, some m) :: pairFrom bs ms

def SegIdx.paired {β μ} (s : SegIdx β μ) : List (β × Option μ) := pairFrom s.seg s.idx

/-- One generation: complete appends, then a crash inside a further append (or `none`: crash between appends /
clean stop), then restart. -/
structure Generation (β μ : Type) where
  done : List (β × μ)
  inflight : Option (β × μ × Torn)

def SegIdx.runGen {β μ} (s : SegIdx β μ) (g : Generation β μ) : SegIdx β μ :=
  let s := g.done.foldl (fun s bm => s.append bm.1 bm.2) s
  let s := match g.inflight with
    | some (b, m, t) => s.tornAppend b m t
    | none => s
  s.recover

def SegIdx.runGens {β μ} (s : SegIdx β μ) (gs : List (Generation β μ)) : SegIdx β μ := gs.foldl SegIdx.runGen s

/-- the acknowledged (batch, metadata) pairs of a history, in order. -/
def ackedOf {β μ} (gs : List (Generation β μ)) : List (β × μ) := (gs.map (·.done)).flatten

/-! ### state logs (groups.log, pids.log) over generations, byte level -/

/-- one generation of a state log: start-up cuts the file at the last valid entry, then entries are appended
(write, sync each), then the process stops after `k` file operations and `n` bytes of the unsynced tail survive. -/
structure LogGen where
  es : List Entry
  k : Nat
  n : Nat

def logGenStep (crc : Bytes → Nat) (c : Bytes) (g : LogGen) : Bytes :=
  let valid := c.take (readEntries crc c).2
  (((appendHist (g.es.map (frame crc))).take g.k).foldl FileSt.step ⟨valid, []⟩ |>.crash g.n).all

def runLog (crc : Bytes → Nat) (gs : List LogGen) : Bytes := gs.foldl (logGenStep crc) []

/-- what survives: of generation i the first `ms[i]` entries. -/
def pickLog : List LogGen → List Nat → List Entry
  | g :: gs, m :: ms => g.es.take m ++ pickLog gs ms
  | _, _ => []

/-- `ms` has one count per generation, between the synced (acknowledgeable) entries and one more. -/
def LogBounds : List LogGen → List Nat → Prop
  | [], [] => True
  | g :: gs, m :: ms => g.k / 2 ≤ m ∧ m ≤ g.k / 2 + 1 ∧ LogBounds gs ms
  | _, _ => False

/-! ### partition snapshots over lineages (record level)

`snapshot.json` is written only by a clean Close (`savePartition`) and never refreshed while the broker runs. At
start-up `loadPartition` uses it only if `snapshotMatchesSegments`: same number of segment files and, per file, the
recorded size EQUAL to the file's current size; otherwise the partition is fully replayed. -/

/-- a complete batch on disk: records, bytes -/
structure RB where
  nrec : Nat
  size : Nat
deriving Repr, DecidableEq

def rbBytes (l : List RB) : Nat := (l.map (·.size)).sum
def rbRecs (l : List RB) : Nat := (l.map (·.nrec)).sum

/-- one partition directory: the complete durable batches per segment file (files may be empty), torn bytes at the end
of the last file, and the snapshot of the last clean Close (recorded segment sizes, high watermark). -/
structure PDisk where
  segs : List (List RB) := []
  junk : Nat := 0
  snap : Option (List Nat × Nat) := none
deriving Repr, DecidableEq

def addLast : List Nat → Nat → List Nat
  | [], j => if j = 0 then [] else [j]
  | [x], j => [x + j]
  | x :: y :: r, j => x :: addLast (y :: r) j

/-- what `Stat` reports for the segment files -/
def PDisk.sizes (d : PDisk) : List Nat := addLast (d.segs.map rbBytes) d.junk
/-- what a full replay recovers -/
def PDisk.count (d : PDisk) : Nat := rbRecs d.segs.flatten

/-- `loadPartition`: the snapshot is used iff there are segment files and the recorded sizes equal the current ones
(`accept` is the comparison, `(· = ·)` in the code); then HWM = min(snapshot HWM, end of the loaded batches). -/
def PDisk.recoverHwmWith (accept : List Nat → List Nat → Bool) (d : PDisk) : Nat :=
  match d.snap with
  | some (sz, h) => if !d.sizes.isEmpty && accept sz d.sizes then min h d.count else d.count
  | none => d.count

def PDisk.recoverHwm (d : PDisk) : Nat := d.recoverHwmWith (fun a b => decide (a = b))

/-- lineage steps. `append`: an acknowledged (written, synced) batch, in whatever segment layout results (same file or
after a roll). `crash`: the process dies; the image keeps the complete batches (any layout with the same content, e.g.
a freshly rolled empty file) and `j` torn bytes. `restart`: start-up truncates the torn bytes. `close`: clean Close
writes the snapshot of the non-empty segments. -/
inductive PStep : PDisk → PDisk → Prop
  | append (d : PDisk) (b : RB) (segs' : List (List RB)) : d.junk = 0 → 0 < b.size → segs'.flatten = d.segs.flatten ++ [b] →
      PStep d { d with segs := segs' }
  | crash (d : PDisk) (segs' : List (List RB)) (j : Nat) : segs'.flatten = d.segs.flatten → PStep d { d with segs := segs', junk := j }
  | restart (d : PDisk) : PStep d { d with junk := 0 }
  | close (d : PDisk) : d.junk = 0 →
      PStep d { d with snap := some (((d.segs.filter (fun s => !s.isEmpty)).map rbBytes), d.count) }

inductive PReach : PDisk → Prop
  | init : PReach {}
  | step {d d'} : PReach d → PStep d d' → PReach d'

end Model.C33
