/-! C20 — model of `kgo.RecordFormatter` / `kgo.RecordReader` on the size-prefixed / fixed-width
fragment of the layout language (core Lean only).

-- models: pkg/kgo/record_formatter.go:RecordFormatter.AppendRecord
-- models: pkg/kgo/record_formatter.go:NewRecordFormatter        (the closures it builds, not the string parser)
-- models: pkg/kgo/record_formatter.go:parseNumWriteLayout / writeNum*
-- models: pkg/kgo/record_formatter.go:appendPlain / appendHex / appendBase64
-- models: pkg/kgo/record_formatter.go:RecordReader.ReadRecordInto / next
-- models: pkg/kgo/record_formatter.go:RecordReader.parseReadLayout (the closures it builds)
-- models: pkg/kgo/record_formatter.go:RecordReader.parseReadSize
-- models: pkg/kgo/record_formatter.go:readSize / readExact / readCondition / decodeHex / decodeBase64 / dupslice

What is covered.  A layout is an *AST* (`Layout`): literals, numeric verbs
`%T %K %V %H %p %o %e %d %x %y` × {ascii, hex64/32/16/8/4, big64/32/16, little64/32/16, byte, bool},
text verbs `%t %k %v` × {plain, hex, base64}, each preceded by its size verb (so the reader reads it by
size), and a header block `%h{…}` whose inner layout is again literals / `%K %V` / `%k %v`.
Not covered (other fragments of the language): delimiter-, regexp- and json-read text, `{N}` fixed
numbers (reader only), `{hex}` (variable width, formatter only), `base64raw`/`unpack`/`%a`/`%i`/`%D`/`%A`/
`%[ %| %]`, go/strftime timestamps (formatter only).  The layout *string* parser is not modelled: the
harness prints the AST as a layout string and hands that to the real code.

The model follows the code as it is, in particular
* the formatter's size verbs print `len(field)` (the *raw* length) whatever the text encoding, while the
  reader consumes `size` *encoded* bytes and decodes them;
* the formatter's `{ascii}` prints a signed decimal (`strconv.AppendInt`), the reader's `{ascii}` takes the
  longest run of digits and parses it unsigned (`strconv.ParseUint`);
* the EOF handling of `RecordReader.next` (clean `io.EOF` only when the first read of a record gets nothing;
  a last read that gets nothing falls through and parses an empty buffer). -/
namespace Model.C20

abbrev Bytes := List UInt8

inductive NumFmt
  | ascii | hex64 | hex32 | hex16 | hex8 | hex4 | big64 | big32 | big16
  | little64 | little32 | little16 | byte | bool
  deriving DecidableEq, Repr

inductive NumField
  | topicLen | keyLen | valueLen | hdrCount
  | partition | offset | leaderEpoch | timestamp | producerId | producerEpoch
  deriving DecidableEq, Repr

inductive Enc | plain | hex | base64
  deriving DecidableEq, Repr

inductive TextField | topic | key | value
  deriving DecidableEq, Repr

/-- Items that may appear at top level and inside `%h{…}`. -/
inductive FItem
  | lit (b : Bytes)
  | num (fld : NumField) (f : NumFmt)
  | text (fld : TextField) (e : Enc)
  deriving DecidableEq, Repr

inductive Item
  | flat (i : FItem)
  | hdrs (inner : List FItem)
  deriving DecidableEq, Repr

abbrev Layout := List Item

structure Hdr where
  key : Bytes := []
  value : Bytes := []
  deriving DecidableEq, Repr

/-- `kgo.Record` restricted to what the layout language can print and read. `ts` is nanoseconds since
the epoch; `none` is the zero `time.Time` (what an untouched record has). -/
structure Rec where
  topic : Bytes := []
  key : Bytes := []
  value : Bytes := []
  headers : List Hdr := []
  partition : Int := 0
  offset : Int := 0
  leaderEpoch : Int := 0
  producerId : Int := 0
  producerEpoch : Int := 0
  ts : Option Int := none
  deriving DecidableEq, Repr

/-! ## Formatter -/

/-- `time.Time{}.UnixNano()/1e6` as the Go runtime computes it (wrapping arithmetic). -/
def zeroTimeMillis : Int := -6795364578871

/-- Go's `/` on int64 (truncation toward zero, `Int.tdiv`), spelled with the sign split so that `omega` sees it -/
def goDiv (a b : Int) : Int := if 0 ≤ a then a / b else -((-a) / b)

def tsMillis (r : Rec) : Int :=
  match r.ts with
  | some ns => goDiv ns 1000000
  | none => zeroTimeMillis

def numVal (r : Rec) : NumField → Int
  | .topicLen => r.topic.length
  | .keyLen => r.key.length
  | .valueLen => r.value.length
  | .hdrCount => r.headers.length
  | .partition => r.partition
  | .offset => r.offset
  | .leaderEpoch => r.leaderEpoch
  | .timestamp => tsMillis r
  | .producerId => r.producerId
  | .producerEpoch => r.producerEpoch

def textVal (r : Rec) : TextField → Bytes
  | .topic => r.topic
  | .key => r.key
  | .value => r.value

/-- `uint64(n)` -/
def u64 (n : Int) : Nat := (n % 18446744073709551616).toNat

def digit (d : Nat) : UInt8 := UInt8.ofNat (48 + d)

def decGo : Nat → Nat → Bytes
  | 0, n => [digit (n % 10)]
  | f + 1, n => if n < 10 then [digit n] else decGo f (n / 10) ++ [digit (n % 10)]

/-- decimal digits of `n` (`strconv.AppendUint(_, n, 10)`) -/
def toDec (n : Nat) : Bytes := decGo n n

/-- `hexc[d]` -/
def hexc (d : Nat) : UInt8 := if d < 10 then UInt8.ofNat (48 + d) else UInt8.ofNat (87 + d)

/-- the low `k` hex digits of `u`, most significant first (`writeNumHex64` … `writeNumHex4`) -/
def hexDigits : Nat → Nat → Bytes
  | 0, _ => []
  | k + 1, u => hexDigits k (u / 16) ++ [hexc (u % 16)]

/-- the low `k` bytes of `u`, big endian -/
def beBytes : Nat → Nat → Bytes
  | 0, _ => []
  | k + 1, u => beBytes k (u / 256) ++ [UInt8.ofNat (u % 256)]

/-- the low `k` bytes of `u`, little endian -/
def leBytes : Nat → Nat → Bytes
  | 0, _ => []
  | k + 1, u => UInt8.ofNat (u % 256) :: leBytes k (u / 256)

def strTrue : Bytes := [116, 114, 117, 101]
def strFalse : Bytes := [102, 97, 108, 115, 101]

def writeNum : NumFmt → Int → Bytes
  | .ascii, n => if n < 0 then 45 :: toDec n.natAbs else toDec n.toNat
  | .hex64, n => hexDigits 16 (u64 n)
  | .hex32, n => hexDigits 8 (u64 n)
  | .hex16, n => hexDigits 4 (u64 n)
  | .hex8, n => hexDigits 2 (u64 n)
  | .hex4, n => hexDigits 1 (u64 n)
  | .big64, n => beBytes 8 (u64 n)
  | .big32, n => beBytes 4 (u64 n)
  | .big16, n => beBytes 2 (u64 n)
  | .little64, n => leBytes 8 (u64 n)
  | .little32, n => leBytes 4 (u64 n)
  | .little16, n => leBytes 2 (u64 n)
  | .byte, n => beBytes 1 (u64 n)
  | .bool, n => if n = 0 then strFalse else strTrue

def hexEnc : Bytes → Bytes
  | [] => []
  | b :: bs => hexc (b.toNat / 16) :: hexc (b.toNat % 16) :: hexEnc bs

/-- base64 standard alphabet -/
def b64char (v : Nat) : UInt8 :=
  if v < 26 then UInt8.ofNat (65 + v)
  else if v < 52 then UInt8.ofNat (71 + v)
  else if v < 62 then UInt8.ofNat (v - 4)
  else if v = 62 then 43 else 47

/-- `base64.StdEncoding.Encode` -/
def b64Enc : Bytes → Bytes
  | a :: b :: c :: rest =>
    let v := a.toNat * 65536 + b.toNat * 256 + c.toNat
    b64char (v / 262144) :: b64char (v / 4096 % 64) :: b64char (v / 64 % 64) :: b64char (v % 64) :: b64Enc rest
  | [a, b] =>
    let v := a.toNat * 65536 + b.toNat * 256
    [b64char (v / 262144), b64char (v / 4096 % 64), b64char (v / 64 % 64), 61]
  | [a] =>
    let v := a.toNat * 65536
    [b64char (v / 262144), b64char (v / 4096 % 64), 61, 61]
  | [] => []

def encode : Enc → Bytes → Bytes
  | .plain, b => b
  | .hex, b => hexEnc b
  | .base64, b => b64Enc b

def fmtFItem (r : Rec) : FItem → Bytes
  | .lit b => b
  | .num fld f => writeNum f (numVal r fld)
  | .text fld e => encode e (textVal r fld)

def fmtF (items : List FItem) (r : Rec) : Bytes :=
  items.flatMap (fmtFItem r)

/-- the `reuse` record the header formatter is run on -/
def hdrRec (h : Hdr) : Rec := { key := h.key, value := h.value }

def fmtItem (r : Rec) : Item → Bytes
  | .flat i => fmtFItem r i
  | .hdrs inner => r.headers.flatMap fun h => fmtF inner (hdrRec h)

/-- `RecordFormatter.AppendRecord(nil, r)` -/
def format (L : Layout) (r : Rec) : Bytes :=
  L.flatMap (fmtItem r)

def formatAll (L : Layout) (rs : List Rec) : Bytes :=
  rs.flatMap (format L)

/-! ## Reader -/

inductive RErr | eof | ueof | other
  deriving DecidableEq, Repr

/-- result of one raw read: what went into `r.buf`, what is left of the input, the error -/
structure Rd where
  buf : Bytes
  rest : Bytes
  err : Option RErr

/-- `readSize(n)` for `n ≥ 0`: `io.EOF` only when nothing at all could be read -/
def readSize (n : Nat) (inp : Bytes) : Rd :=
  if n ≤ inp.length then ⟨inp.take n, inp.drop n, none⟩
  else if inp.isEmpty then ⟨[], [], some .eof⟩
  else ⟨inp, [], some .ueof⟩

/-- `readExact(d)` -/
def readExact (d : Bytes) (inp : Bytes) : Rd :=
  let rd := readSize d.length inp
  match rd.err with
  | some _ => rd
  | none => if rd.buf = d then rd else { rd with err := some .other }

def isDigit (c : UInt8) : Bool := 48 ≤ c && c ≤ 57

def spanDigits : Bytes → Bytes × Bytes
  | [] => ([], [])
  | c :: cs => if isDigit c then let (a, b) := spanDigits cs; (c :: a, b) else ([], c :: cs)

/-- `readCondition` with the `{ascii}` condition: digits are consumed; EOF is ignored after a digit -/
def readAscii (inp : Bytes) : Rd :=
  let (ds, rest) := spanDigits inp
  if rest.isEmpty && ds.isEmpty then ⟨[], [], some .eof⟩ else ⟨ds, rest, none⟩

/-- the rest of the `{bool}` condition after the first letter: `w` is what is still expected -/
def matchWord : Bytes → Bytes → Bytes → Rd
  | [], buf, inp => ⟨buf, inp, none⟩
  | _ :: _, buf, [] => ⟨buf, [], some .eof⟩
  | c :: w, buf, x :: inp => if c = x then matchWord w (buf ++ [x]) inp else ⟨buf, x :: inp, none⟩

/-- `readCondition` with the `{bool}` condition -/
def readBool : Bytes → Rd
  | [] => ⟨[], [], some .eof⟩
  | x :: inp =>
    if x = 116 then matchWord [114, 117, 101] [x] inp
    else if x = 102 then matchWord [97, 108, 115, 101] [x] inp
    else ⟨[], x :: inp, none⟩

/-- bytes a fixed-width number format reads (`readKind.size`); 0 for the condition-read formats -/
def fixedWidth : NumFmt → Nat
  | .ascii => 0 | .bool => 0
  | .hex64 => 16 | .hex32 => 8 | .hex16 => 4 | .hex8 => 2 | .hex4 => 1
  | .big64 => 8 | .big32 => 4 | .big16 => 2
  | .little64 => 8 | .little32 => 4 | .little16 => 2
  | .byte => 1

def readNumRaw (f : NumFmt) (inp : Bytes) : Rd :=
  match f with
  | .ascii => readAscii inp
  | .bool => readBool inp
  | f => readSize (fixedWidth f) inp

def hexVal (c : UInt8) : Option Nat :=
  if 48 ≤ c && c ≤ 57 then some (c.toNat - 48)
  else if 97 ≤ c && c ≤ 102 then some (c.toNat - 87)
  else if 65 ≤ c && c ≤ 70 then some (c.toNat - 55)
  else none

def decVal (c : UInt8) : Option Nat :=
  if isDigit c then some (c.toNat - 48) else none

/-- digits in the given base, most significant first -/
def digitsVal (dv : UInt8 → Option Nat) (base : Nat) : Nat → Bytes → Option Nat
  | acc, [] => some acc
  | acc, c :: cs =>
    match dv c with
    | some d => digitsVal dv base (acc * base + d) cs
    | none => none

/-- `strconv.ParseUint(s, base, 64)` for base 10 / 16: no sign, no underscore, non-empty, in range -/
def parseUint (dv : UInt8 → Option Nat) (base : Nat) (b : Bytes) : Option Nat :=
  if b.isEmpty then none else
  match digitsVal dv base 0 b with
  | some v => if v < 18446744073709551616 then some v else none
  | none => none

def beVal (b : Bytes) : Nat := b.foldl (fun acc x => acc * 256 + x.toNat) 0

def leVal : Bytes → Nat
  | [] => 0
  | x :: xs => x.toNat + 256 * leVal xs

/-- the `parse` closure of `parseReadSize`: the `uint64` stored in `*dst`, `none` = error -/
def parseNum : NumFmt → Bytes → Option Nat
  | .ascii, b => parseUint decVal 10 b
  | .hex64, b => parseUint hexVal 16 b
  | .hex32, b => parseUint hexVal 16 b
  | .hex16, b => parseUint hexVal 16 b
  | .hex8, b => parseUint hexVal 16 b
  | .hex4, b => parseUint hexVal 16 b
  | .big64, b => some (beVal b)
  | .big32, b => some (beVal b)
  | .big16, b => some (beVal b)
  | .byte, b => some (beVal b)
  | .little64, b => some (leVal b)
  | .little32, b => some (leVal b)
  | .little16, b => some (leVal b)
  | .bool, b => if b = strTrue then some 1 else if b = strFalse then some 0 else none

/-- `int16(u)`, `int32(u)`, `int64(u)` for a `uint64` u -/
def s16 (u : Nat) : Int := let m := u % 65536; if m < 32768 then m else (m : Int) - 65536
def s32 (u : Nat) : Int := let m := u % 4294967296; if m < 2147483648 then m else (m : Int) - 4294967296
def s64 (u : Nat) : Int :=
  let m := u % 18446744073709551616
  if m < 9223372036854775808 then m else (m : Int) - 18446744073709551616

/-- `time.Unix(0, int64(dst)*1e6).UnixNano()` (the multiplication wraps) -/
def tsOfMillis (dst : Nat) : Int := s64 (u64 (s64 dst * 1000000))

/-- `hex.Decode`: any malformed input is an error -/
def hexDec : Bytes → Option Bytes
  | [] => some []
  | [_] => none
  | a :: b :: rest =>
    match hexVal a, hexVal b, hexDec rest with
    | some x, some y, some r => some (UInt8.ofNat (x * 16 + y) :: r)
    | _, _, _ => none

def b64val (c : UInt8) : Option Nat :=
  if 65 ≤ c && c ≤ 90 then some (c.toNat - 65)
  else if 97 ≤ c && c ≤ 122 then some (c.toNat - 71)
  else if 48 ≤ c && c ≤ 57 then some (c.toNat + 4)
  else if c = 43 then some 62
  else if c = 47 then some 63
  else none

def isNL (c : UInt8) : Bool := c = 10 || c = 13

def skipNL : Bytes → Bytes
  | [] => []
  | c :: cs => if isNL c then skipNL cs else c :: cs

/-- `base64.StdEncoding.Decode` as a loop of `decodeQuantum` (padded, not strict: `\r`/`\n` are skipped,
leftover bits ignored); `j` is the position in the quantum, `acc` the bits collected so far. Any
`CorruptInputError` is `none`. -/
def b64Go : Nat → Nat → Bytes → Option Bytes
  | j, _, [] => if j = 0 then some [] else none
  | j, acc, c :: cs =>
    match b64val c with
    | some v =>
      if j = 3 then
        let val := acc * 64 + v
        (b64Go 0 0 cs).map fun r =>
          UInt8.ofNat (val / 65536 % 256) :: UInt8.ofNat (val / 256 % 256) :: UInt8.ofNat (val % 256) :: r
      else b64Go (j + 1) (acc * 64 + v) cs
    | none =>
      if isNL c then b64Go j acc cs
      else if c ≠ 61 then none
      else if j < 2 then none
      else if j = 2 then
        match skipNL cs with
        | [] => none
        | c2 :: cs2 =>
          if c2 ≠ 61 then none
          else if (skipNL cs2).isEmpty then some [UInt8.ofNat (acc / 16 % 256)] else none
      else
        if (skipNL cs).isEmpty then some [UInt8.ofNat (acc / 1024 % 256), UInt8.ofNat (acc / 4 % 256)] else none

def b64Dec (b : Bytes) : Option Bytes := b64Go 0 0 b

def decode : Enc → Bytes → Option Bytes
  | .plain, b => some b
  | .hex, b => hexDec b
  | .base64, b => b64Dec b

/-- the captured `uint64` size variables of one `parseReadLayout` -/
structure Sizes where
  t : Nat := 0
  k : Nat := 0
  v : Nat := 0
  h : Nat := 0
  deriving DecidableEq, Repr

def Sizes.get (s : Sizes) : TextField → Nat
  | .topic => s.t
  | .key => s.k
  | .value => s.v

/-- reader state while one record is being read -/
structure St where
  r : Rec := {}
  sz : Sizes := {}
  inp : Bytes := []
  done : Bool := false
  deriving DecidableEq, Repr

/-- what the `parse` closure of a number verb does with `*dst` -/
def assign (fld : NumField) (d : Nat) (st : St) : St :=
  match fld with
  | .topicLen => { st with sz := { st.sz with t := d } }
  | .keyLen => { st with sz := { st.sz with k := d } }
  | .valueLen => { st with sz := { st.sz with v := d } }
  | .hdrCount => { st with sz := { st.sz with h := d } }
  | .partition => { st with r := { st.r with partition := s32 d } }
  | .offset => { st with r := { st.r with offset := s64 d } }
  | .leaderEpoch => { st with r := { st.r with leaderEpoch := s32 d } }
  | .timestamp => { st with r := { st.r with ts := some (tsOfMillis d) } }
  | .producerId => { st with r := { st.r with producerId := s64 d } }
  | .producerEpoch => { st with r := { st.r with producerEpoch := s16 d } }

def setText (fld : TextField) (b : Bytes) (st : St) : St :=
  match fld with
  | .topic => { st with r := { st.r with topic := b } }
  | .key => { st with r := { st.r with key := b } }
  | .value => { st with r := { st.r with value := b } }

/-- The error switch of `RecordReader.next` after the read of fn `i` (`first`: `i == 0`; `last`:
`i == len(fns)-1`; the fragment has no noread fns). `ok` continues to the parse step. -/
def finishRead (first last : Bool) (st : St) (rd : Rd) : Except RErr St :=
  match rd.err with
  | none => .ok { st with inp := rd.rest }
  | some .other => .error .other
  | some e =>
    if rd.buf.isEmpty && first then .error .eof
    else if !last || e == .ueof then .error .ueof
    else .ok { st with inp := rd.rest, done := true }

/-- the part of a number fn after its read: error switch, short-buffer guard, parse, store -/
def stepNum (first last : Bool) (fld : NumField) (f : NumFmt) (st : St) (rd : Rd) : Except RErr St :=
  match finishRead first last st rd with
  | .error e => .error e
  | .ok st' =>
    if fixedWidth f > 0 && rd.buf.length < fixedWidth f then .error .ueof
    else match parseNum f rd.buf with
      | none => .error .other
      | some d => .ok (assign fld d st')

/-- the part of a sized text fn after its read: error switch, decode, store -/
def stepText (first last : Bool) (fld : TextField) (e : Enc) (st : St) (rd : Rd) : Except RErr St :=
  match finishRead first last st rd with
  | .error err => .error err
  | .ok st' =>
    match decode e rd.buf with
    | none => .error .other
    | some b => .ok (setText fld b st')

/-- the read of a sized text fn: `readSize(int(*size))`; `int(*size)` is negative from 2^63 on
("invalid negative read size") -/
def readText (n : Nat) (inp : Bytes) : Rd :=
  if n ≥ 9223372036854775808 then ⟨[], inp, some .other⟩ else readSize n inp

/-- one fn of `RecordReader.next` for a literal / number / sized text -/
def stepFlat (first last : Bool) (it : FItem) (st : St) : Except RErr St :=
  match it with
  | .lit d => finishRead first last st (readExact d st.inp)
  | .num fld f => stepNum first last fld f st (readNumRaw f st.inp)
  | .text fld e => stepText first last fld e st (readText (st.sz.get fld) st.inp)

/-- `next` of a reader whose fns are all flat (the inner reader of a header block) -/
def nextF (first : Bool) : List FItem → St → Except RErr St
  | [], st => .ok st
  | it :: rest, st =>
    match stepFlat first rest.isEmpty it st with
    | .error e => .error e
    | .ok st' => nextF false rest st'

/-- The `handoff` closure of `%h{…}`: `n` times, clear key/value, run the inner reader on the same record and
the same input, append the header. Returns the state reached and the error that stopped it. The
record's own key/value are restored by the caller (the `defer`). -/
def readHeaders (inner : List FItem) : Nat → St → St × Option RErr
  | 0, st => (st, none)
  | n + 1, st =>
    let st0 : St := { r := { st.r with key := [], value := [] }, sz := {}, inp := st.inp, done := false }
    match nextF true inner st0 with
    | .error e => ({ st with inp := if e = .other then st.inp else [] }, some e)
    | .ok st1 =>
      let rec' := { st1.r with headers := st1.r.headers ++ [⟨st1.r.key, st1.r.value⟩] }
      readHeaders inner n { st with r := rec', inp := st1.inp }

def step (first last : Bool) (it : Item) (st : St) : Except RErr St :=
  match it with
  | .flat i => stepFlat first last i st
  | .hdrs inner =>
    let (st1, err) := readHeaders inner st.sz.h st
    let st2 := { st1 with r := { st1.r with key := st.r.key, value := st.r.value } }
    finishRead first last st2 ⟨[], st1.inp, err⟩

/-- `RecordReader.next` -/
def next (first : Bool) : Layout → St → Except RErr St
  | [], st => .ok st
  | it :: rest, st =>
    match step first rest.isEmpty it st with
    | .error e => .error e
    | .ok st' => next false rest st'

/-- `ReadRecord` on a fresh record -/
def readRecord (L : Layout) (inp : Bytes) : Except RErr St :=
  next true L { inp := inp }

inductive Term | eof | ueof | other | more
  deriving DecidableEq, Repr

/-- Call `ReadRecord` until it fails (at most `fuel` successes): the records and how it ended. -/
def readAll (L : Layout) : Nat → Bytes → Bool → List Rec × Term
  | 0, _, _ => ([], .more)
  | fuel + 1, inp, done =>
    if done then ([], .eof) else
    match readRecord L inp with
    | .error .eof => ([], .eof)
    | .error .ueof => ([], .ueof)
    | .error .other => ([], .other)
    | .ok st =>
      let (rs, t) := readAll L fuel st.inp st.done
      (st.r :: rs, t)

/-! ## Layouts the model speaks about -/

/-- which size verbs have been seen so far (the `parseRecordBits` of the layout parser) -/
structure Seen where
  t : Bool := false
  k : Bool := false
  v : Bool := false
  h : Bool := false
  deriving DecidableEq, Repr

def Seen.has (s : Seen) : TextField → Bool
  | .topic => s.t
  | .key => s.k
  | .value => s.v

def Seen.hasNum (s : Seen) : NumField → Bool
  | .topicLen => s.t
  | .keyLen => s.k
  | .valueLen => s.v
  | .hdrCount => s.h
  | _ => false

def Seen.add (s : Seen) : NumField → Seen
  | .topicLen => { s with t := true }
  | .keyLen => { s with k := true }
  | .valueLen => { s with v := true }
  | .hdrCount => { s with h := true }
  | _ => s

/-- a text verb that was already read makes a later size verb an error ("cannot come after") -/
structure TextSeen where
  t : Bool := false
  k : Bool := false
  v : Bool := false

/-- Well-formedness of a flat item list given the size verbs seen so far: literals non-empty and not
adjacent (the parser merges them), a size verb at most once, every text verb after its size verb.
`inHdr`: only `%K %V %k %v` and literals are allowed. `prevLit`: the previous item was a literal. -/
def wfF (inHdr : Bool) : Seen → Bool → List FItem → Bool
  | _, _, [] => true
  | s, prevLit, .lit b :: rest => !b.isEmpty && !prevLit && wfF inHdr s true rest
  | s, _, .num fld _ :: rest =>
    !s.hasNum fld
    && (!inHdr || fld = .keyLen || fld = .valueLen)
    && wfF inHdr (s.add fld) false rest
  | s, _, .text fld _ :: rest =>
    s.has fld && (!inHdr || fld = .key || fld = .value) && wfF inHdr s false rest

/-- an inner header layout: non-empty, well-formed from scratch -/
def wfInner (inner : List FItem) : Bool := !inner.isEmpty && wfF true {} false inner

def wfL : Seen → Bool → Bool → Layout → Bool
  | _, _, _, [] => true
  | s, prevLit, hb, .flat (.lit b) :: rest => !b.isEmpty && !prevLit && wfL s true hb rest
  | s, _, hb, .flat (.num fld _) :: rest => !s.hasNum fld && wfL (s.add fld) false hb rest
  | s, _, hb, .flat (.text fld _) :: rest => s.has fld && wfL s false hb rest
  | s, _, hb, .hdrs inner :: rest => s.h && !hb && wfInner inner && wfL s false true rest

/-- Layouts of the fragment: what both `NewRecordFormatter` and `NewRecordReader` accept and what the reader
reads entirely by size / fixed width. At most one header block. -/
def WF (L : Layout) : Bool := !L.isEmpty && wfL {} false false L

end Model.C20
