import FranzVerif.Spec.C17
/-! C18 — produce request encoding and size accounting (`pkg/kgo/sink.go`), transcribed function by
function from the code as it is.

-- models: pkg/kgo/sink.go:recBuf.bufferRecord recBatch.tryBuffer recBatch.calculateRecordNumbers recordNumbers.wireLength recBatch.appendRecord recBuf.newRecordBatch recBatch.v0wireLength recBatch.batchLength recBatch.flexibleWireLength recBatch.wireLengthForProduceVersion messageSet0Length messageSet1Length uvar32 uvarlen produceRequest.tryAddBatch sink.createReq Client.baseProduceRequestLength Client.maxRecordBatchBytesForTopic produceRequest.AppendTo seqRecBatch.appendTo promisedRec.appendTo seqRecBatch.appendToAsMessageSet appendMessageTo incrementSequence

Conventions. Bytes are `List (BitVec 8)`. Integers are unbounded `Int`/`Nat`: the model assumes that no
`int32` computation of the code overflows (every length below 2^31; `BrokerMaxWriteBytes` and
`ProducerBatchMaxBytes` are at most 2^30 by config validation), which the harness respects. The wire
primitives are the `Nat`-level LEB128 / big-endian functions of `Spec.C17`, which `Props.C17` proves equal
to `kbin.AppendUvarint`/`AppendVarint`/`AppendVarlong`/`UvarintLen`/`VarintLen`/`VarlongLen` on the 32/64-bit
ranges. CRC-32C, CRC-32 (IEEE) and the compressor are parameters. Go map iteration order (topics and
partitions inside `produceRequest.AppendTo`) is a parameter: the serialiser takes the order as a list.
Not modelled: the `records == nil || isFailingFromLoadErr` arm of `AppendTo` (a concurrent
`failAllRecords`), `frozen` (no record is buffered after a batch was selected in the harness), contexts,
timeouts, lingering. Core Lean only (linked into the driver). -/
namespace Model.C18
open Spec.C17 (byte encU lenU be zz)

abbrev Bytes := List (BitVec 8)

/-! ## wire primitives (Nat level) -/

/-- `kbin.AppendInt8/16/32/64`: big-endian two's complement on `k` bytes -/
def beI (k : Nat) (i : Int) : Bytes := be k (i % ((256 ^ k : Nat) : Int)).toNat
/-- `kbin.AppendUvarint` -/
def uvarint (n : Nat) : Bytes := encU n
/-- `kbin.AppendVarint` / `AppendVarlong`: zig-zag, then LEB128 -/
def varint (i : Int) : Bytes := encU (zz i)
/-- `kbin.UvarintLen` -/
def uvarintLen (n : Nat) : Nat := lenU n
/-- `kbin.VarintLen` / `VarlongLen` -/
def varintLen (i : Int) : Nat := lenU (zz i)
/-- `len(b)` of a possibly nil slice -/
def blen : Option Bytes → Nat
  | none => 0
  | some b => b.length
/-- `kbin.AppendVarintBytes`: nil is length -1 -/
def varintBytes : Option Bytes → Bytes
  | none => varint (-1)
  | some b => varint b.length ++ b
/-- `kbin.AppendVarintString` -/
def varintString (s : Bytes) : Bytes := varint s.length ++ s
/-- `kbin.AppendNullableBytes` -/
def nullableBytes : Option Bytes → Bytes
  | none => beI 4 (-1)
  | some b => beI 4 b.length ++ b
/-- `kbin.AppendString` -/
def string16 (s : Bytes) : Bytes := beI 2 s.length ++ s
/-- `kbin.AppendNullableString` -/
def nullableString : Option Bytes → Bytes
  | none => beI 2 (-1)
  | some s => string16 s
/-- `kbin.AppendCompactString` -/
def compactString (s : Bytes) : Bytes := uvarint (1 + s.length) ++ s
/-- `kbin.AppendCompactNullableString` -/
def compactNullableString : Option Bytes → Bytes
  | none => uvarint 0
  | some s => compactString s
/-- `kbin.AppendArrayLen` -/
def arrayLen (n : Nat) : Bytes := beI 4 n
/-- `kbin.AppendCompactArrayLen` -/
def compactArrayLen (n : Nat) : Bytes := uvarint (1 + n)

/-- `uvar32(l int32) uint32 { return 1 + uint32(l) }` -/
def uvar32 (l : Int) : Nat := (1 + l).toNat   -- no overflow: `l` is a non-negative length below 2^31
/-- `uvarlen(l int) int32` -/
def uvarlen (l : Nat) : Int := uvarintLen (uvar32 l)

/-! ## records and batches -/

structure Header where
  key : Bytes
  value : Option Bytes
deriving DecidableEq, Repr

/-- a `kgo.Record` as far as producing looks at it; `ts` is the timestamp in milliseconds -/
structure Rec where
  ts : Int
  key : Option Bytes
  value : Option Bytes
  headers : List Header
deriving DecidableEq, Repr

/-- a buffered `promisedRec`: the record plus the numbers saved by `setLengthAndTimestampDelta` -/
structure PRec where
  r : Rec
  length : Nat
  tsDelta : Int
deriving DecidableEq, Repr

def headerLen (h : Header) : Nat :=
  varintLen h.key.length + h.key.length + varintLen (blen h.value) + blen h.value

def headersLen : List Header → Nat
  | [] => 0
  | h :: hs => headerLen h + headersLen hs

/-- `messageSet0Length` -/
def messageSet0Length (r : Rec) : Int := 30 + blen r.key + blen r.value
/-- `messageSet1Length` -/
def messageSet1Length (r : Rec) : Int := messageSet0Length r + 8

/-- `recBatch` (the fields producing uses) -/
structure Batch where
  wireLength : Int
  v1wireLength : Int
  firstTimestamp : Int
  maxTimestampDelta : Int
  records : List PRec
deriving DecidableEq, Repr

/-- `recordBatchOverhead` of `newRecordBatch` -/
def recordBatchOverhead : Int := 4 + 8 + 4 + 4 + 1 + 4 + 2 + 4 + 8 + 8 + 8 + 2 + 4 + 4

/-- `newRecordBatch` -/
def newRecordBatch : Batch :=
  { wireLength := recordBatchOverhead, v1wireLength := 0, firstTimestamp := 0, maxTimestampDelta := 0, records := [] }

/-- `calculateRecordNumbers`: `(lengthField, tsDelta)` -/
def calculateRecordNumbers (b : Batch) (r : Rec) : Nat × Int :=
  let tsDelta : Int := if b.records.length = 0 then 0 else r.ts - b.firstTimestamp
  let offsetDelta : Nat := b.records.length
  (1 + varintLen tsDelta + varintLen offsetDelta + varintLen (blen r.key) + blen r.key
     + varintLen (blen r.value) + blen r.value + varintLen r.headers.length + headersLen r.headers, tsDelta)

/-- `recordNumbers.wireLength` -/
def numsWireLength (lengthField : Nat) : Nat := varintLen lengthField + lengthField

def v0wireLength (b : Batch) : Int := b.v1wireLength - 8
def batchLength (b : Batch) : Int := b.wireLength - 4
def flexibleWireLength (b : Batch) : Int := uvarintLen (uvar32 (batchLength b)) + batchLength b

/-- `wireLengthForProduceVersion`: `(batchWireLength, flexible, topicIDs)` -/
def wireLengthForProduceVersion (b : Batch) (v : Int) : Int × Bool × Bool :=
  if v < 0 then
    let w := b.wireLength
    let w := if b.v1wireLength > w then b.v1wireLength else w
    let w := if flexibleWireLength b > w then flexibleWireLength b else w
    (w, false, false)
  else if v = 0 ∨ v = 1 then (v0wireLength b, false, false)
  else if v = 2 then (b.v1wireLength, false, false)
  else if v ≤ 8 then (b.wireLength, false, false)
  else (flexibleWireLength b, true, decide (v ≥ 13))

/-- `appendRecord` -/
def appendRecord (b : Batch) (r : Rec) (lengthField : Nat) (tsDelta : Int) : Batch :=
  { wireLength := b.wireLength + numsWireLength lengthField
    v1wireLength := b.v1wireLength + messageSet1Length r
    firstTimestamp := if b.records.length = 0 then r.ts else b.firstTimestamp
    maxTimestampDelta := if b.records.length = 0 then b.maxTimestampDelta
                         else if tsDelta > b.maxTimestampDelta then tsDelta else b.maxTimestampDelta
    records := b.records ++ [⟨r, lengthField, tsDelta⟩] }

/-- the `recordWireLength` of `tryBuffer`: for message-set versions (or an unknown version) a record is sized as
the larger of its record-batch encoding and its message (`messageSet1Length`) -/
def recordWireLengthFor (produceVersion : Int) (r : Rec) (numsWire : Nat) : Int :=
  if produceVersion < 3 then (if messageSet1Length r > numsWire then messageSet1Length r else numsWire) else numsWire

/-- `tryBuffer` (not frozen, `abortOnNewBatch = false`): `none` = not appended -/
def tryBuffer (b : Batch) (r : Rec) (produceVersion maxBatchBytes : Int) : Option Batch :=
  let nums := calculateRecordNumbers b r
  let bwl := (wireLengthForProduceVersion b produceVersion).1
  if bwl + recordWireLengthFor produceVersion r (numsWireLength nums.1) > maxBatchBytes then none
  else some (appendRecord b r nums.1 nums.2)

/-- `bufferRecord` on the list of a partition's batches, newest first. Result: the new list and whether
the record was buffered (`false`: failed with MESSAGE_TOO_LARGE). -/
def bufferRecord (batches : List Batch) (r : Rec) (produceVersion maxBatchBytes : Int) : List Batch × Bool :=
  let mkNew : List Batch × Bool :=
    match tryBuffer newRecordBatch r produceVersion maxBatchBytes with
    | some nb => (nb :: batches, true)
    | none => (batches, false)
  match batches with
  | [] => mkNew
  | last :: rest =>
    match tryBuffer last r produceVersion maxBatchBytes with
    | some b' => (b' :: rest, true)
    | none => mkNew

/-- buffer a partition's records in order; second component: per record the index of the batch it
landed in (`-1` = rejected) -/
def bufferAll (produceVersion maxBatchBytes : Int) : List Batch → List Rec → List Batch × List Int
  | bs, [] => (bs, [])
  | bs, r :: rs =>
    let (bs', ok) := bufferRecord bs r produceVersion maxBatchBytes
    let (bs'', idx) := bufferAll produceVersion maxBatchBytes bs' rs
    (bs'', (if ok then (bs'.length : Int) - 1 else -1) :: idx)

/-! ## configuration and request-level accounting -/

structure Cfg where
  clientId : Option Bytes
  txnId : Option Bytes
  acks : Int
  timeoutMs : Int
  maxBrokerWriteBytes : Int
  maxRecordBatchBytes : Int
deriving Repr

/-- `baseProduceRequestLength` -/
def baseProduceRequestLength (c : Cfg) : Int :=
  (4 + 2 + 2 + 4 + 2) + (2 + 2 + 4 + 4) + blen c.clientId + blen c.txnId

/-- `maxRecordBatchBytesForTopic` -/
def maxRecordBatchBytesForTopic (c : Cfg) (topic : Bytes) : Int :=
  let topicLen : Int := if topic.length > 16 then topic.length else 16
  let minOnePartitionBatchLength := baseProduceRequestLength c + 2 + topicLen + 4 + 4 + 4
  let recordBatchLimit := c.maxBrokerWriteBytes - minOnePartitionBatchLength
  if c.maxRecordBatchBytes < recordBatchLimit then c.maxRecordBatchBytes else recordBatchLimit

/-- a batch selected for a request (`seqRecBatch` with its partition) -/
structure PartBatch where
  partition : Int
  seq : Int
  batch : Batch
deriving DecidableEq, Repr

/-- one topic of `produceRequest.batches` -/
structure TopicBatches where
  topic : Bytes
  topicID : Bytes
  parts : List PartBatch
deriving DecidableEq, Repr

/-- what `tryAddBatch` adds to `p.wireLength` for a batch of `topic`; `existing` = number of partitions
the request already holds for that topic (`none`: topic not in the request yet); `ntopics` = `len(p.batches.bs)` -/
def tryAddBatchLength (produceVersion : Int) (topic : Bytes) (existing : Option Nat) (ntopics : Nat) (b : Batch) : Int :=
  let (bwl, flexible, topicIDs) := wireLengthForProduceVersion b produceVersion
  let bwl := bwl + 4
  let unknown := decide (produceVersion < 0)
  let bwl := if flexible || unknown then bwl + 1 else bwl     -- empty tag section after the partition
  match existing with
  | none =>
    let bwl :=
      if topicIDs then bwl + (16 + 1 + 1)
      else if flexible then bwl + (uvarlen topic.length + topic.length + 1 + 1)
      else
        let topicLength : Int := 2 + topic.length + 4
        let topicLength := if unknown && decide (topicLength < 16 + 4 + 1) then 16 + 4 + 1 else topicLength
        bwl + topicLength
    if flexible then bwl + (uvarlen (ntopics + 1) - uvarlen ntopics) else bwl
  | some n =>
    if flexible then bwl + (uvarlen (n + 1) - uvarlen n) else bwl

/-- `seqRecBatches.addBatch` on an association list in insertion order -/
def addBatch (ts : List TopicBatches) (topic topicID : Bytes) (pb : PartBatch) : List TopicBatches :=
  match ts with
  | [] => [{ topic := topic, topicID := topicID, parts := [pb] }]
  | t :: rest =>
    if t.topic = topic then { t with parts := t.parts ++ [pb] } :: rest
    else t :: addBatch rest topic topicID pb

def findParts (ts : List TopicBatches) (topic : Bytes) : Option Nat :=
  match ts with
  | [] => none
  | t :: rest => if t.topic = topic then some t.parts.length else findParts rest topic

/-- the request under construction in `createReq` -/
structure ReqState where
  wireLength : Int
  batches : List TopicBatches
  anyZeroTopicID : Bool := false
deriving Repr

/-- `tryAddBatch` (size part): `none` = does not fit -/
def tryAddBatch (limit produceVersion : Int) (p : ReqState) (topic topicID : Bytes) (pb : PartBatch) : Option ReqState :=
  let add := tryAddBatchLength produceVersion topic (findParts p.batches topic) p.batches.length pb.batch
  if p.wireLength + add > limit then none
  else some { wireLength := p.wireLength + add, batches := addBatch p.batches topic topicID pb,
              anyZeroTopicID := p.anyZeroTopicID || (topicID == List.replicate 16 0#8) }

/-- `incrementSequence` (regenerated and proved equal to `(s+n) mod 2^31` in `Props.C29`) -/
def incrementSequence (s n : Int) : Int := (s + n) % 2147483648

/-- a partition buffer as `createReq` sees it: remaining batches, oldest first -/
structure RecBuf where
  topic : Bytes
  topicID : Bytes
  partition : Int
  seq : Int
  pending : List Batch
deriving Repr

/-- one pass of `createReq` over the buffers in the given (already rotated) order -/
def createReqPass (limit produceVersion : Int) : ReqState → List RecBuf → ReqState × List RecBuf
  | p, [] => (p, [])
  | p, rb :: rest =>
    match rb.pending with
    | [] => let (p', rest') := createReqPass limit produceVersion p rest; (p', rb :: rest')
    | b :: more =>
      match tryAddBatch limit produceVersion p rb.topic rb.topicID ⟨rb.partition, rb.seq, b⟩ with
      | none => let (p', rest') := createReqPass limit produceVersion p rest; (p', rb :: rest')
      | some p1 =>
        let rb' := { rb with pending := more, seq := incrementSequence rb.seq b.records.length }
        let (p', rest') := createReqPass limit produceVersion p1 rest
        (p', rb' :: rest')

def rotate {α : Type} (xs : List α) (k : Nat) : List α :=
  if xs.length = 0 then xs else xs.drop (k % xs.length) ++ xs.take (k % xs.length)

/-- `createReq` with `recBufsStart = start`: the request state and the buffers (in their original order) -/
def createReq (c : Cfg) (produceVersion : Int) (start : Nat) (rbs : List RecBuf) : ReqState × List RecBuf :=
  let init : ReqState := { wireLength := baseProduceRequestLength c, batches := [] }
  let (p, rot) := createReqPass c.maxBrokerWriteBytes produceVersion init (rotate rbs start)
  (p, if rbs.length = 0 then rot else rotate rot (rbs.length - start % rbs.length))

/-- `produceMax` of `createReq`, then the version the request is written at -/
def effectiveVersion (c : Cfg) (tx890p2 : Bool) (reqVersion : Int) (p : ReqState) : Int :=
  let produceMax : Int := if c.txnId.isNone || tx890p2 then 13 else 11
  let produceMax := if produceMax > 12 && p.anyZeroTopicID then 12 else produceMax
  if reqVersion > produceMax then produceMax else reqVersion

/-- all requests drained from the buffers (the hook's loop: `createReq` until nothing is admitted);
`fuel` bounds the number of requests (each admits at least one batch) -/
def drain (c : Cfg) (produceVersion : Int) : Nat → Nat → List RecBuf → List ReqState
  | 0, _, _ => []
  | fuel + 1, start, rbs =>
    let (p, rbs') := createReq c produceVersion start rbs
    if p.batches.isEmpty then [] else p :: drain c produceVersion fuel ((start + 1) % (if rbs.length = 0 then 1 else rbs.length)) rbs'

/-! ## serialisers -/

/-- the compressor: `(disableZstd, src) ↦ (compressed or nil, codec)` -/
abbrev Compressor := Bool → Bytes → Option Bytes × Nat

def headersTo : List Header → Bytes
  | [] => []
  | h :: hs => varintString h.key ++ varintBytes h.value ++ headersTo hs

/-- `promisedRec.appendTo` -/
def recordAppendTo (pr : PRec) (offsetDelta : Nat) : Bytes :=
  varint pr.length ++ [0#8] ++ varint pr.tsDelta ++ varint offsetDelta ++ varintBytes pr.r.key
    ++ varintBytes pr.r.value ++ varint pr.r.headers.length ++ headersTo pr.r.headers

/-- `for i, pr := range b.records { dst = pr.appendTo(dst, int32(i)) }` from index `i` -/
def recordsFrom : Nat → List PRec → Bytes
  | _, [] => []
  | i, pr :: rest => recordAppendTo pr i ++ recordsFrom (i + 1) rest

/-- the outcome of the compression step of `appendTo`: payload written, savings, codec -/
def compressStep (comp : Option Compressor) (version : Int) (toCompress : Bytes) : Bytes × Nat × Nat :=
  match comp with
  | none => (toCompress, 0, 0)
  | some c =>
    match c (decide (version < 7)) toCompress with
    | (some compressed, codec) =>
      if compressed.length < toCompress.length then (compressed, toCompress.length - compressed.length, codec)
      else (toCompress, 0, 0)
    | (none, _) => (toCompress, 0, 0)

/-- the record batch proper as `seqRecBatch.appendTo` leaves it (base offset … records), after the
in-place fix-ups of `batchLen`, attributes and CRC -/
def batchBody (crc32c : Bytes → Nat) (comp : Option Compressor) (b : PartBatch) (version : Int)
    (producerID producerEpoch : Int) (transactional : Bool) : Bytes :=
  let nullableBytesLen := b.batch.wireLength - 4
  let batchLen := nullableBytesLen - 8 - 4
  let toCompress := recordsFrom 0 b.batch.records
  let (payload, savings, codec) := compressStep comp version toCompress
  let batchLen := batchLen - savings
  let attrs : Nat := (if transactional then 16 else 0) ||| codec
  let seq := if producerID < 0 then 0 else b.seq
  let n : Int := b.batch.records.length
  let crcd := beI 2 attrs ++ beI 4 (n - 1) ++ beI 8 b.batch.firstTimestamp
    ++ beI 8 (b.batch.firstTimestamp + b.batch.maxTimestampDelta)
    ++ beI 8 producerID ++ beI 2 producerEpoch ++ beI 4 seq ++ beI 4 n ++ payload
  beI 8 0 ++ beI 4 batchLen ++ beI 4 (-1) ++ [2#8] ++ beI 4 (crc32c crcd) ++ crcd

/-- bytes saved by the compression step for this batch -/
def savingsOf (comp : Option Compressor) (b : PartBatch) (version : Int) : Nat :=
  (compressStep comp version (recordsFrom 0 b.batch.records)).2.1

/-- `seqRecBatch.appendTo` (what is appended to `in`) -/
def batchAppendTo (crc32c : Bytes → Nat) (comp : Option Compressor) (b : PartBatch) (version : Int)
    (producerID producerEpoch : Int) (transactional : Bool) : Bytes :=
  let batch := batchBody crc32c comp b version producerID producerEpoch transactional
  if version ≥ 9 then
    -- the prefix is first written for `b.batchLength()`; the deferred function rewrites it (shifting the
    -- batch down when the prefix got shorter) when the batch is not that long
    if (batch.length : Int) = batchLength b.batch then uvarint (uvar32 (batchLength b.batch)) ++ batch
    else uvarint (uvar32 batch.length) ++ batch
  else
    -- NULLABLE_BYTES length from the accounting (`b.wireLength - 4`), lowered by the compression savings
    beI 4 (b.batch.wireLength - 4 - savingsOf comp b version) ++ batch

/-- `appendMessageTo` -/
def appendMessageTo (crc32 : Bytes → Nat) (version : Int) (attributes : Nat) (offset timestamp : Int)
    (key value : Option Bytes) : Bytes :=
  let magic : Nat := if version ≥ 2 then 1 else 0    -- `version >> 1` for version 0, 1, 2
  let body := [byte magic, byte attributes] ++ (if magic = 1 then beI 8 timestamp else [])
    ++ nullableBytes key ++ nullableBytes value
  let msg := beI 4 (crc32 body) ++ body
  beI 8 offset ++ beI 4 msg.length ++ msg

def messagesFrom (crc32 : Bytes → Nat) (version firstTimestamp : Int) : Nat → List PRec → Bytes
  | _, [] => []
  | i, pr :: rest =>
    appendMessageTo crc32 version 0 i (firstTimestamp + pr.tsDelta) pr.r.key pr.r.value
      ++ messagesFrom crc32 version firstTimestamp (i + 1) rest

/-- `seqRecBatch.appendToAsMessageSet` -/
def appendToAsMessageSet (crc32 : Bytes → Nat) (comp : Option Compressor) (b : PartBatch) (version : Int) : Bytes :=
  let toCompress := messagesFrom crc32 version b.batch.firstTimestamp 0 b.batch.records
  let out :=
    match comp with
    | none => toCompress
    | some c =>
      match c (decide (version < 7)) toCompress with
      | (compressed, codec) =>
        let wrappedLength : Int := 30 + blen compressed + (if version = 2 then 8 else 0)
        if compressed.isSome && decide (wrappedLength < toCompress.length) then
          appendMessageTo crc32 version codec ((b.batch.records.length : Int) - 1) b.batch.firstTimestamp none compressed
        else toCompress
  beI 4 out.length ++ out

/-- what the compressor is called with for one batch at `version` (for the driver's call log) -/
def compressInput (crc32 : Bytes → Nat) (b : PartBatch) (version : Int) : Bytes :=
  if version < 3 then messagesFrom crc32 version b.batch.firstTimestamp 0 b.batch.records
  else recordsFrom 0 b.batch.records

structure Env where
  crc32c : Bytes → Nat
  crc32 : Bytes → Nat
  comp : Option Compressor

def partAppendTo (e : Env) (version : Int) (producerID producerEpoch : Int) (transactional : Bool) (pb : PartBatch) : Bytes :=
  beI 4 pb.partition
    ++ (if version < 3 then appendToAsMessageSet e.crc32 e.comp pb version
        else batchAppendTo e.crc32c e.comp pb version producerID producerEpoch transactional)
    ++ (if version ≥ 9 then [0#8] else [])

def partsAppendTo (e : Env) (version : Int) (producerID producerEpoch : Int) (transactional : Bool) : List PartBatch → Bytes
  | [] => []
  | pb :: rest => partAppendTo e version producerID producerEpoch transactional pb
      ++ partsAppendTo e version producerID producerEpoch transactional rest

def topicAppendTo (e : Env) (version : Int) (producerID producerEpoch : Int) (transactional : Bool) (t : TopicBatches) : Bytes :=
  (if version ≥ 13 then t.topicID ++ compactArrayLen t.parts.length
   else if version ≥ 9 then compactString t.topic ++ compactArrayLen t.parts.length
   else string16 t.topic ++ arrayLen t.parts.length)
    ++ partsAppendTo e version producerID producerEpoch transactional t.parts
    ++ (if version ≥ 9 then [0#8] else [])

def topicsAppendTo (e : Env) (version : Int) (producerID producerEpoch : Int) (transactional : Bool) : List TopicBatches → Bytes
  | [] => []
  | t :: rest => topicAppendTo e version producerID producerEpoch transactional t
      ++ topicsAppendTo e version producerID producerEpoch transactional rest

/-- `produceRequest.AppendTo`, topics and partitions in the order of the list (Go: map iteration order) -/
def requestAppendTo (e : Env) (c : Cfg) (version : Int) (producerID producerEpoch : Int) (topics : List TopicBatches) : Bytes :=
  (if version ≥ 3 then (if version ≥ 9 then compactNullableString c.txnId else nullableString c.txnId) else [])
    ++ beI 2 c.acks ++ beI 4 c.timeoutMs
    ++ (if version ≥ 9 then compactArrayLen topics.length else arrayLen topics.length)
    ++ topicsAppendTo e version producerID producerEpoch c.txnId.isSome topics
    ++ (if version ≥ 9 then [0#8] else [])

/-- `kmsg.RequestFormatter.AppendRequest` for the produce request: the bytes written to the connection -/
def appendRequest (e : Env) (c : Cfg) (version : Int) (correlationID : Int) (producerID producerEpoch : Int)
    (topics : List TopicBatches) : Bytes :=
  let rest := beI 2 0 ++ beI 2 version ++ beI 4 correlationID ++ nullableString c.clientId
    ++ (if version ≥ 9 then [0#8] else [])
    ++ requestAppendTo e c version producerID producerEpoch topics
  beI 4 rest.length ++ rest

end Model.C18
