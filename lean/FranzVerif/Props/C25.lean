import FranzVerif.Model.C25
namespace Props.C25
open Model.C25
theorem placeholder : True := trivial
end Props.C25
