import FranzVerif.Proof.C25K
import FranzVerif.Proof.C25A
/-! C25 — every balancer produces a valid assignment.

Spec (`Model.C25.validPlan subs n plan`, executable, also evaluated by the driver on the implementation's
plans): every planned triple `(member, topic, partition)` names a member subscribed to the topic and an
existing partition, and for every topic some member subscribes to, the multiset of partitions planned for it
is exactly `{0, …, n t - 1}` — each partition assigned exactly once, nothing else assigned.
`validCoop` is the cooperative variant: a partition may be assigned to nobody only when a member that
currently owns it (a claimant of maximal generation) is not assigned it in this plan.

The sticky engine (pkg/kgo/internal/sticky) is not modelled: for sticky and cooperative-sticky the theorem
below is about the modelled post-processing (`adjust` = AdjustCooperative applied to ANY valid plan); the
validity of the engine's plan itself is evaluated on its real output for every generated case by the driver. -/
namespace Props.C25
open Model.C25 Proof.C25

/-- range (with the rack phase): valid for all members, subscriptions, racks and partition counts. -/
theorem range_valid (ms : List Member) (topics : List (String × Nat)) (racks : List (String × List String)) :
    validPlan (subsOf ms) (cnt topics) (balanceRange ms topics racks) = true :=
  balanceRange_valid ms topics racks

/-- non-trivial instance: three members (one with a rack, one listing the topic twice), 7 partitions with racks. -/
example : balanceRange [{ id := "a", topics := ["t"], rack := some "r1" }, { id := "b", topics := ["t", "t"] }, { id := "c", topics := ["u"] }]
    [("t", 7), ("u", 2)] [("t", ["r2", "r1", "", "r1", "r1", "r1"])]
    = [("a", "t", 1), ("a", "t", 3), ("a", "t", 4), ("b", "t", 0), ("b", "t", 2), ("b", "t", 5), ("b", "t", 6),
       ("c", "u", 0), ("c", "u", 1)] := by decide

/-- round robin: the assignment loop terminates (`some`) and the plan is valid, for all inputs. -/
theorem roundRobin_valid (ms : List Member) (topics : List (String × Nat)) :
    ∃ plan, balanceRR ms topics = some plan ∧ validPlan (subsOf ms) (cnt topics) plan = true :=
  balanceRR_valid ms topics

example : balanceRR [{ id := "a", topics := ["t"] }, { id := "b", topics := ["u"] }, { id := "c", topics := ["t", "u"] }]
    [("t", 3), ("u", 2)]
    = some [("a", "t", 0), ("c", "t", 1), ("a", "t", 2), ("b", "u", 0), ("c", "u", 1)] := by decide

/-- kfake `assignRange` through `computeTargetAssignment`: valid for all members (static or not, away or
not), subscriptions, prior targets and snapshots. -/
theorem kfakeRange_valid (ms : List KMember) (snap : List (String × Nat)) :
    validPlan (kSubsOf ms) (cnt snap) (kCompute "range" ms snap) = true :=
  kCompute_range_valid ms snap

/-- kfake `assignUniform` (any assignor name other than "range" dispatches to it), as repaired in /repo
31831e3: valid for EVERY input — arbitrary prior targets, conflicting claims included (step 1 keeps a
still-valid prior partition only for the first member, in member order, that lists it). -/
theorem kfakeUniform_valid (assignor : String) (hne : (assignor == "range") = false)
    (ms : List KMember) (snap : List (String × Nat)) :
    validPlan (kSubsOf ms) (cnt snap) (kCompute assignor ms snap) = true :=
  kCompute_uniform_valid assignor hne ms snap

/-- non-trivial instance: two members keep disjoint prior targets, one sheds its excess, a third receives it. -/
example : kCompute "uniform" [{ id := "a", subs := ["t"], target := [("t", [0, 1, 2])] }, { id := "b", subs := ["t"], target := [("t", [3])] },
    { id := "c", subs := ["t"] }] [("t", 4)] = [("a", "t", 0), ("a", "t", 1), ("b", "t", 3), ("c", "t", 2)] := by decide

/-- regression (finding kfake-uniform-conflicting-priors, fixed in 31831e3): two members whose prior targets
both list partition 0 of a one-partition topic. The old code kept it for both; now only the first keeps it. -/
example :
    let ms : List KMember := [{ id := "m0", subs := ["t"], target := [("t", [0])] }, { id := "m1", subs := ["t"], target := [("t", [0])] }]
    disjointPriors ms [("t", 1)] = false
    ∧ kCompute "uniform" ms [("t", 1)] = [("m0", "t", 0)]
    ∧ validPlan (kSubsOf ms) (cnt [("t", 1)]) (kCompute "uniform" ms [("t", 1)]) = true := by decide

/-- regression, the input reached over the wire by harness/cmd/c25/reachprobe (static member away, another
joins, static member returns, a third joins): both A2 and B list 0..3. -/
example :
    kCompute "uniform" [{ id := "A2", subs := ["t"], target := [("t", [0, 1, 2, 3])] }, { id := "B", subs := ["t"], target := [("t", [0, 1, 2, 3])] },
      { id := "C", subs := ["t"] }] [("t", 4)] = [("A2", "t", 0), ("A2", "t", 1), ("B", "t", 2), ("C", "t", 3)] := by decide

/-- AdjustCooperative never assigns anything the sticky plan did not contain. -/
theorem cooperative_adjust_only_removes (ms : List Member) (plan : List Triple) : (adjust ms plan).Sublist plan :=
  adjust_sublist ms plan

/-- Cooperative-sticky post-processing: applied to ANY valid plan (the sticky engine's, whose validity is
checked on its output by the driver), AdjustCooperative yields a plan that is valid except for partitions it
withholds, and a partition is withheld only when a current owner of it is not assigned it in the result. -/
theorem cooperative_adjust_valid (ms : List Member) (n : String → Nat) (plan : List Triple)
    (h : validPlan (subsOf ms) n plan = true) : validCoop ms n (adjust ms plan) = true :=
  adjust_validCoop ms n plan h

/-- non-vacuity: a valid plan that moves a partition away from its current owner; it is withheld. -/
example :
    let ms : List Member := [{ id := "a", gen := 3, topics := ["t"], owned := [("t", [0, 1])] }, { id := "b", gen := 3, topics := ["t"] }]
    validPlan (subsOf ms) (cnt [("t", 2)]) [("a", "t", 0), ("b", "t", 1)] = true
    ∧ adjust ms [("a", "t", 0), ("b", "t", 1)] = [("a", "t", 0)] := by decide

end Props.C25
