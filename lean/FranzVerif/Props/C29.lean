import FranzVerif.Gen.C29
import FranzVerif.Model.C29
import FranzVerif.Model.C29Client
import FranzVerif.Proof.C29Client
import FranzVerif.Proof.C29Arrival
/-! C29 — property theorems (sequence numbers wrap modulo 2^31 in the client and in kfake).

`Gen.C29.incrementSequence`, `Gen.C29K.kfakeSeqMod` and `Gen.C29S` (every write to a sequence field in
pkg/kgo, with the value written) are regenerated from /repo on every run, so `client_incSeq`,
`kfake_modulus`, `client_sites_*` and `client_all_histories` are re-checked against what the source says now. -/
namespace Props.C29
open Model.C29

/-- Client: for every `0 ≤ s < 2^31`, `1 ≤ n < 2^31`, `incrementSequence s n = (s+n) mod 2^31`. -/
theorem client_incSeq (s n : BitVec 32) (hs : s.toNat < 2147483648) (hn1 : 1 ≤ n.toNat) (hn : n.toNat < 2147483648) :
    (Gen.C29.incrementSequence s n).toNat = (s.toNat + n.toNat) % 2147483648 :=
  Proof.C29C.incSeq_toNat s n hs hn1 hn

/-- The client result stays a valid sequence number. -/
theorem client_incSeq_range (s n : BitVec 32) (hs : s.toNat < 2147483648) (hn1 : 1 ≤ n.toNat) (hn : n.toNat < 2147483648) :
    (Gen.C29.incrementSequence s n).toNat < 2147483648 := by
  rw [client_incSeq s n hs hn1 hn]; omega

/-- kfake: the modulus found at both `next := … % K` sites of `pushAndValidate` is 2^31. -/
theorem kfake_modulus : Gen.C29K.kfakeSeqMod = seqMod ∧ Gen.C29K.kfakeSeqModSites = 2 := by
  decide

/-- With that modulus Go's truncated `%` is the mathematical one on sequence numbers. -/
theorem goNext_eq_next (first n : Int) (hf : 0 ≤ first) (hn : 0 ≤ n) :
    goNext Gen.C29K.kfakeSeqMod first n = next first n := by
  have hm : Gen.C29K.kfakeSeqMod = seqMod := kfake_modulus.1
  unfold goNext next
  rw [hm, Int.tmod_eq_emod_of_nonneg (by omega)]

/-- kfake's push with the source's modulus. -/
abbrev kpush := push Gen.C29K.kfakeSeqMod

/-- Same epoch, not a retry, expected sequence ⇒ accepted, and the next expected sequence is `(s+n) mod 2^31`. -/
theorem kfake_accepts_next (s : Win) (epoch first n base : Int) (hseen : s.seen = true) (he : epoch = s.epoch)
    (hf : 0 ≤ first) (hn : 0 ≤ n)
    (hnodup : findDup s.entries s.count first (next first n) = none) (hexp : first = s.nextSeq) :
    (kpush s epoch first n base).2 = .accept ∧ (kpush s epoch first n base).1.nextSeq = next first n := by
  have hg := goNext_eq_next first n hf hn
  have hexp' : s.nextSeq = first := hexp.symm
  simp [kpush, push, hseen, he, hg, hnodup, hexp']

/-- Same epoch, not a retry, any other sequence ⇒ OUT_OF_ORDER_SEQUENCE_NUMBER and no state change. -/
theorem kfake_rejects_other (s : Win) (epoch first n base : Int) (hseen : s.seen = true) (he : epoch = s.epoch)
    (hf : 0 ≤ first) (hn : 0 ≤ n)
    (hnodup : findDup s.entries s.count first (next first n) = none) (hexp : first ≠ s.nextSeq) :
    kpush s epoch first n base = (s, .reject) := by
  have hg := goNext_eq_next first n hf hn
  simp [kpush, push, hseen, he, hg, hnodup, hexp]

/-- A `dup` answer always carries the offset of a recorded batch with the same `(first, next)` pair, and changes nothing. -/
theorem kfake_dup_sound (s : Win) (epoch first n base off : Int) (hf : 0 ≤ first) (hn : 0 ≤ n)
    (h : (kpush s epoch first n base).2 = .dup off) :
    (∃ e ∈ s.entries.take s.count, e.first = first ∧ e.nxt = next first n ∧ e.offset = off)
      ∧ (kpush s epoch first n base).1 = s := by
  have hg := goNext_eq_next first n hf hn
  simp only [kpush, push, hg] at h ⊢
  split at h
  · split at h <;> simp at h
  · rename_i hcond
    cases hd : findDup s.entries s.count first (next first n) with
    | none => simp [hd] at h; split at h <;> simp at h
    | some o =>
      simp only [hd, Resp.dup.injEq] at h ⊢
      subst h
      simp only [findDup, Option.map_eq_some_iff] at hd
      obtain ⟨e, he, ho⟩ := hd
      have hm := List.mem_of_find?_eq_some he
      have hp := List.find?_some he
      simp at hp
      exact ⟨⟨e, hm, hp.1, hp.2, ho⟩, by simp [hcond]⟩

/-- Completeness of the retry answer: if a batch with this `(first, next)` is recorded in the window
(same epoch), the push is answered `dup` with the offset of such a batch. -/
theorem kfake_dup_complete (s : Win) (epoch first n base : Int) (hseen : s.seen = true) (he : epoch = s.epoch)
    (hf : 0 ≤ first) (hn : 0 ≤ n)
    (hrec : ∃ e ∈ s.entries.take s.count, e.first = first ∧ e.nxt = next first n) :
    ∃ off, (kpush s epoch first n base).2 = .dup off ∧
      ∃ e ∈ s.entries.take s.count, e.first = first ∧ e.nxt = next first n ∧ e.offset = off := by
  have hg := goNext_eq_next first n hf hn
  obtain ⟨e, hm, h1, h2⟩ := hrec
  cases hd : findDup s.entries s.count first (next first n) with
  | none =>
    simp only [findDup, Option.map_eq_none_iff, List.find?_eq_none] at hd
    have := hd e hm
    simp [h1, h2] at this
  | some o =>
    refine ⟨o, by simp [kpush, push, hseen, he, hg, hd], ?_⟩
    simp only [findDup, Option.map_eq_some_iff] at hd
    obtain ⟨e', he', ho⟩ := hd
    have hp := List.find?_some he'
    simp at hp
    exact ⟨e', List.mem_of_find?_eq_some he', hp.1, hp.2, ho⟩

/-- New epoch (or first batch ever): accepted iff the window was never used or the sequence restarts at 0. -/
theorem kfake_new_epoch (s : Win) (epoch first n base : Int) (hne : s.seen = false ∨ epoch ≠ s.epoch)
    (hf : 0 ≤ first) (hn : 0 ≤ n) :
    ((kpush s epoch first n base).2 = .accept ↔ (s.seen = false ∨ first = 0)) ∧
    ((kpush s epoch first n base).2 = .accept → (kpush s epoch first n base).1.nextSeq = next first n) ∧
    ((kpush s epoch first n base).2 ≠ .accept → kpush s epoch first n base = (s, .reject)) := by
  have hg := goNext_eq_next first n hf hn
  have hc : (!s.seen || epoch != s.epoch) = true := by
    rcases hne with h | h <;> simp [h]
  simp only [kpush, push, hc, if_true]
  by_cases h1 : s.seen = true <;> by_cases h2 : first = 0 <;> simp [h1, h2, hg] <;> (subst h2; exact hg)

/-! ### Window invariant and refinement to the abstract "last five accepted batches" spec -/

theorem entries5 (l : List Entry) (h : l.length = 5) : ∃ a b c d e, l = [a,b,c,d,e] := by
  match l, h with
  | [a,b,c,d,e], _ => exact ⟨a,b,c,d,e,rfl⟩

/-- The age-ordered view and the storage-order scan of the code see the same entries. -/
theorem recent_mem (s : Win) (h : WF s) (x : Entry) : x ∈ recent s ↔ x ∈ s.entries.take s.count := by
  obtain ⟨h5, hat, hc, hac, _⟩ := h
  obtain ⟨a,b,c,d,e,he⟩ := entries5 _ h5
  have hcases : s.count = 0 ∨ s.count = 1 ∨ s.count = 2 ∨ s.count = 3 ∨ s.count = 4 ∨ s.count = 5 := by omega
  have hcases2 : s.at_ = 0 ∨ s.at_ = 1 ∨ s.at_ = 2 ∨ s.at_ = 3 ∨ s.at_ = 4 := by omega
  rcases hcases with hc0 | hc0 | hc0 | hc0 | hc0 | hc0 <;>
  rcases hcases2 with ha | ha | ha | ha | ha <;>
  simp [hc0, ha] at hac <;>
  simp [recent, he, hc0, ha, List.range, List.range.loop] <;> grind

/-- An accepted push puts the new batch in front and keeps exactly the four most recent older ones. -/
theorem recent_set (s s' : Win) (h : WF s) (x : Entry) (h1 : s'.entries = s.entries.set s.at_ x)
    (h2 : s'.at_ = (s.at_ + 1) % 5) (h3 : s'.count = if s.count < 5 then s.count + 1 else s.count) :
    recent s' = x :: (recent s).take 4 := by
  unfold recent
  rw [h1, h2, h3]
  obtain ⟨h5, hat, hc, hac, _⟩ := h
  obtain ⟨a,b,c,d,e,he⟩ := entries5 _ h5
  have hcases : s.count = 0 ∨ s.count = 1 ∨ s.count = 2 ∨ s.count = 3 ∨ s.count = 4 ∨ s.count = 5 := by omega
  have hcases2 : s.at_ = 0 ∨ s.at_ = 1 ∨ s.at_ = 2 ∨ s.at_ = 3 ∨ s.at_ = 4 := by omega
  rcases hcases with hc0 | hc0 | hc0 | hc0 | hc0 | hc0 <;>
  rcases hcases2 with ha | ha | ha | ha | ha <;>
  simp [hc0, ha] at hac <;>
  simp [he, hc0, ha, List.range, List.range.loop]

theorem wf_init : WF ({} : Win) := by simp [WF]

/-- One step of the refinement: the code's answer is allowed by the property, the buffer shape is
preserved, and the abstract state moves as the property says. -/
theorem kfake_refines_step (s : Win) (hwf : WF s) (o : Op) (hv : o.valid) :
    (abs s).allows o.epoch o.first o.n (kpush s o.epoch o.first o.n o.base).2 = true ∧
    WF (kpush s o.epoch o.first o.n o.base).1 ∧
    abs (kpush s o.epoch o.first o.n o.base).1
      = (abs s).step o.epoch o.first o.n o.base (kpush s o.epoch o.first o.n o.base).2 := by
  obtain ⟨hf, hn⟩ := hv
  have hg := goNext_eq_next o.first o.n hf hn
  by_cases hc : (!s.seen || o.epoch != s.epoch) = true
  · -- new epoch / first batch
    by_cases h1 : (s.seen && o.first != 0) = true
    · simp [kpush, push, hc, h1, abs, Spec.allows, Spec.step, hwf]
    · simp [kpush, push, hc, h1, abs, Spec.allows, Spec.step, hg, WF, recent, List.range, List.range.loop]
  · -- same epoch
    have hseen : s.seen = true := by
      cases hs : s.seen <;> simp [hs] at hc ⊢
    have hep : o.epoch = s.epoch := by
      simp [hseen] at hc; exact hc
    cases hd : findDup s.entries s.count o.first (next o.first o.n) with
    | some off =>
      have hr : kpush s o.epoch o.first o.n o.base = (s, .dup off) := by
        simp [kpush, push, hc, hg, hd]
      rw [hr]
      refine ⟨?_, hwf, by simp [Spec.step]⟩
      simp only [findDup, Option.map_eq_some_iff] at hd
      obtain ⟨e, he, ho⟩ := hd
      have hm := (recent_mem s hwf e).2 (List.mem_of_find?_eq_some he)
      have hp := List.find?_some he
      simp at hp
      have hfil : e ∈ (recent s).filter (fun e => e.first == o.first && e.nxt == next o.first o.n) := by
        simp [List.mem_filter, hm, hp.1, hp.2]
      have hne : ((recent s).filter (fun e => e.first == o.first && e.nxt == next o.first o.n)).isEmpty = false := by
        cases hl : (recent s).filter (fun e => e.first == o.first && e.nxt == next o.first o.n) with
        | nil => rw [hl] at hfil; simp at hfil
        | cons _ _ => rfl
      simp only [Spec.allows, abs, hseen, hep, hne]
      simp
      exact ⟨e, hm, hp, ho⟩
    | none =>
      have hnomatch : (recent s).filter (fun e => e.first == o.first && e.nxt == next o.first o.n) = [] := by
        simp only [findDup, Option.map_eq_none_iff, List.find?_eq_none] at hd
        rw [List.filter_eq_nil_iff]
        intro e he
        exact hd e ((recent_mem s hwf e).1 he)
      by_cases hx : o.first = s.nextSeq
      · have hr : kpush s o.epoch o.first o.n o.base =
            ({ s with nextSeq := next o.first o.n,
                      entries := s.entries.set s.at_ ⟨o.first, next o.first o.n, o.base⟩,
                      at_ := (s.at_ + 1) % 5, count := if s.count < 5 then s.count + 1 else s.count }, .accept) := by
          have hx' : s.nextSeq = o.first := hx.symm
          simp [kpush, push, hseen, hep, hg, hd, hx']
        rw [hr]
        refine ⟨by simp only [Spec.allows, abs, hseen, hep, hnomatch]; simp [hx], ?_, ?_⟩
        · obtain ⟨h5, hat, hcc, hac, hsc⟩ := hwf
          refine ⟨by simp [h5], by simp; omega, by simp; split <;> omega, ?_, ?_⟩
          · simp only; intro hlt; split at hlt
            · rename_i h4; have := hac h4; split <;> omega
            · omega
          · simp only; intro _; split <;> omega
        · have hrs := recent_set s
              ⟨s.seen, s.epoch, next o.first o.n, s.entries.set s.at_ ⟨o.first, next o.first o.n, o.base⟩,
                (s.at_ + 1) % 5, if s.count < 5 then s.count + 1 else s.count⟩
              hwf ⟨o.first, next o.first o.n, o.base⟩ rfl rfl rfl
          rw [hseen] at hrs
          simp only [abs, Spec.step, hseen, hep]
          simp [hrs]
      · have hr : kpush s o.epoch o.first o.n o.base = (s, .reject) := by
          simp [kpush, push, hseen, hep, hg, hd, hx]
        rw [hr]
        exact ⟨by simp only [Spec.allows, abs, hseen, hep, hnomatch]; simp [hx], hwf, by simp [Spec.step]⟩

/-- **Every history.** For any sequence of pushes (any length, any sequence numbers and batch
sizes), the answers of kfake's window are exactly what the property allows: the correctly wrapped
next batch is accepted, a retry of one of the last five accepted batches is answered with its
original offset, anything else is rejected. -/
theorem kfake_all_histories (ops : List Op) (hv : ∀ o ∈ ops, o.valid) (s : Win) (hwf : WF s) :
    specAccepts (abs s) ops (runWin Gen.C29K.kfakeSeqMod s ops) = true := by
  induction ops generalizing s with
  | nil => simp [runWin, specAccepts]
  | cons o os ih =>
    have h := kfake_refines_step s hwf o (hv o (by simp))
    simp only [runWin, specAccepts, Bool.and_eq_true]
    refine ⟨h.1, ?_⟩
    rw [← h.2.2]
    exact ih (fun o' ho' => hv o' (by simp [ho'])) _ h.2.1

/-- Non-vacuity: a window sitting at the wrap boundary accepts the wrapped batch (next = 1),
answers its retry with the original offset, and rejects a skipped sequence. -/
example :
    runWin seqMod {} [⟨0, 2147483646, 1, 100⟩, ⟨0, 2147483647, 2, 101⟩, ⟨0, 2147483647, 2, 103⟩, ⟨0, 1, 1, 103⟩, ⟨0, 3, 1, 104⟩]
      = [.accept, .accept, .dup 101, .accept, .reject] := by decide


/-! ### The client's USES of sequence arithmetic (every write to `recBuf.seq`, `recBuf.batch0Seq`, `seqRecBatch.seq`) -/

section Client
open Model.C29C

/-- Every write to a sequence field found in pkg/kgo has one of the allowed forms:
`incrementSequence(field, n)`, a copy of a sequence field, the literal 0 under `needSeqReset`.
(A plain `+` / `+=` / `++` shows up with form `plain-add` and breaks this.) -/
theorem client_sites_allowed :
    Gen.C29S.sites.all (fun s => s.form == "inc" || s.form == "copy" || s.form == "zero-at-reset") = true := by
  decide

/-- The writes are exactly the six the client model accounts for (a new write site, or one that
disappeared, has to be modelled before the theorems below say anything about the code). -/
theorem client_sites_known :
    Gen.C29S.sites.map (·.key) =
      ["createReq_seq", "finishBatch_batch0Seq", "resetBatchDrainIdx_seq", "tryAddBatch_seq", "tryAddBatch_batch0Seq",
       "addBatch_seqRecBatch_seq"] := by
  decide

/-- **Every schedule.** For a partition on which `s` records were already produced (any `0 ≤ s < 2^31`,
in particular just below the wrap) and any sequence of client operations — buffering batches, draining
them into requests, success answers, REWINDS (`resetBatchDrainIdx`, i.e. NOT_LEADER / cut connection /
sink migration), producer-id failures — everything the client model puts on the wire is accepted by
the chain monitor: no FirstSequence is negative, a new batch starts at `(last.first + last.n) mod 2^31`
(across the wrap too), a re-sent batch repeats its original `(FirstSequence, NumRecords)` exactly, and
sequences restart at 0 only with a new epoch after the producer id was failed.
The model's writes are the regenerated `Gen.C29S` functions. -/
theorem client_all_histories (s : BitVec 32) (hs : s.toNat < 2147483648) (ops : List Model.C29C.Op) :
    chainOk ((RecBuf.init s).wire ops) = true :=
  Proof.C29C.inv_wire ops _ _ (Proof.C29C.inv_init s hs)

/-- What acceptance by the monitor means, 1: every FirstSequence of an accepted history is in `[0, 2^31)`
and every batch has between 1 and 2^31-1 records. -/
theorem accepted_nonneg (es : List Ev) (m m' : Mon) (h : m.run es = some m') (e f n : Int) (hmem : Ev.batch e f n ∈ es) :
    0 ≤ f ∧ f < 2147483648 ∧ 1 ≤ n ∧ n < 2147483648 := by
  induction es generalizing m with
  | nil => simp at hmem
  | cons x xs ih =>
    simp only [Mon.run] at h
    cases hx : m.step x with
    | none => simp [hx] at h
    | some m1 =>
      simp only [hx] at h
      rcases List.mem_cons.1 hmem with hm | hm
      · subst hm
        simp only [Mon.step] at hx
        split at hx
        · simp at hx
        · rename_i hc
          simp [Model.C29C.seqMod] at hc
          omega
      · exact ih m1 h hm

/-- newest-first list of `(first, n)` in which every batch starts where its predecessor ended, modulo 2^31 -/
def Linked : List (Int × Int) → Prop
  | [] => True
  | [_] => True
  | b :: a :: rest => b.1 = (a.1 + a.2) % 2147483648 ∧ Linked (a :: rest)

/-- monitor states reachable from the empty one -/
def MonWF (m : Mon) : Prop :=
  Linked m.chain ∧ (m.started = true → ∃ hd tl, m.chain = hd :: tl ∧ m.nextSeq = (hd.1 + hd.2) % 2147483648)

theorem monWF_step (m m' : Mon) (ev : Ev) (hw : MonWF m) (h : m.step ev = some m') : MonWF m' := by
  cases ev with
  | reset => simp [Mon.step] at h; subst h; exact hw
  | batch e f n =>
    simp only [Mon.step] at h
    split at h
    · simp at h
    · split at h
      · simp at h; subst h; exact ⟨trivial, fun _ => ⟨(f, n), [], rfl, by simp [Model.C29C.next, Model.C29C.seqMod]⟩⟩
      · rename_i hst
        simp at hst
        split at h
        · split at h
          · rename_i hf
            simp at h hf; subst h
            obtain ⟨hd, tl, hc, hn⟩ := hw.2 hst
            refine ⟨?_, fun _ => ⟨(f, n), m.chain, rfl, by simp [Model.C29C.next, Model.C29C.seqMod]⟩⟩
            show Linked ((f, n) :: m.chain)
            rw [hc]
            refine ⟨?_, by rw [← hc]; exact hw.1⟩
            show f = _
            rw [hf, hn]
          · split at h
            · simp at h; subst h; exact hw
            · simp at h
        · split at h
          · simp at h; subst h; exact ⟨trivial, fun _ => ⟨(0, n), [], rfl, by simp [Model.C29C.next, Model.C29C.seqMod]⟩⟩
          · simp at h

/-- What acceptance means, 2: after any accepted history the batches of the current epoch, in the order
of their first transmission, form one chain `first_{i+1} = (first_i + n_i) mod 2^31` — across the wrap. -/
theorem accepted_chain (es : List Ev) (m : Mon) (h : Mon.run {} es = some m) : Linked m.chain := by
  have gen : ∀ (es : List Ev) (m0 m1 : Mon), MonWF m0 → m0.run es = some m1 → MonWF m1 := by
    intro es
    induction es with
    | nil => intro m0 m1 hw h; simp [Mon.run] at h; subst h; exact hw
    | cons x xs ih =>
      intro m0 m1 hw h
      simp only [Mon.run] at h
      cases hx : m0.step x with
      | none => simp [hx] at h
      | some m2 => simp only [hx] at h; exact ih m2 m1 (monWF_step m0 m2 x hw hx) h
  exact (gen es {} m ⟨trivial, by simp⟩ h).1

/-- What acceptance means, 3: under an unchanged epoch an accepted batch that does not continue the
chain is a re-send: it carries the `(FirstSequence, NumRecords)` of a batch sent before, unchanged. -/
theorem accepted_resend_exact (m m' : Mon) (e f n : Int) (hst : m.started = true) (he : e = m.epoch)
    (hf : f ≠ m.nextSeq) (h : m.step (.batch e f n) = some m') : (f, n) ∈ m.chain ∧ m' = m := by
  simp only [Mon.step] at h
  split at h
  · simp at h
  · simp [hst, he, hf] at h
    exact ⟨h.1, h.2.symm⟩

/-- What acceptance means, 4: the epoch changes only after a genuine reason, and then restarts at 0. -/
theorem accepted_new_epoch (m m' : Mon) (e f n : Int) (hst : m.started = true) (he : e ≠ m.epoch)
    (h : m.step (.batch e f n) = some m') : m.allow = true ∧ f = 0 := by
  simp only [Mon.step] at h
  split at h
  · simp at h
  · simp [hst, he] at h
    exact ⟨h.1.1, h.1.2⟩

/-- Non-vacuity (client model, across the wrap): a partition at 2^31-3; a batch of 5 crosses the wrap
and is acknowledged, a batch of 3 is sent, the leader moves (rewind), the batch is re-sent with its
original first sequence 2, then a batch of 1 continues at 5. -/
example :
    (RecBuf.init 2147483645#32).wire [.buffer 5#32, .drain, .finish, .buffer 3#32, .drain, .rewind, .drain, .finish, .buffer 1#32, .drain]
      = [.batch 0 2147483645 5, .batch 0 2 3, .batch 0 2 3, .batch 0 5 1] := by decide

/-- Non-vacuity (monitor): that history is accepted; the history of a client whose `batch0Seq` was advanced
with a plain `+` (re-send at 2 - 2^31) is not; nor is a re-send with a changed record count, nor a silent
epoch bump. -/
example : chainOk [.batch 0 2147483645 5, .batch 0 2 3, .batch 0 2 3, .batch 0 5 1] = true := by decide
example : chainOk [.batch 0 2147483645 5, .batch 0 2 3, .batch 0 (-2147483646) 3] = false := by decide
example : chainOk [.batch 0 2147483645 5, .batch 0 2 3, .batch 0 2 2] = false := by decide
example : chainOk [.batch 0 2147483645 5, .batch 1 0 3] = false := by decide
example : chainOk [.batch 0 2147483645 5, .reset, .batch 1 0 3, .batch 1 3 1] = true := by decide

/-- The arrival monitor never refuses what the write-order monitor accepts, and then nothing is left aside: on such
histories the two coincide (step from a started state; the first batch; whole histories). -/
theorem lmon_step_generalises (m m' : Mon) (ev : Ev) (hst : m.started = true) (h : m.step ev = some m') :
    (LMon.ofMon m).step ev = some (LMon.ofMon m') ∧ m'.started = true := by
  cases ev with
  | reset => simp [Mon.step] at h; subst h; simp [LMon.step, LMon.ofMon, hst]
  | batch e f n =>
    simp only [Mon.step, hst, Bool.not_true, Bool.false_eq_true, if_false] at h
    simp only [LMon.step, LMon.ofMon, hst, Bool.not_true, Bool.false_eq_true, if_false]
    split at h
    · simp at h
    · rename_i hr
      simp only [hr, if_false, Bool.false_eq_true]
      split at h
      · rename_i he
        simp only [he, if_true, LMon.sameEpoch]
        split at h
        · rename_i hf
          simp only [Option.some.injEq] at h; subst h
          simp [hf, LMon.absorb, hst]
        · rename_i hf
          split at h
          · rename_i hc
            simp only [Option.some.injEq] at h; subst h
            have hc' : (f, n) ∈ m.chain := by simpa using hc
            simp [hf, hc', hst]
          · simp at h
      · rename_i he
        simp only [he, if_false, Bool.false_eq_true]
        split at h
        · rename_i ha
          simp only [Option.some.injEq] at h; subst h
          simp only [Bool.and_eq_true, beq_iff_eq] at ha
          simp [ha.1, ha.2, LMon.sameEpoch, LMon.absorb]
        · simp at h

theorem lmon_first_generalises (e f n : Int) (m' : Mon) (h : ({} : Mon).step (.batch e f n) = some m') :
    (LMon.init f).step (.batch e f n) = some (LMon.ofMon m') ∧ m'.started = true := by
  simp only [Mon.step] at h
  simp only [LMon.step, LMon.init]
  split at h
  · simp at h
  · rename_i hr
    simp only [hr, if_false, Bool.false_eq_true]
    simp only [Bool.not_false, if_true, Option.some.injEq] at h
    subst h
    simp [LMon.sameEpoch, LMon.absorb, LMon.ofMon]

theorem lmon_generalises_from (es : List Ev) (m m' : Mon) (hst : m.started = true) (h : m.run es = some m') :
    (LMon.ofMon m).run es = some (LMon.ofMon m') ∧ (LMon.ofMon m').done = true := by
  induction es generalizing m with
  | nil => simp [Mon.run] at h; subst h; simp [LMon.run, LMon.done, LMon.ofMon]
  | cons e es ih =>
    simp only [Mon.run] at h
    cases hs : m.step e with
    | none => simp [hs] at h
    | some m1 =>
      simp only [hs] at h
      obtain ⟨h1, h2⟩ := lmon_step_generalises m m1 e hst hs
      simp only [LMon.run, h1]
      exact ih m1 h2 h

/-- Whole histories: a history the write-order monitor accepts, read as an arrival order by the arrival monitor started at
the first batch's sequence, is accepted with nothing left aside. -/
theorem lmon_generalises (e f n : Int) (es : List Ev) (m' : Mon) (h : Mon.run {} (.batch e f n :: es) = some m') :
    (LMon.init f).run (.batch e f n :: es) = some (LMon.ofMon m') ∧ (LMon.ofMon m').done = true := by
  simp only [Mon.run] at h
  cases hs : ({} : Mon).step (.batch e f n) with
  | none => simp [hs] at h
  | some m1 =>
    simp only [hs] at h
    obtain ⟨h1, h2⟩ := lmon_first_generalises e f n m1 hs
    simp only [LMon.run, h1]
    exact lmon_generalises_from es m1 m' h2 h

/-- the recorded arrival order of sweep seed 23 (`scen 2147483613 …`): 45+5 arrives, 68+5 arrives before 50+18 ever
did, then the re-sends; the numbering is one chain and nothing is left aside. Two batches with one first sequence, or
a batch that the chain never reaches, are still refused. -/
example : (((LMon.init 31).run [.batch 0 31 14, .batch 0 45 5, .batch 0 68 5, .batch 0 45 5, .batch 0 50 18, .batch 0 68 5, .batch 0 73 15]).map
    (fun m => (m.done, m.nextSeq))) = some (true, 88) := by decide
example : ((LMon.init 31).run [.batch 0 31 14, .batch 0 45 5, .batch 0 68 5, .batch 0 68 4]).isSome = false := by decide
example : (((LMon.init 31).run [.batch 0 31 14, .batch 0 45 5, .batch 0 68 5, .batch 0 50 17]).map (·.done)) = some false := by decide
/-- the first batch written (31+14) never arrives at first, nor does the first batch of the new epoch (0+3) -/
example : (((LMon.init 31).run [.batch 0 45 5, .batch 0 31 14, .reset, .batch 1 3 2, .batch 1 0 3]).map (fun m => (m.done, m.nextSeq))) = some (true, 5) := by decide

/-- a `.reset` seen before the first batch arrives stays pending: `1:0+1` (lost), reset, `1:1+1`, `2:0+1` -/
example : (((LMon.init 0).run [.reset, .batch 1 1 1, .batch 2 0 1]).map (fun m => (m.epoch, m.nextSeq))) = some (2, 1) := by decide

/-- **Soundness of the arrival monitor with respect to losses** (`Proof.C29Arrival`): a write order that `Mon` accepts, whose
epochs follow the `.reset` events (`Stamped`: every batch carries the current value of an epoch counter that every `.reset`
moves up — without this the statement is false, `Proof.C29Arrival.counterexample_reset_inside_epoch`, `…_epoch_reused`) and
which holds fewer than 2^31 records (`…counterexample_wrap`), is never refused by `LMon` in ANY view `sub` of it in which
an arbitrary set of batches, the first one included, is lost. -/
theorem lmon_sound_under_loss (e f n : Int) (es sub : List Ev) (m : Mon)
    (hacc : Mon.run {} (.batch e f n :: es) = some m) (hthin : Proof.C29Arrival.Thin (.batch e f n :: es) sub)
    (hst : Proof.C29Arrival.Stamped e (.batch e f n :: es))
    (hsum : Proof.C29Arrival.total (.batch e f n :: es) < 2147483648) :
    ((LMon.init f).run sub).isSome = true :=
  Proof.C29Arrival.arrival_never_refuses e f n es sub m hacc hthin hst hsum

/-- The same for the client model: for every schedule of client operations with fewer than 2^31 records written in all,
whatever subset of the written batches arrives, the arrival monitor (started at any sequence) does not refuse. -/
theorem client_lossy_histories (s : BitVec 32) (hs : s.toNat < 2147483648) (ops : List Model.C29C.Op) (sub : List Ev)
    (start : Int) (hthin : Proof.C29Arrival.Thin ((RecBuf.init s).wire ops) sub)
    (hsum : Proof.C29Arrival.total ((RecBuf.init s).wire ops) < 2147483648) :
    ((LMon.init start).run sub).isSome = true := by
  have hacc := client_all_histories s hs ops
  simp only [chainOk] at hacc
  cases hm : Mon.run {} ((RecBuf.init s).wire ops) with
  | none => simp [hm] at hacc
  | some m =>
    obtain ⟨l, hl, _⟩ := Proof.C29Arrival.arrival_sound start _ _ sub m hm hthin
      (Proof.C29Arrival.wire_stamped ops (RecBuf.init s)) hsum
    simp [hl]

end Client

end Props.C29
