import FranzVerif.Gen.C24
import FranzVerif.Model.C24
import FranzVerif.Proof.C24
/-! C24 — protocol tables are mutually consistent.

`Gen.C24.errTable`, `keyTable`, `relTables` are regenerated on every run by executing `kerr.ErrorForCode`,
`kerr.TypedErrorForCode`, `kmsg.RequestForKey/ResponseForKey/NameForKey` (+ `Key()`, `MaxVersion()`,
`ResponseKind()/RequestKind()`) and `LookupMaxKeyVersion` of every named `kversion` release of the tree
under verification on *every* `int16` value; the theorems below are re-checked against those dumps.

The three `*_checked` theorems are kernel evaluations of the interval-level checker over the dumps
(a few hundred runs each); `Proof.C24.table_sound` (cover lemma + soundness of the interval check) lifts
them to the quantified statements `∀ code : Int16`, `∀ key : Int16`, `∀ release, ∀ key : Int16`.
The quantifier of the property *is* a finite table, so this is a proof of the property for the dumped
tables; what ties the dumps to the code is the dumper (trusted, differentially re-run by the harness). -/
namespace Props.C24
open Model.C24 Gen.C24 Proof.C24

/-- `ErrorForCode c` / `TypedErrorForCode c` of the current tree (as dumped). -/
def errorForCode (c : Int16) : Option ErrOut := lookup errTable c.toInt
/-- `RequestForKey k`, `ResponseForKey k`, `NameForKey k` of the current tree (as dumped). -/
def msgsForKey (k : Int16) : Option KeyOut := lookup keyTable k.toInt

private theorem i16 (c : Int16) : -32768 ≤ c.toInt ∧ c.toInt ≤ 32767 := by
  have h1 := Int16.le_toInt c
  have h2 := Int16.toInt_lt c
  omega

/-! ## kerr: every code maps to an error carrying that code, 0 to none, unknown codes to UNKNOWN_SERVER_ERROR -/

/-- The dumped code table tiles int16 and every run passes the interval check of `errSpec`. -/
theorem err_table_checked : tableOk errSpec errUniform errTable = true := by decide +kernel

/-- For every int16 code the table answers, and the answer satisfies the Spec: `ErrorForCode` and
    `TypedErrorForCode` agree; 0 ↦ nil; a non-zero code ↦ an error whose `Code` is that code, or — only outside
    Kafka's code range −1…133 — UNKNOWN_SERVER_ERROR (code −1). -/
theorem err_every_code (c : Int16) : ∃ o, errorForCode c = some o ∧ errSpec c.toInt o = true :=
  table_sound errSpec errUniform errUniform_sound errTable err_table_checked c.toInt (i16 c).1 (i16 c).2

/-- Code 0 maps to no error (from both functions). -/
theorem err_code_zero : errorForCode 0 = some ⟨.nil, .nil⟩ := by decide +kernel

/-- Only code 0 maps to no error. -/
theorem err_nil_only_zero (c : Int16) (o : ErrOut) (h : errorForCode c = some o) (hn : o.efc = .nil) :
    c.toInt = 0 := by
  obtain ⟨o', h1, h2⟩ := err_every_code c
  rw [h] at h1; cases h1
  simp only [errSpec, hn, Bool.and_eq_true, beq_iff_eq] at h2
  exact h2.2

/-- Every returned error carries the code asked for, or is UNKNOWN_SERVER_ERROR (code −1) for a code outside −1…133. -/
theorem err_carries_code (c : Int16) (o : ErrOut) (v : ErrVal) (h : errorForCode c = some o) (hv : o.efc = .err v) :
    o.typed = .err v ∧
    (v.code = c.toInt ∨ (v.code = -1 ∧ v.msg = "UNKNOWN_SERVER_ERROR" ∧ (c.toInt < -1 ∨ 133 < c.toInt))) := by
  obtain ⟨o', h1, h2⟩ := err_every_code c
  rw [h] at h1; cases h1
  simp only [errSpec, hv, Bool.and_eq_true, beq_iff_eq, Bool.or_eq_true, decide_eq_true_eq, isUnknownServerError,
    refMaxCode] at h2
  refine ⟨h2.1.symm, ?_⟩
  rcases h2.2.2 with h3 | ⟨⟨h3, h4⟩, h5⟩
  · exact Or.inl h3
  · rcases h5 with h5 | h5
    · exact Or.inr ⟨h3, h4, Or.inl h5⟩
    · exact Or.inr ⟨h3, h4, Or.inr (of_decide_eq_true h5)⟩

/-- Every Kafka error code (−1 … 133 except 0) is known: it maps to an error carrying exactly that code. -/
theorem err_kafka_codes_known (c : Int16) (h1 : -1 ≤ c.toInt) (h2 : c.toInt ≤ 133) (h0 : c.toInt ≠ 0) :
    ∃ v, errorForCode c = some ⟨.err v, .err v⟩ ∧ v.code = c.toInt := by
  obtain ⟨o, ho, hs⟩ := err_every_code c
  obtain ⟨efc, typed⟩ := o
  cases efc with
  | nil => simp [errSpec, h0] at hs
  | other w => simp [errSpec] at hs
  | err v =>
    simp only [errSpec, Bool.and_eq_true, beq_iff_eq, Bool.or_eq_true, decide_eq_true_eq, refMaxCode] at hs
    obtain ⟨ht, _, hc⟩ := hs
    subst ht
    refine ⟨v, ho, ?_⟩
    rcases hc with hc | ⟨_, hc | hc⟩
    · exact hc
    · omega
    · have := of_decide_eq_true hc
      omega

/-! ## kmsg: request and response of every key agree on key, name and max version -/

theorem key_table_checked : tableOk keySpec keyUniform keyTable = true := by decide +kernel

/-- For every int16 key the dispatch answers and the answer satisfies `keySpec`. -/
theorem key_every_key (k : Int16) : ∃ o, msgsForKey k = some o ∧ keySpec k.toInt o = true :=
  table_sound keySpec keyUniform keyUniform_sound keyTable key_table_checked k.toInt (i16 k).1 (i16 k).2

/-- Spelled out: a key has neither a request nor a response type (and then no name), or it has both, both
    report that key, the same max version ≥ 0, and type names `<Name>Request` / `<Name>Response` where `<Name>` is
    `NameForKey`; `ResponseKind()`/`RequestKind()` point at each other's type. -/
theorem key_req_resp_agree (k : Int16) (o : KeyOut) (h : msgsForKey k = some o) :
    (o.req = .none ∧ o.resp = .none ∧ isNoName o.name = true) ∨
    (∃ q r, o.req = .msg q ∧ o.resp = .msg r ∧ q.key = k.toInt ∧ r.key = k.toInt ∧ q.max = r.max ∧ 0 ≤ q.max ∧
      q.stem = o.name ∧ r.stem = o.name ∧ q.kind = o.name ∧ r.kind = o.name ∧ isNoName o.name = false) := by
  obtain ⟨o', h1, h2⟩ := key_every_key k
  rw [h] at h1; cases h1
  obtain ⟨req, resp, name⟩ := o
  cases req <;> cases resp <;> simp [keySpec] at h2
  · exact Or.inl ⟨rfl, rfl, h2⟩
  · rename_i q r
    refine Or.inr ⟨q, r, rfl, rfl, ?_⟩
    obtain ⟨⟨⟨⟨⟨⟨⟨⟨a, b⟩, c⟩, d⟩, e⟩, f⟩, g⟩, i⟩, j⟩ := h2
    exact ⟨a, b, c, d, f, g, i, j, e⟩

/-- No key above `kmsg.MaxKey` (and no negative key) has a type, and `MaxKey` itself has one. -/
theorem key_bounded_by_MaxKey (k : Int16) (h : k.toInt < 0 ∨ maxKey < k.toInt) :
    ∃ o, msgsForKey k = some o ∧ o.req = .none ∧ o.resp = .none := by
  have hb : (keyTable.all fun e => (decide (0 ≤ e.lo) && decide (e.hi ≤ maxKey)) || (e.val.req == .none && e.val.resp == .none)) = true := by
    decide +kernel
  obtain ⟨e, hm, h3, h4, h5⟩ := lookup_of_covers keyTable int16Min int16Max k.toInt
    (by have := key_table_checked; simp only [tableOk, Bool.and_eq_true] at this; exact this.1) (i16 k).1 (i16 k).2
  have := (List.all_eq_true.mp hb) e hm
  simp only [Bool.or_eq_true, Bool.and_eq_true, decide_eq_true_eq, beq_iff_eq] at this
  refine ⟨e.val, h5, ?_⟩
  rcases this with ⟨h6, h7⟩ | h8
  · omega
  · exact h8

/-! ## kversion: no named release allows a version beyond the codec's -/

/-- Every dumped release table tiles int16 and every run passes the interval check of `relSpec` against the
    dumped codec table. -/
theorem rel_tables_checked : (relTables.all fun r => relTableOk keyTable r.2) = true := by decide +kernel

/-- For every named release and every int16 key the release answers, and `relSpec` holds of that answer together
    with the codec's maxima for the key. -/
theorem release_every_key (name : String) (t : List (Entry RelVal)) (hr : (name, t) ∈ relTables) (k : Int16) :
    ∃ v, lookup t k.toInt = some v ∧ relPoint keyTable k.toInt v = true :=
  table_sound (relPoint keyTable) relUniform (relUniform_sound keyTable) t
    ((List.all_eq_true.mp rel_tables_checked) (name, t) hr) k.toInt (i16 k).1 (i16 k).2

/-- Spelled out: if a named release has a key, the codec has a request and a response type for that key and the
    release's max version is within `[0, MaxVersion()]` of both; if it has not, the lookup answers −1. -/
theorem release_within_codec (name : String) (t : List (Entry RelVal)) (hr : (name, t) ∈ relTables) (k : Int16)
    (v : RelVal) (h : lookup t k.toInt = some v) :
    (v.has = true → ∃ o q r, msgsForKey k = some o ∧ o.req = .msg q ∧ o.resp = .msg r ∧
        0 ≤ v.max ∧ v.max ≤ q.max ∧ v.max ≤ r.max) ∧
    (v.has = false → v.max = -1) := by
  obtain ⟨v', h1, h2⟩ := release_every_key name t hr k
  rw [h] at h1; cases h1
  constructor
  · intro hh
    obtain ⟨o, ho, _⟩ := key_every_key k
    have ho' : lookup keyTable k.toInt = some o := ho
    simp only [relPoint, relSpec, codecOf, ho', hh, if_true, Bool.and_eq_true, decide_eq_true_eq] at h2
    obtain ⟨req, resp, nm⟩ := o
    cases req <;> cases resp <;> simp [reqMaxOf, respMaxOf] at h2
    exact ⟨_, _, _, ho, rfl, rfl, h2.1, h2.2.1, h2.2.2⟩
  · intro hh
    simpa [relPoint, relSpec, hh] using h2

/-- The release list has at least the exported constructors (whose set the dumper cross-checks against a go/ast
    scan of the kversion sources) and no name twice. -/
theorem releases_listed : numCtors ≤ relTables.length ∧ (relTables.map (·.1)).Nodup ∧
    "Stable" ∈ relTables.map (·.1) ∧ "Tip" ∈ relTables.map (·.1) := by decide +kernel

/-! ## non-vacuity -/

/-- the code table has known errors (a run carrying a code other than −1) and an unknown region -/
example : (errTable.any fun e => match e.val.efc with | .err v => v.code != -1 && v.code == e.lo | _ => false) = true ∧
    (errTable.any fun e => decide (e.lo < e.hi) && errUniform e.lo e.hi e.val) = true := by decide +kernel
/-- code 45 carries 45 (OUT_OF_ORDER_SEQUENCE_NUMBER in the pinned tree) -/
example : (match errorForCode 45 with | some ⟨.err v, _⟩ => v.code == 45 | _ => false) = true := by decide +kernel
/-- some key has a request and a response, some key has neither -/
example : (keyTable.any fun e => match e.val.req, e.val.resp with | .msg _, .msg _ => true | _, _ => false) = true ∧
    (keyTable.any fun e => e.val.req == .none && e.val.resp == .none) = true := by decide +kernel
/-- some named release has key 0 with a positive max version: the hypothesis `v.has = true` of
    `release_within_codec` is satisfiable -/
example : (relTables.any fun r => match lookup r.2 0 with | some v => v.has && decide (0 < v.max) | none => false) = true := by
  decide +kernel
/-- the Specs are not trivially true: a wrong carried code, disagreeing max versions, a release beyond the codec -/
example : errSpec 1 ⟨.err ⟨2, "CORRUPT_MESSAGE", true⟩, .err ⟨2, "CORRUPT_MESSAGE", true⟩⟩ = false := by decide
example : keySpec 0 ⟨.msg ⟨0, 13, "Produce", "Produce"⟩, .msg ⟨0, 12, "Produce", "Produce"⟩, "Produce"⟩ = false := by decide
example : relSpec ⟨⟨14, true⟩, some 13, some 13⟩ = false := by decide
example : relSpec ⟨⟨0, true⟩, none, none⟩ = false := by decide

end Props.C24
