import FranzVerif.Model.C30
import FranzVerif.Proof.C30
import FranzVerif.Proof.C30Ring
import FranzVerif.Proof.C30Proto
import FranzVerif.Proof.C30Spec
import FranzVerif.Proof.C30SpecRing
/-! C30 — "Work queues and work latches never lose or duplicate work".

Models: `Model.C30` (`workLoop` as a CAS automaton with one action per atomic Load/CAS/Store; `ring[T]` as a
monitor with one action per critical section, `cond.Wait` split into park / resume).  Every theorem below
quantifies over an arbitrary number of threads and an arbitrary action list (= every interleaving); nothing is
bounded.  The models are tied to the current source by the schedule-differential run (harness/cmd/c30: the
source files are copied and their sync primitives swapped for scheduler-controlled shims; the driver executes
`LS.step` / `QS.step` / `Ring.*` on the same schedule and compares every return value and the final contents).

Spec (evaluated by the driver on the implementation's event log, see `Driver/C30.lean`):
 latch — at any point at most one thread is between a `maybeBegin` that returned true and its `maybeFinish` that
         returned false (or its `hardFinish`); every completed `maybeBegin` not followed by a `hardFinish` is
         followed by a loop iteration;
 ring  — at most one worker (between `first = true` and `more = false`); the elements handed to workers are exactly
         the accepted elements, each once, in push order; a push blocks only while the bounded ring is full and
         alive; pushes linearised after `die` return dead; no thread stays blocked at the end. -/
namespace Props.C30
open Model.C30 Proof.C30

/-! ## Work latch -/

/-- Reachable latch states: `n` threads, any list of (thread, choice) actions. -/
def LReach (n : Nat) (as : List (Nat × Choice)) (s : LS) : Prop := (LS.init n).run as = some s

/-- **Never two workers.** With the usage protocol (`if maybeBegin() { go loop }`, the loop calls
    `maybeFinish`/`hardFinish`; no other caller), for any number of threads and any interleaving, the number of
    threads between a `maybeBegin` that returned true and the `maybeFinish` that returns false is 0 when the
    state is `unstarted` and exactly 1 otherwise. -/
theorem latch_workers_eq (n : Nat) (as : List (Nat × Choice)) (s : LS) (hp : protoOnly as) (h : LReach n as s) :
    s.workers = if s.st = .unstarted then 0 else 1 := by
  have := (linv_run as hp (linv_init n) h).cnt
  rw [workers_eq]; exact this

theorem latch_single_worker (n : Nat) (as : List (Nat × Choice)) (s : LS) (hp : protoOnly as) (h : LReach n as s) :
    s.workers ≤ 1 := by
  have := latch_workers_eq n as s hp h
  split at this <;> omega

/-- **No lost wake-up (safety form).** `pending` = some `maybeBegin` has completed and no loop iteration has
    started its work since (a `hardFinish` discards it: documented contract, the strand is moot or the caller
    re-triggers). Then a worker is at the top of an iteration, or the state is `continue` and the worker is inside
    `maybeFinish` — from where it can only return true (`latch_continue_is_answered`). -/
theorem latch_no_lost_wakeup (n : Nat) (as : List (Nat × Choice)) (s : LS) (hp : protoOnly as) (h : LReach n as s)
    (hpend : s.pending = true) :
    Loc.work ∈ s.pcs ∨ (s.st = .cont ∧ ∃ pc, Loc.fin pc ∈ s.pcs) := by
  rcases (linv_run as hp (linv_init n) h).pend hpend with hw | ⟨hc, hf⟩
  · left
    obtain ⟨a, ha, hpa⟩ := mem_of_countP_pos hw
    cases a <;> simp [pW] at hpa
    exact ha
  · right
    refine ⟨hc, ?_⟩
    obtain ⟨a, ha, hpa⟩ := mem_of_countP_pos hf
    cases a <;> simp [pF] at hpa
    exact ⟨_, ha⟩

/-- The same without the `hardFinish` contract: if no `hardFinish` occurs in the run, a signal is never dropped
    (`pendingStrict` is not cleared by `hardFinish`). `latch_hardFinish_strands` shows the hypothesis is needed. -/
theorem latch_no_lost_wakeup_strict (n : Nat) (as : List (Nat × Choice)) (s : LS) (hp : protoOnly as) (hh : noHard as)
    (h : LReach n as s) (hpend : s.pendingStrict = true) :
    Loc.work ∈ s.pcs ∨ (s.st = .cont ∧ ∃ pc, Loc.fin pc ∈ s.pcs) := by
  have he := strict_run as hh (s := LS.init n) rfl h
  exact latch_no_lost_wakeup n as s hp h (by rw [← he]; exact hpend)

/-- Progress of a recorded signal: in state `continue` a worker inside `maybeFinish` reaches the top of the next
    iteration in at most two of its own steps, whatever `again` it passed … -/
theorem latch_continue_is_answered (c : Choice) :
    (∀ again, tstep .cont (.fin (.load again)) c = some (.cont, .fin .store, .none)) ∧
    (∀ st, tstep st (.fin .store) c = some (.working, .work, .finishRet true)) ∧
    tstep .cont (.fin .cas) c = some (.cont, .work, .finishRet true) := by
  refine ⟨fun again => ?_, fun st => ?_, ?_⟩ <;> simp [tstep, mfStep]

/-- … and nobody but the worker can take the state out of `continue` (protocol actions of threads outside the loop
    leave it alone), so the signal cannot be lost in between. -/
theorem latch_continue_is_stable (l : Loc) (c : Choice) (st' : WS) (l' : Loc) (ev : Ev)
    (hl : l.isWorker = false) (hc : c.isRaw = false) (hr : l.isRaw = false)
    (h : tstep .cont l c = some (st', l', ev)) : st' = .cont := by
  cases l <;> simp [Loc.isWorker, Loc.isRaw] at hl hr
  · cases c <;> simp [tstep, mbStep, Choice.isRaw] at h hc
    exact h.1.symm
  · rename_i pc; cases pc <;> simp [tstep, mbStep] at h <;> exact h.1.symm

/-- Deadlock freedom: the latch never blocks — every thread inside a call or a loop has an enabled action, and an
    idle thread can always signal. -/
theorem latch_never_blocks (st : WS) (l : Loc) : ∃ c, (tstep st l c).isSome = true := by
  cases l with
  | idle => exact ⟨.begin, by cases st <;> simp [tstep, mbStep]⟩
  | work => exact ⟨.work false, by simp [tstep]⟩
  | beg pc => exact ⟨.begin, by cases pc <;> cases st <;> simp [tstep, mbStep]⟩
  | fin pc => exact ⟨.begin, by rcases pc with (_ | _) | _ | _ <;> cases st <;> simp [tstep, mfStep]⟩
  | rawB pc => exact ⟨.begin, by cases pc <;> cases st <;> simp [tstep, mbStep]⟩
  | rawF pc => exact ⟨.begin, by rcases pc with (_ | _) | _ | _ <;> cases st <;> simp [tstep, mfStep]⟩

/-- **Model ⊨ Spec.** The event log of every protocol run of the model — any number of threads, any interleaving —
    passes the executable Spec the driver evaluates on the implementation's logs: the single-worker scan always,
    and the no-lost-wake-up scan on every completed run (all threads back to idle). -/
theorem latch_model_satisfies_spec (n : Nat) (as : List (Nat × Choice)) (s : LS) (evs : List Spec.C30.LEv)
    (hp : protoOnly as) (hr : runEv (LS.init n) as = some (s, evs)) :
    Spec.C30.latchSingle evs = true ∧ ((∀ l ∈ s.pcs, l = Loc.idle) → Spec.C30.latchSpec evs = none) := by
  have h1 : Spec.C30.latchSingle evs = true := by
    have := single_run as evs hp (linv_init n) hr
    have hw : (LS.init n).workers = 0 := by simp [LS.init, LS.workers, List.countP_replicate, Loc.isWorker]
    rw [hw] at this; exact this
  refine ⟨h1, fun hidle => ?_⟩
  have hrun := run_of_runEv as evs hr
  have hpend : s.pending = false := by
    cases hpd : s.pending
    · rfl
    · rcases latch_no_lost_wakeup n as s hp hrun hpd with hw | ⟨_, pc, hf⟩
      · cases hidle _ hw
      · cases hidle _ hf
  have h2 : Spec.C30.latchNoLost evs = true := by
    apply noLost_of_not_pending
    have := pending_run as evs hr
    rw [hpend] at this
    exact this.symm
  simp [Spec.C30.latchSpec, h1, h2]

/-- non-vacuity: a completed 2-thread run with a re-loop and its log -/
example : ∃ s evs, runEv (LS.init 2) [(0, .begin), (0, .begin), (1, .begin), (1, .begin), (0, .work false), (0, .begin),
      (0, .begin), (0, .work false), (0, .begin), (0, .begin)] = some (s, evs) ∧ (∀ l ∈ s.pcs, l = Loc.idle) ∧
    evs = [.beginRet 0 true, .beginRet 1 false, .worked 0, .finishRet 0 true, .worked 0, .finishRet 0 false] :=
  ⟨_, _, rfl, by decide, by decide⟩

/-- Non-vacuity: three threads; 0 starts the loop, 1 signals while it works (state → continue, pending), the
    worker's `maybeFinish(false)` re-loops instead of stopping, works again, then stops. -/
example : ∃ s, LReach 3 [(0, .begin), (0, .begin), (1, .begin), (1, .begin), (0, .work false), (0, .begin)] s ∧
    s.st = .cont ∧ s.workers = 1 ∧ s.pending = false := ⟨_, rfl, by decide⟩
example : ∃ s, LReach 3 [(0, .begin), (0, .begin), (0, .work false), (1, .begin), (1, .begin)] s ∧
    s.st = .cont ∧ s.pending = true ∧ s.pcs = [.fin (.load false), .idle, .idle] := ⟨_, rfl, by decide⟩

/-- The `hardFinish` hypothesis is needed: with a `hardFinish` by the worker, a signal recorded before it is
    dropped — state `unstarted`, no worker, signal unanswered (the strand the source comment documents). -/
theorem latch_hardFinish_strands :
    ∃ s, LReach 2 [(0, .begin), (0, .begin), (1, .begin), (1, .begin), (0, .hard)] s ∧
      s.pendingStrict = true ∧ s.workers = 0 ∧ s.st = .unstarted := ⟨_, rfl, by decide⟩

/-- The protocol hypothesis is needed: a `hardFinish` from outside the loop lets a second worker start. -/
theorem latch_outside_hardFinish_two_workers :
    ∃ s, LReach 2 [(0, .begin), (0, .begin), (1, .rawHard), (1, .begin), (1, .begin)] s ∧ s.workers = 2 :=
  ⟨_, rfl, by decide⟩

/-! ## Ring: refinement of a FIFO queue -/

/-- Abstract FIFO queue (the Spec the ring refines). -/
structure AQ where
  q : List Nat := []
  dead : Bool := false

/-- abstract push: rejected iff dead; `first` iff the queue was empty -/
def AQ.push (a : AQ) (e : Nat) : AQ × Bool × Bool :=
  if a.dead then (a, false, true) else ({ a with q := a.q ++ [e] }, a.q.isEmpty, false)
/-- abstract dropPeek: drop the head, return the new head and whether there is one -/
def AQ.dropPeek (a : AQ) : AQ × Nat × Bool × Bool :=
  ({ a with q := a.q.tail }, a.q.tail.headD 0, !a.q.tail.isEmpty, a.dead)

/-- the abstraction function -/
def absQ (r : Ring) : AQ := { q := r.abs, dead := r.dead }

/-- representation invariant: `cap = 0` (zero value) or `cap ≥ 8`, `head < cap`, `l ≤ cap` -/
abbrev RingWF := WF

/-- **Push refines FIFO append / blocks only while full / dead rejects.** From `Lock` or after a wake-up, for a
    well-formed ring whose `maxLen > 0` was set through `initMaxLen`, `doPush` never panics and
    (a) parks iff `wait` ∧ `maxLen > 0` ∧ `l ≥ maxLen` ∧ not dead, changing nothing else;
    (b) otherwise on a dead ring returns `(false, true)` and changes nothing;
    (c) otherwise returns `(first, false)` with `first` ⇔ the queue was empty, and the abstract queue gets the
        element appended — through `head/l/cap` arithmetic, including the grow path (`resize(max(2·cap, 8))`). -/
theorem ring_push_refines (r : Ring) (t e : Nat) (wait : Bool) (hwf : RingWF r) (hinit : r.maxLen > 0 → r.hasCond = true) :
    ((wait = true ∧ r.maxLen > 0 ∧ (r.l : Int) ≥ r.maxLen ∧ r.dead = false) ∧
        r.pushFrom t e wait = .ok ({ r with parked := r.parked ++ [t] }, .blocked)) ∨
    (¬ (wait = true ∧ r.maxLen > 0 ∧ (r.l : Int) ≥ r.maxLen ∧ r.dead = false) ∧
      ∃ r' first dead, r.pushFrom t e wait = .ok (r', .done first dead) ∧ RingWF r' ∧
        (absQ r', first, dead) = (absQ r).push e ∧ r'.parked = r.parked ∧ r'.woken = r.woken ∧
        r'.maxLen = r.maxLen ∧ r'.hasCond = r.hasCond) := by
  have hnw : (wait && r.needWait) = true ↔ (wait = true ∧ r.maxLen > 0 ∧ (r.l : Int) ≥ r.maxLen ∧ r.dead = false) := by
    simp [Ring.needWait, and_assoc]
  rcases pushFrom_cases r t e wait hwf hinit with ⟨h1, _, _, _, h⟩ | ⟨h1, hd, h⟩ | ⟨h1, hd, r', h, hwf', ha, hl, hm, hc, hdd, hp, hw⟩
  · left; exact ⟨hnw.mp h1, h⟩
  · right
    refine ⟨fun hc => (by rw [hnw.mpr hc] at h1; cases h1), r, false, true, h, hwf, ?_, rfl, rfl, rfl, rfl⟩
    simp [AQ.push, absQ, hd]
  · right
    refine ⟨fun hc => (by rw [hnw.mpr hc] at h1; cases h1), r', _, false, h, hwf', ?_, hp, hw, hm, hc⟩
    have hlen := abs_length r (wf_len r hwf)
    simp only [AQ.push, absQ, hd, ha, hdd, Bool.false_eq_true, if_false]
    congr 2
    cases hq : r.abs with
    | nil => rw [hq] at hlen; simp at hlen; simp [← hlen]
    | cons a t => rw [hq] at hlen; simp at hlen; simp; omega

/-- **dropPeek refines FIFO pop.** On a non-empty well-formed ring `dropPeek` never panics, removes the head of the
    abstract queue, returns the new head and `more` ⇔ the queue is still non-empty (through head/len arithmetic
    including the shrink path `resize(8)`), and its Signal wakes at most one parked pusher. -/
theorem ring_dropPeek_refines (r : Ring) (k : Nat) (hwf : RingWF r) (hne : 0 < r.l) :
    ∃ r' next more dead, r.dropPeek k = .ok (r', next, more, dead) ∧ RingWF r' ∧
      (absQ r', next, more, dead) = (absQ r).dropPeek ∧
      r'.parked = (afterSignal r k).parked ∧ r'.woken = (afterSignal r k).woken ∧
      r'.maxLen = r.maxLen ∧ r'.hasCond = r.hasCond := by
  obtain ⟨r', hd, hwf', ha, hl, hm, hc, hdd, hp, hw⟩ := dropPeek_spec r k hwf hne
  refine ⟨r', _, _, _, hd, hwf', ?_, hp, hw, hm, hc⟩
  have hlen := abs_length r' (wf_len r' hwf')
  have e2 : decide (0 < r'.l) = !r'.abs.isEmpty := by
    cases hq : r'.abs with
    | nil => rw [hq] at hlen; simp at hlen; simp [← hlen]
    | cons a t => rw [hq] at hlen; simp at hlen; simp; omega
  simp only [AQ.dropPeek, absQ, hdd, ← ha, e2]

/-- On an empty ring `dropPeek` changes nothing and reports `more = false`. -/
theorem ring_dropPeek_empty (r : Ring) (k : Nat) (h : r.l = 0) : r.dropPeek k = .ok (r, 0, false, r.dead) := by
  simp [Ring.dropPeek, h]

/-- **Resize (grow and shrink) keeps the contents**: for any target capacity that holds the elements, `resize`
    does not panic and the abstract queue is unchanged; the buffer is re-linearised at head 0. -/
theorem ring_resize_preserves (r : Ring) (c : Nat) (hwf : RingWF r) (hc : r.l ≤ c) (h8 : 8 ≤ c) :
    ∃ r', r.resize c = .ok r' ∧ RingWF r' ∧ r'.abs = r.abs ∧ r'.head = 0 ∧ r'.elems.length = c ∧ r'.l = r.l := by
  obtain ⟨r', h, hwf', ha, hl, hlen, hh, _⟩ := resize_wf r c hwf hc h8 (Or.inr trivial)
  exact ⟨r', h, hwf', ha, hh, hlen, hl⟩

/-- **die**: marks the ring dead, keeps the contents, and wakes every parked pusher. -/
theorem ring_die_wakes (r : Ring) (hwf : RingWF r) (hc : CondInv r) :
    r.die.dead = true ∧ r.die.parked = [] ∧ r.die.abs = r.abs ∧ RingWF r.die ∧
      (∀ t, t ∈ r.parked → t ∈ r.die.woken) := by
  obtain ⟨h1, _, _, h4, h5, h6⟩ := die_inv r hwf hc
  refine ⟨h5, h6, h4, h1, ?_⟩
  intro t ht
  cases hcnd : r.hasCond
  · rw [hc.noCond hcnd] at ht; cases ht
  · simp [Ring.die, hcnd, Ring.broadcast, ht]

/-- non-vacuity: a wrapped ring (cap 8, head 6, 3 elements 7,8,9 stored at 6,7,0) is well formed, its abstraction
    reads through the wrap, and a push lands at index 1 -/
example : let r : Ring := { elems := [9,0,0,0,0,0,7,8], head := 6, l := 3 }
    RingWF r ∧ r.abs = [7,8,9] ∧ (r.pushTail 5).toOption.map (fun x => (x.1.elems, x.1.abs)) = some ([9,5,0,0,0,0,7,8], [7,8,9,5]) := by
  refine ⟨Or.inr ⟨by decide, by decide, by decide⟩, by decide, by decide⟩

/-- non-vacuity of the grow path with a wrapped buffer: 8 elements at head 5, the 9th push re-linearises into cap 16 -/
example : let r : Ring := { elems := [4,5,6,7,8,1,2,3], head := 5, l := 8 }
    RingWF r ∧ (r.pushTail 9).toOption.map (fun x => (x.1.elems, x.1.head, x.2.1)) = some ([1,2,3,4,5,6,7,8,9,0,0,0,0,0,0,0], 0, false) := by
  refine ⟨Or.inr ⟨by decide, by decide, by decide⟩, by decide⟩

/-! ## Ring + usage protocol (`if first { go worker(e) }` / `process; e, more, _ = dropPeek(); if more goto start`) -/

/-- **At most one worker; a worker exists iff the queue is non-empty.** Any number of threads, any interleaving of
    blocking pushes, forced pushes, resumes, dropPeeks, `die` and `empty`, from a fresh ring. -/
theorem queue_single_worker (r0 : Ring) (n : Nat) (s : QS) (h0 : freshRing r0) (h : QReach r0 n s) :
    s.workers ≤ 1 ∧ (s.workers = 1 ↔ s.r.abs ≠ []) := by
  have hI := qinv_reach h0 h
  have hw := hI.w
  have hlen := abs_length s.r (wf_len s.r hI.wf)
  by_cases hz : s.r.l = 0
  · rw [if_pos hz] at hw
    have : s.r.abs = [] := abs_nil_of_l0 s.r hz
    simp [hw, this]
  · rw [if_neg hz] at hw
    refine ⟨by omega, fun _ => ?_, fun _ => hw⟩
    intro h; rw [h] at hlen; simp at hlen; omega

/-- **Exactly once, in push order.** `accepted` = elements whose push returned `dead = false`, in the order of the
    push critical sections; `handed` = elements given to workers, in order. At every reachable state
    `handed ++ (queue minus the element being processed) = accepted`; hence `handed` is a prefix of `accepted`
    (nothing duplicated, reordered or invented) and when the queue is empty everything accepted has been handed. -/
theorem queue_exactly_once_in_order (r0 : Ring) (n : Nat) (s : QS) (h0 : freshRing r0) (h : QReach r0 n s) :
    s.handed ++ s.r.abs.tail = s.accepted ∧ (s.r.abs = [] → s.handed = s.accepted) := by
  have hI := qinv_reach h0 h
  refine ⟨hI.q, fun he => ?_⟩
  have := hI.q; rw [he] at this; simpa using this

/-- **The Go code never panics** in any reachable state of the protocol (index, slice and divide-by-zero sites of
    `doPush`, `resize`, `dropPeek` are modelled as explicit errors). -/
theorem queue_never_panics (r0 : Ring) (n : Nat) (s : QS) (h0 : freshRing r0) (h : QReach r0 n s) (i : Nat) (a : QAct) :
    ∃ o, s.step i a = .ok o :=
  qstep_no_panic s i a (qinv_reach h0 h)

/-- **Blocked pushers are not forgotten.** If any pusher is parked then the ring is alive, bounded and full even
    counting the slots already promised to woken pushers (`l + |woken| ≥ maxLen`): every `dropPeek` that frees a
    slot while someone is parked moves a pusher to `woken`. A dead ring has no parked pusher. -/
theorem queue_no_lost_pusher_wakeup (r0 : Ring) (n : Nat) (s : QS) (h0 : freshRing r0) (h : QReach r0 n s) :
    (s.r.parked ≠ [] → s.r.dead = false ∧ s.r.hasCond = true ∧ (s.r.l : Int) + s.r.woken.length ≥ s.r.maxLen) ∧
    (s.r.dead = true → s.r.parked = []) := by
  have hc := (qinv_reach h0 h).cond
  refine ⟨fun hp => ⟨?_, ?_, hc.noLost hp⟩, hc.deadWakes⟩
  · cases hd : s.r.dead
    · rfl
    · exact absurd (hc.deadWakes hd) hp
  · cases hd : s.r.hasCond
    · exact absurd (hc.noCond hd) hp
    · rfl

/-- **Model ⊨ Spec.** For every protocol run of the model from a fresh ring — any number of threads, any
    interleaving of blocking/forced pushes, resumes, dropPeeks, die, empty — the executable Spec the driver evaluates
    on the implementation's logs replays the run's event log without error (FIFO order, `first` iff empty, dead
    rejects, blocks only while full, completes a blocking push only when not full, never two workers); and on a
    completed run (all threads idle) the whole `ringSpec` holds: everything accepted was handed exactly once in push
    order, the queue is empty, no worker and no blocked pusher remains. -/
theorem queue_model_satisfies_spec (r0 : Ring) (n : Nat) (as : List (Nat × QAct)) (s : QS) (evs : List Spec.C30.REv)
    (h0 : freshRing r0) (hr : qrunEv (QS.init r0 n) as = some (s, evs)) :
    (∃ σ, Spec.C30.ringSpec.go r0.maxLen true evs {} = .ok σ) ∧
    ((∀ l ∈ s.pcs, l = QLoc.idle) → Spec.C30.ringSpec r0.maxLen true evs [] = none) := by
  have hrel0 : Rel (QS.init r0 n) {} := by
    rcases h0 with h | ⟨m, h⟩ <;> subst h <;>
      exact ⟨rfl, rfl, by simp [QS.init, QS.workers, List.countP_replicate], rfl, rfl⟩
  obtain ⟨σ, hgo, ⟨hq, hd, hw, hh, ha⟩, hI, _⟩ := sim_run _ s as evs {} (qinv_init r0 n h0) hrel0 hr
  have hgo' : Spec.C30.ringSpec.go r0.maxLen true evs {} = .ok σ := hgo
  refine ⟨⟨σ, hgo'⟩, fun hidle => ?_⟩
  have hw0 : s.workers = 0 := by
    unfold QS.workers
    rw [List.countP_eq_zero]
    intro l hl; rw [hidle l hl]; simp
  have hl0 : s.r.l = 0 := by
    have := hI.w; rw [hw0] at this
    by_cases h : s.r.l = 0
    · exact h
    · rw [if_neg h] at this; cases this
  have habs : s.r.abs = [] := abs_nil_of_l0 s.r hl0
  have hha : σ.handed = σ.accepted := by
    have := hI.q; rw [habs] at this; simp at this; rw [hh, ha]; exact this
  simp [Spec.C30.ringSpec, hgo', hha, hq, habs, hw, hw0]

/-- non-vacuity of the Spec theorem: the bounded run of the example below, completed, with its event log -/
example : ∃ s evs, qrunEv (QS.init (Ring.initMaxLen 2) 3) [(0, .push 1 true), (2, .push 2 true), (1, .push 3 true),
      (0, .dropPeek 0), (1, .resume), (2, .die), (0, .dropPeek 0), (0, .dropPeek 0), (2, .push 9 false)] = some (s, evs) ∧
    (∀ l ∈ s.pcs, l = QLoc.idle) ∧
    evs = [.push 0 1 true true true false, .handed 0 1, .push 2 2 true true false false, .blocked 1,
           .drop 0 true 2 true false, .handed 0 2, .push 1 3 true true false false, .die 2,
           .drop 0 true 3 true true, .handed 0 3, .drop 0 true 0 false true, .push 2 9 false true false true] :=
  ⟨_, _, rfl, by decide, by decide⟩

/-- non-vacuity: bounded ring (maxLen 2), thread 0 pushes twice (becomes the worker at the first), thread 1 blocks
    on the third push, the worker's dropPeek wakes it, it resumes and pushes; then `die`. -/
example : ∃ s, QReach (Ring.initMaxLen 2) 3 s ∧ s.accepted = [1, 2, 3] ∧ s.handed = [1, 2] ∧ s.workers = 1 ∧
    s.r.abs = [2, 3] ∧ s.r.dead = true := by
  have hr : ∃ s, (QS.init (Ring.initMaxLen 2) 3).run [(0, .push 1 true), (2, .push 2 true), (1, .push 3 true),
      (0, .dropPeek 0), (1, .resume), (2, .die)] = some s ∧ s.accepted = [1, 2, 3] ∧ s.handed = [1, 2] ∧ s.workers = 1 ∧
      s.r.abs = [2, 3] ∧ s.r.dead = true := ⟨_, rfl, by decide⟩
  obtain ⟨s, h, hp⟩ := hr
  exact ⟨s, qreach_run _ QReach.init h, hp⟩

end Props.C30
