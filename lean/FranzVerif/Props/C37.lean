import FranzVerif.Model.C37
import FranzVerif.Proof.C37
/-! C37 — property theorems: the kotel record carrier is a string map over record headers, and a
trace context injected through it is extracted unchanged.

All statements quantify over every header list (duplicate keys, empty keys, nil/empty values
included) and every key/value; the sequence laws over every sequence of `Set`s. The model
(`cget/cset/ckeys`) is tied to plugin/kotel/carrier.go by the differential run. -/
namespace Props.C37
open Model.C37 Proof.C37

/-- After `Set(k, v)`, `Get(k)` returns `v` — also when `k` occurs several times in the headers. -/
theorem get_after_set (h : List Hdr) (k v : Bytes) : cget (cset h k v) k = v :=
  get_set_same h k v

/-- `Set(k, v)` does not change what `Get` answers for any other key. -/
theorem get_other_after_set (h : List Hdr) (k v k' : Bytes) (hne : k' ≠ k) :
    cget (cset h k v) k' = cget h k' :=
  get_set_other h k v k' hne

/-- No other header changes: `Set` rewrites exactly the first header whose key is `k` (key kept, value
`v`, everything before and after untouched), or appends `(k, v)` when no header has key `k`. -/
theorem set_changes_one_header (h : List Hdr) (k v : Bytes) :
    (∃ pre x post, h = pre ++ x :: post ∧ x.key = k ∧ (∀ y ∈ pre, y.key ≠ k) ∧
        cset h k v = pre ++ ⟨k, some v⟩ :: post) ∨
    ((∀ y ∈ h, y.key ≠ k) ∧ cset h k v = h ++ [⟨k, some v⟩]) :=
  set_shape h k v

/-- `Keys` lists the header keys in header order (duplicates included), and `Set` adds the key at the end
exactly when it was absent. -/
theorem keys_lists_header_keys (h : List Hdr) (k v : Bytes) :
    ckeys h = h.map (·.key) ∧ ckeys (cset h k v) = if k ∈ ckeys h then ckeys h else ckeys h ++ [k] :=
  ⟨keys_eq_map h, keys_set h k v⟩

/-- The executable Spec that the driver evaluates on the implementation's observations holds of the model
for every `Set`. -/
theorem set_satisfies_spec (h : List Hdr) (k v : Bytes) :
    specSet (obs h k) k v (obs (cset h k v) k) = true := by
  simp only [specSet, obs, specKeys, Bool.and_eq_true, beq_iff_eq]
  refine ⟨⟨⟨get_set_same h k v, keys_eq_map _⟩, changeOK_set h k v⟩, ?_⟩
  obtain ⟨extra, he⟩ := map_get_set_prefix h k v (fun key => cget (cset h k v) key)
  rw [he]
  exact othersSame_prefix k h _ _ extra (othersSame_set_aux k v h h)

/-- Reads (`Get`, `Keys`) satisfy the read Spec: nothing changes, `Get k` is the value of the first header
with key `k`, or "" when no header has it. -/
theorem read_satisfies_spec (h : List Hdr) (k0 k : Bytes) :
    specRead (obs h k0) k (obs h k) = true ∧ (k ∉ ckeys h → cget h k = []) := by
  refine ⟨?_, fun hk => get_absent h k (by rw [← keys_eq_map]; exact hk)⟩
  simp only [specRead, obs, specKeys, Bool.and_eq_true, beq_iff_eq]
  refine ⟨⟨⟨trivial, trivial⟩, keys_eq_map _⟩, ?_⟩
  rw [expectGet_eq h h k (fun _ hx => hx)]
  split
  · rfl
  · rename_i hk; exact get_absent h k hk

/-- Sequence law (what a TextMap propagator needs): after any sequence of `Set`s, `Get(k)` is the LAST
value set for `k`, or what the original headers gave when `k` was never set. -/
theorem get_after_set_sequence (h : List Hdr) (kvs : List (Bytes × Bytes)) (k : Bytes) :
    cget (setAll h kvs) k = (lastVal kvs k).getD (cget h k) := by
  induction kvs using rev_ind with
  | hnil => simp [setAll, lastVal]
  | snoc kvs kv ih =>
    rw [setAll_append, lastVal_append]
    by_cases hk : kv.1 = k
    · subst hk; simp [get_set_same]
    · have : k ≠ kv.1 := fun h => hk h.symm
      rw [get_set_other _ _ _ _ this, ih]; simp [hk]

/-- Inject-then-extract through the carrier: if the injected keys are pairwise distinct, extracting every
injected key returns exactly the injected values, whatever headers (duplicates of those keys included)
the record carried before. -/
theorem inject_then_extract (h : List Hdr) (kvs : List (Bytes × Bytes))
    (hnd : (kvs.map (·.1)).Nodup) :
    kvs.map (fun kv => cget (setAll h kvs) kv.1) = kvs.map (·.2) := by
  apply List.map_congr_left
  intro kv hkv
  rw [get_after_set_sequence]
  suffices lastVal kvs kv.1 = some kv.2 by simp [this]
  clear h
  induction kvs using rev_ind with
  | hnil => simp at hkv
  | snoc kvs x ih =>
    rw [lastVal_append]
    simp only [List.map_append, List.map_cons, List.map_nil] at hnd
    have hnd' := List.nodup_append.mp hnd
    rcases List.mem_append.mp hkv with hm | hm
    · have hne : x.1 ≠ kv.1 := by
        intro he
        exact hnd'.2.2 kv.1 (List.mem_map.mpr ⟨kv, hm, rfl⟩) x.1 (by simp) he.symm
      simp [hne, ih hnd'.1 hm]
    · simp at hm; subst hm; simp

/-- The trace-context corollary: for every header list, the W3C propagator's `Inject` (Set tracestate when
non-empty, Set traceparent) followed by `Extract` (the two Gets) on the same headers — which is what the
consumer-side hook sees once the record has crossed the wire with its headers intact — returns the injected
traceparent, and the injected tracestate when one was injected. -/
theorem trace_context_round_trip (h : List Hdr) (tp ts : Bytes) :
    (extract (inject h tp ts)).1 = tp ∧
    (ts ≠ [] → (extract (inject h tp ts)).2 = ts) ∧
    (ts = [] → (extract (inject h tp ts)).2 = cget h tracestateKey) := by
  have hne : tracestateKey ≠ traceparentKey := by simp [tracestateKey, traceparentKey]
  refine ⟨get_set_same _ _ _, ?_, ?_⟩
  · intro hts
    simp only [extract, inject, hts, if_false]
    rw [get_set_other _ _ _ _ hne, get_set_same]
  · intro hts
    simp only [extract, inject, hts, if_true]
    rw [get_set_other _ _ _ _ hne]

/-- The propagation Spec evaluated by the driver holds of the model whenever the record carried no stale
`tracestate` header or a tracestate is injected. -/
theorem propagate_satisfies_spec (h : List Hdr) (tp ts : Bytes)
    (hstale : ts ≠ [] ∨ cget h tracestateKey = []) :
    specPropagate tp ts (extract (inject h tp ts)).1 (extract (inject h tp ts)).2 = true := by
  obtain ⟨h1, h2, h3⟩ := trace_context_round_trip h tp ts
  simp only [specPropagate, Bool.and_eq_true, beq_iff_eq]
  refine ⟨h1, ?_⟩
  by_cases hts : ts = []
  · rw [h3 hts, hts]; rcases hstale with h | h
    · exact absurd hts h
    · exact h
  · exact h2 hts

/-! Non-vacuity: duplicate keys, a nil value, an empty key. -/
example :
    let h : List Hdr := [⟨[1], some [9]⟩, ⟨[2], none⟩, ⟨[1], some [8]⟩, ⟨[], some []⟩]
    cset h [1] [7] = [⟨[1], some [7]⟩, ⟨[2], none⟩, ⟨[1], some [8]⟩, ⟨[], some []⟩]
      ∧ cget (cset h [1] [7]) [1] = [7] ∧ cget h [2] = [] ∧ ckeys h = [[1], [2], [1], []]
      ∧ cset h [3] [] = h ++ [⟨[3], some []⟩] := by simp [cset, cget, ckeys, Hdr.str]

example : (extract (inject [⟨traceparentKey, some [0]⟩, ⟨traceparentKey, none⟩] [5] [6])) = ([5], [6]) := by
  simp [extract, inject, cset, cget, Hdr.str, traceparentKey, tracestateKey]

/-! ### Records of a fetched batch: a carrier operation on one record is an operation on that record only -/

/-- NO OTHER HEADER CHANGES, across records: a `Set` through a carrier on record `i` of a batch rewrites
record `i` exactly as `Set` does and leaves the header list of EVERY other record, and the number of
records, as they were. (Immediate in the model, where records are independent values — which is the
specification; that the Go slices handed out by the fetch decoder do not alias is what the differential run
over really fetched records checks against this.) -/
theorem set_on_one_record_leaves_other_records_unchanged (b : Batch) (i : Nat) (k v : Bytes) :
    (bset b i k v).length = b.length ∧
    (bset b i k v)[i]? = (b[i]?).map (fun h => cset h k v) ∧
    ∀ j, j ≠ i → (bset b i k v)[j]? = b[j]? :=
  ⟨bmod_length _ b i, bmod_get_self _ b i, fun j hj => bmod_get_other _ b i j hj⟩

/-- The batch Spec evaluated by the driver on the implementation's dumps holds of the model for every batch,
every record index in range and every `Set`. -/
theorem batch_set_satisfies_spec (b : Batch) (i : Nat) (k v : Bytes) (hi : i < b.length) :
    specBSet (bobs b) i k v (bobs (bset b i k v)) (cget ((bset b i k v)[i]?.getD []) k) = true := by
  obtain ⟨h, hh⟩ : ∃ h, b[i]? = some h := ⟨b[i], by simp [hi]⟩
  have hs : (bset b i k v)[i]? = some (cset h k v) := by
    rw [(set_on_one_record_leaves_other_records_unchanged b i k v).2.1, hh]; rfl
  simp only [specBSet, Bool.and_eq_true]
  refine ⟨othersUntouched_bmod _ b i, ?_⟩
  simp only [bobs, List.getElem?_map, hh, hs, Option.map_some, Option.getD_some]
  have := set_satisfies_spec h k v
  simpa [specSet, obs, robs] using this

/-- The producer-side hook on one record of a fetched batch: the other records are untouched, and on the
record itself the application headers are intact, at most the two propagation fields are added, and
`Get("traceparent")` is the injected value. -/
theorem batch_inject_satisfies_spec (b : Batch) (i : Nat) (tp ts : Bytes) (hi : i < b.length) :
    specBInj (bobs b) i tp (bobs (binj b i tp ts)) (cget ((binj b i tp ts)[i]?.getD []) traceparentKey) = true := by
  obtain ⟨h, hh⟩ : ∃ h, b[i]? = some h := ⟨b[i], by simp [hi]⟩
  have hs : (binj b i tp ts)[i]? = some (inject h tp ts) := by
    unfold binj; rw [bmod_get_self, hh]; rfl
  simp only [specBInj, Bool.and_eq_true]
  refine ⟨othersUntouched_bmod _ b i, ?_⟩
  simp only [bobs, List.getElem?_map, hh, hs, Option.map_some, Option.getD_some]
  have hp : isPropKey traceparentKey = true := by simp [isPropKey]
  have hq : isPropKey tracestateKey = true := by simp [isPropKey]
  have happ : appHdrs (inject h tp ts) = appHdrs h := by
    unfold inject
    rw [appHdrs_set_prop _ _ _ hp]
    split
    · rfl
    · exact appHdrs_set_prop _ _ _ hq
  have hlen : h.length ≤ (inject h tp ts).length ∧ (inject h tp ts).length ≤ h.length + 2 := by
    unfold inject
    split
    · have := length_set h traceparentKey tp; omega
    · have h1 := length_set h tracestateKey ts
      have h2 := length_set (cset h tracestateKey ts) traceparentKey tp
      omega
  have hget : cget (inject h tp ts) traceparentKey = tp := by unfold inject; exact get_set_same _ _ _
  simp [robs, obs, specKeys, specForward, keys_eq_map, happ, hlen.1, hlen.2, hget]

/-- A bridge forwards the records of a fetched batch in ANY order (any sequence of injections, records
visited repeatedly or not at all): each record ends up with exactly the injections addressed to it, applied
in order to its own headers — nothing done to another record shows. -/
theorem injections_act_per_record (b : Batch) (ops : List (Nat × Bytes × Bytes)) (j : Nat) :
    (binjAll b ops)[j]? =
      (b[j]?).map (fun h => (ops.filter (fun o => o.1 == j)).foldl (fun acc o => inject acc o.2.1 o.2.2) h) := by
  induction ops generalizing b with
  | nil => simp [binjAll]
  | cons o ops ih =>
    have ih' := ih (binj b o.1 o.2.1 o.2.2)
    simp only [binjAll, List.foldl_cons] at ih' ⊢
    rw [ih']
    by_cases hj : o.1 = j
    · subst hj
      simp only [binj, bmod_get_self, List.filter_cons, beq_self_eq_true, if_true, List.foldl_cons, Option.map_map]
      rfl
    · have hne : j ≠ o.1 := fun h => hj h.symm
      have hb : (o.1 == j) = false := by simp [hj]
      simp only [binj, bmod_get_other _ b o.1 j hne, List.filter_cons, hb]
      rfl

/-- …therefore the trace context the sink extracts from a forwarded record is the one the bridge's hook
injected into THAT record last, whatever was injected into the other records of the batch and in whatever
order. -/
theorem forwarded_record_extracts_its_own_context (b : Batch) (pre post : List (Nat × Bytes × Bytes))
    (j : Nat) (tp ts : Bytes) (h : List Hdr) (hj : b[j]? = some h) (hpost : ∀ o ∈ post, o.1 ≠ j) :
    ∃ h', (binjAll b (pre ++ (j, tp, ts) :: post))[j]? = some h' ∧ (extract h').1 = tp ∧ (ts ≠ [] → (extract h').2 = ts) := by
  rw [injections_act_per_record, hj]
  have hf : post.filter (fun o => o.1 == j) = [] := by
    apply List.filter_eq_nil_iff.mpr
    intro o ho; simp [hpost o ho]
  simp only [Option.map_some, List.filter_append, List.filter_cons, beq_self_eq_true, if_true, hf,
    List.foldl_append, List.foldl_cons, List.foldl_nil]
  refine ⟨_, rfl, ?_, ?_⟩
  · exact (trace_context_round_trip _ tp ts).1
  · exact (trace_context_round_trip _ tp ts).2.1

/-! Non-vacuity: a batch of three header-bearing records, a Set of a new key on the middle one, and a bridge
that forwards back to front. -/
example :
    let b : Batch := [[⟨[1], some [9]⟩], [⟨[1], some [8]⟩], [⟨[1], some [7]⟩, ⟨[2], none⟩]]
    bset b 1 [3] [5] = [[⟨[1], some [9]⟩], [⟨[1], some [8]⟩, ⟨[3], some [5]⟩], [⟨[1], some [7]⟩, ⟨[2], none⟩]]
      ∧ specBSet (bobs b) 1 [3] [5] (bobs (bset b 1 [3] [5])) [5] = true
      ∧ othersUntouched 1 (bobs b) (bobs [[⟨[1], some [9]⟩], [⟨[1], some [8]⟩, ⟨[3], some [5]⟩], [⟨[3], some [5]⟩, ⟨[2], none⟩]]) = false := by
  decide

example :
    let b : Batch := [[⟨[1], some [9]⟩], [⟨[1], some [8]⟩]]
    ((binjAll b [(1, [5], [6]), (0, [7], [])])[0]?.map extract, (binjAll b [(1, [5], [6]), (0, [7], [])])[1]?.map extract)
      = (some ([7], []), some ([5], [6])) := by
  decide

end Props.C37
