import FranzVerif.Model.Group
import FranzVerif.Proof.Group
/-! C08 — group autocommit never skips records (at-least-once). Theorems over ALL accepted histories of `Model.Group`. -/
namespace Props.C08
open Model.Group Proof.Group

/-- The offset a member commits for a partition only covers records that member returned from a poll and
then started another poll — or what the group had already committed before. -/
theorem commit_covers_only_processed (c : Cfg) (h₁ h₂ : List Ev) (m : Mem) (p off : Nat)
    (hacc : (run c {} (h₁ ++ Ev.commit m p off true :: h₂)).isSome) :
    off ≤ max (processedUpTo m p h₁) (committedUpTo p h₁) := by
  sorry

/-- After any sequence of joins, leaves, restarts and rebalances, every record below the group's final
committed offset was returned to some member. -/
theorem final_commit_covers_only_returned (c : Cfg) (h : List Ev) (s : St) (hacc : run c {} (h ++ [Ev.quiesce]) = some s)
    (hcomplete : isIncomplete h = false) (p : Nat) (f : Int) (hf : Ev.finalCommitted p f ∈ h)
    (id : Id) (off : Nat) (hp : (id, p, off) ∈ producedOf h) (hlt : (off : Int) < f) :
    ∃ m, Ev.returned m p off id ∈ h := by
  sorry

end Props.C08
