import FranzVerif.Model.Group
import FranzVerif.Proof.Group
import FranzVerif.Proof.GroupCommit
/-! C08 — group autocommit never skips records (at-least-once). Theorems over ALL accepted histories of `Model.Group`.
Both statements hold as first written; the observables are unchanged (`committedUpTo`'s `foldl max 0` over all
successful commits equals the monitor's running maximum, `processedUpTo`'s "a `pollStart m` later in the same
prefix" equals the monitor's `eligible` list: `Proof.Group.Inv.comm`, `Inv.elig`). -/
namespace Props.C08
open Model.Group Proof.Group

/-- The offset a member commits for a partition only covers records that member returned from a poll and
then started another poll — or what the group had already committed before. -/
theorem commit_covers_only_processed (c : Cfg) (h₁ h₂ : List Ev) (m : Mem) (p off : Nat)
    (hacc : (run c {} (h₁ ++ Ev.commit m p off true :: h₂)).isSome) :
    off ≤ max (processedUpTo m p h₁) (committedUpTo p h₁) := by
  obtain ⟨s, hs⟩ := isSome_run hacc
  obtain ⟨s₁, hr₁, hchk, _⟩ := run_split hs
  have hi := inv_of_run hr₁
  have := commit_check hchk
  rwa [hi.elig, hi.comm] at this

/-- After any sequence of joins, leaves, restarts and rebalances, every record below the group's final
committed offset was returned to some member. -/
theorem final_commit_covers_only_returned (c : Cfg) (h : List Ev) (s : St) (hacc : run c {} (h ++ [Ev.quiesce]) = some s)
    (hcomplete : isIncomplete h = false) (p : Nat) (f : Int) (hf : Ev.finalCommitted p f ∈ h)
    (id : Id) (off : Nat) (hp : (id, p, off) ∈ producedOf h) (hlt : (off : Int) < f) :
    ∃ m, Ev.returned m p off id ∈ h := by
  obtain ⟨s₁, hr₁, hchk⟩ := run_snoc hacc
  have hi := inv_of_run hr₁
  have hfin : (p, f) ∈ s₁.finals := (hi.finals (p, f)).2 hf
  have hprod : (id, p, off) ∈ s₁.prod := by rw [hi.prod]; exact List.mem_reverse.2 hp
  obtain ⟨r, hr, r1, r2, r3⟩ := quiesce_check hchk (by rw [hi.incomplete]; exact hcomplete) _ hfin _ hprod rfl hlt
  refine ⟨r.1, ?_⟩
  have := (hi.ret r).1 hr
  simpa only [r1, r2, r3] using this

/-- Non-vacuity: two members, partition 0 with records 10, 11, 12 at offsets 0, 1, 2 and partition 1 with record
20 at offset 0. Member 1 polls records 10 and 11, polls again (now offsets < 2 are processed) and commits 2 —
the shape of `commit_covers_only_processed`; a commit of 1 (below) is fine too. After a rebalance member 2
re-commits the group's committed offset 2 without having polled anything, polls record 12, polls again and
commits 3; member 1 polls record 20 of partition 1, polls again, commits 1 for partition 1. The final committed
offsets 3 and 1 lie past returned records only — the shape of `final_commit_covers_only_returned`. -/
example : accepts { parts := 2 }
    [.produced 10 0 0, .produced 11 0 1, .produced 12 0 2, .produced 20 1 0,
     .join 1, .assignStart 1 [0, 1], .assignEnd 1,
     .pollStart 1, .returned 1 0 0 10, .returned 1 0 1 11, .pollEnd 1,
     .pollStart 1, .pollEnd 1, .commit 1 0 1 true, .commit 1 0 2 true,
     .join 2, .revokeStart 1 [0], .revokeEnd 1, .assignStart 2 [0], .assignEnd 2,
     .commit 2 0 2 true,
     .pollStart 2, .returned 2 0 2 12, .pollEnd 2, .pollStart 2, .pollEnd 2, .commit 2 0 3 true,
     .pollStart 1, .returned 1 1 0 20, .pollEnd 1, .pollStart 1, .pollEnd 1, .commit 1 1 1 true,
     .finalCommitted 0 3, .finalCommitted 1 1, .quiesce] = true := by decide

/-- The observables on the prefix before `commit 1 0 2 true`: offsets below 2 processed, 1 committed. -/
example : processedUpTo 1 0
    [.produced 10 0 0, .produced 11 0 1, .pollStart 1, .returned 1 0 0 10, .returned 1 0 1 11, .pollEnd 1,
     .pollStart 1, .pollEnd 1, .commit 1 0 1 true] = 2 := by decide
example : committedUpTo 0
    [.produced 10 0 0, .produced 11 0 1, .pollStart 1, .returned 1 0 0 10, .returned 1 0 1 11, .pollEnd 1,
     .pollStart 1, .pollEnd 1, .commit 1 0 1 true] = 1 := by decide

/-- A commit covering records of a poll that was not followed by another poll: refused. -/
example : accepts { parts := 2 }
    [.produced 10 0 0, .produced 11 0 1, .join 1, .assignStart 1 [0, 1], .assignEnd 1,
     .pollStart 1, .returned 1 0 0 10, .returned 1 0 1 11, .pollEnd 1, .commit 1 0 2 true] = false := by decide

/-- A commit beyond the processed records (3 > 2): refused; the same commit failing (`ok = false`) is not judged. -/
example : accepts { parts := 2 }
    [.produced 10 0 0, .produced 11 0 1, .join 1, .assignStart 1 [0, 1], .assignEnd 1,
     .pollStart 1, .returned 1 0 0 10, .returned 1 0 1 11, .pollEnd 1, .pollStart 1, .pollEnd 1,
     .commit 1 0 3 true] = false := by decide
example : accepts { parts := 2 }
    [.produced 10 0 0, .produced 11 0 1, .join 1, .assignStart 1 [0, 1], .assignEnd 1,
     .pollStart 1, .returned 1 0 0 10, .returned 1 0 1 11, .pollEnd 1, .pollStart 1, .pollEnd 1,
     .commit 1 0 3 false] = true := by decide

/-- A final committed offset (2) past record 11 at offset 1 that nobody returned: refused. -/
example : accepts { parts := 2 }
    [.produced 10 0 0, .produced 11 0 1, .join 1, .assignStart 1 [0, 1], .assignEnd 1,
     .pollStart 1, .returned 1 0 0 10, .pollEnd 1, .pollStart 1, .pollEnd 1, .commit 1 0 1 true,
     .finalCommitted 0 2, .quiesce] = false := by decide

end Props.C08
