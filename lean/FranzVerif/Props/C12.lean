import FranzVerif.Model.C12
import FranzVerif.Spec.C12
import FranzVerif.Proof.C12
import FranzVerif.Model.Share
import FranzVerif.Proof.Share
/-! C12 — share-group acknowledgements, PURE HALF: the per-record ack state machine (`tryAck`), the ack
range builder (`buildAckRanges` / `coalesceAppendRange`) and the staleness filter (`filterStaleEntries`).

Property text: "each delivered record is acknowledged to the broker at most once with a final outcome …
Acknowledgement batches sent for a partition are in ascending, non-overlapping offset order" (all mixes of
pending user acknowledgements and gap ranges for a partition).

The range clause is proved at full strength (`build_spec`):
    ∀ es gs, wfInput es gs → specBuild es gs (buildAckRanges es gs).1 (buildAckRanges es gs).2
i.e. ascending and non-overlapping ∧ every offset once with its type ∧ renew flag. Before repair 5958f14 its
`ascending` conjunct was false of the code (user-entry ranges were emitted first, gap ranges afterwards:
entries {10,11 accept} + gap [5,9] gave [10,11],[5,9]); the model is re-transcribed from the repaired loop and
the old witness is kept as a regression `example` and in corpus/C12. Since repair 4fd6241 the sorted gap ranges are
merged first (`mergeGaps`), so the input may repeat or overlap gap ranges.
-/
namespace Props.C12
open Model.C12 Spec.C12 Proof.C12

/-! ### tryAck: a final outcome is set at most once, under every interleaving -/

/-- Any number of concurrent callers, any interleaving of their Load/CAS operations and of renew resets:
at most one call returns `true` for a final (accept/release/reject) status. -/
theorem tryAck_terminal_at_most_once {s : TSt} (h : Reachable s) : termWinners s ≤ 1 := by
  have := (inv_reachable h).count
  split at this <;> omega

/-- The state is final exactly when one such call has won. -/
theorem tryAck_terminal_iff_winner {s : TSt} (h : Reachable s) : isTerminal s.status = true ↔ termWinners s = 1 := by
  have := (inv_reachable h).count
  constructor
  · intro ht; simpa [ht] using this
  · intro h1
    by_cases ht : isTerminal s.status = true
    · exact ht
    · simp [ht] at this; omega

/-- The final status is the winner's argument. -/
theorem tryAck_winner_is_final {s : TSt} (h : Reachable s) (t : Thread) (ht : t ∈ s.threads)
    (hw : isTermWinner t = true) : s.status = t.status :=
  (inv_reachable h).winner t ht hw

/-- A final status is never changed again, by any action. -/
theorem tryAck_terminal_absorbing {s s' : TSt} (h : Reachable s) (hterm : isTerminal s.status = true) (a : Act)
    (hs : tstep s a = some s') : s'.status = s.status := by
  have hinv := inv_reachable h
  have hne : s.status ≠ 0 ∧ s.status ≠ 4 := by
    have := (isTerminal_iff _).1 hterm; omega
  cases a with
  | spawn st strict =>
    simp only [tstep] at hs
    split at hs
    · cases hs; rfl
    · cases hs
  | reset =>
    simp only [tstep] at hs
    cases hs
    simp [hne.2]
  | step i =>
    simp only [tstep] at hs
    cases hti : s.threads[i]? with
    | none => simp [hti] at hs
    | some t =>
      simp only [hti] at hs
      cases hts : threadStep s.status t with
      | none => simp [hts] at hs
      | some res =>
        obtain ⟨sh, pc⟩ := res
        simp only [hts, Option.some.injEq] at hs
        subst hs
        show sh = s.status
        unfold threadStep at hts
        cases hpc : t.pc with
        | done ok => simp [hpc] at hts
        | start =>
          simp only [hpc] at hts
          split at hts
          · simp [hne.1] at hts; exact hts.1.symm
          · first
              | (rw [if_pos hne] at hts; simp at hts; exact hts.1.symm)
              | (simp at hts; exact hts.1.symm)
        | loaded cur =>
          simp only [hpc] at hts
          have := (hinv.loaded t (List.mem_of_getElem? hti) cur hpc).1
          have hc : s.status ≠ cur := by omega
          simp [hc] at hts; exact hts.1.symm

/-- The observable results of the calls that have returned satisfy the executable Spec
(`specTryAck`, the predicate the driver evaluates on the real code's results). -/
theorem tryAck_spec {s : TSt} (h : Reachable s) : specTryAck 0 (returned s) s.status = true := by
  have hinv := inv_reachable h
  have hlen : ((returned s).filter (fun c => c.2 && isTerminal c.1)).length = s.threads.countP isTermWinner :=
    wins_length s.threads
  have hcount := hinv.count
  simp only [termWinners] at hcount
  simp only [specTryAck]
  have h0 : isTerminal 0 = false := by decide
  simp only [h0, Bool.false_eq_true, if_false, Bool.and_eq_true, decide_eq_true_eq]
  refine ⟨by rw [hlen, hcount]; split <;> omega, ?_⟩
  clear h0
  cases hw : (returned s).filter (fun c => c.2 && isTerminal c.1) with
  | nil =>
    rw [hw] at hlen
    have hnt : isTerminal s.status = false := by
      by_cases ht : isTerminal s.status = true
      · simp [ht] at hcount; simp at hlen; omega
      · simpa using ht
    have hd := hinv.dom
    have : ¬ (s.status = 1 ∨ s.status = 2 ∨ s.status = 3) := by
      intro hc; have := (isTerminal_iff _).2 hc; simp [hnt] at this
    simp
    omega
  | cons w ws =>
    obtain ⟨t, ht, htw, hts⟩ := wins_mem s.threads w (by show w ∈ (returned s).filter _; rw [hw]; simp)
    have := hinv.winner t ht htw
    simp
    omega

/-- Run alone (no interference), `tryAck` is the atomic function the driver folds for the sequential ops:
at most two shared-memory operations, same result and same new status. -/
theorem tryAck_alone_atomic (cur st : Int) (strict : Bool) (hv : validStatus st = true)
    (hc : cur = 0 ∨ cur = 1 ∨ cur = 2 ∨ cur = 3 ∨ cur = 4) :
    ∃ n, n ≤ 2 ∧ runActs ⟨cur, [⟨st, strict, .start⟩]⟩ (List.replicate n (.step 0)) =
      some ⟨(tryAckAtomic cur st strict).1, [⟨st, strict, .done (tryAckAtomic cur st strict).2⟩]⟩ := by
  have hst := (validStatus_iff _).1 hv
  by_cases hsr : (strict || st == 4) = true
  · refine ⟨1, by omega, ?_⟩
    by_cases h0 : cur = 0 <;> simp [runActs, tstep, threadStep, tryAckAtomic, hsr, h0]
  · have hsr' : strict = false ∧ st ≠ 4 := by simp at hsr; exact hsr
    by_cases hterm : cur ≠ 0 ∧ cur ≠ 4
    · refine ⟨1, by omega, ?_⟩
      simp [runActs, tstep, threadStep, tryAckAtomic, hsr'.1, hsr'.2, hterm]
    · refine ⟨2, by omega, ?_⟩
      have : cur = 0 ∨ cur = 4 := by omega
      rcases this with h | h <;> simp [runActs, tstep, threadStep, tryAckAtomic, hsr'.1, hsr'.2, h]

/-- Non-vacuity: three callers (accept, reject, renew) interleaved so that the renew lands first, both
terminal callers load `AckRenew`, accept wins its CAS, reject's CAS fails and its retry sees the final
status: one winner, final status accept. -/
example : (runActs {} [.spawn 1 false, .spawn 3 false, .spawn 4 false, .step 2, .step 0, .step 1, .step 0, .step 1, .step 1]).map
    (fun s => (s.status, termWinners s, s.threads.map (·.pc))) = some (1, 1, [.done true, .done false, .done true]) := by
  decide

/-! ### coalesceAppendRange -/

/-- Appending with coalescing changes neither which offsets are covered nor their ack types. -/
theorem coalesce_preserves_coverage (out : List Range) (r : Range) (o : Int) (hout : ∀ x ∈ out, x.first ≤ x.last)
    (hr : r.first ≤ r.last) : cov (coalesceAppendRange out r) o = cov (out ++ [r]) o := by
  simp only [coalesceAppendRange]
  rw [cov_reverse, cov_coalesceRev out.reverse r o (by simpa using hout) hr, cov_cons, cov_reverse, cov_append, cov_cons]
  simp [cov]
  split <;> rfl

/-- … in the executable form the driver evaluates. -/
theorem coalesce_spec (out : List Range) (r : Range) (hout : ∀ x ∈ out, x.first ≤ x.last) (hr : r.first ≤ r.last) :
    specCoalesce out r (coalesceAppendRange out r) = true := by
  simp only [specCoalesce, List.all_eq_true, beq_iff_eq]
  intro o _
  exact coalesce_preserves_coverage out r o hout hr

/-! ### buildAckRanges: coverage (proved in full) -/

/-- For every offset: at most one batch covers it, the batch's type is one the pending input asked for
at that offset (gaps stay gaps), and every offset the input asked for is covered. -/
theorem build_coverage (es : List Entry) (gs : List Range) (hwf : wfInput es gs = true) (o : Int) :
    pointOK es gs (buildAckRanges es gs).1 o = true := by
  have h := (wfInput_iff es gs).1 hwf
  simp only [pointOK, Bool.and_eq_true, decide_eq_true_eq, List.all_eq_true, List.contains_iff_mem, Bool.or_eq_true,
    List.isEmpty_iff, Bool.not_eq_true', ]
  refine ⟨⟨build_cov_length es gs o h, fun t ht => build_cov_sound es gs o t h ht⟩, ?_⟩
  by_cases hin : covIn es gs o = []
  · exact Or.inl hin
  · refine Or.inr ?_
    have := build_cov_complete es gs o h hin
    cases hc : cov (buildAckRanges es gs).1 o with
    | nil => exact absurd hc this
    | cons a l => rfl

theorem build_coverageOK (es : List Entry) (gs : List Range) (hwf : wfInput es gs = true) :
    coverageOK es gs (buildAckRanges es gs).1 = true := by
  simp only [coverageOK, List.all_eq_true]
  intro o _
  exact build_coverage es gs hwf o

/-- `hasRenew` (the request's `IsRenewAck`) is set exactly when a renew batch is emitted. -/
theorem build_renew_flag (es : List Entry) (gs : List Range) (hwf : wfInput es gs = true) :
    renewOK (buildAckRanges es gs).1 (buildAckRanges es gs).2 = true := by
  have h := (wfInput_iff es gs).1 hwf
  simp only [renewOK, beq_iff_eq, build_fst, build_snd, List.any_reverse]
  rw [any_ty_foldl _ _ (fun t => t == 4), (interleave_perm _ _).any_eq]
  have hg : (mergeGaps (sortGaps gs)).any (fun x => x.ty == 4) = false := by
    rw [List.any_eq_false]
    intro x hx
    obtain ⟨g, hgm, hty⟩ := mg_ty h x hx
    have := (h.gaps g hgm).2.2
    simp; omega
  simp [hg, List.any_map, single, Function.comp_def]

/-! ### buildAckRanges: ordering -/

/-- **Ordering, full strength.** For every well-formed input — gap ranges may repeat or overlap (repair 4fd6241
merges them); what `wfInput` still asks is `first ≤ last`, type gap/release, overlapping gap ranges of one type, and
no decided user entry inside a gap range — the batch list is ascending and non-overlapping (every range
`first ≤ last`, every range ends strictly before every later one starts). -/
theorem build_ascending (es : List Entry) (gs : List Range) (hwf : wfInput es gs = true) :
    ascending (buildAckRanges es gs).1 = true := by
  have h := (wfInput_iff es gs).1 hwf
  have hsg := mg_ascList h
  have hL : AscList (interleave (em es) (mg gs)) :=
    interleave_ascList _ _ (em_pairwise h) hsg (fun e he x hx hin => by
      obtain ⟨hee, hel⟩ := em_mem h e he
      obtain ⟨g, hgm, g1, g2, _⟩ := mg_sound h x hx e.offset hin.1 hin.2
      exact h.apart e hee hel g hgm ⟨g1, g2⟩)
  have hall : AscRev ((interleave (em es) (mg gs)).foldl coalesceRev []) :=
    ascRev_foldl _ [] (by simp [AscRev]) hL (by simp)
  rw [build_fst]
  exact (ascending_iff _).2 ((ascList_reverse _).2 hall)

/-- **The property's range clause, in the executable form the driver evaluates on the real code:**
ascending and non-overlapping, each offset exactly once with its ack type (gaps as gaps), renew flag exact. -/
theorem build_spec (es : List Entry) (gs : List Range) (hwf : wfInput es gs = true) :
    specBuild es gs (buildAckRanges es gs).1 (buildAckRanges es gs).2 = true := by
  simp only [specBuild, Bool.and_eq_true]
  exact ⟨⟨build_ascending es gs hwf, build_coverageOK es gs hwf⟩, build_renew_flag es gs hwf⟩

/-- Regression (finding ackranges-gaps-after-entries, repaired by 5958f14): pending accepts for offsets 10
and 11 with a gap range [5,9] below them used to give [10,11],[5,9]. -/
example : (buildAckRanges [⟨10, 1, 0, 1⟩, ⟨11, 1, 0, 1⟩] [⟨5, 9, 0, 1, 0⟩]).1 = [⟨5, 9, 0, 1, 0⟩, ⟨10, 11, 0, 1, 1⟩] := by
  have h1 : sortEntries [⟨10, 1, 0, 1⟩, ⟨11, 1, 0, 1⟩] = [⟨10, 1, 0, 1⟩, ⟨11, 1, 0, 1⟩] :=
    List.mergeSort_of_pairwise (by simp)
  have h2 : sortGaps [⟨5, 9, 0, 1, 0⟩] = [⟨5, 9, 0, 1, 0⟩] := List.mergeSort_of_pairwise (by simp)
  simp only [buildAckRanges, h1, h2, mergeGaps]
  decide

/-- Regression (finding wire-gap-batch-duplicated, repaired by 4fd6241): the gap range [16,16] queued twice (a
requeued gap acknowledgement and the gap of the re-acquisition), overlapping release ranges, and an accept above
them: a well-formed input, each offset acknowledged once. -/
example : wfInput [⟨30, 1, 0, 2⟩] [⟨16, 16, 0, 1, 0⟩, ⟨16, 16, 0, 2, 0⟩, ⟨20, 24, 0, 1, 2⟩, ⟨22, 27, 0, 2, 2⟩] = true := by decide

example : mergeGaps [⟨16, 16, 0, 1, 0⟩, ⟨16, 16, 0, 2, 0⟩, ⟨20, 24, 0, 1, 2⟩, ⟨22, 27, 0, 2, 2⟩] =
    [⟨16, 16, 0, 1, 0⟩, ⟨20, 27, 0, 1, 2⟩] := by
  simp [mergeGaps]

/-- Non-vacuity: out-of-order acks with a renew-then-accept duplicate, an undecided entry, a release run, a gap
between the entries and one above them: a well-formed input with a gap below an entry. -/
example : wfInput [⟨7, 2, 0, 1⟩, ⟨5, 1, 0, 1⟩, ⟨3, 1, 0, 1⟩, ⟨5, 1, 0, 1⟩, ⟨8, 0, 0, 1⟩] [⟨9, 12, 0, 1, 0⟩, ⟨4, 4, 0, 1, 0⟩] = true ∧
    gapBelowEntry [⟨7, 2, 0, 1⟩, ⟨5, 1, 0, 1⟩, ⟨3, 1, 0, 1⟩, ⟨5, 1, 0, 1⟩, ⟨8, 0, 0, 1⟩] [⟨9, 12, 0, 1, 0⟩, ⟨4, 4, 0, 1, 0⟩] = true := by
  decide

/-! ### filterStaleEntries -/

/-- The entries kept for a request of source `self` in session `epoch` are exactly those fetched from this
source at an epoch not above the current one, in order; the counters add up; the reported error is that of the
first dropped entry (later epoch: InvalidShareSessionEpoch, other source: InvalidRecordState). -/
theorem filterStale_entries (self epoch : Int) (es : List Entry) :
    specStaleEntries self epoch es (filterEntries self epoch es).1 (filterEntries self epoch es).2.2.2 = true ∧
    (filterEntries self epoch es).2.1 = (filterEntries self epoch es).1.length ∧
    (filterEntries self epoch es).2.1 + (filterEntries self epoch es).2.2.1 = es.length := by
  refine ⟨?_, filterEntries_counts self epoch es⟩
  simp only [specStaleEntries, Bool.and_eq_true, beq_iff_eq]
  exact ⟨filterEntries_kept self epoch es, filterEntries_err self epoch es⟩

theorem filterStale_gaps (self epoch : Int) (gs : List Range) :
    specStaleGaps self epoch gs (filterGaps self epoch gs) = true := by
  simp only [specStaleGaps, beq_iff_eq]
  exact filterGaps_eq self epoch gs

/-- Non-vacuity: one deliverable entry, one from another source, one from a later epoch. -/
example : filterEntries 0 2 [⟨5, 1, 0, 1⟩, ⟨6, 1, 1, 1⟩, ⟨7, 1, 0, 3⟩] = ([⟨5, 1, 0, 1⟩], 1, 2, some .state) := by
  decide


/-! ## Protocol half: theorems over all accepted histories of `Model.Share`

An accepted history is any event list the monitor does not refuse (`run {} h = some s`); the history
correspondence (real share-group members of this tree x real kfake in synctest bubbles) is what says the
implementation's histories are accepted. `stateAt h₁` are the monitor's ledgers after the prefix `h₁`:
`pend` the final decisions made through the API that are not yet resolved (stage 0 unsent, 1 carried by a
request, 2 that request answered without error), `confirmed` the accept/reject decisions whose request was
answered without error and whose callback then reported no error, `openRecs` the records handed to the
application without a final decision, `uncalled` the acknowledgements whose callback has not run. -/
section Protocol
open Model.Share Proof.Share

/-- **Ack batches per partition are ascending and non-overlapping on the wire.** In every accepted history, the
acknowledgement batches of any one request for any one partition, in wire order, each end strictly before every
later one starts, and each is `first ≤ last`. -/
theorem share_wire_batches_ascending (lock : Nat) (h : List Ev) (s : St) (hacc : Model.Share.run (Model.Share.init lock) h = some s) (rid part : Nat) :
    (batchesOf rid part h).Pairwise (fun a b => a.last < b.first) ∧ ∀ b ∈ batchesOf rid part h, b.first ≤ b.last := by
  have hi := ascInv_of_run hacc rid part
  rw [batches_eq hacc, List.filter_reverse] at hi
  exact ⟨List.pairwise_reverse.1 hi.1, fun b hb => hi.2 b (List.mem_reverse.2 hb)⟩

/-- **At most one final acknowledgement per delivery reaches the broker.** Whenever an accept or reject batch
goes on the wire, every offset of it is backed by a final decision the member made through the API that no
earlier request carries (a decision moves to `stage 1` when a request carries it and only comes back when that
request is answered with an error or an error callback runs); and, unless an error callback intervened, its type is
one of the unsent decisions for that offset. -/
theorem share_final_ack_backed (lock : Nat) (h₁ h₂ : List Ev) (m rid part first last ty t : Nat) (s : St)
    (hacc : Model.Share.run (Model.Share.init lock) (h₁ ++ Ev.wireAck m rid part first last ty t :: h₂) = some s) (hty : ty = 1 ∨ ty = 3) :
    ∀ o, first ≤ o → o ≤ last →
      ∃ p ∈ (stateAt lock h₁).pend, p.m = m ∧ p.part = part ∧ p.off = o ∧ p.stage = 0 ∧
        (p.lost = false → ∃ q ∈ (stateAt lock h₁).pend, q.m = m ∧ q.part = part ∧ q.off = o ∧ q.stage = 0 ∧ q.st = ty) := by
  obtain ⟨s₁, h1, hc, _⟩ := run_split hacc
  rw [stateAt_of_run h1]
  obtain ⟨_, _, hu, htd⟩ := wireAck_check hc
  intro o ho1 ho2
  have hty' : (ty == 1 || ty == 3) = true := by rcases hty with h | h <;> simp [h]
  simp only [unbacked, hty', Bool.true_and, List.any_eq_false, List.mem_range] at hu
  have hp0 := hu (o - first) (by omega)
  have hp : ∃ p ∈ s₁.pend, p.m = m ∧ p.part = part ∧ p.off = o ∧ p.stage = 0 := by
    cases hany : s₁.pend.any (fun p => p.m == m && p.part == part && p.off == o - first + first && p.stage == 0) with
    | false => simp [hany] at hp0
    | true =>
      simp only [List.any_eq_true, Bool.and_eq_true, beq_iff_eq] at hany
      obtain ⟨p, hpm, ⟨⟨⟨a, b⟩, c⟩, d⟩⟩ := hany
      exact ⟨p, hpm, a, b, by omega, d⟩
  obtain ⟨p, hpm, hp1, hp2, hpo, hp4⟩ := hp
  refine ⟨p, hpm, hp1, hp2, hpo, hp4, ?_⟩
  intro hlost
  have hpre : ((ty == 1 || ty == 2 || ty == 3) && !(ty == 2 && s₁.closing.contains m)) = true := by
    rcases hty with h | h <;> simp [h]
  simp only [typeDiffers, hpre, Bool.true_and, List.any_eq_false] at htd
  have hq0 := htd p hpm
  cases hany : s₁.pend.any (fun q => q.m == m && q.part == part && q.off == p.off && q.stage == 0 && q.st == ty) with
  | false =>
    exfalso; apply hq0
    simp [hany, hp1, hp2, hp4, hlost, covers]; omega
  | true =>
    simp only [List.any_eq_true, Bool.and_eq_true, beq_iff_eq] at hany
    obtain ⟨q, hqm, ⟨⟨⟨⟨a, b⟩, c⟩, d⟩, e⟩⟩ := hany
    exact ⟨q, hqm, a, b, by omega, d, e⟩

/-- **A record whose accept or reject was confirmed without error is never redelivered.** No acquisition of an
offset is handed out at a (virtual) time strictly after the time its accept/reject was confirmed. -/
theorem share_confirmed_never_reacquired (lock : Nat) (h₁ h₂ : List Ev) (m part first last dc t : Nat) (s : St)
    (hacc : Model.Share.run (Model.Share.init lock) (h₁ ++ Ev.acquired m part first last dc t :: h₂) = some s) :
    ∀ c ∈ (stateAt lock h₁).confirmed, ¬ (c.1 = part ∧ first ≤ c.2.1 ∧ c.2.1 ≤ last ∧ c.2.2 < t) := by
  obtain ⟨s₁, h1, hc, _⟩ := run_split hacc
  rw [stateAt_of_run h1]
  exact acquired_check hc

/-- **An acknowledgement is only confirmed to the member that holds the record.** If a request's accept/reject
batch is answered without error while the newest acquisition of one of its offsets went to another member
strictly before the request arrived and within the lock duration of it, that other member has itself sent a final acknowledgement for the offset
since (so the record may be finished); otherwise the broker must answer with an error. -/
theorem share_ok_only_for_holder (lock : Nat) (h₁ h₂ : List Ev) (m rid part : Nat) (s : St)
    (hacc : Model.Share.run (Model.Share.init lock) (h₁ ++ Ev.wireRes m rid part 0 :: h₂) = some s) :
    ∀ b ∈ (stateAt lock h₁).batches, b.rid = rid → b.part = part → b.m = m → (b.ty = 1 ∨ b.ty = 3) →
      ∀ o, b.first ≤ o → o ≤ b.last → ∀ a, holder (stateAt lock h₁) part o = some a → a.m ≠ m → a.t < b.t → b.t < a.t + lock →
        ∃ hb ∈ (stateAt lock h₁).batches, hb.m = a.m ∧ hb.part = part ∧ hb.first ≤ o ∧ o ≤ hb.last ∧
          isFinalTy hb.ty = true ∧ a.t ≤ hb.t := by
  obtain ⟨s₁, h1, hc, _⟩ := run_split hacc
  rw [stateAt_of_run h1]
  have hl := lock_of_run h1
  have := wireRes_check hc
  rw [hl] at this
  exact this

/-- **At Close unacknowledged records are released.** When `Close` returns, every record the member was handed
without a final decision is covered by a final batch the member sent after it was handed the record (the release, or
an older decision for the same offset that the per-offset dedupe put in its place), or the
member's callback reported an error for the partition while closing. (`openRecs` drops a record when the member
renewed it through the API and the callback then reported an acknowledge error for its partition: the broker
refused the member's hold on the partition's records, e.g. INVALID_RECORD_STATE after a leader move.) -/
theorem share_close_releases (lock : Nat) (h₁ h₂ : List Ev) (m : Nat) (s : St)
    (hacc : Model.Share.run (Model.Share.init lock) (h₁ ++ Ev.closed m :: h₂) = some s) :
    ∀ r ∈ (stateAt lock h₁).openRecs, r.1 = m →
      (∃ b ∈ batchesSince (stateAt lock h₁) r.2.2.2, b.m = m ∧ b.part = r.2.1 ∧ b.first ≤ r.2.2.1 ∧ r.2.2.1 ≤ b.last ∧
        (b.ty = 1 ∨ b.ty = 2 ∨ b.ty = 3)) ∨
      (m, r.2.1) ∈ (stateAt lock h₁).closeErr := by
  obtain ⟨s₁, h1, hc, _⟩ := run_split hacc
  rw [stateAt_of_run h1]
  exact closed_check hc

/-- **FlushAcks returns only after the callbacks for all earlier acknowledgements have run.** When `FlushAcks`
returns without error, no acknowledgement made before it was called is still waiting for its callback. -/
theorem share_flush_after_callbacks (lock : Nat) (h₁ h₂ : List Ev) (m : Nat) (s : St)
    (hacc : Model.Share.run (Model.Share.init lock) (h₁ ++ Ev.flushEnd m true :: h₂) = some s) :
    ∀ u ∈ (stateAt lock h₁).uncalled, ¬ (u.1 = m ∧ u.2.2 = true) := by
  obtain ⟨s₁, h1, hc, _⟩ := run_split hacc
  rw [stateAt_of_run h1]
  exact flushEnd_check hc

/-- **Acknowledgements are honoured.** At quiescence every final decision of a member that has closed was put on
the wire (or an error was reported for its partition since: `lost`). -/
theorem share_acks_sent_by_quiescence (lock : Nat) (h₁ h₂ : List Ev) (s : St)
    (hacc : Model.Share.run (Model.Share.init lock) (h₁ ++ Ev.quiesce :: h₂) = some s) :
    ∀ p ∈ (stateAt lock h₁).pend, p.stage = 0 → p.lost = false → p.m ∉ (stateAt lock h₁).isClosed := by
  obtain ⟨s₁, h1, hc, _⟩ := run_split hacc
  rw [stateAt_of_run h1]
  exact quiesce_check hc

/-- Non-vacuity: an accepted history. Member 0 is handed offsets 0-2 (a transaction marker at 1 is acknowledged as
a gap by the client), accepts 0, rejects 2, flushes; both decisions are confirmed; member 1 is handed offset 3,
never decides, closes (release on the wire). -/
example : accepts 2000
    [.acquired 0 0 0 2 1 10, .delivered 0 0 0 1, .delivered 0 0 2 1, .ack 0 0 0 1, .ack 0 0 2 3, .flushStart 0,
     .wireAck 0 1 0 0 0 1 20, .wireAck 0 1 0 1 1 0 20, .wireAck 0 1 0 2 2 3 20, .wireRes 0 1 0 0, .callback 0 0 0 25, .flushEnd 0 true,
     .acquired 1 0 3 3 1 30, .delivered 1 0 3 1, .closeStart 1, .wireAck 1 2 0 3 3 2 40, .wireRes 1 2 0 0, .closed 1,
     .closeStart 0, .closed 0, .quiesce] = true := by decide

/-- The monitor refuses: a descending batch list (the pre-5958f14 shape on the wire), … -/
example : accepts 2000 [.acquired 0 0 0 6 1 0, .delivered 0 0 0 1, .delivered 0 0 4 1, .ack 0 0 0 1, .ack 0 0 4 1,
    .wireAck 0 1 0 0 0 1 5, .wireAck 0 1 0 4 4 1 5, .wireAck 0 1 0 3 3 0 5] = false := by decide

/-- … the same final decision carried by a second request while the first has not failed, … -/
example : accepts 2000 [.acquired 0 0 0 0 1 0, .delivered 0 0 0 1, .ack 0 0 0 1,
    .wireAck 0 1 0 0 0 1 5, .wireRes 0 1 0 0, .wireAck 0 2 0 0 0 1 6] = false := by decide

/-- … a record acquired again after its accept was confirmed (the observable of the kfake defect: the late ack of
member 0 is rejected by the broker but answered and confirmed as a success, the record comes back), … -/
example : accepts 2000 [.acquired 0 0 7 7 1 0, .delivered 0 0 7 1, .ack 0 0 7 1,
    .wireAck 0 1 0 7 7 1 3000, .wireRes 0 1 0 0, .callback 0 0 0 3300, .acquired 0 0 7 7 2 5000] = false := by decide

/-- … a success answer for an accept of a record that another member has held since before the request arrived, … -/
example : accepts 2000 [.acquired 1 0 10 16 1 81, .delivered 1 0 13 1, .acquired 0 0 10 16 2 3000, .autoAccept 1 0 13,
    .wireAck 1 22 0 13 13 1 3081, .wireRes 1 22 0 0] = false := by decide

/-- … Close returning with a record neither decided nor released, FlushAcks returning before a callback ran, and a
decision that never reaches the wire. -/
example : accepts 2000 [.acquired 0 0 0 0 1 0, .delivered 0 0 0 1, .closeStart 0, .closed 0] = false := by decide
example : accepts 2000 [.acquired 0 0 0 0 1 0, .delivered 0 0 0 1, .ack 0 0 0 1, .flushStart 0, .flushEnd 0 true] = false := by decide
example : accepts 2000 [.acquired 0 0 0 0 1 0, .delivered 0 0 0 1, .ack 0 0 0 1, .closeStart 0, .closed 0, .quiesce] = false := by decide

end Protocol

end Props.C12
