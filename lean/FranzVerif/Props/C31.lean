import FranzVerif.Proof.C31Gate
import FranzVerif.Proof.C31GateLive
import FranzVerif.Proof.C31GateTerm
import FranzVerif.Proof.C31GateObs
import FranzVerif.Proof.C31Mx
import FranzVerif.Proof.C31Rw
/-! C31 — property theorems: the poll/rebalance gate of `consumer.go` and the channel `Mutex`/`RWMutex`
of `synctest_mutex.go`.

Every theorem quantifies over all thread programs (any number of threads, any length) and all
interleavings: `Sys.Reach` is the closure of the initial state under arbitrary actions of arbitrary
threads. The automata are in `Model/C31.lean`; the harness runs the copied source on the same schedules
and compares traces, the driver evaluates `Spec/C31.lean` on the implementation's trace. -/
namespace Props.C31
open Model.C31

/-! ## Gate -/
section Gate
open Gate

/-- **Exclusion (counter level, full strength).** Whenever some thread has been admitted to a rebalance
section and has not finished leaving it (`rUnlock`: decided to enter, `xLock`: inside, `xUnlock`: leaving),
the poller half of `pollWaitState` is zero: a rebalance section is entered and occupied only with zero
outstanding pollers. No hypothesis on the clients. -/
theorem gate_rebalance_only_with_zero_pollers {progs : List (List Op)} {s : St Sh Th}
    (hr : sys.Reach (init progs) s) (hin : cnt ins s.ths > 0) : s.sh.pollers = 0 :=
  (reach_inv hr).excl hin

/-- While a rebalance is inside no poll can be admitted: a poller arriving at its `Lock`, or re-checking
after a wake-up, parks again and the poller count stays zero. -/
theorem gate_no_poll_admitted_during_rebalance {progs : List (List Op)} {s s' : St Sh Th} {i : Nat} {ev : String}
    (hr : sys.Reach (init progs) s) (hin : cnt ins s.ths > 0) (hs : sys.step s i = some (s', ev)) :
    s'.sh.pollers = 0 := by
  have hI := reach_inv hr
  obtain ⟨pre, t, post, sh', t', b, h1, _, h3, rfl⟩ := sys.step_decomp hs
  obtain ⟨sh, ths⟩ := s
  simp only at h1 h3 hin; subst h1
  have h0 := hI.excl hin
  have hreb := hI.reb
  have hmu := hI.mu
  obtain ⟨pc, prog⟩ := t
  obtain ⟨mu, pollers, rebal, corrupt, out, fill, viol, ep⟩ := sh
  simp only at h0; subst h0
  simp only [cnt_append, cnt_cons] at hin hreb hmu
  have il1 := ins_le pre; have il2 := ins_le post
  cases mu <;> cases pc <;> simp only [sys, stepT, pollerEnter, pollerRewake, rebalLoop] at h3
  all_goals (repeat' (split at h3))
  all_goals (try (exact absurd trivial ‹¬True›))
  all_goals (try (simp at h3; done))
  all_goals (simp only [Option.some.injEq, Prod.mk.injEq] at h3; obtain ⟨rfl, _, _, _⟩ := h3)
  all_goals (simp [hold, rcount, ins, muN] at hin hreb hmu ⊢)
  all_goals (try simp at *)
  all_goals omega

/-- **Counters never underflow** (including the AllowRebalance-then-late-release case): no subtraction
on `pollWaitState` ever wraps, and the rebalance half equals the number of rebalancers between their
`+= 1<<32` and their `-= 1<<32`. (`unaddPoller` is guarded by `> 0` in the code; `unaddRebalance` is not,
its safety is this theorem.) -/
theorem gate_counters_never_underflow {progs : List (List Op)} {s : St Sh Th}
    (hr : sys.Reach (init progs) s) : s.sh.corrupt = false ∧ s.sh.rebal = cnt rcount s.ths :=
  ⟨(reach_inv hr).cor, (reach_inv hr).reb⟩

/-- The gate's own mutex is held by exactly the threads inside a critical section: at most one. -/
theorem gate_mutex_exclusive {progs : List (List Op)} {s : St Sh Th}
    (hr : sys.Reach (init progs) s) : cnt hold s.ths ≤ 1 := by
  have := (reach_inv hr).mu; unfold muN at this; split at this <;> omega

/-
Full sentence of the property: "polls wait while a rebalance is pending", i.e.
  ∀ reachable s, a rebalance registered (cnt rcount s.ths > 0) → a poller at its `Lock` that acts parks.
This is FALSE when a poll is already outstanding (documented: "You can poll many times before calling
AllowRebalance"): see `gate_polls_wait_unconditional_false`. What holds is the version with the
hypothesis "no poll outstanding" (poller count zero); what is missing is exactly the case pollers > 0.
-/
/-- **Polls wait while a rebalance is pending — partial**: with no poll outstanding, a poller arriving at
`waitAndAddPoller` while a rebalance is registered does not pass: it parks, and the count stays zero. -/
theorem gate_polls_wait_partial {progs : List (List Op)} {s s' : St Sh Th} {i : Nat} {ev : String} {q : Bool} {prog : List Op}
    (hr : sys.Reach (init progs) s) (hpend : cnt rcount s.ths > 0) (hnone : s.sh.pollers = 0)
    (hi : s.ths[i]? = some ⟨.pLock q, prog⟩) (hs : sys.step s i = some (s', ev)) :
    s'.ths[i]? = some ⟨.pPark q, prog⟩ ∧ s'.sh.pollers = 0 := by
  have hreb := (reach_inv hr).reb
  have hr0 : s.sh.rebal ≠ 0 := by omega
  obtain ⟨sh', t', b, h3, h4, h5⟩ := sys.step_at hs hi
  simp only [sys, stepT, pollerEnter] at h3
  split at h3
  · simp at h3
  · rw [if_pos ⟨hnone, hr0⟩] at h3
    simp only [Option.some.injEq, Prod.mk.injEq] at h3
    obtain ⟨rfl, rfl, _⟩ := h3
    exact ⟨h5, by rw [h4]; exact hnone⟩

/-- After a wake-up the poller re-checks only the rebalance count: it parks again whenever a rebalance
is registered, whatever the poller count. -/
theorem gate_woken_poll_waits {progs : List (List Op)} {s s' : St Sh Th} {i : Nat} {ev : String} {q : Bool} {prog : List Op}
    (hr : sys.Reach (init progs) s) (hpend : cnt rcount s.ths > 0)
    (hi : s.ths[i]? = some ⟨.pWake q, prog⟩) (hs : sys.step s i = some (s', ev)) :
    s'.ths[i]? = some ⟨.pPark q, prog⟩ ∧ s'.sh.pollers = s.sh.pollers := by
  have hreb := (reach_inv hr).reb
  have hr0 : s.sh.rebal ≠ 0 := by omega
  obtain ⟨sh', t', b, h3, h4, h5⟩ := sys.step_at hs hi
  simp only [sys, stepT, pollerRewake] at h3
  split at h3
  · simp at h3
  · simp [hr0] at h3
    obtain ⟨rfl, rfl, _⟩ := h3
    exact ⟨h5, by rw [h4]⟩

/-- Witness for the unconditional reading: two pollers and one rebalance. Thread 0 polls and keeps records,
the rebalance registers and parks, thread 1 then polls: it is admitted although a rebalance is pending. -/
def twoPollers : List (List Op) := [[.P, .A], [.P, .A], [.R]]
def twoPollersSched : List Nat := [0, 0, 2, 2]

/-- The unconditional sentence "polls wait while a rebalance is pending" does not hold of the code. -/
theorem gate_polls_wait_unconditional_false :
    ¬ (∀ (progs : List (List Op)) (s s' : St Sh Th) (i : Nat) (ev : String) (q : Bool) (prog : List Op),
        sys.Reach (init progs) s → cnt rcount s.ths > 0 → s.ths[i]? = some ⟨.pLock q, prog⟩ →
        sys.step s i = some (s', ev) → s'.ths[i]? = some ⟨.pPark q, prog⟩) := by
  intro h
  have he : sys.exec (init twoPollers) twoPollersSched =
      some ⟨{ pollers := 1, rebal := 1, out := 1 }, [⟨.aLock, []⟩, ⟨.pLock false, [.A]⟩, ⟨.rWait true, []⟩]⟩ := by decide
  have hr := reach_of_exec twoPollersSched _ Sys.Reach.init he
  have hs : sys.step ⟨{ pollers := 1, rebal := 1, out := 1 }, [⟨.aLock, []⟩, ⟨.pLock false, [.A]⟩, ⟨.rWait true, []⟩]⟩ 1 =
      some (⟨{ mu := true, pollers := 2, rebal := 1, out := 1 }, [⟨.aLock, []⟩, ⟨.pUnlock false, [.A]⟩, ⟨.rWait true, []⟩]⟩, "") := by decide
  have := h _ _ _ 1 _ false [.A] hr (by decide) (by decide) hs
  simp at this

/-- No lost wake-up: a poller is parked and un-notified only while a rebalance is registered, a rebalancer
only while the poller count is non-zero (every decrement of either half broadcasts). -/
theorem gate_no_lost_wakeup {progs : List (List Op)} {s : St Sh Th} (hr : sys.Reach (init progs) s) :
    (cnt pwp s.ths > 0 → s.sh.rebal > 0) ∧ (cnt rwp s.ths > 0 → s.sh.pollers > 0) :=
  ⟨(reach_inv hr).pw, (reach_inv hr).rw⟩

/-- Non-vacuity: a reachable state with a rebalance inside, another rebalance parked behind … no: a state
where a rebalancer is inside while a poller is parked waiting for it. -/
example : ∃ s, sys.Reach (init [[.P, .A], [.R]]) s ∧ cnt ins s.ths > 0 ∧ cnt pwp s.ths > 0 := by
  refine ⟨_, reach_of_exec [1, 1, 0, 0] _ Sys.Reach.init (by decide : sys.exec (init [[.P, .A], [.R]]) [1, 1, 0, 0] = some
    ⟨{ rebal := 1 }, [⟨.pWait false, [.A]⟩, ⟨.xLock, []⟩]⟩), by decide, by decide⟩

/-
Observable level. The property sentence "a rebalance's revocation never runs while a poll that returned
records is outstanding (until AllowRebalance)", with `out` = number of polls outstanding by the observable
bookkeeping (returns of `waitAndAddPoller`, of a poll's own `unaddPoller`, of `AllowRebalance`) and
`insObs` = rebalancers between the return of `waitAndAddRebalance` and the return of `unaddRebalance`:
  ∀ reachable s, cnt insObs s.ths > 0 → s.sh.out = 0.
This full statement is FALSE of the code (`gate_revocation_exclusion_unconditional_false`): an
`AllowRebalance` that returns while another thread is inside its fill lets that thread's later
`unaddPoller` release a different poll's count (finding `late-release-steals-poll`). Proved: the
`…_partial` version under the hypothesis naming exactly that class, `viol = false` (no `AllowRebalance`
returned while some thread was between the return of `waitAndAddPoller` and the return of its `unaddPoller`).
The counter-level statement `gate_rebalance_only_with_zero_pollers` holds without any hypothesis.
-/
/-- **No revocation while a poll is outstanding — partial** (observable level). -/
theorem gate_no_revocation_while_poll_outstanding_partial {progs : List (List Op)} {s : St Sh Th}
    (hr : sys.Reach (init progs) s) (hv : s.sh.viol = false) (hin : cnt insObs s.ths > 0) :
    s.sh.out = 0 ∧ cnt fl s.ths = 0 := by
  have h := ((reach_cinv hr).o hv).H (by have := (obs_le s.ths).2.2.2.2; omega)
  exact ⟨h.1, h.2.1⟩

/-- Under the same hypothesis the observable bookkeeping and the counter agree whenever the gate's mutex is free. -/
theorem gate_counter_matches_observable_partial {progs : List (List Op)} {s : St Sh Th}
    (hr : sys.Reach (init progs) s) (hv : s.sh.viol = false) (hmu : s.sh.mu = false) :
    s.sh.pollers = s.sh.out := by
  obtain ⟨hg, ho⟩ := reach_cinv hr
  have hO := (ho hv).O
  have := hg.mu; simp [muN, hmu] at this
  obtain ⟨a1, a2, a3, _, _⟩ := obs_le s.ths
  have := hO (by omega)
  omega

/-- The late release: thread 0's fill finds nothing, thread 1 allows and polls again (keeps records), thread 0's
deferred `unaddPoller` lands, the rebalance enters. -/
def stealProgs : List (List Op) := [[.Q], [.A, .P], [.R]]
def stealSched : List Nat := [0, 0, 1, 1, 1, 1, 0, 0, 2, 2]

/-- The unconditional observable-level sentence does not hold of the code. -/
theorem gate_revocation_exclusion_unconditional_false :
    ¬ (∀ (progs : List (List Op)) (s : St Sh Th), sys.Reach (init progs) s → cnt insObs s.ths > 0 → s.sh.out = 0) := by
  intro h
  have he : sys.exec (init stealProgs) stealSched =
      some ⟨{ rebal := 1, out := 1, viol := true, ep := 1 }, [⟨.done, []⟩, ⟨.done, []⟩, ⟨.xLock, []⟩]⟩ := by decide
  have := h _ _ (reach_of_exec stealSched _ Sys.Reach.init he) (by decide)
  simp at this

/-- **Deadlock freedom** under the client contract (`Contract`: every thread either polls/allows — and
every poll that keeps records is followed by an `AllowRebalance` of the same thread — or only rebalances):
unless every thread has finished, some thread can act. Together with `gate_every_run_finite` every
maximal execution ends with all threads finished. Without the contract the statement is false
(`P ; R` with no `AllowRebalance` blocks the rebalance forever: documented, `Close` "will hang"). -/
theorem gate_deadlock_free {progs : List (List Op)} (hc : Contract progs) {s : St Sh Th}
    (hr : sys.Reach (init progs) s) (hnd : sys.allDone s = false) : ∃ i, (sys.step s i).isSome :=
  deadlock_free hc hr hnd

/-- Every action decreases the pair (straight-line actions left, actions left inside wait loops)
lexicographically — for any programs, contract or not. -/
theorem gate_step_decreases {s s' : St Sh Th} {i : Nat} {ev : String} (hs : sys.step s i = some (s', ev)) :
    M s' < M s ∨ (M s' = M s ∧ L s' < L s) := step_decrease hs

/-- **Well-founded measure**: there is no infinite execution of the gate (a wait loop iterates only when
another thread broadcast, and every broadcast is straight-line progress of its thread). -/
theorem gate_every_run_finite (f : Nat → St Sh Th)
    (h : ∀ n, ∃ i ev, sys.step (f n) i = some (f (n + 1), ev)) : False := no_infinite_run f h

example : Contract [[.P, .Q, .A], [.Q, .A, .P, .P, .A], [.R, .R], []] := by
  intro p hp; simp at hp; rcases hp with rfl | rfl | rfl | rfl <;> decide

/-- The contract is needed: a kept poll that is never allowed blocks the rebalance for ever. -/
example : ∃ s, sys.Reach (init [[.P], [.R]]) s ∧ sys.allDone s = false ∧ ∀ i, sys.step s i = none := by
  refine ⟨_, reach_of_exec [0, 0, 1, 1] _ Sys.Reach.init (by decide : sys.exec (init [[.P], [.R]]) [0, 0, 1, 1] = some
    ⟨{ pollers := 1, rebal := 1, out := 1 }, [⟨.done, []⟩, ⟨.rWait true, []⟩]⟩), by decide, ?_⟩
  intro i
  match i with
  | 0 => decide
  | 1 => decide
  | n + 2 => simp [Sys.step]

end Gate

/-! ## Mutex -/
section Mx
open Mx

/-- **Mutual exclusion**: for lock/unlock-balanced clients the token count plus the number of holders is
one; in particular at most one thread is between `Lock`/successful `TryLock` and `Unlock`. -/
theorem mutex_mutual_exclusion {progs : List (List Op)} (hb : Balanced progs) {s : St Sh Th}
    (hr : sys.Reach (init progs) s) : s.sh.ch + cnt holds s.ths = 1 ∧ cnt holds s.ths ≤ 1 := by
  have := (reach_inv hb hr).tok; exact ⟨this, by omega⟩

/-- `TryLock` never blocks, and it succeeds exactly when no thread holds the mutex. -/
theorem mutex_trylock_never_blocks {progs : List (List Op)} (hb : Balanced progs) {s : St Sh Th}
    (hr : sys.Reach (init progs) s) (prog : List Op) :
    ∃ r, stepT s.sh ⟨.tryl, prog⟩ = some r ∧ (r.2.1.pc = .unlock true ↔ cnt holds s.ths = 0) := by
  have h := (reach_inv hb hr).tok
  simp only [stepT]
  split
  · rename_i h0; refine ⟨_, rfl, ?_⟩
    constructor
    · intro hp; cases prog with
      | nil => simp [start] at hp
      | cons o r => cases o <;> simp [start] at hp
    · intro hc; omega
  · rename_i h0; exact ⟨_, rfl, by simp; omega⟩

/-- Balanced clients never hit `panic("sync: unlock of unlocked mutex")`. -/
theorem mutex_unlock_never_panics {progs : List (List Op)} (hb : Balanced progs) {s : St Sh Th}
    (hr : sys.Reach (init progs) s) {t : Th} (hm : t ∈ s.ths) {own : Bool} (hp : t.pc = .unlock own) : s.sh.ch = 0 := by
  obtain ⟨h1, h2⟩ := reach_inv hb hr
  have hown : own = true := by
    cases own with
    | true => rfl
    | false =>
      have : 0 < cnt unbal s.ths := cnt_pos_of_mem hm (by simp [unbal, hp])
      omega
  subst hown
  have : 0 < cnt holds s.ths := cnt_pos_of_mem hm (by simp [holds, hp])
  omega

/-- **Deadlock freedom**: unless every thread has finished, some thread can act. -/
theorem mutex_deadlock_free {progs : List (List Op)} (hb : Balanced progs) {s : St Sh Th}
    (hr : sys.Reach (init progs) s) (hnd : sys.allDone s = false) : ∃ i, (sys.step s i).isSome := by
  have h1 := (reach_inv hb hr).tok
  simp only [Sys.allDone, List.all_eq_false] at hnd
  obtain ⟨t, hm, hnd⟩ := hnd
  by_cases hch : s.sh.ch = 0
  · -- someone holds the token and can unlock
    have : 0 < cnt holds s.ths := by omega
    obtain ⟨t', hm', hh⟩ := cnt_pos this
    refine sys.step_of_mem hm' ?_
    obtain ⟨pc, prog⟩ := t'
    have : pc = .unlock true := by
      simp only [holds] at hh; split at hh
      · assumption
      · omega
    subst this
    simp [sys, stepT, hch]
  · refine sys.step_of_mem hm ?_
    obtain ⟨pc, prog⟩ := t
    cases pc <;> simp [sys, stepT, hch] at hnd ⊢

example : Balanced [[.L, .T], [.T, .L], [.L]] := by unfold Balanced; decide

end Mx

/-! ## RWMutex -/
section Rw
open Rw

/-- **Writers alone**: at most one writer is inside, and while a writer is inside `readerCount = 0`,
no reader is inside, and no other thread holds the gate token. -/
theorem rwmutex_writer_excludes_everyone {progs : List (List Op)} (hb : Balanced progs) {s : St Sh Th}
    (hr : sys.Reach (init progs) s) :
    cnt wIn s.ths ≤ 1 ∧ (cnt wIn s.ths > 0 → cnt rIn s.ths = 0 ∧ s.sh.rc = 0 ∧ s.sh.gate = 0 ∧ cnt gh s.ths = 1) := by
  obtain ⟨g1, _, g3, _, _, _, _, g8, _⟩ := reach_inv hb hr
  obtain ⟨w1, w2⟩ := wIn_le s.ths
  refine ⟨by omega, fun h => ?_⟩
  have hrc := g8 (by omega)
  have := rIn_le s.ths
  refine ⟨by omega, hrc, by omega, by omega⟩

/-- **`readerCount` = number of readers inside**: the field equals the number of threads between their
`readerCount++` and their `readerCount--`; every reader inside its section is among them; it is never negative. -/
theorem rwmutex_readerCount_counts_readers {progs : List (List Op)} (hb : Balanced progs) {s : St Sh Th}
    (hr : sys.Reach (init progs) s) : s.sh.rc = (cnt rcn s.ths : Nat) ∧ cnt rIn s.ths ≤ cnt rcn s.ths ∧ 0 ≤ s.sh.rc := by
  have := (reach_inv hb hr).rc
  exact ⟨this, rIn_le s.ths, by omega⟩

/-- **A stale `writerSignal` never admits a writer with readers present**: whenever a writer is past its
drain and a signal is buffered, `readerCount = 0`; whenever a reader is about to post the signal the count is 0. -/
theorem rwmutex_stale_signal_harmless {progs : List (List Op)} (hb : Balanced progs) {s : St Sh Th}
    (hr : sys.Reach (init progs) s) :
    (cnt wd s.ths > 0 → s.sh.sig = 1 → s.sh.rc = 0) ∧ (cnt r2 s.ths > 0 → s.sh.rc = 0) ∧ s.sh.sig ≤ 1 :=
  ⟨(reach_inv hb hr).i4, (reach_inv hb hr).i5, (reach_inv hb hr).sig1⟩

/-- The token discipline: `gate` and `mu` hold one token each, shared with their holders. -/
theorem rwmutex_tokens {progs : List (List Op)} (hb : Balanced progs) {s : St Sh Th}
    (hr : sys.Reach (init progs) s) : s.sh.gate + cnt gh s.ths = 1 ∧ s.sh.mu + cnt mh s.ths = 1 :=
  ⟨(reach_inv hb hr).gate, (reach_inv hb hr).mu⟩

/-- **No lost wake-up for the writer**: a writer that saw readers and waits for the signal with none
buffered still has a counted reader or a reader about to post the signal. -/
theorem rwmutex_writer_wakeup_pending {progs : List (List Op)} (hb : Balanced progs) {s : St Sh Th}
    (hr : sys.Reach (init progs) s) (hw : cnt w5 s.ths > 0) (h0 : s.sh.sig = 0) : s.sh.rc > 0 ∨ cnt r2 s.ths > 0 :=
  (reach_inv hb hr).i7 hw h0

/-- **`TryLock`/`TryRLock` never block on the gate or the signal**: their first action and the drain are
`select … default` (always enabled); giving the gate back after a failed `TryLock`, and after any reader
entry, is enabled because the thread itself holds the token. They wait only for the inner mutex,
whose holders are always enabled (`rwmutex_deadlock_free`). -/
theorem rwmutex_try_never_blocks {progs : List (List Op)} (hb : Balanced progs) {s : St Sh Th}
    (hr : sys.Reach (init progs) s) (prog : List Op) :
    (stepT s.sh ⟨.trl1, prog⟩).isSome ∧ (stepT s.sh ⟨.twl1, prog⟩).isSome ∧ (stepT s.sh ⟨.twl2, prog⟩).isSome ∧
    (∀ t ∈ s.ths, (t.pc = .twl5 ∨ (∃ y, t.pc = .rl4 y)) → s.sh.gate = 0) := by
  have g1 := (reach_inv hb hr).gate
  refine ⟨by simp [stepT]; split <;> simp, by simp [stepT]; split <;> simp, by simp [stepT], ?_⟩
  intro t hm hp
  have : 0 < cnt gh s.ths := cnt_pos_of_mem hm (by
    obtain ⟨pc, p⟩ := t
    rcases hp with h | ⟨y, h⟩ <;> (simp at h; subst h; simp [gh]))
  omega

/-- **`TryLock` succeeds only when allowed**: it returns true only having read `readerCount = 0` while
holding the gate (so `rwmutex_writer_excludes_everyone` applies), and `TryRLock`/`TryLock` return false
at their first action exactly when the gate token is taken. -/
theorem rwmutex_try_fails_only_when_gate_taken (sh : Sh) (prog : List Op) :
    ((∃ r, stepT sh ⟨.trl1, prog⟩ = some r ∧ r.2.2.2 = ":tr0") ↔ sh.gate = 0) ∧
    ((∃ r, stepT sh ⟨.twl1, prog⟩ = some r ∧ r.2.2.2 = ":tw0") ↔ sh.gate = 0) := by
  constructor <;> (simp only [stepT]; split <;> simp_all)

/-- Balanced clients never reach a `panic` of `RUnlock`/`Unlock`/the inner `Mutex.Unlock`. -/
theorem rwmutex_never_panics {progs : List (List Op)} (hb : Balanced progs) {s : St Sh Th}
    (hr : sys.Reach (init progs) s) {t : Th} (hm : t ∈ s.ths) :
    t.pc ≠ .ruP ∧ (mh t = 1 → s.sh.mu = 0) ∧ (∀ own, t.pc = .wu own → s.sh.gate = 0) := by
  obtain ⟨g1, g2, _, g4, _⟩ := reach_inv hb hr
  refine ⟨?_, ?_, ?_⟩
  · intro h
    have : 0 < cnt unbal s.ths := cnt_pos_of_mem hm (by simp [unbal, h])
    omega
  · intro h
    have : 0 < cnt mh s.ths := cnt_pos_of_mem hm (by omega)
    omega
  · intro own h
    cases own with
    | false =>
      have : 0 < cnt unbal s.ths := cnt_pos_of_mem hm (by simp [unbal, h])
      omega
    | true =>
      have : 0 < cnt gh s.ths := cnt_pos_of_mem hm (by obtain ⟨pc, p⟩ := t; simp at h; subst h; simp [gh])
      omega

/-- **Deadlock freedom** for lock/unlock-balanced clients: unless every thread has finished, some thread can act. -/
theorem rwmutex_deadlock_free {progs : List (List Op)} (hb : Balanced progs) {s : St Sh Th}
    (hr : sys.Reach (init progs) s) (hnd : sys.allDone s = false) : ∃ i, (sys.step s i).isSome :=
  deadlock_free hb hr hnd

/-- Non-vacuity, and "readers share": two readers inside at once while a writer waits at the gate. -/
example : ∃ s, sys.Reach (init [[.R], [.R], [.W]]) s ∧ cnt rIn s.ths = 2 ∧ s.sh.rc = 2 := by
  refine ⟨_, reach_of_exec [0, 0, 0, 0, 1, 1, 1, 1] _ Sys.Reach.init
    (by decide : sys.exec (init [[.R], [.R], [.W]]) [0, 0, 0, 0, 1, 1, 1, 1] = some
      ⟨{ rc := 2 }, [⟨.rsec, []⟩, ⟨.rsec, []⟩, ⟨.wl1, []⟩]⟩), by decide, by decide⟩

/-- Non-vacuity of the stale-signal case: a signal is buffered although no writer ever waited for it. -/
example : ∃ s, sys.Reach (init [[.R], [.W]]) s ∧ s.sh.sig = 1 ∧ cnt wd s.ths = 0 := by
  refine ⟨_, reach_of_exec [0, 0, 0, 0, 0, 0, 0, 0] _ Sys.Reach.init
    (by decide : sys.exec (init [[.R], [.W]]) [0, 0, 0, 0, 0, 0, 0, 0] = some
      ⟨{ sig := 1 }, [⟨.done, []⟩, ⟨.wl1, []⟩]⟩), by decide, by decide⟩

example : Balanced [[.R, .TW], [.W, .TR], [.R]] := by
  intro p hp; simp at hp; rcases hp with rfl | rfl | rfl <;> decide

end Rw

end Props.C31
