import FranzVerif.Model.Idem
/-! C02 — placeholder while the theorems are being written (see git log); no theorems yet. -/
namespace Props.C02
end Props.C02
