import FranzVerif.Model.Idem
import FranzVerif.Proof.Idem
/-! C02 — idempotent producing: acked once, in order; failed absent. Theorems over ALL accepted
histories of the monitor `Model.Idem`; the tie is the history correspondence of `harness/cmd/sim02`.
In every statement the history has the shape the harness produces: client and wire events, then the
log read back, then the quiescent mark. -/
namespace Props.C02
open Model.Idem Proof.Idem

/-- A record whose promise reports success appears exactly once in the log, at the partition and
offset given to the promise. -/
theorem acked_exactly_once_at_promised_offset (h : List Ev) (s : St) (hacc : run {} (h ++ [Ev.quiesce]) = some s)
    (id : Id) (part : Nat) (off : Int) (hp : (id, true, part, off) ∈ promisesOf h) :
    ∃ o : Nat, (o : Int) = off ∧ (logOf h).filter (fun e => e.2.2 == id) = [(part, o, id)] := by
  sorry

/-- A record whose promise reports an error is not in the log. -/
theorem failed_absent (h : List Ev) (s : St) (hacc : run {} (h ++ [Ev.quiesce]) = some s)
    (id : Id) (part : Nat) (off : Int) (hp : (id, false, part, off) ∈ promisesOf h) :
    ∀ e ∈ logOf h, e.2.2 ≠ id := by
  sorry

/-- No record is in the log twice, no two records share an offset, and the log holds only produced records,
each of which was promised exactly once. -/
theorem log_has_no_duplicates (h : List Ev) (s : St) (hacc : run {} (h ++ [Ev.quiesce]) = some s) :
    ((logOf h).map (·.2.2)).Nodup ∧ ((logOf h).map (fun e => (e.1, e.2.1))).Nodup ∧
    (∀ e ∈ logOf h, e.2.2 ∈ calledIds h) ∧ ((promisesOf h).map (·.1)).Nodup ∧
    (∀ id ∈ calledIds h, id ∈ (promisesOf h).map (·.1)) := by
  sorry

/-- Successful records of one partition appear in produce order: if `a`'s produce call returned before
`b`'s began and both were acked on the same partition, `a` has the smaller offset. -/
theorem acked_in_produce_order (h : List Ev) (s : St) (hacc : run {} (h ++ [Ev.quiesce]) = some s)
    (a b : Id) (part : Nat) (oa ob : Int)
    (ha : (a, true, part, oa) ∈ promisesOf h) (hb : (b, true, part, ob) ∈ promisesOf h)
    (hord : returnedBefore h a b) : oa < ob := by
  sorry

end Props.C02
