import FranzVerif.Model.Idem
import FranzVerif.Proof.Idem
import FranzVerif.Proof.IdemInv
import FranzVerif.Proof.IdemFacts
/-! C02 — idempotent producing: acked once, in order; failed absent. Theorems over ALL accepted
histories of the monitor `Model.Idem`; the tie is the history correspondence of `harness/cmd/sim02`.
In every statement the history has the shape the harness produces: client and wire events, then the
log read back, then the quiescent mark. -/
namespace Props.C02
open Model.Idem Proof.Idem

/-- A record whose promise reports success appears exactly once in the log, at the partition and
offset given to the promise. -/
theorem acked_exactly_once_at_promised_offset (h : List Ev) (s : St) (hacc : run {} (h ++ [Ev.quiesce]) = some s)
    (id : Id) (part : Nat) (off : Int) (hp : (id, true, part, off) ∈ promisesOf h) :
    ∃ o : Nat, (o : Int) = off ∧ (logOf h).filter (fun e => e.2.2 == id) = [(part, o, id)] := by
  obtain ⟨s₁, h1, hchk⟩ := run_snoc hacc
  have hi := inv_of_run h1
  obtain ⟨_, hlogged, _⟩ := quiesce_check hi hchk
  -- the record is in the log (checked at the quiescent mark) …
  obtain ⟨e, he, heid⟩ := hlogged _ hp rfl
  -- … at the place its only promise names (checked when the entry was read) …
  have hp' := hi.logProm e he
  have heq := prom_unique hi.promNodup hp' hp heid
  simp only [Prod.mk.injEq, true_and] at heq
  obtain ⟨_, hpart, hoff⟩ := heq
  -- … and nowhere else (distinct ids in the log)
  refine ⟨e.2.1, hoff, ?_⟩
  have := filter_unique hi.logIds he
  rw [heid] at this
  rw [this]
  obtain ⟨p, o, i⟩ := e
  simp only at heid hpart
  rw [heid, hpart]

/-- A record whose promise reports an error is not in the log. -/
theorem failed_absent (h : List Ev) (s : St) (hacc : run {} (h ++ [Ev.quiesce]) = some s)
    (id : Id) (part : Nat) (off : Int) (hp : (id, false, part, off) ∈ promisesOf h) :
    ∀ e ∈ logOf h, e.2.2 ≠ id := by
  obtain ⟨s₁, h1, _⟩ := run_snoc hacc
  have hi := inv_of_run h1
  intro e he heid
  have heq := prom_unique hi.promNodup (hi.logProm e he) hp heid
  simp at heq

/-- No record is in the log twice, no two records share an offset, and the log holds only produced records,
each of which was promised exactly once. -/
theorem log_has_no_duplicates (h : List Ev) (s : St) (hacc : run {} (h ++ [Ev.quiesce]) = some s) :
    ((logOf h).map (·.2.2)).Nodup ∧ ((logOf h).map (fun e => (e.1, e.2.1))).Nodup ∧
    (∀ e ∈ logOf h, e.2.2 ∈ calledIds h) ∧ ((promisesOf h).map (·.1)).Nodup ∧
    (∀ id ∈ calledIds h, id ∈ (promisesOf h).map (·.1)) := by
  obtain ⟨s₁, h1, hchk⟩ := run_snoc hacc
  have hi := inv_of_run h1
  obtain ⟨hall, _, _⟩ := quiesce_check hi hchk
  exact ⟨hi.logIds, hi.logOffs, hi.logCalled, hi.promNodup, hall⟩

/-- Successful records of one partition appear in produce order: if `a`'s produce call returned before
`b`'s began and both were acked on the same partition, `a` has the smaller offset. -/
theorem acked_in_produce_order (h : List Ev) (s : St) (hacc : run {} (h ++ [Ev.quiesce]) = some s)
    (a b : Id) (part : Nat) (oa ob : Int)
    (ha : (a, true, part, oa) ∈ promisesOf h) (hb : (b, true, part, ob) ∈ promisesOf h)
    (hord : returnedBefore h a b) : oa < ob := by
  obtain ⟨s₁, h1, hchk⟩ := run_snoc hacc
  have hi := inv_of_run h1
  obtain ⟨_, _, hordchk⟩ := quiesce_check hi hchk
  obtain ⟨earlier, hbef, hmem⟩ := before_of_returnedBefore h1 hord
  exact hordchk b earlier hbef a hmem part oa ob ha hb

/-- The wire rule: a sequence number of one `(partition, producer id, epoch)` stream is used again only for
a retry of the same records, or after every record of the batch that last carried it was failed.
`wreq … ids₁` is the most recent earlier `wreq` of that stream and number (none inside `h₂`). -/
theorem sequence_reuse_only_for_retries_or_failed_batches (h₁ h₂ h₃ : List Ev)
    (n₁ act₁ n₂ act₂ part pid : Nat) (epoch : Int) (seq cnt₁ cnt₂ : Nat) (ids₁ ids₂ : List Id)
    (hacc : (run {} (h₁ ++ Ev.wreq n₁ act₁ part pid epoch seq cnt₁ ids₁ :: h₂ ++
      Ev.wreq n₂ act₂ part pid epoch seq cnt₂ ids₂ :: h₃)).isSome)
    (hlast : ∀ n act cnt ids, Ev.wreq n act part pid epoch seq cnt ids ∉ h₂) :
    (ids₁ = ids₂ ∧ cnt₁ = cnt₂) ∨
    ∀ i ∈ ids₁, ∃ p o, (i, false, p, o) ∈ promisesOf (h₁ ++ Ev.wreq n₁ act₁ part pid epoch seq cnt₁ ids₁ :: h₂) := by
  obtain ⟨s₁, h1, hchk, _⟩ := run_split hacc
  have hi := inv_of_run h1
  have hb := hi.batches part pid epoch seq
  rw [lastBatch_decomp part pid epoch seq h₁ h₂ n₁ act₁ cnt₁ ids₁ hlast] at hb
  exact wreq_check hi hb hchk

/-- Non-vacuity: two partitions; the batch of record 1 is appended but its response is lost (`act = 2`,
`delivered = false`) and it is retried with the same sequence number; record 3 (partition 1) is failed and
absent from the log; its sequence number 0 is then reused for record 4; records 1, 2 (partition 0, in produce
order) and 4 are in the log. -/
example : accepts
    [.call 1 0, .ret 1, .call 2 0, .ret 2, .call 3 1, .ret 3,
     .wreq 1 2 0 7 0 0 1 [1], .wresp 1 0 0 0 false,
     .wreq 2 0 0 7 0 0 1 [1], .wresp 2 0 0 0 true, .promise 1 true 0 0,
     .wreq 3 1 1 7 0 0 1 [3], .promise 3 false 1 (-1),
     .call 4 1, .ret 4,
     .wreq 4 0 1 7 0 0 1 [4], .wresp 4 1 0 0 true, .promise 4 true 1 0,
     .wreq 5 0 0 7 0 1 1 [2], .wresp 5 0 0 1 true, .promise 2 true 0 1,
     .logEntry 0 0 1, .logEntry 0 1 2, .logEntry 1 0 4, .quiesce] = true := by decide

/-- the same history with the failed record 3 in the log is rejected, and so is reusing sequence number 0
of partition 1 for record 4 while record 3 is not failed -/
example : accepts
    [.call 3 1, .ret 3, .wreq 3 1 1 7 0 0 1 [3], .promise 3 false 1 (-1), .logEntry 1 0 3, .quiesce] = false := by
  decide
example : accepts
    [.call 3 1, .ret 3, .call 4 1, .wreq 3 1 1 7 0 0 1 [3], .wreq 4 0 1 7 0 0 1 [4]] = false := by decide

end Props.C02
