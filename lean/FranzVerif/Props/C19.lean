import FranzVerif.Model.C19
import FranzVerif.Proof.C19
/-! C19 — property theorems (compression round-trips and decompression is bounded).

PARTIAL by design: the third-party codecs are parameters (`Lib`, `Enc`). Theorems whose statement needs a
fact about a codec take it as a hypothesis and carry the suffix `_partial`; the assumed contracts are
  (K1) `s2.Decode` returns exactly `s2.DecodedLen` bytes,
  (K2) `zstd.DecodeAll` under `WithDecoderMaxMemory(max)` returns at most `max` bytes,
  (K3) the decoders invert the encoders,
  (K4) library calls return (they are total functions here).
Everything else (selection, limit arithmetic, framing, the reference decoders) is proved for all inputs. -/
namespace Props.C19
open Model.C19

/-! ### Codec selection -/

/-- `DefaultCompressor` never panics on `c.options[0]`. -/
theorem build_never_panics (prefs : List Pref) : build prefs ≠ .panic :=
  Proof.C19.build_ne_panic prefs

/-- zstd is never chosen when `CompressDisableZstd` is passed — for every option list. -/
theorem zstd_never_chosen_when_disabled (opts : List Int) (flags : List Int) (h : 1 ∈ flags) :
    choose opts (disableZstd flags) ≠ 4 :=
  Proof.C19.choose_ne_zstd opts flags h

example : choose [4, 4, 2] (disableZstd [2, 1]) = 2 := by decide

/-- The reported codec is the one used: the bytes returned come from the encoder of the reported codec (with
the level of that codec's first occurrence), `CodecNone` returns the input, and the only other outcome is
`CodecError` with nil bytes. -/
theorem reported_codec_is_used (enc : Enc) (prefs : List Pref) (opts flags : List Int) (src : Bytes) :
    let r := compress enc prefs opts flags src
    (r.2 = 0 ∧ r.1 = some src) ∨
    (r.2 = choose opts (disableZstd flags) ∧ r.2 ≠ 0 ∧ r.1 = enc r.2 (levelOf prefs r.2) src ∧ r.1.isSome) ∨
    (r.2 = -1 ∧ r.1 = none) :=
  Proof.C19.compress_reported enc prefs opts flags src

/-- Selection picks the first usable preference: for every preference list over the codecs 0..4, the compressor
built from it chooses `Spec.firstUsable` of the list as written (duplicates, and everything behind a
`NoCompression`, do not matter); when no compressor is built (empty list, or `NoCompression` first) the first
usable preference is "none"; and lists over 0..4 are never rejected as unknown. -/
theorem selection_is_first_usable (prefs : List Pref) (dis : Bool)
    (hv : ∀ p ∈ prefs, 0 ≤ p.codec ∧ p.codec ≤ 4) :
    (∀ opts, build prefs = .comp opts → choose opts dis = Spec.firstUsable (prefs.map Pref.codec) dis) ∧
    (build prefs = .noCompressor → Spec.firstUsable (prefs.map Pref.codec) dis = 0) ∧
    build prefs ≠ .unknownCodec :=
  Proof.C19.selection_first_usable prefs dis hv

example : build [⟨4, 0⟩, ⟨4, 3⟩, ⟨0, 0⟩, ⟨1, 0⟩] = .comp [4, 0] ∧ choose [4, 0] true = 0 ∧
    Spec.firstUsable [4, 4, 0, 1] true = 0 := by decide

/-- The selection clause of the Spec holds of the model. -/
theorem selection_spec (prefs : List Pref) (flags : List Int) (opts : List Int)
    (hv : ∀ p ∈ prefs, 0 ≤ p.codec ∧ p.codec ≤ 4) (hb : build prefs = .comp opts) :
    Spec.selectionOk (prefs.map Pref.codec) (disableZstd flags) (choose opts (disableZstd flags)) = true :=
  Proof.C19.selection_spec prefs flags opts hv hb

/-! ### Bounded decompression -/

/-- gzip / lz4 paths (`io.Copy(out, io.LimitReader(r, max+1))`, `n > max → error`): whatever the library reader
yields - any bytes, any length, clean end or error - the answer is an error or at most `max` bytes, and then exactly
the stream. No assumption about the codec. -/
theorem limited_copy_bounded (max : Nat) (s : Stream) (out : Bytes) (h : limitedCopy max s = .ok out) :
    out.length ≤ max ∧ out = s.bytes ∧ s.clean = true :=
  Proof.C19.limitedCopy_bounded max s out h

example : limitedCopy 3 ⟨[1, 2, 3, 4], true, false⟩ = .err .tooLarge ∧ limitedCopy 3 ⟨[1, 2, 3], true, false⟩ = .ok [1, 2, 3] := by
  decide

/-- xerial framing: no slice or index of the loop is ever out of range (for every library behaviour, limit, dst
and source), and `xerialDecode` itself does not panic when entered with at least 16 bytes, which is how
`Decompress` enters it (`len(src) > 16`). -/
theorem xerial_never_panics (lib : Lib) (max : Nat) (dst src : Bytes) :
    xerialLoop lib max dst src ≠ .panic ∧ (16 ≤ src.length → xerialDecode lib max dst src ≠ .panic) :=
  ⟨(Proof.C19.xerialLoop_safe lib max dst src).1, Proof.C19.xerialDecode_ne_panic lib max dst src⟩

/-- The documented precondition is real: with fewer than 16 bytes `xerialDecode` does panic (`src[16:]`). -/
example : xerialDecode ⟨fun _ _ => ⟨[], true, false⟩, fun _ => none, fun _ => none, fun _ _ => none⟩ 10 [] [130, 83] = .panic := by
  decide

/-- Malformed framing ⇒ error, never data and never a panic: whenever the loop returns data the source is a
sequence of (4-byte big-endian non-negative int32 length, that many bytes) blocks (`Spec.frames`). -/
theorem xerial_malformed_is_error (lib : Lib) (max : Nat) (dst src : Bytes) (hm : Spec.frames src = none) :
    ∃ e, xerialLoop lib max dst src = .err e := by
  have h := Proof.C19.xerialLoop_safe lib max dst src
  cases hr : xerialLoop lib max dst src with
  | ok out => have := h.2 out hr; rw [hm] at this; cases this
  | err e => exact ⟨e, rfl⟩
  | panic => exact absurd hr h.1

/-- xerial output length ≤ limit, given (K1) `s2.Decode` returns `s2.DecodedLen` bytes. -/
theorem xerial_bounded_partial (lib : Lib) (max : Nat) (hK1 : Proof.C19.DecodeHonoursLen lib) (dst src out : Bytes)
    (hd : dst.length ≤ max) (h : xerialLoop lib max dst src = .ok out) : out.length ≤ max :=
  Proof.C19.xerialLoop_bounded lib max hK1 dst src hd out h

/-- A well-formed framing of blocks decodes to the concatenation of the blocks' decodings (appended to dst),
for blocks the library decodes (`dec`) and a total within the limit. -/
theorem xerial_wellformed_concat_partial (lib : Lib) (max : Nat) (dec : Bytes → Bytes) (bs : List Bytes) (dst : Bytes)
    (hb : ∀ b ∈ bs, b.length < 2147483648 ∧ lib.snapLen b = some (dec b).length ∧ lib.snapDec b = some (dec b))
    (hmax : dst.length + ((bs.map dec).flatten).length ≤ max) :
    xerialLoop lib max dst (bs.flatMap Proof.C19.frame) = .ok (dst ++ (bs.map dec).flatten) :=
  Proof.C19.xerialLoop_concat lib max dec bs dst hb hmax

/-- `Decompress` never panics: every codec number, limit and byte string (library calls are total: K4). -/
theorem decompress_never_panics_partial (lib : Lib) (max : Nat) (codec : Int) (src : Bytes) :
    decompress lib max codec src ≠ .panic :=
  Proof.C19.decompress_ne_panic lib max codec src

/-- `Decompress` never returns more than the maximum decompressed size, for every real codec (1..4; `CodecNone`
hands the input back), given (K1) for snappy and (K2) for zstd; gzip and lz4 need no assumption. -/
theorem decompress_bounded_partial (lib : Lib) (max : Nat) (hK1 : Proof.C19.DecodeHonoursLen lib)
    (hK2 : Proof.C19.ZstdHonoursLimit lib) (codec : Int) (hc : codec ≠ 0) (src out : Bytes)
    (h : decompress lib max codec src = .ok out) : out.length ≤ max :=
  Proof.C19.decompress_bounded lib max hK1 hK2 codec hc src out h

/-- The Spec's observation clause holds of the model on every input (under K1, K2). -/
theorem decompress_spec_partial (lib : Lib) (max : Nat) (hK1 : Proof.C19.DecodeHonoursLen lib)
    (hK2 : Proof.C19.ZstdHonoursLimit lib) (codec : Int) (hc : codec ≠ 0) (src : Bytes) :
    Spec.boundedOk max (match decompress lib max codec src with
      | .ok out => .ok out.length | .err _ => .err | .panic => .panic) = true := by
  cases h : decompress lib max codec src with
  | ok out => simpa [Spec.boundedOk] using decompress_bounded_partial lib max hK1 hK2 codec hc src out h
  | err e => rfl
  | panic => exact absurd h (decompress_never_panics_partial lib max codec src)

/-- Round trip: for every preference list, flags, and source within the limit, decompressing what `Compress`
returned with the codec it reported gives the source back — given (K3) the libraries' own round trips. -/
theorem roundtrip_partial (enc : Enc) (lib : Lib) (max : Nat) (hrt : Proof.C19.RoundTrips enc lib max)
    (prefs : List Pref) (opts flags : List Int) (hopts : ∀ o ∈ opts, 0 ≤ o ∧ o ≤ 4)
    (src : Bytes) (hlen : src.length ≤ max) (bytes : Bytes)
    (h : (compress enc prefs opts flags src).1 = some bytes) :
    decompress lib max (compress enc prefs opts flags src).2 bytes = .ok src :=
  Proof.C19.roundtrip enc lib max hrt prefs opts flags hopts src hlen bytes h

/-! ### The reference decoders used as independent implementations -/

/-- Reference snappy decoder: never reads or copies out of range, for every byte string; and what it returns
has exactly the length the block's header declares, which is at most the caller's `limit`. -/
theorem ref_snappy_safe (limit : Nat) (src : Arr) :
    snappyDecode limit src ≠ .panic ∧
    ∀ out, snappyDecode limit src = .ok out → (∃ n, snappyLen src = .ok (out.size, n)) ∧ out.size ≤ limit :=
  Proof.C19.snappyDecode_safe limit src

/-- literal "ab", then a copy of 4 bytes from offset 2: "ababab" -/
example : (match snappyDecode 100 #[6, 4, 97, 98, 1, 2] with | .ok o => o.toList | _ => []) = [97, 98, 97, 98, 97, 98] := by
  decide

/-- Reference LZ4 frame decoder: never reads or copies out of range and never returns more than `limit` bytes,
for every byte string and every checksum function. -/
theorem ref_lz4_safe (xxh : Arr → Nat) (limit : Nat) (src : Arr) :
    lz4Frame xxh limit src ≠ .panic ∧ ∀ out, lz4Frame xxh limit src = .ok out → out.size ≤ limit := by
  have h := Proof.C19.lz4Frame_safe xxh limit src
  cases hr : lz4Frame xxh limit src with
  | ok o => rw [hr] at h; exact ⟨by simp, fun out ho => by cases ho; exact h⟩
  | err => exact ⟨by simp, fun out ho => by cases ho⟩
  | panic => rw [hr] at h; exact absurd h (by simp [Proof.C19.okSize])

/-- a frame with one compressed block holding the literals "abc" (no checksums: checksum function constantly 0) -/
example : (match lz4Frame (fun _ => 0) 100 #[4, 34, 77, 24, 64, 64, 0, 4, 0, 0, 0, 48, 97, 98, 99, 0, 0, 0, 0] with
    | .ok o => o.toList | _ => []) = [97, 98, 99] := by
  decide

end Props.C19
