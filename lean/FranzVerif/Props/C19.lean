import FranzVerif.Model.C19
import FranzVerif.Proof.C19
/-! C19 — property theorems (compression round-trips and decompression is bounded).

PARTIAL by design: the third-party codecs are parameters (`Lib`, `Enc`). Theorems whose statement needs a
fact about a codec take it as a hypothesis and carry the suffix `_partial`; the assumed contracts are
  (K1) `s2.Decode` returns exactly `s2.DecodedLen` bytes,
  (K2) `zstd.DecodeAll` under `WithDecoderMaxMemory(max)` returns at most `max` bytes,
  (K3) the decoders invert the encoders,
  (K4) library calls return (they are total functions here).
Everything else (selection, limit arithmetic, framing, the reference decoders) is proved for all inputs. -/
namespace Props.C19
open Model.C19

/-! ### Codec selection -/

/-- `DefaultCompressor` never panics on `c.options[0]`. -/
theorem build_never_panics (prefs : List Pref) : build prefs ≠ .panic :=
  Proof.C19.build_ne_panic prefs

/-- zstd is never chosen when `CompressDisableZstd` is passed — for every option list. -/
theorem zstd_never_chosen_when_disabled (opts : List Int) (flags : List Int) (h : 1 ∈ flags) :
    choose opts (disableZstd flags) ≠ 4 :=
  Proof.C19.choose_ne_zstd opts flags h

example : choose [4, 4, 2] (disableZstd [2, 1]) = 2 := by decide

/-- The reported codec is the one used: the bytes returned come from the encoder of the reported codec (with
the level of that codec's first occurrence), `CodecNone` returns the input, and the only other outcome is
`CodecError` with nil bytes. -/
theorem reported_codec_is_used (enc : Enc) (prefs : List Pref) (opts flags : List Int) (src : Bytes) :
    let r := compress enc prefs opts flags src
    (r.2 = 0 ∧ r.1 = some src) ∨
    (r.2 = choose opts (disableZstd flags) ∧ r.2 ≠ 0 ∧ r.1 = enc r.2 (levelOf prefs r.2) src ∧ r.1.isSome) ∨
    (r.2 = -1 ∧ r.1 = none) :=
  Proof.C19.compress_reported enc prefs opts flags src

/-- Selection picks the first usable preference: for every preference list over the codecs 0..4, the compressor
built from it chooses `Spec.firstUsable` of the list as written (duplicates, and everything behind a
`NoCompression`, do not matter), and no compressor is built exactly when that choice is "none" up front. -/
theorem selection_is_first_usable (prefs : List Pref) (dis : Bool)
    (hv : ∀ p ∈ prefs, 0 ≤ p.codec ∧ p.codec ≤ 4) :
    (∀ opts, build prefs = .comp opts → choose opts dis = Spec.firstUsable (prefs.map Pref.codec) dis) ∧
    (build prefs = .noCompressor → Spec.firstUsable (prefs.map Pref.codec) dis = 0 ∨ (prefs.map Pref.codec).head? = some 0) ∧
    build prefs ≠ .unknownCodec :=
  Proof.C19.selection_first_usable prefs dis hv

example : build [⟨4, 0⟩, ⟨4, 3⟩, ⟨0, 0⟩, ⟨1, 0⟩] = .comp [4, 0] ∧ choose [4, 0] true = 0 ∧
    Spec.firstUsable [4, 4, 0, 1] true = 0 := by decide

/-- The selection clause of the Spec holds of the model. -/
theorem selection_spec (prefs : List Pref) (flags : List Int) (opts : List Int)
    (hv : ∀ p ∈ prefs, 0 ≤ p.codec ∧ p.codec ≤ 4) (hb : build prefs = .comp opts) :
    Spec.selectionOk (prefs.map Pref.codec) (disableZstd flags) (choose opts (disableZstd flags)) = true :=
  Proof.C19.selection_spec prefs flags opts hv hb

end Props.C19
