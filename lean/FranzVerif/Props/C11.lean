import FranzVerif.Model.Txn
import FranzVerif.Proof.Txn
/-! C11 — transaction end results are truthful. Theorems over ALL accepted histories of `Model.Txn`;
the tie is the history correspondence of the `txn` scenarios. -/
namespace Props.C11
open Model.Txn Proof.Txn

/-- When End reports a successful commit, the transaction's acknowledged records are committed: all visible. -/
theorem committed_records_visible (h : List Ev) (s : St) (hacc : run {} (h ++ [Ev.quiesce]) = some s)
    (hcomplete : isIncomplete h = false) (id : Id) (k part : Nat)
    (hp : (id, k, part) ∈ producedOf h) (ha : id ∈ ackedOf h) (hr : (k, true, true) ∈ resultsOf h) :
    id ∈ visibleIds h := by
  sorry

/-- When End reports an abort, none of that transaction's records is ever visible to read_committed consumers —
also after later transactions committed (the view is read at the end of the history). -/
theorem aborted_records_never_visible (h : List Ev) (s : St) (hacc : run {} h = some s)
    (id : Id) (k part : Nat) (ok : Bool) (hp : (id, k, part) ∈ producedOf h) (hr : (k, false, ok) ∈ resultsOf h) :
    id ∉ visibleIds h := by
  sorry

/-- When End reports an error for a commit, none of that transaction's records is visible — unless the broker
handled an EndTxn request of that very call and its response was lost (the client's documented "outcome
unconfirmed" error; listed as a known finding against the property's second sentence). -/
theorem failed_commit_records_never_visible_partial (h : List Ev) (s : St) (hacc : run {} h = some s)
    (id : Id) (k part : Nat) (hp : (id, k, part) ∈ producedOf h) (hr : (k, true, false) ∈ resultsOf h)
    (hlost : endResponseLost k h = false) :
    id ∉ visibleIds h := by
  sorry

/-- A transaction whose outcome the client never confirmed (it was never ended by this client) is not
silently merged into a later transaction: its records are not visible. -/
theorem unended_transaction_records_never_visible (h : List Ev) (s : St) (hacc : run {} h = some s)
    (id : Id) (k part : Nat) (hp : (id, k, part) ∈ producedOf h) (hr : ∀ c ok, (k, c, ok) ∉ resultsOf h) :
    id ∉ visibleIds h := by
  sorry

/-- Nothing is visible that was not produced, and nothing twice. -/
theorem visible_records_are_produced_once (h : List Ev) (s : St) (hacc : run {} h = some s) :
    (visibleIds h).Nodup ∧ ∀ id ∈ visibleIds h, ∃ k part, (id, k, part) ∈ producedOf h := by
  sorry

end Props.C11
