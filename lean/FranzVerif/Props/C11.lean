import FranzVerif.Model.Txn
import FranzVerif.Proof.Txn
import FranzVerif.Proof.TxnInv
import FranzVerif.Proof.TxnLost
import FranzVerif.Proof.TxnOffsets
/-! C11 — transaction end results are truthful. Theorems over ALL accepted histories of `Model.Txn`;
the tie is the history correspondence of the `txn` scenarios.

All five statements hold as first written, for every accepted history, with the observables unchanged; none
needs a hypothesis about where the `visible` events stand relative to the `endDone` events. The reason is the
rule `C11.harness-transaction-ended-twice`: a transaction has at most one result in the whole history
(`Proof.Txn.Inv.resNodup`), record ids are never reused (`Inv.idsNodup`), and a `visible` event is only accepted
when the result of the record's transaction *already logged* is a successful commit (`Inv.visOk`) — so that
result is the only one the transaction has, before or after the `visible` event.

`failed_commit_records_never_visible_partial` is kept as stated; its hypothesis `hlost` is not used, because the
monitor refuses a visible record of a failed commit in the lost-response case too (under the separate key
`C11.unconfirmed-commit-took-effect`, the known finding): `failed_commit_records_never_visible` is the statement
without it. What `endResponseLost` is for is which *key* refuses such a history: the two `…_key…` theorems below
say that the known-finding key is given only when `endResponseLost` holds, and that without a lost response the
history is refused under a key that is not the known finding's. (`endResponseLost k h` is implied by the
monitor's `k ∈ lostEnd`, not equivalent: it does not stop its scan at an intermediate `endStart` of another
transaction, which the sequential harness never emits; see `Proof/TxnLost.lean`.) -/
namespace Props.C11
open Model.Txn Proof.Txn

/-- When End reports a successful commit, the transaction's acknowledged records are committed: all visible. -/
theorem committed_records_visible (h : List Ev) (s : St) (hacc : run {} (h ++ [Ev.quiesce]) = some s)
    (hcomplete : isIncomplete h = false) (id : Id) (k part : Nat)
    (hp : (id, k, part) ∈ producedOf h) (ha : id ∈ ackedOf h) (hr : (k, true, true) ∈ resultsOf h) :
    id ∈ visibleIds h := by
  obtain ⟨s₁, hr₁, hchk⟩ := run_snoc hacc
  have hi := inv_of_run hr₁
  have hrec : (id, k, part) ∈ s₁.recs := by rw [hi.recs]; exact List.mem_reverse.2 hp
  have hack : id ∈ s₁.acked := by rw [hi.acked]; exact List.mem_reverse.2 ha
  have hres : resultOf s₁ k = some (true, true) := by
    apply resultOf_of_mem hi.resultsNodup
    rw [hi.results]; exact List.mem_reverse.2 hr
  obtain ⟨v, hv, he⟩ := quiesce_check hchk (by rw [hi.incomplete]; exact hcomplete) (id, k, part) hrec hack hres
  have : id ∈ s₁.vis.map (·.2.2) := List.mem_map.2 ⟨v, hv, he⟩
  rw [hi.vis] at this
  exact List.mem_reverse.1 this

/-- When End reports an abort, none of that transaction's records is ever visible to read_committed consumers —
also after later transactions committed (the view is read at the end of the history). -/
theorem aborted_records_never_visible (h : List Ev) (s : St) (hacc : run {} h = some s)
    (id : Id) (k part : Nat) (ok : Bool) (hp : (id, k, part) ∈ producedOf h) (hr : (k, false, ok) ∈ resultsOf h) :
    id ∉ visibleIds h := by
  intro hv
  have := ((inv_of_run hacc).visible_result hp hv hr).1
  cases this

/-- When End reports an error for a commit, none of that transaction's records is visible (in an accepted
history: also not when the broker handled an EndTxn request of that call and its response was lost — the
monitor refuses that too, under the key of the known finding). -/
theorem failed_commit_records_never_visible (h : List Ev) (s : St) (hacc : run {} h = some s)
    (id : Id) (k part : Nat) (hp : (id, k, part) ∈ producedOf h) (hr : (k, true, false) ∈ resultsOf h) :
    id ∉ visibleIds h := by
  intro hv
  have := ((inv_of_run hacc).visible_result hp hv hr).2
  cases this

/-- When End reports an error for a commit, none of that transaction's records is visible — unless the broker
handled an EndTxn request of that very call and its response was lost (the client's documented "outcome
unconfirmed" error; listed as a known finding against the property's second sentence). -/
theorem failed_commit_records_never_visible_partial (h : List Ev) (s : St) (hacc : run {} h = some s)
    (id : Id) (k part : Nat) (hp : (id, k, part) ∈ producedOf h) (hr : (k, true, false) ∈ resultsOf h)
    (_hlost : endResponseLost k h = false) :
    id ∉ visibleIds h :=
  failed_commit_records_never_visible h s hacc id k part hp hr

/-- The key of the known finding is given to a `visible` event only when the record belongs to a transaction
whose End(commit) reported an error *and* the broker handled an EndTxn request during that End call while its
response was lost. -/
theorem unconfirmed_key_only_when_response_lost (h : List Ev) (s : St) (hacc : run {} h = some s)
    (part off : Nat) (id : Id)
    (hkey : check s (.visible part off id) = some "C11.unconfirmed-commit-took-effect") :
    ∃ k p, (id, k, p) ∈ producedOf h ∧ (k, true, false) ∈ resultsOf h ∧ endResponseLost k h = true := by
  have hi := inv_of_run hacc
  obtain ⟨k, htx, hres, hl⟩ := visible_check_unconfirmed hkey
  obtain ⟨p, hp⟩ := txnOf_some htx
  refine ⟨k, p, ?_, ?_, (lostInv_of_run hacc).lost k hl⟩
  · rw [hi.recs] at hp; exact List.mem_reverse.1 hp
  · have := resultOf_some hres
    rw [hi.results] at this; exact List.mem_reverse.1 this

/-- Without such a lost response, a visible record of a transaction whose End(commit) reported an error is
refused under a key that is not the known finding's (`C11.failed-commit-record-visible`, or
`C11.record-visible-twice` if the record was listed before). -/
theorem failed_commit_visible_refused_key (h : List Ev) (s : St) (hacc : run {} h = some s)
    (id : Id) (k part : Nat) (hp : (id, k, part) ∈ producedOf h) (hr : (k, true, false) ∈ resultsOf h)
    (hlost : endResponseLost k h = false) (part' off : Nat) :
    check s (.visible part' off id) = some "C11.failed-commit-record-visible" ∨
    check s (.visible part' off id) = some "C11.record-visible-twice" := by
  have hi := inv_of_run hacc
  have htx : txnOf s id = some k := by
    apply txnOf_of_mem hi.recsNodup (part := part)
    rw [hi.recs]; exact List.mem_reverse.2 hp
  have hres : resultOf s k = some (true, false) := by
    apply resultOf_of_mem hi.resultsNodup
    rw [hi.results]; exact List.mem_reverse.2 hr
  have hnl : s.lostEnd.contains k = false := by
    cases hc : s.lostEnd.contains k with
    | false => rfl
    | true =>
      have := (lostInv_of_run hacc).lost k (by simpa using hc)
      rw [hlost] at this
      cases this
  rw [visible_check_failed htx hres, hnl]
  cases s.vis.any (·.2.2 == id)
  · left; rfl
  · right; rfl

/-- A transaction whose outcome the client never confirmed (it was never ended by this client) is not
silently merged into a later transaction: its records are not visible. -/
theorem unended_transaction_records_never_visible (h : List Ev) (s : St) (hacc : run {} h = some s)
    (id : Id) (k part : Nat) (hp : (id, k, part) ∈ producedOf h) (hr : ∀ c ok, (k, c, ok) ∉ resultsOf h) :
    id ∉ visibleIds h := by
  intro hv
  exact hr true true ((inv_of_run hacc).visible_ended hp hv)

/-- Nothing is visible that was not produced, and nothing twice. -/
theorem visible_records_are_produced_once (h : List Ev) (s : St) (hacc : run {} h = some s) :
    (visibleIds h).Nodup ∧ ∀ id ∈ visibleIds h, ∃ k part, (id, k, part) ∈ producedOf h := by
  have hi := inv_of_run hacc
  refine ⟨hi.visNodup, ?_⟩
  intro id hv
  obtain ⟨k, p, h1, _⟩ := hi.visOk id hv
  exact ⟨k, p, h1⟩

/-! ### non-vacuity -/

/-- Three transactions on partitions 0 and 1: transaction 1 (records 1, 2) committed, transaction 2 (record 3)
aborted, transaction 3 (record 4) whose End(commit) reported an error after `fault 26 2` (EndTxn handled, its
response dropped) happened during the End call. The read_committed view holds records 1 and 2 only, the
read_uncommitted view all four. Accepted. -/
example : accepts
    [.begin_ 1 true, .produce 1 1 0, .produce 2 1 1, .promise 1 true 0 0, .promise 2 true 1 0,
     .endStart 1 true, .endDone 1 true true,
     .begin_ 2 true, .produce 3 2 0, .promise 3 true 0 2, .endStart 2 false, .endDone 2 false true,
     .begin_ 3 true, .produce 4 3 0, .promise 4 true 0 4, .endStart 3 true, .fault 26 2, .endDone 3 true false,
     .visible 0 0 1, .visible 1 0 2,
     .raw 0 0 1, .raw 0 2 3, .raw 0 4 4, .raw 1 0 2, .quiesce] = true := by decide

/-- The observables of that history (without the closing `quiesce`): the hypotheses of all five theorems are met
by it (record 1: produced by 1, acknowledged, `(1, true, true)`; record 3: `(2, false, true)`; record 4:
`(3, true, false)` with `endResponseLost 3`). -/
example : let h : List Ev :=
    [.begin_ 1 true, .produce 1 1 0, .produce 2 1 1, .promise 1 true 0 0, .promise 2 true 1 0,
     .endStart 1 true, .endDone 1 true true,
     .begin_ 2 true, .produce 3 2 0, .promise 3 true 0 2, .endStart 2 false, .endDone 2 false true,
     .begin_ 3 true, .produce 4 3 0, .promise 4 true 0 4, .endStart 3 true, .fault 26 2, .endDone 3 true false,
     .visible 0 0 1, .visible 1 0 2,
     .raw 0 0 1, .raw 0 2 3, .raw 0 4 4, .raw 1 0 2]
    producedOf h = [(1, 1, 0), (2, 1, 1), (3, 2, 0), (4, 3, 0)] ∧ ackedOf h = [1, 2, 3, 4] ∧
    resultsOf h = [(1, true, true), (2, false, true), (3, true, false)] ∧ visibleIds h = [1, 2] ∧
    isIncomplete h = false ∧ endResponseLost 3 h = true ∧ endResponseLost 1 h = false := by decide

/-- The same history with record 4 (of the transaction whose commit reported an error after the lost response)
in the read_committed view: refused — by the rule `C11.unconfirmed-commit-took-effect`, the known finding. -/
example : accepts
    [.begin_ 1 true, .produce 1 1 0, .produce 2 1 1, .promise 1 true 0 0, .promise 2 true 1 0,
     .endStart 1 true, .endDone 1 true true,
     .begin_ 2 true, .produce 3 2 0, .promise 3 true 0 2, .endStart 2 false, .endDone 2 false true,
     .begin_ 3 true, .produce 4 3 0, .promise 4 true 0 4, .endStart 3 true, .fault 26 2, .endDone 3 true false,
     .visible 0 0 1, .visible 1 0 2, .visible 0 4 4,
     .raw 0 0 1, .raw 0 2 3, .raw 0 4 4, .raw 1 0 2, .quiesce] = false := by decide
example : (run {}
    [.begin_ 1 true, .produce 1 1 0, .produce 2 1 1, .promise 1 true 0 0, .promise 2 true 1 0,
     .endStart 1 true, .endDone 1 true true,
     .begin_ 2 true, .produce 3 2 0, .promise 3 true 0 2, .endStart 2 false, .endDone 2 false true,
     .begin_ 3 true, .produce 4 3 0, .promise 4 true 0 4, .endStart 3 true, .fault 26 2, .endDone 3 true false,
     .visible 0 0 1, .visible 1 0 2]).bind (fun s => check s (.visible 0 4 4))
    = some "C11.unconfirmed-commit-took-effect" := by decide
/-- Without the lost response the same record is refused by `C11.failed-commit-record-visible`. -/
example : (run {}
    [.begin_ 3 true, .produce 4 3 0, .promise 4 true 0 4, .endStart 3 true, .endDone 3 true false]).bind
      (fun s => check s (.visible 0 4 4))
    = some "C11.failed-commit-record-visible" := by decide

/-- A visible record of an aborted transaction: refused. -/
example : accepts
    [.begin_ 2 true, .produce 3 2 0, .promise 3 true 0 0, .endStart 2 false, .endDone 2 false true,
     .visible 0 0 3, .raw 0 0 3, .quiesce] = false := by decide
/-- … also when a later transaction committed in between. -/
example : accepts
    [.begin_ 2 true, .produce 3 2 0, .promise 3 true 0 0, .endStart 2 false, .endDone 2 false true,
     .begin_ 3 true, .produce 4 3 0, .promise 4 true 0 2, .endStart 3 true, .endDone 3 true true,
     .visible 0 0 3, .visible 0 2 4, .raw 0 0 3, .raw 0 2 4, .quiesce] = false := by decide

/-- A visible record of a transaction that was never ended by this client (the client restarted and a later
transaction committed): refused. -/
example : accepts
    [.begin_ 1 true, .produce 1 1 0, .promise 1 true 0 0,
     .begin_ 2 true, .produce 2 2 0, .promise 2 true 0 1, .endStart 2 true, .endDone 2 true true,
     .visible 0 0 1, .visible 0 1 2, .quiesce] = false := by decide

/-- A committed, acknowledged record missing from the read_committed view: refused (at `quiesce`). -/
example : accepts
    [.begin_ 1 true, .produce 1 1 0, .produce 2 1 1, .promise 1 true 0 0, .promise 2 true 1 0,
     .endStart 1 true, .endDone 1 true true,
     .visible 0 0 1, .raw 0 0 1, .raw 1 0 2, .quiesce] = false := by decide

/-- A record listed twice, and a record that was never produced: refused. -/
example : accepts
    [.begin_ 1 true, .produce 1 1 0, .promise 1 true 0 0, .endStart 1 true, .endDone 1 true true,
     .visible 0 0 1, .visible 0 1 1, .quiesce] = false := by decide
example : accepts
    [.begin_ 1 true, .produce 1 1 0, .promise 1 true 0 0, .endStart 1 true, .endDone 1 true true,
     .visible 0 0 1, .visible 0 1 7, .quiesce] = false := by decide

end Props.C11

/-! ## The offsets half: "…the transaction's records **and offsets** are committed", GroupTransactSession.End

Theorems over ALL accepted histories of `Model.TxnOffsets` (`tofs` scenarios: GroupTransactSession members, the
group's committed offsets read by a separate plain client right after every End). `single` says that the scenario
has one member slot, so that nobody else commits offsets of the group (transactions are sequential); what is stated
for `single = true` only is exactly what needs that.

* a reported commit: the offsets observed right after End are at least (`single`: exactly) what the transaction set
  out to commit, on every partition it polled from; the coordinator has no open transaction for the id;
* an observed committed offset (right after any End, or at the end of the scenario) is always an offset that a
  transaction whose End reported a successful commit set out to commit — so never that of an aborted, failed or
  never-ended transaction, also not later through another transaction's commit;
* a reported abort or error (`single`): the observed offsets are those of the previous observation;
* the output records of the session's transactions: visible ⇒ End reported a commit; reported commit and
  acknowledged ⇒ visible at the end.

As in the records half, an accepted history contains no effect of an End(TryCommit) that reported an error: the
monitor refuses that too, under the key of the listed finding when an EndTxn(commit) response was lost. -/
namespace Props.C11
open Model.TxnOffsets Proof.TxnOffsets

/-- the result a transaction has at the time of an observation is the only one it has in the whole history -/
private theorem result_at_split {single : Bool} {h₁ h₂ : List Ev} {ev : Ev} {s s₁ : St}
    (hacc : run { single := single } (h₁ ++ ev :: h₂) = some s) (h1 : run { single := single } h₁ = some s₁)
    {t : Nat} {r r' : Res} (hr : resultOf s₁ t = some r) (hr' : (t, r') ∈ resultsOf (h₁ ++ ev :: h₂)) : r = r' := by
  have hl := links_of_run hacc
  have hg := good_of_run hacc
  have hl₁ := links_of_run h1
  have hm : (t, r) ∈ resultsOf (h₁ ++ ev :: h₂) := by
    have := resultOf_some hr
    rw [hl₁.results] at this
    exact filterMap_mem_left (List.mem_reverse.1 this)
  have hn : ((resultsOf (h₁ ++ ev :: h₂)).map (·.1)).Nodup := by
    have := hg.resNodup
    rw [hl.results, List.map_reverse] at this
    simpa using nodup_reverse this
  exact (Prod.mk.inj (eq_of_key_nodup (·.1) hn hm hr' rfl)).2

/-- what a transaction set out to commit is known when its End has returned -/
private theorem want_at_split {single : Bool} {h₁ h₂ : List Ev} {ev : Ev} {s s₁ : St}
    (hrun₂ : run (apply s₁ ev) h₂ = some s) (h1 : run { single := single } h₁ = some s₁) (hev : wantEv ev = none)
    {t p : Nat} {r : Res} {w : Int} (hr : resultOf s₁ t = some r) (hw : (t, p, w) ∈ wantsOf (h₁ ++ ev :: h₂)) :
    wantOf s₁ t p = some w := by
  have hl₁ := links_of_run h1
  have hg₁ := good_of_run h1
  have hst : t ∈ s₁.started.map (·.1) := hg₁.resStarted _ (resultOf_some hr)
  have hst' : t ∈ (apply s₁ ev).started.map (·.1) := by
    rw [started_step, List.map_append]; exact List.mem_append_right _ hst
  unfold wantsOf at hw
  rw [List.filterMap_append, List.filterMap_cons, hev] at hw
  rcases List.mem_append.1 hw with hw | hw
  · apply wantOf_of_mem hg₁.wantsNodup
    rw [hl₁.wants]; exact List.mem_reverse.2 hw
  · exact absurd hw (no_want_after_started h₂ _ _ hrun₂ hst' p w)

/-- When End reports a successful commit, the transaction's offsets are committed: the group's committed offset
read right after End is, on every partition the transaction polled from, at least the offset it set out to commit. -/
theorem committed_end_commits_offsets (single : Bool) (h : List Ev) (s : St) (hacc : run { single := single } h = some s)
    (t p : Nat) (w off : Int) (hr : (t, Res.committed) ∈ resultsOf h) (hw : (t, p, w) ∈ wantsOf h)
    (ho : (t, p, off) ∈ observationsOf h) : w ≤ off := by
  obtain ⟨h₁, ev, h₂, rfl, hev⟩ := mem_filterMap_split ho
  obtain ⟨m, rfl⟩ := obsEv_some hev
  obtain ⟨s₁, h1, hchk, hrun₂⟩ := run_split hacc
  obtain ⟨_, r, hres, hc, _⟩ := observe_check hchk
  have : r = .committed := result_at_split hacc h1 hres hr
  exact (hc this w (want_at_split hrun₂ h1 rfl hres hw)).1

/-- … and exactly that offset when the scenario has a single member (nobody else commits, and no later transaction
has run when the offsets are read). -/
theorem committed_end_commits_offsets_exact (h : List Ev) (s : St) (hacc : run { single := true } h = some s)
    (t p : Nat) (w off : Int) (hr : (t, Res.committed) ∈ resultsOf h) (hw : (t, p, w) ∈ wantsOf h)
    (ho : (t, p, off) ∈ observationsOf h) : off = w := by
  obtain ⟨h₁, ev, h₂, rfl, hev⟩ := mem_filterMap_split ho
  obtain ⟨m, rfl⟩ := obsEv_some hev
  obtain ⟨s₁, h1, hchk, hrun₂⟩ := run_split hacc
  obtain ⟨_, r, hres, hc, _⟩ := observe_check hchk
  have : r = .committed := result_at_split hacc h1 hres hr
  exact (hc this w (want_at_split hrun₂ h1 rfl hres hw)).2 (single_run _ _ _ h1)

/-- Every transaction whose End reported a successful commit *was* observed, on every partition it polled from, in a
complete scenario (so the two theorems above speak about every committed transaction). -/
theorem committed_transactions_are_observed (single : Bool) (h : List Ev) (s : St)
    (hacc : run { single := single } (h ++ [Ev.quiesce]) = some s) (hcomplete : isIncomplete h = false)
    (t p : Nat) (w : Int) (hr : (t, Res.committed) ∈ resultsOf h) (hw : (t, p, w) ∈ wantsOf h) :
    ∃ off, (t, p, off) ∈ observationsOf h := by
  obtain ⟨s₁, h1, hchk⟩ := run_snoc hacc
  have hl := links_of_run h1
  have hg := good_of_run h1
  have hres : resultOf s₁ t = some .committed := by
    apply resultOf_of_mem hg.resNodup
    rw [hl.results]; exact List.mem_reverse.2 hr
  obtain ⟨o, ho, e1, e2⟩ := (quiesce_check hchk (by rw [hl.incomplete]; exact hcomplete)).2 (t, p, w)
    (by rw [hl.wants]; exact List.mem_reverse.2 hw) hres
  obtain ⟨o1, o2, o3⟩ := o
  simp only at e1 e2
  subst e1 e2
  exact ⟨o3, by rw [hl.obs] at ho; exact List.mem_reverse.1 ho⟩

/-- When End reports a successful commit, the coordinator has no open transaction for the transactional id right
after End. -/
theorem committed_end_closes_transaction (single : Bool) (h : List Ev) (s : St) (hacc : run { single := single } h = some s)
    (t : Nat) (hr : (t, Res.committed) ∈ resultsOf h) : (t, true) ∉ coordsOf h := by
  intro hc
  obtain ⟨h₁, ev, h₂, rfl, hev⟩ := mem_filterMap_split hc
  obtain ⟨m, rfl⟩ := coordEv_some hev
  obtain ⟨s₁, h1, hchk, _⟩ := run_split hacc
  obtain ⟨r, hres, hno⟩ := coord_check hchk
  exact hno rfl (result_at_split hacc h1 hres hr)

/-- Single member: every committed offset observed right after an End is an offset that a transaction whose End
reported a successful commit set out to commit (or `-1`, nothing committed). Hence never the offset of a transaction
whose End reported an abort or an error, or that the client never ended — also not later, after other transactions
committed. -/
theorem observed_offsets_come_from_committed_transactions (h : List Ev) (s : St) (hacc : run { single := true } h = some s)
    (t p : Nat) (off : Int) (ho : (t, p, off) ∈ observationsOf h) :
    off = -1 ∨ ∃ t', (t', p, off) ∈ wantsOf h ∧ (t', Res.committed) ∈ resultsOf h := by
  obtain ⟨h₁, ev, h₂, rfl, hev⟩ := mem_filterMap_split ho
  obtain ⟨m, rfl⟩ := obsEv_some hev
  obtain ⟨s₁, h1, hchk, _⟩ := run_split hacc
  have hl₁ := links_of_run h1
  obtain ⟨hj, _⟩ := observe_check hchk
  rcases justified_iff.1 hj with h0 | ⟨w, hw, e1, e2, hmc⟩
  · exact Or.inl h0
  · right
    obtain ⟨w1, w2, w3⟩ := w
    simp only at e1 e2 hmc
    subst e1 e2
    refine ⟨w1, ?_, ?_⟩
    · rw [hl₁.wants] at hw; exact filterMap_mem_left (List.mem_reverse.1 hw)
    · rcases mayCommit_iff.1 hmc with hres | ⟨hs, _⟩
      · have := resultOf_some hres
        rw [hl₁.results] at this; exact filterMap_mem_left (List.mem_reverse.1 this)
      · rw [single_run _ _ _ h1] at hs; cases hs

/-- The same for the group's committed offsets at the end of the scenario. -/
theorem final_offsets_come_from_committed_transactions (h : List Ev) (s : St) (hacc : run { single := true } h = some s)
    (p : Nat) (off : Int) (ho : (p, off) ∈ finalsOf h) :
    off = -1 ∨ ∃ t', (t', p, off) ∈ wantsOf h ∧ (t', Res.committed) ∈ resultsOf h := by
  obtain ⟨h₁, ev, h₂, rfl, hev⟩ := mem_filterMap_split ho
  have := finalEv_some hev
  subst this
  obtain ⟨s₁, h1, hchk, _⟩ := run_split hacc
  have hl₁ := links_of_run h1
  rcases justified_iff.1 (final_check hchk) with h0 | ⟨w, hw, e1, e2, hmc⟩
  · exact Or.inl h0
  · right
    obtain ⟨w1, w2, w3⟩ := w
    simp only at e1 e2 hmc
    subst e1 e2
    refine ⟨w1, ?_, ?_⟩
    · rw [hl₁.wants] at hw; exact filterMap_mem_left (List.mem_reverse.1 hw)
    · rcases mayCommit_iff.1 hmc with hres | ⟨hs, _⟩
      · have := resultOf_some hres
        rw [hl₁.results] at this; exact filterMap_mem_left (List.mem_reverse.1 this)
      · rw [single_run _ _ _ h1] at hs; cases hs

/-- Several members. Full statement wanted: as `observed_offsets_come_from_committed_transactions`. Proved: the offset
was set out to be committed by a transaction that, in the history *before the observation*, either had its End report a
successful commit, or whose End(TryCommit) call (on another member) had been called and had not returned yet. Missing:
the second kind is not re-examined when that End later reports an abort or an error (the observation that follows that
End is checked, not the earlier one). -/
theorem observed_offsets_come_from_committed_transactions_partial (single : Bool) (h₁ h₂ : List Ev) (s : St)
    (m t p : Nat) (off : Int) (hacc : run { single := single } (h₁ ++ Ev.observe m t p off :: h₂) = some s) :
    off = -1 ∨ ∃ t', (t', p, off) ∈ wantsOf h₁ ∧
      ((t', Res.committed) ∈ resultsOf h₁ ∨ ((t', true) ∈ startsOf h₁ ∧ ∀ r, (t', r) ∉ resultsOf h₁)) := by
  obtain ⟨s₁, h1, hchk, _⟩ := run_split hacc
  have hl₁ := links_of_run h1
  have hg₁ := good_of_run h1
  obtain ⟨hj, _⟩ := observe_check hchk
  rcases justified_iff.1 hj with h0 | ⟨w, hw, e1, e2, hmc⟩
  · exact Or.inl h0
  · right
    obtain ⟨w1, w2, w3⟩ := w
    simp only at e1 e2 hmc
    subst e1 e2
    refine ⟨w1, by rw [hl₁.wants] at hw; exact List.mem_reverse.1 hw, ?_⟩
    rcases mayCommit_iff.1 hmc with hres | ⟨_, hend, hnone⟩
    · left
      have := resultOf_some hres
      rw [hl₁.results] at this; exact List.mem_reverse.1 this
    · right
      constructor
      · have := hg₁.endingStarted _ hend
        rw [hl₁.started] at this; exact List.mem_reverse.1 this
      · intro r hr
        exact resultOf_none hnone r (by rw [hl₁.results]; exact List.mem_reverse.2 hr)

/-- Single member: when End reports an abort, the committed offsets read right after it are unchanged: they are those
of the previous observation (`-1` when there was none). -/
theorem aborted_end_leaves_offsets (h₁ h₂ : List Ev) (s : St) (m t p : Nat) (off : Int)
    (hacc : run { single := true } (h₁ ++ Ev.observe m t p off :: h₂) = some s)
    (hr : (t, Res.aborted) ∈ resultsOf (h₁ ++ Ev.observe m t p off :: h₂)) : off = lastObserved p h₁ := by
  obtain ⟨s₁, h1, hchk, _⟩ := run_split hacc
  obtain ⟨_, r, hres, _, hn⟩ := observe_check hchk
  have : r = .aborted := result_at_split hacc h1 hres hr
  subst this
  rw [← lastOf_eq (links_of_run h1)]
  exact hn (by intro hc; cases hc) (single_run _ _ _ h1)

/-- Single member: when End reports an error, the committed offsets read right after it (and after the application's
abort retry) are unchanged. (In an accepted history; the effect of an unconfirmed commit is refused under the key of
the listed finding.) -/
theorem failed_end_leaves_offsets (h₁ h₂ : List Ev) (s : St) (m t p : Nat) (off : Int)
    (hacc : run { single := true } (h₁ ++ Ev.observe m t p off :: h₂) = some s)
    (hr : (t, Res.error) ∈ resultsOf (h₁ ++ Ev.observe m t p off :: h₂)) : off = lastObserved p h₁ := by
  obtain ⟨s₁, h1, hchk, _⟩ := run_split hacc
  obtain ⟨_, r, hres, _, hn⟩ := observe_check hchk
  have : r = .error := result_at_split hacc h1 hres hr
  subst this
  rw [← lastOf_eq (links_of_run h1)]
  exact hn (by intro hc; cases hc) (single_run _ _ _ h1)

/-- Single member: the offsets of a transaction whose End reported an abort or an error are never committed — when
such an offset is observed (right after any End), another transaction, whose End reported a successful commit, set
out to commit the very same offset. -/
theorem uncommitted_transaction_offsets_never_committed (h : List Ev) (s : St) (hacc : run { single := true } h = some s)
    (t p : Nat) (w : Int) (r : Res) (hne : r ≠ .committed) (hr : (t, r) ∈ resultsOf h) (_hw : (t, p, w) ∈ wantsOf h)
    (hpos : w ≠ -1) (u : Nat) (ho : (u, p, w) ∈ observationsOf h) :
    ∃ t', t' ≠ t ∧ (t', p, w) ∈ wantsOf h ∧ (t', Res.committed) ∈ resultsOf h := by
  rcases observed_offsets_come_from_committed_transactions h s hacc u p w ho with h0 | ⟨t', h1, h2⟩
  · exact absurd h0 hpos
  · refine ⟨t', ?_, h1, h2⟩
    intro he
    subst he
    have hl := links_of_run hacc
    have hg := good_of_run hacc
    have hn : ((resultsOf h).map (·.1)).Nodup := by
      have := hg.resNodup
      rw [hl.results, List.map_reverse] at this
      simpa using nodup_reverse this
    exact hne (Prod.mk.inj (eq_of_key_nodup (·.1) hn hr h2 rfl)).2

/-- Never merged: the offsets of a transaction that the client never ended (the member was restarted inside it) are
never committed, also not through a later transaction. -/
theorem unended_transaction_offsets_never_committed (h : List Ev) (s : St) (hacc : run { single := true } h = some s)
    (t p : Nat) (w : Int) (hr : ∀ r, (t, r) ∉ resultsOf h) (_hw : (t, p, w) ∈ wantsOf h)
    (hpos : w ≠ -1) (u : Nat) (ho : (u, p, w) ∈ observationsOf h) :
    ∃ t', t' ≠ t ∧ (t', p, w) ∈ wantsOf h ∧ (t', Res.committed) ∈ resultsOf h := by
  rcases observed_offsets_come_from_committed_transactions h s hacc u p w ho with h0 | ⟨t', h1, h2⟩
  · exact absurd h0 hpos
  · exact ⟨t', by intro he; subst he; exact hr _ h2, h1, h2⟩

/-- The records of the session's transactions: a record in the read_committed view was produced by a transaction whose
End reported a successful commit (so none of an aborted, failed or never-ended transaction is ever visible). -/
theorem session_visible_records_are_committed (single : Bool) (h : List Ev) (s : St) (hacc : run { single := single } h = some s)
    (id : Id) (t : Nat) (hp : (id, t) ∈ producedOf h) (hv : id ∈ visibleIds h) : (t, Res.committed) ∈ resultsOf h := by
  have hl := links_of_run hacc
  have hg := good_of_run hacc
  obtain ⟨t', h1, h2⟩ := hg.visOk id (by rw [hl.vis]; exact List.mem_reverse.2 hv)
  have hp' : (id, t) ∈ s.recs := by rw [hl.recs]; exact List.mem_reverse.2 hp
  have := (Prod.mk.inj (eq_of_key_nodup (·.1) hg.recsNodup hp' h1 rfl)).2
  subst this
  rw [hl.results] at h2; exact List.mem_reverse.1 h2

/-- … and every acknowledged record of a transaction whose End reported a successful commit is in the read_committed
view at the end. -/
theorem session_committed_records_visible (single : Bool) (h : List Ev) (s : St)
    (hacc : run { single := single } (h ++ [Ev.quiesce]) = some s) (hcomplete : isIncomplete h = false)
    (id : Id) (t : Nat) (hp : (id, t) ∈ producedOf h) (ha : id ∈ ackedOf h) (hr : (t, Res.committed) ∈ resultsOf h) :
    id ∈ visibleIds h := by
  obtain ⟨s₁, h1, hchk⟩ := run_snoc hacc
  have hl := links_of_run h1
  have hg := good_of_run h1
  have hres : resultOf s₁ t = some .committed := by
    apply resultOf_of_mem hg.resNodup
    rw [hl.results]; exact List.mem_reverse.2 hr
  have := (quiesce_check hchk (by rw [hl.incomplete]; exact hcomplete)).1 (id, t)
    (by rw [hl.recs]; exact List.mem_reverse.2 hp) (by rw [hl.acked]; exact List.mem_reverse.2 ha) hres
  rw [hl.vis] at this; exact List.mem_reverse.1 this

/-! ### non-vacuity (offsets half) -/

/-- One member, input partitions 0 and 1. Transaction 1 only consumes (polled partition 0 up to offset 2) and End
reports a commit: offset 3 is observed, the coordinator has nothing open. Transaction 2 (polled both partitions,
produced record 1) is aborted: the observed offsets are unchanged. Transaction 3's End(TryCommit) reports an error (its
EndTxn was cut before the broker saw it); the application retries as an abort; offsets unchanged both times. The member
is restarted inside transaction 4 (never ended). Transaction 5 re-polls, produces records 2 and 3 and commits: offsets
6 and 2 are observed. At the end the group's offsets are 6 and 2 and the read_committed view holds records 2 and 3. -/
private def sample : List Ev :=
  [.memberStart 1 0,
   .begin_ 1 1 true, .want 1 0 3, .endStart 1 1 true, .endDone 1 1 .committed,
   .observe 1 1 0 3, .observe 1 1 1 (-1), .coord 1 1 false,
   .begin_ 1 2 true, .want 2 0 5, .want 2 1 2, .produce 2 1, .endStart 1 2 false, .promise 1 false, .endDone 1 2 .aborted,
   .observe 1 2 0 3, .observe 1 2 1 (-1), .coord 1 2 false,
   .begin_ 1 3 true, .want 3 0 4, .endStart 1 3 true, .fault 26 1 3 true, .endDone 1 3 .error,
   .observe 1 3 0 3, .observe 1 3 1 (-1), .coord 1 3 true, .retry 1 3 .aborted, .observe 1 3 0 3, .observe 1 3 1 (-1),
   .begin_ 1 4 true, .want 4 0 5, .memberKill 1 4, .memberStop 1, .memberStart 2 0,
   .begin_ 2 5 true, .want 5 0 6, .want 5 1 2, .produce 5 2, .produce 5 3, .endStart 2 5 true, .promise 2 true, .promise 3 true,
   .endDone 2 5 .committed, .observe 2 5 0 6, .observe 2 5 1 2, .coord 2 5 false, .memberStop 2,
   .final 0 6, .final 1 2, .output 0 0 2, .output 1 0 3]

example : accepts true (sample ++ [.quiesce]) = true := by decide

/-- The observables of that history: the hypotheses of every theorem above are met by it. -/
example :
    wantsOf sample = [(1, 0, 3), (2, 0, 5), (2, 1, 2), (3, 0, 4), (4, 0, 5), (5, 0, 6), (5, 1, 2)] ∧
    resultsOf sample = [(1, .committed), (2, .aborted), (3, .error), (5, .committed)] ∧
    observationsOf sample = [(1, 0, 3), (1, 1, -1), (2, 0, 3), (2, 1, -1), (3, 0, 3), (3, 1, -1), (3, 0, 3), (3, 1, -1),
      (5, 0, 6), (5, 1, 2)] ∧
    finalsOf sample = [(0, 6), (1, 2)] ∧ coordsOf sample = [(1, false), (2, false), (3, true), (5, false)] ∧
    producedOf sample = [(1, 2), (2, 5), (3, 5)] ∧ ackedOf sample = [2, 3] ∧ visibleIds sample = [2, 3] ∧
    isIncomplete sample = false := by decide

/-- The defect class of the gap: a transaction that only consumed, End reports a commit, but the group's offset did not
move (no EndTxn was sent; the offsets sit in an open transaction): refused, whether or not the coordinator state is read. -/
example : (run { single := true }
    [.begin_ 1 1 true, .want 1 0 3, .endStart 1 1 true, .endDone 1 1 .committed]).bind
      (fun s => check s (.observe 1 1 0 (-1))) = some "C11.committed-offsets-not-committed" := by decide
example : (run { single := true }
    [.begin_ 1 1 true, .want 1 0 3, .endStart 1 1 true, .endDone 1 1 .committed]).bind
      (fun s => check s (.coord 1 1 true)) = some "C11.committed-end-left-transaction-open" := by decide
/-- … also with two members (at least the offset). -/
example : accepts false
    [.begin_ 1 1 true, .want 1 0 3, .endStart 1 1 true, .endDone 1 1 .committed, .observe 1 1 0 (-1)] = false := by decide

/-- The offsets of an aborted transaction that ride along with the next transaction's commit (transaction 2 polled
partition 1 only, yet partition 0 moves to what the aborted transaction 1 set out to commit): refused. -/
example : (run { single := true }
    [.begin_ 1 1 true, .want 1 0 3, .endStart 1 1 false, .endDone 1 1 .aborted, .observe 1 1 0 (-1), .observe 1 1 1 (-1),
     .begin_ 1 2 true, .want 2 1 4, .endStart 1 2 true, .endDone 1 2 .committed]).bind
      (fun s => check s (.observe 1 2 0 3)) = some "C11.aborted-transaction-offsets-committed" := by decide
/-- The offsets of a transaction the client never ended, committed through a later transaction (merged): refused. -/
example : (run { single := true }
    [.begin_ 1 1 true, .want 1 0 3, .memberKill 1 1,
     .begin_ 2 2 true, .want 2 1 4, .endStart 2 2 true, .endDone 2 2 .committed]).bind
      (fun s => check s (.observe 2 2 0 3)) = some "C11.unended-transaction-offsets-committed" := by decide
/-- End(TryCommit) reported an error and the offsets are committed: the listed finding when an EndTxn(commit) of the call
was handled and its response lost, a violation of its own otherwise. -/
example : (run { single := true }
    [.begin_ 1 1 true, .want 1 0 3, .endStart 1 1 true, .fault 26 2 1 true, .endDone 1 1 .error]).bind
      (fun s => check s (.observe 1 1 0 3)) = some "C11.unconfirmed-commit-took-effect" := by decide
example : (run { single := true }
    [.begin_ 1 1 true, .want 1 0 3, .endStart 1 1 true, .fault 26 1 1 true, .endDone 1 1 .error]).bind
      (fun s => check s (.observe 1 1 0 3)) = some "C11.failed-commit-offsets-committed" := by decide
/-- An abort after which the committed offset changed (single member), a record of an aborted session transaction in the
read_committed view, a committed acknowledged record missing from it: refused. -/
example : accepts true
    [.begin_ 1 1 true, .want 1 0 3, .endStart 1 1 true, .endDone 1 1 .committed, .observe 1 1 0 3,
     .begin_ 1 2 true, .want 2 0 5, .endStart 1 2 false, .endDone 1 2 .aborted, .observe 1 2 0 (-1)] = false := by decide
example : accepts true
    [.begin_ 1 1 true, .want 1 0 3, .produce 1 7, .promise 7 true, .endStart 1 1 false, .endDone 1 1 .aborted,
     .observe 1 1 0 (-1), .output 0 0 7] = false := by decide
example : accepts true
    [.begin_ 1 1 true, .want 1 0 3, .produce 1 7, .promise 7 true, .endStart 1 1 true, .endDone 1 1 .committed,
     .observe 1 1 0 3, .quiesce] = false := by decide

end Props.C11
