import FranzVerif.Model.Txn
import FranzVerif.Proof.Txn
import FranzVerif.Proof.TxnInv
import FranzVerif.Proof.TxnLost
/-! C11 — transaction end results are truthful. Theorems over ALL accepted histories of `Model.Txn`;
the tie is the history correspondence of the `txn` scenarios.

All five statements hold as first written, for every accepted history, with the observables unchanged; none
needs a hypothesis about where the `visible` events stand relative to the `endDone` events. The reason is the
rule `C11.harness-transaction-ended-twice`: a transaction has at most one result in the whole history
(`Proof.Txn.Inv.resNodup`), record ids are never reused (`Inv.idsNodup`), and a `visible` event is only accepted
when the result of the record's transaction *already logged* is a successful commit (`Inv.visOk`) — so that
result is the only one the transaction has, before or after the `visible` event.

`failed_commit_records_never_visible_partial` is kept as stated; its hypothesis `hlost` is not used, because the
monitor refuses a visible record of a failed commit in the lost-response case too (under the separate key
`C11.unconfirmed-commit-took-effect`, the known finding): `failed_commit_records_never_visible` is the statement
without it. What `endResponseLost` is for is which *key* refuses such a history: the two `…_key…` theorems below
say that the known-finding key is given only when `endResponseLost` holds, and that without a lost response the
history is refused under a key that is not the known finding's. (`endResponseLost k h` is implied by the
monitor's `k ∈ lostEnd`, not equivalent: it does not stop its scan at an intermediate `endStart` of another
transaction, which the sequential harness never emits; see `Proof/TxnLost.lean`.) -/
namespace Props.C11
open Model.Txn Proof.Txn

/-- When End reports a successful commit, the transaction's acknowledged records are committed: all visible. -/
theorem committed_records_visible (h : List Ev) (s : St) (hacc : run {} (h ++ [Ev.quiesce]) = some s)
    (hcomplete : isIncomplete h = false) (id : Id) (k part : Nat)
    (hp : (id, k, part) ∈ producedOf h) (ha : id ∈ ackedOf h) (hr : (k, true, true) ∈ resultsOf h) :
    id ∈ visibleIds h := by
  obtain ⟨s₁, hr₁, hchk⟩ := run_snoc hacc
  have hi := inv_of_run hr₁
  have hrec : (id, k, part) ∈ s₁.recs := by rw [hi.recs]; exact List.mem_reverse.2 hp
  have hack : id ∈ s₁.acked := by rw [hi.acked]; exact List.mem_reverse.2 ha
  have hres : resultOf s₁ k = some (true, true) := by
    apply resultOf_of_mem hi.resultsNodup
    rw [hi.results]; exact List.mem_reverse.2 hr
  obtain ⟨v, hv, he⟩ := quiesce_check hchk (by rw [hi.incomplete]; exact hcomplete) (id, k, part) hrec hack hres
  have : id ∈ s₁.vis.map (·.2.2) := List.mem_map.2 ⟨v, hv, he⟩
  rw [hi.vis] at this
  exact List.mem_reverse.1 this

/-- When End reports an abort, none of that transaction's records is ever visible to read_committed consumers —
also after later transactions committed (the view is read at the end of the history). -/
theorem aborted_records_never_visible (h : List Ev) (s : St) (hacc : run {} h = some s)
    (id : Id) (k part : Nat) (ok : Bool) (hp : (id, k, part) ∈ producedOf h) (hr : (k, false, ok) ∈ resultsOf h) :
    id ∉ visibleIds h := by
  intro hv
  have := ((inv_of_run hacc).visible_result hp hv hr).1
  cases this

/-- When End reports an error for a commit, none of that transaction's records is visible (in an accepted
history: also not when the broker handled an EndTxn request of that call and its response was lost — the
monitor refuses that too, under the key of the known finding). -/
theorem failed_commit_records_never_visible (h : List Ev) (s : St) (hacc : run {} h = some s)
    (id : Id) (k part : Nat) (hp : (id, k, part) ∈ producedOf h) (hr : (k, true, false) ∈ resultsOf h) :
    id ∉ visibleIds h := by
  intro hv
  have := ((inv_of_run hacc).visible_result hp hv hr).2
  cases this

/-- When End reports an error for a commit, none of that transaction's records is visible — unless the broker
handled an EndTxn request of that very call and its response was lost (the client's documented "outcome
unconfirmed" error; listed as a known finding against the property's second sentence). -/
theorem failed_commit_records_never_visible_partial (h : List Ev) (s : St) (hacc : run {} h = some s)
    (id : Id) (k part : Nat) (hp : (id, k, part) ∈ producedOf h) (hr : (k, true, false) ∈ resultsOf h)
    (_hlost : endResponseLost k h = false) :
    id ∉ visibleIds h :=
  failed_commit_records_never_visible h s hacc id k part hp hr

/-- The key of the known finding is given to a `visible` event only when the record belongs to a transaction
whose End(commit) reported an error *and* the broker handled an EndTxn request during that End call while its
response was lost. -/
theorem unconfirmed_key_only_when_response_lost (h : List Ev) (s : St) (hacc : run {} h = some s)
    (part off : Nat) (id : Id)
    (hkey : check s (.visible part off id) = some "C11.unconfirmed-commit-took-effect") :
    ∃ k p, (id, k, p) ∈ producedOf h ∧ (k, true, false) ∈ resultsOf h ∧ endResponseLost k h = true := by
  have hi := inv_of_run hacc
  obtain ⟨k, htx, hres, hl⟩ := visible_check_unconfirmed hkey
  obtain ⟨p, hp⟩ := txnOf_some htx
  refine ⟨k, p, ?_, ?_, (lostInv_of_run hacc).lost k hl⟩
  · rw [hi.recs] at hp; exact List.mem_reverse.1 hp
  · have := resultOf_some hres
    rw [hi.results] at this; exact List.mem_reverse.1 this

/-- Without such a lost response, a visible record of a transaction whose End(commit) reported an error is
refused under a key that is not the known finding's (`C11.failed-commit-record-visible`, or
`C11.record-visible-twice` if the record was listed before). -/
theorem failed_commit_visible_refused_key (h : List Ev) (s : St) (hacc : run {} h = some s)
    (id : Id) (k part : Nat) (hp : (id, k, part) ∈ producedOf h) (hr : (k, true, false) ∈ resultsOf h)
    (hlost : endResponseLost k h = false) (part' off : Nat) :
    check s (.visible part' off id) = some "C11.failed-commit-record-visible" ∨
    check s (.visible part' off id) = some "C11.record-visible-twice" := by
  have hi := inv_of_run hacc
  have htx : txnOf s id = some k := by
    apply txnOf_of_mem hi.recsNodup (part := part)
    rw [hi.recs]; exact List.mem_reverse.2 hp
  have hres : resultOf s k = some (true, false) := by
    apply resultOf_of_mem hi.resultsNodup
    rw [hi.results]; exact List.mem_reverse.2 hr
  have hnl : s.lostEnd.contains k = false := by
    cases hc : s.lostEnd.contains k with
    | false => rfl
    | true =>
      have := (lostInv_of_run hacc).lost k (by simpa using hc)
      rw [hlost] at this
      cases this
  rw [visible_check_failed htx hres, hnl]
  cases s.vis.any (·.2.2 == id)
  · left; rfl
  · right; rfl

/-- A transaction whose outcome the client never confirmed (it was never ended by this client) is not
silently merged into a later transaction: its records are not visible. -/
theorem unended_transaction_records_never_visible (h : List Ev) (s : St) (hacc : run {} h = some s)
    (id : Id) (k part : Nat) (hp : (id, k, part) ∈ producedOf h) (hr : ∀ c ok, (k, c, ok) ∉ resultsOf h) :
    id ∉ visibleIds h := by
  intro hv
  exact hr true true ((inv_of_run hacc).visible_ended hp hv)

/-- Nothing is visible that was not produced, and nothing twice. -/
theorem visible_records_are_produced_once (h : List Ev) (s : St) (hacc : run {} h = some s) :
    (visibleIds h).Nodup ∧ ∀ id ∈ visibleIds h, ∃ k part, (id, k, part) ∈ producedOf h := by
  have hi := inv_of_run hacc
  refine ⟨hi.visNodup, ?_⟩
  intro id hv
  obtain ⟨k, p, h1, _⟩ := hi.visOk id hv
  exact ⟨k, p, h1⟩

/-! ### non-vacuity -/

/-- Three transactions on partitions 0 and 1: transaction 1 (records 1, 2) committed, transaction 2 (record 3)
aborted, transaction 3 (record 4) whose End(commit) reported an error after `fault 26 2` (EndTxn handled, its
response dropped) happened during the End call. The read_committed view holds records 1 and 2 only, the
read_uncommitted view all four. Accepted. -/
example : accepts
    [.begin_ 1 true, .produce 1 1 0, .produce 2 1 1, .promise 1 true 0 0, .promise 2 true 1 0,
     .endStart 1 true, .endDone 1 true true,
     .begin_ 2 true, .produce 3 2 0, .promise 3 true 0 2, .endStart 2 false, .endDone 2 false true,
     .begin_ 3 true, .produce 4 3 0, .promise 4 true 0 4, .endStart 3 true, .fault 26 2, .endDone 3 true false,
     .visible 0 0 1, .visible 1 0 2,
     .raw 0 0 1, .raw 0 2 3, .raw 0 4 4, .raw 1 0 2, .quiesce] = true := by decide

/-- The observables of that history (without the closing `quiesce`): the hypotheses of all five theorems are met
by it (record 1: produced by 1, acknowledged, `(1, true, true)`; record 3: `(2, false, true)`; record 4:
`(3, true, false)` with `endResponseLost 3`). -/
example : let h : List Ev :=
    [.begin_ 1 true, .produce 1 1 0, .produce 2 1 1, .promise 1 true 0 0, .promise 2 true 1 0,
     .endStart 1 true, .endDone 1 true true,
     .begin_ 2 true, .produce 3 2 0, .promise 3 true 0 2, .endStart 2 false, .endDone 2 false true,
     .begin_ 3 true, .produce 4 3 0, .promise 4 true 0 4, .endStart 3 true, .fault 26 2, .endDone 3 true false,
     .visible 0 0 1, .visible 1 0 2,
     .raw 0 0 1, .raw 0 2 3, .raw 0 4 4, .raw 1 0 2]
    producedOf h = [(1, 1, 0), (2, 1, 1), (3, 2, 0), (4, 3, 0)] ∧ ackedOf h = [1, 2, 3, 4] ∧
    resultsOf h = [(1, true, true), (2, false, true), (3, true, false)] ∧ visibleIds h = [1, 2] ∧
    isIncomplete h = false ∧ endResponseLost 3 h = true ∧ endResponseLost 1 h = false := by decide

/-- The same history with record 4 (of the transaction whose commit reported an error after the lost response)
in the read_committed view: refused — by the rule `C11.unconfirmed-commit-took-effect`, the known finding. -/
example : accepts
    [.begin_ 1 true, .produce 1 1 0, .produce 2 1 1, .promise 1 true 0 0, .promise 2 true 1 0,
     .endStart 1 true, .endDone 1 true true,
     .begin_ 2 true, .produce 3 2 0, .promise 3 true 0 2, .endStart 2 false, .endDone 2 false true,
     .begin_ 3 true, .produce 4 3 0, .promise 4 true 0 4, .endStart 3 true, .fault 26 2, .endDone 3 true false,
     .visible 0 0 1, .visible 1 0 2, .visible 0 4 4,
     .raw 0 0 1, .raw 0 2 3, .raw 0 4 4, .raw 1 0 2, .quiesce] = false := by decide
example : (run {}
    [.begin_ 1 true, .produce 1 1 0, .produce 2 1 1, .promise 1 true 0 0, .promise 2 true 1 0,
     .endStart 1 true, .endDone 1 true true,
     .begin_ 2 true, .produce 3 2 0, .promise 3 true 0 2, .endStart 2 false, .endDone 2 false true,
     .begin_ 3 true, .produce 4 3 0, .promise 4 true 0 4, .endStart 3 true, .fault 26 2, .endDone 3 true false,
     .visible 0 0 1, .visible 1 0 2]).bind (fun s => check s (.visible 0 4 4))
    = some "C11.unconfirmed-commit-took-effect" := by decide
/-- Without the lost response the same record is refused by `C11.failed-commit-record-visible`. -/
example : (run {}
    [.begin_ 3 true, .produce 4 3 0, .promise 4 true 0 4, .endStart 3 true, .endDone 3 true false]).bind
      (fun s => check s (.visible 0 4 4))
    = some "C11.failed-commit-record-visible" := by decide

/-- A visible record of an aborted transaction: refused. -/
example : accepts
    [.begin_ 2 true, .produce 3 2 0, .promise 3 true 0 0, .endStart 2 false, .endDone 2 false true,
     .visible 0 0 3, .raw 0 0 3, .quiesce] = false := by decide
/-- … also when a later transaction committed in between. -/
example : accepts
    [.begin_ 2 true, .produce 3 2 0, .promise 3 true 0 0, .endStart 2 false, .endDone 2 false true,
     .begin_ 3 true, .produce 4 3 0, .promise 4 true 0 2, .endStart 3 true, .endDone 3 true true,
     .visible 0 0 3, .visible 0 2 4, .raw 0 0 3, .raw 0 2 4, .quiesce] = false := by decide

/-- A visible record of a transaction that was never ended by this client (the client restarted and a later
transaction committed): refused. -/
example : accepts
    [.begin_ 1 true, .produce 1 1 0, .promise 1 true 0 0,
     .begin_ 2 true, .produce 2 2 0, .promise 2 true 0 1, .endStart 2 true, .endDone 2 true true,
     .visible 0 0 1, .visible 0 1 2, .quiesce] = false := by decide

/-- A committed, acknowledged record missing from the read_committed view: refused (at `quiesce`). -/
example : accepts
    [.begin_ 1 true, .produce 1 1 0, .produce 2 1 1, .promise 1 true 0 0, .promise 2 true 1 0,
     .endStart 1 true, .endDone 1 true true,
     .visible 0 0 1, .raw 0 0 1, .raw 1 0 2, .quiesce] = false := by decide

/-- A record listed twice, and a record that was never produced: refused. -/
example : accepts
    [.begin_ 1 true, .produce 1 1 0, .promise 1 true 0 0, .endStart 1 true, .endDone 1 true true,
     .visible 0 0 1, .visible 0 1 1, .quiesce] = false := by decide
example : accepts
    [.begin_ 1 true, .produce 1 1 0, .promise 1 true 0 0, .endStart 1 true, .endDone 1 true true,
     .visible 0 0 1, .visible 0 1 7, .quiesce] = false := by decide

end Props.C11
