import FranzVerif.Proof.C26
/-! C26 — sticky balancing is optimal and keeps balanced assignments. (preliminary) -/
namespace Props.C26
open Model.C25 Model.C26 Proof.C26

/-- the executable evaluation of the Spec used by the driver on the engine's real output is sound. -/
theorem optimalB_sound (ms : List Member) (plan : List Triple) (h : optimalB ms plan = true) : Optimal ms plan :=
  Proof.C26.optimalB_sound ms plan h

end Props.C26
