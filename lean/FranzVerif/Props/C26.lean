import FranzVerif.Proof.C26
import FranzVerif.Proof.C26Ex
import FranzVerif.Proof.C26P
/-! C26 — sticky balancing is optimal and keeps balanced assignments.

**Spec** (`Model.C26.Optimal ms plan`, from the property text, no algorithm in it): write `a ⟶ b` when `b` holds
a partition of a topic `a` subscribes to (`CanTake`: that partition could move from `b` to `a`). The plan is
optimally balanced when for every member `a` and every `b` reachable from `a` through `⟶` (a chain of moves
between members subscribed to the moved topics) `load b < load a + 2`: nothing can move, directly or through
a chain, from a member to one holding at least two fewer. The driver evaluates it on the engine's real
output with `optimalB` (a closure certificate per member; `optimalB_sound`), together with C25's `validPlan`
and the two stability checks (priors valid and optimal → plan = priors; rejoin with the plan → same plan).

**Model** (`Model.C26.step`): `parseMemberMetadata` exactly; everything after it as an acceptor over the
decision events the engine reports (drop / restick / assign / steal path / give up / done), which re-checks
the guard of every decision. The theorems quantify over ALL contexts (members, subscriptions, topics, priors:
any sizes) and ALL event sequences the acceptor accepts (any length); the differential run ties the real
engine to the acceptor: every generated input's real trace must be accepted and end in the returned plan.

What is proved and what is only checked per run:
* proved: every accepted trace that reaches `done` ends in a plan that is `Optimal` and valid; once the
  assignment phase is over validity is kept by every steal; from a valid state in which nobody can improve
  no plan-changing decision is accepted (stability).
* checked on every real trace, not proved: that the engine's own search agrees with the acceptor's guards —
  in particular `findSteal` returning "no path" only when there is none (the `giveup` guard recomputes
  reachability), and that drop/restick/assign leave a valid plan when balancing starts (`enter`). -/
namespace Props.C26
open Model.C25 Model.C26 Proof.C26

/-- The executable evaluation of the Spec used by the driver on the engine's real output is sound: a `1`
verdict means the returned plan is `Optimal`. -/
theorem optimalB_sound (ms : List Member) (plan : List Triple) (h : optimalB ms plan = true) : Optimal ms plan :=
  Proof.C26.optimalB_sound ms plan h

/-- **Given-up stays stuck** (the heart of the optimality argument): a member `g` that cannot improve and
holds no more than `m` still cannot improve after ANY valid steal path from `x` (holding at least two more
than `m`) to `m` has been applied — steals only raise minima and reroute edges through members that already
reached `x`. Holds for every state, chain length and group size. -/
theorem given_up_stays_stuck (c : Ctx) (o : Own) (x m g : String) (chain : List (TP × String))
    (hok : chainOK c o x chain = true) (hend : chainEnd x chain = m) (hlv : level c o m + 2 ≤ level c o x)
    (hg : ¬ CanImprove c o g) (hgm : level c o g ≤ level c o m) : ¬ CanImprove c (applyChain o chain) g :=
  stuck_after_chain c o x m g chain hok hend hlv hg hgm

/-- **Optimality**: for every input and every event sequence, if the acceptor accepts the whole sequence and
it ends with `done` (phase 3), the plan of the final state is optimally balanced in the sense of the Spec. -/
theorem accepted_trace_optimal (c : Ctx) (es : List Ev) (s : St)
    (h : run c {} 0 es = .ok s) (hd : s.phase = 3) : Optimal c.members (planOf c s.own) :=
  (allStuck_iff_optimal c s.own).1 ((run_good c {} s 0 es h (good_init c)).fin hd)

/-- the hypotheses are satisfiable by a non-trivial trace: three members with uneven subscriptions (m0: t1, m1: t0+t1,
m2: t0), three assignments, then a steal path of TWO segments (m0 gives t1/0 to m1, m1 gives t0/0 to m2), then `done`;
the acceptor accepts all six events and the theorem yields optimality of the final plan. -/
example : run Ex.exCtx {} 0 Ex.exTrace = .ok { own := Ex.o5, phase := 3 } ∧ Optimal Ex.exCtx.members (planOf Ex.exCtx Ex.o5) :=
  ⟨Ex.ex_run, accepted_trace_optimal Ex.exCtx Ex.exTrace _ Ex.ex_run rfl⟩

/-- a second one with a give-up: `a` consumes only t0 (3 partitions), `b` only t1 (1 partition); `b` gives up (the
acceptor recomputes that `b` reaches nobody), `done` is accepted with loads 3 and 1 — a spread of two that IS optimal. -/
example : run Ex.gCtx {} 0 Ex.gTrace = .ok { own := Ex.og, phase := 3, given := ["b"] } ∧
    Optimal Ex.gCtx.members (planOf Ex.gCtx Ex.og) ∧
    load (planOf Ex.gCtx Ex.og) "a" = 3 ∧ load (planOf Ex.gCtx Ex.og) "b" = 1 :=
  ⟨Ex.g_run, accepted_trace_optimal Ex.gCtx Ex.gTrace _ Ex.g_run rfl,
   by rw [load_planOf]; exact Ex.g_levels.1, by rw [load_planOf]; exact Ex.g_levels.2⟩

/-- **Validity is kept**: once balancing has started (phase ≥ 2; entering it checks validity once), after any
number of accepted steals / give-ups the plan assigns only existing partitions to subscribers, assigns every
partition of every topic somebody subscribes to, and (being a function of the partition) assigns nothing twice. -/
theorem accepted_trace_valid (c : Ctx) (es : List Ev) (s : St) (h : run c {} 0 es = .ok s) (hd : 2 ≤ s.phase) :
    (∀ x ∈ planOf c s.own, subOf c.members x.1 x.2.1 = true ∧ x.2.2 < cnt c.topics x.2.1) ∧
    (∀ t i, c.wanted t = true → i < cnt c.topics t → ∃ m, (m, t, i) ∈ planOf c s.own) ∧
    (∀ m m' t i, (m, t, i) ∈ planOf c s.own → (m', t, i) ∈ planOf c s.own → m = m') := by
  have hi := (run_good c {} s 0 es h (good_init c)).inv hd
  refine ⟨?_, ?_, ?_⟩
  · intro x hx
    obtain ⟨_, ho⟩ := (mem_planOf c s.own x).1 hx
    obtain ⟨h1, h2⟩ := hi.valid _ _ ho
    exact ⟨h2, by simpa [Ctx.isPart] using h1⟩
  · intro t i hw hlt
    have hp : c.isPart (t, i) = true := by simpa [Ctx.isPart] using hlt
    have := hi.complete (t, i) hp hw
    obtain ⟨m, hm⟩ := Option.isSome_iff_exists.1 this
    exact ⟨m, (mem_planOf c s.own _).2 ⟨hp, hm⟩⟩
  · intro m m' t i h1 h2
    have e1 := ((mem_planOf c s.own _).1 h1).2
    have e2 := ((mem_planOf c s.own _).1 h2).2
    simp only at e1 e2
    rw [e1] at e2
    exact Option.some.inj e2

/-- the same in the vocabulary of C25: the plan of such a state satisfies C25's executable Spec `validPlan`
(every partition of every subscribed topic exactly once, to a subscriber, nothing else). -/
theorem accepted_trace_validPlan (c : Ctx) (es : List Ev) (s : St) (h : run c {} 0 es = .ok s) (hd : 2 ≤ s.phase) :
    validPlan (subsOf c.members) (cnt c.topics) (planOf c s.own) = true :=
  let hi := (run_good c {} s 0 es h (good_init c)).inv hd
  validPlan_planOf c s.own hi.valid hi.complete

/-- **Stability**: if the prior plan the engine parsed from the members' metadata is already valid and
optimally balanced for the current subscriptions, every accepted continuation — of any length — leaves every
partition where it is: no drop, restick, assignment or steal is accepted from such a state. -/
theorem optimal_start_unchanged (c : Ctx) (owns stl : List (String × TP)) (es : List Ev) (s : St)
    (h : run c {} 0 (.init owns stl :: es) = .ok s)
    (hv : ∀ p b, (initOwn c)[p]? = some b → c.isPart p = true ∧ c.sub b p.1 = true)
    (hc : ∀ p, c.isPart p = true → c.wanted p.1 = true → ((initOwn c)[p]?).isSome = true)
    (ho : Optimal c.members (planOf c (initOwn c))) :
    planOf c s.own = planOf c (initOwn c) := by
  simp only [run, step] at h
  split at h
  · cases h
  · rename_i s1 hs1
    split at hs1
    · cases hs1
      have := run_stable c _ s 1 es h (by simp) hv hc ((allStuck_iff_optimal c _).2 ho)
      rw [this]
    · cases hs1

/-- **Stability as the property states it, on the members' own statements**: when the current assignments the
members list (`priorPlan`: every owned entry of every member, whatever their generations) are valid — every listed
partition exists and its holder subscribes to the topic, no partition is listed twice, every partition of a topic
somebody subscribes to is listed — and optimally balanced, every accepted trace leaves every partition where it
is: the final plan is the listed assignment (as a multiset of member/topic/partition triples). -/
theorem optimal_priors_unchanged (c : Ctx) (owns stl : List (String × TP)) (es : List Ev) (s : St)
    (h : run c {} 0 (.init owns stl :: es) = .ok s)
    (hin : ∀ x ∈ priorPlan c.members, c.isPart (x.2.1, x.2.2) = true ∧ c.sub x.1 x.2.1 = true)
    (hu : ((priorPlan c.members).map fun x => ((x.2.1, x.2.2) : TP)).Nodup)
    (hc : ∀ p, c.isPart p = true → c.wanted p.1 = true → ∃ m, (m, p.1, p.2) ∈ priorPlan c.members)
    (ho : Optimal c.members (priorPlan c.members)) :
    (planOf c s.own).Perm (priorPlan c.members) := by
  have hin1 : ∀ x ∈ priorPlan c.members, c.isPart (x.2.1, x.2.2) = true := fun x hx => (hin x hx).1
  have hperm := planOf_initOwn_perm c hin1 hu
  have := optimal_start_unchanged c owns stl es s h
    (fun p b hpb => hin _ ((initOwn_of_valid_priors c hin1 hu p b).1 hpb))
    (fun p hp hw => by
      obtain ⟨m, hm⟩ := hc p hp hw
      rw [(initOwn_of_valid_priors c hin1 hu p m).2 hm]; rfl)
    (optimal_of_perm c.members _ _ hperm.symm ho)
  rw [this]
  exact hperm

/-- the hypotheses about the priors are satisfiable by a non-trivial group: `a` (subscribed to t0 only) lists all
three partitions of t0, `b` (t1 only, an older generation) lists the one partition of t1 — valid, and optimal although
the loads differ by two. (The remaining hypothesis, an accepted trace starting with `init`, is what every real
run of the harness supplies; `Std.HashMap.fold` over a non-empty map does not evaluate symbolically.) -/
example :
    let c : Ctx := { members := [{ id := "a", topics := ["t0"], gen := 3, owned := [("t0", [0, 1, 2])] },
                                 { id := "b", topics := ["t1"], gen := 2, owned := [("t1", [0])] }],
                     topics := [("t0", 3), ("t1", 1)] }
    (∀ x ∈ priorPlan c.members, c.isPart (x.2.1, x.2.2) = true ∧ c.sub x.1 x.2.1 = true) ∧
    ((priorPlan c.members).map fun x => ((x.2.1, x.2.2) : TP)).Nodup ∧
    (∀ p ∈ c.parts, c.wanted p.1 = true → ∃ m ∈ c.ids, (m, p.1, p.2) ∈ priorPlan c.members) ∧
    Optimal c.members (priorPlan c.members) := by
  refine ⟨by decide, by decide, by decide, ?_⟩
  exact optimal_of_certs _ _ [("a", ["a"]), ("b", ["b"])] (by decide)

/-- The same from any state of the assignment or balancing phase (not only the parsed one). -/
theorem optimal_state_unchanged (c : Ctx) (s s' : St) (i : Nat) (es : List Ev) (h : run c s i es = .ok s') (hph : 1 ≤ s.phase)
    (hv : ∀ p b, s.own[p]? = some b → c.isPart p = true ∧ c.sub b p.1 = true)
    (hc : ∀ p, c.isPart p = true → c.wanted p.1 = true → (s.own[p]?).isSome = true)
    (ho : Optimal c.members (planOf c s.own)) : s'.own = s.own :=
  run_stable c s s' i es h hph hv hc ((allStuck_iff_optimal c _).2 ho)

/-- the hypotheses of the stability theorem are satisfiable by a non-trivial state and continuation: the state with
loads 3 and 1 above is valid and optimal, the continuation `giveup b, done` is accepted, and the plan is unchanged. -/
example : ∃ s', run Ex.gCtx { own := Ex.og, phase := 1 } 5 [.giveup "b", .done] = .ok s' ∧ s'.own = Ex.og := by
  have hrun : run Ex.gCtx { own := Ex.og, phase := 1 } 5 [.giveup "b", .done] = .ok { own := Ex.og, phase := 3, given := ["b"] } := by
    have h := Ex.g_run
    have h0 : run Ex.gCtx {} 0 Ex.gTrace = run Ex.gCtx { own := ∅, phase := 1 } 1 Ex.gTrace.tail := by
      simp [Ex.gTrace, run, Ex.g_init]
    rw [h0] at h
    simp only [Ex.gTrace, List.tail] at h
    rw [Ex.g_assigns] at h
    exact h
  obtain ⟨hv, hc⟩ := validB_spec Ex.gCtx Ex.og Ex.g_valid
  exact ⟨_, hrun, optimal_state_unchanged Ex.gCtx _ _ 5 _ hrun (by simp) hv hc
    (accepted_trace_optimal Ex.gCtx Ex.gTrace { own := Ex.og, phase := 3, given := ["b"] } Ex.g_run rfl)⟩

/-- The give-up guard is sound: whenever the acceptor lets `m` give up, no chain of moves from `m` reaches a
member holding at least two more (this is the fact `findSteal`'s "not found" must deliver on every real trace). -/
theorem giveup_guard_sound (c : Ctx) (o : Own) (m : String) (h : stuckB c o m = true) : ¬ CanImprove c o m :=
  stuckB_spec c o m h

end Props.C26
