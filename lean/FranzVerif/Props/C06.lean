import FranzVerif.Model.C06
import FranzVerif.Spec.C06
import FranzVerif.Proof.C06
import FranzVerif.Proof.C06Top
/-! C06 — property theorems: fetch response parsing (`kgo.ProcessFetchPartition`).

Property (properties.jsonl): the parser returns exactly the records a reference decoder of the Kafka log
format yields (offset ≥ requested, in order, every field), drops control records and, under read_committed, the
batches of aborted transactions *whatever order those transactions are listed in*; the returned next offset
never passes an offset that holds an unreturned data record, a truncated trailing batch never advances it, and
arbitrary input bytes never cause a panic.

What is a theorem here (all inputs, no size bound), about `Model.C06` (tied to source.go by the differential run):

* `aborted_order_irrelevant`        the whole result is invariant under permutation of the aborted list;
* `bytes_never_panic`               `processBytes` never returns the panic outcome, for arbitrary bytes, arbitrary
                                    CRC functions and an arbitrary decompressor (every slice / index expression of
                                    the walk, of `readRawRecordsInto`, of the inner walks, the header slab, the
                                    control-key index and the aborter pops are explicit panic points in the model);
* `record_stream_never_panics`      the `readRawRecordsInto` half on its own (the defect fixed in /repo 049c23c:
                                    with the guard `used == 0` the model has the panic, see `old_guard_witness`);
* `cut_frame_is_silent_stop`, `truncated_tail_ignored`   a frame whose declared length exceeds the remaining bytes
                                    decodes to a silent stop, and a silent stop after any items changes neither
                                    the records, nor the next offset, nor the error;
* `next_offset_monotone`            the returned next offset is never below the requested one.

* `records_eq_reference_partial`     for every list of well-formed frames (v0/v1 messages, compressed v0/v1 wrappers with
                                    offset rebasing, v2 batches incl. compressed, compacted, empty, control and
                                    transactional ones, the last one possibly cut short inside, then a truncated / failing
                                    frame), every requested offset, isolation level and every aborted list *consistent
                                    with the log*: the returned records are exactly `Spec.C06.refRecords` (order, every field);
* `next_never_passes_unreturned_partial`  under the same hypotheses every record the reference decoder yields from the log
                                    (response and beyond) is among the returned ones or lies at/after the next offset;
* `next_within_response`            and the next offset stays at or below the end of the last batch wholly in the response;
* `returned_below_next`             for every input the next offset is past every returned record;
* `spec_holds_partial`              together: the executable predicate `Spec.C06.holds` that the driver evaluates on the
                                    implementation's output holds of the model's result (same hypotheses as the `…_partial` ones).

The two `…_partial` theorems carry explicit hypotheses (see the section at the end): the frames encode a log whose offsets
increase (`WfLog`), and the aborted list is one a broker can send for that log and fetch offset (`AbortedConsistent`).
Outside them the property text does not say what the result must be (a list naming a transaction twice, a transaction whose
ABORT marker lies below the fetch offset); the model and the code are compared there by the differential run only.
v1 wrappers stamped LogAppendTime are covered (the departure found here was repaired in /repo 581b089; the model follows). -/
namespace Props.C06
open Model.C06 Proof.C06

/-- The result does not depend on the order in which the response lists the aborted transactions. -/
theorem aborted_order_irrelevant (o : Opts) (kerr : Bool) (A A' : List (Int × Int)) (items : List Item)
    (h : A.Perm A') : process o kerr A items = process o kerr A' items := by
  unfold process
  rw [buildAborter_perm h]

/-- the same on bytes -/
theorem aborted_order_irrelevant_bytes (env : Env) (o : Opts) (kerr : Bool) (A A' : List (Int × Int)) (inp : Bytes)
    (h : A.Perm A') : processBytes env o kerr A inp = processBytes env o kerr A' inp :=
  aborted_order_irrelevant o kerr A A' _ h

example : process ⟨false, true, 0⟩ false [(7, 10), (7, 3), (9, 1)] [] = process ⟨false, true, 0⟩ false [(9, 1), (7, 3), (7, 10)] [] :=
  aborted_order_irrelevant _ _ _ _ _ (by decide)
/-- whatever the listing order, each producer's first offsets are consulted in ascending order (`a[pid][0]`
is the smallest remaining one): this is what makes the order irrelevant -/
theorem aborter_sorted (A : List (Int × Int)) (pid : Int) : (buildAborter A pid).Pairwise (fun a b => a ≤ b) := by
  have h := List.pairwise_mergeSort (le := fun a b : Int => decide (a ≤ b)) (by intro a b c; simp; omega) (by intro a b; simp; omega)
    ((A.filter fun a => a.1 == pid).map (·.2))
  exact h.imp (by simp)

/-- `readRawRecordsInto` never evaluates a panicking slice expression. -/
theorem record_stream_never_panics (fuel : Nat) (inp : Bytes) : (decodeAll fuel inp).2 = .stop :=
  decodeAll_tail fuel inp

/-- regression witness for the defect fixed in /repo 049c23c: on `ff ff ff ff 7f 00 00` the length varint
overflows (`used = -5`, `length = 0`), so `total = -5`; with the old guard `used == 0` the decoder went on to
`in[:total]`, which is the panic outcome of `sliceTo?`. -/
example : varint [0xff, 0xff, 0xff, 0xff, 0x7f, 0, 0] = (0, -5) := by decide
example : sliceTo? [0xff, 0xff, 0xff, 0xff, 0x7f, 0, 0] (-5 + 0) = none := by decide
/-- with the present guard (`used <= 0`) the same bytes stop the decoder: no record, no panic -/
example : decodeAll 8 [0xff, 0xff, 0xff, 0xff, 0x7f, 0, 0] = ([], .stop) := by decide

/-- Arbitrary input bytes never cause a panic: whatever the bytes, the CRC functions, the decompressor, the
options and the aborted list, the walk never evaluates a panicking slice / index expression. -/
theorem bytes_never_panic (env : Env) (o : Opts) (kerr : Bool) (A : List (Int × Int)) (inp : Bytes) :
    processBytes env o kerr A inp ≠ .panic := by
  unfold processBytes process
  have h := walk_isSome o (frames env (inp.length + 1) inp)
    { off := o.offset, ab := if o.readCommitted then buildAborter A else fun _ => [], err := if kerr then some .kerr else none }
    (frames_itemOk env _ inp)
  simp only
  split
  · rename_i hn; simp [hn] at h
  · simp

/-- a frame whose declared length exceeds the bytes that are left (a truncated trailing batch) is a silent stop -/
theorem cut_frame_is_silent_stop (env : Env) (fuel : Nat) (inp : Bytes) (l : Int) (h17 : inp.length > 17)
    (hl : frameLen inp = some l) (hcut : (inp.length : Int) < l) : frames env (fuel + 1) inp = [.stop none] := by
  unfold frames
  simp [hl, hcut, h17]

/-- fewer than 18 bytes left: the loop condition `len(in) > 17` ends the walk -/
theorem short_rest_ends_walk (env : Env) (fuel : Nat) (inp : Bytes) (h17 : ¬ inp.length > 17) : frames env (fuel + 1) inp = [] := by
  unfold frames
  simp [h17]

theorem walk_append_stop (o : Opts) : ∀ (items : List Item) (s : St),
    (walk o s (items ++ [.stop none])).map (fun s => (s.out, s.off, s.err)) = (walk o s items).map (fun s => (s.out, s.off, s.err)) := by
  intro items
  induction items with
  | nil =>
    intro s
    simp only [List.nil_append, walk]
    split
    · rfl
    · simp [stepItem, walk]
  | cons it its ih =>
    intro s
    simp only [List.cons_append, walk]
    split
    · rfl
    · cases stepItem o s it with
      | none => rfl
      | some s' => exact ih s'

/-- A truncated trailing batch changes nothing: the records, the next offset and the error are those of the
response without it. -/
theorem truncated_tail_ignored (o : Opts) (kerr : Bool) (A : List (Int × Int)) (items : List Item) :
    process o kerr A (items ++ [.stop none]) = process o kerr A items := by
  unfold process
  have h := walk_append_stop o items
    { off := o.offset, ab := if o.readCommitted then buildAborter A else fun _ => [], err := if kerr then some .kerr else none }
  simp only
  revert h
  cases walk o _ (items ++ [Item.stop none]) <;> cases walk o _ items <;> simp

/-- The returned next offset never goes below the requested offset (it only ever advances), for every input. -/
theorem next_offset_monotone (o : Opts) (kerr : Bool) (A : List (Int × Int)) (items : List Item)
    (recs : List Rec) (next : Int) (err : Option Err) (h : process o kerr A items = .done recs next err) : o.offset ≤ next := by
  unfold process at h
  simp only at h
  split at h
  · simp at h
  · rename_i s hw
    simp at h
    have := walk_off_le o _ _ _ hw
    simp only at this
    omega

/-- the same on bytes -/
theorem next_offset_monotone_bytes (env : Env) (o : Opts) (kerr : Bool) (A : List (Int × Int)) (inp : Bytes)
    (recs : List Rec) (next : Int) (err : Option Err) (h : processBytes env o kerr A inp = .done recs next err) : o.offset ≤ next :=
  next_offset_monotone o kerr A _ recs next err h

/-- non-vacuity: an unknown magic byte at offset 41 moves the next offset from 7 to 42 -/
example : process ⟨false, false, 7⟩ false [] [.badMagic 41] = .done [] 42 (some .unknownMagic) := by decide

/-! ## Equality with the reference decoder, and the next offset

Vocabulary (definitions in `Proof/C06Ref.lean`, written from the Kafka log format, not from source.go):
`Rep it lb` — the decoded frame `it` is the encoding of the log batch `lb` of the Spec; `RepList` lifts it to lists;
`WfLog L` — offsets increase inside every batch and from one batch to the next, records lie inside `[first, last]`, `first ≥ 0`;
`AbortedConsistent o A L` — at every ABORT marker at most one listed transaction of its producer is open, and no listed
transaction was ended by an ABORT marker lying entirely below the requested offset; `obs` — the observable fields of a
returned record; `StopTail tail` — nothing, or a frame that stops the walk (`break` on a truncated frame, a `check()` failure)
followed by anything.

FULL STATEMENTS (not provable as such, kept visible):
  `records_eq_reference`: the conclusion below for *every* aborted list `A`.
  `next_never_passes_unreturned`: likewise.
They fail in the model (and in the code, confirmed by the differential run's malformed stream, kinds 0 and 1) for lists
the property does not speak about: with `A = [(p,5),(p,5)]` the parser keeps the second entry after the ABORT marker of
`p` and drops `p`'s next, committed, transaction, which the order-free definition of the Spec keeps; with a listed
transaction whose ABORT marker lies in a batch entirely below the requested offset the parser never sees that marker.
A broker lists each aborted transaction once and only those that overlap the fetch range, so `AbortedConsistent` is the
weakest hypothesis under which "the batches of aborted transactions" is defined by the list at all; the theorems are named
`…_partial` for that reason. The remaining hypotheses are the well-formedness of the log format itself. -/

open Proof.C06 in
/-- (A) The returned records are exactly those of the reference decoder: the data records with offset ≥ the requested one,
in order, with offset, timestamp, key, value, headers, attributes and producer fields; control records dropped (unless asked
for) and, under read_committed, the batches of aborted transactions dropped. `items` are the frames of the response that are
entirely there (the last one possibly a v2 batch cut short inside), `tail` what follows them. -/
theorem records_eq_reference_partial (o : Opts) (A : List (Int × Int)) (items tail : List Item) (whole : List Spec.C06.LBatch)
    (hrep : RepList items whole) (hwf : WfLog whole) (hcons : AbortedConsistent o A whole)
    (hcomplete : ∀ b ∈ whole.dropLast, b.present = b.records.length) (htail : StopTail tail)
    (recs : List Rec) (next : Int) (err : Option Err) (h : process o false A (items ++ tail) = .done recs next err) :
    recs.map obs = Spec.C06.refRecords (reqOf o A) whole := by
  obtain ⟨recs', next', err', h', hrecs, _, _⟩ :=
    process_sim (rest := []) hrep (by simpa using hwf) (by simpa using hcons) hcomplete htail
  rw [h] at h'
  injection h' with e1 _ _
  subst e1
  rw [hrecs]
  simp [Spec.C06.refRecords]

open Proof.C06 in
/-- (B) The returned next offset never passes an offset that holds an unreturned record the consumer must get: every record
the reference decoder yields from the log itself — the batches of the response *in full* (also the records of a batch cut
short that did not make it into the bytes) and the batches `rest` beyond the response — is among the returned records or lies
at/after the next offset. This covers the KAFKA-5443 rule (an empty or tail-compacted batch moves the next offset to its last
offset + 1: nothing unreturned lies below), the batch cut short inside (the rule is not applied) and a walk that stops at a
truncated frame or a `check()` failure. -/
theorem next_never_passes_unreturned_partial (o : Opts) (A : List (Int × Int)) (items tail : List Item)
    (whole rest : List Spec.C06.LBatch)
    (hrep : RepList items whole) (hwf : WfLog (whole ++ rest)) (hcons : AbortedConsistent o A (whole ++ rest))
    (hcomplete : ∀ b ∈ whole.dropLast, b.present = b.records.length) (htail : StopTail tail)
    (recs : List Rec) (next : Int) (err : Option Err) (h : process o false A (items ++ tail) = .done recs next err) :
    ∀ r ∈ Spec.C06.refRecords (reqOf o A) (whole ++ rest) true, r ∈ recs.map obs ∨ next ≤ r.offset := by
  obtain ⟨recs', next', err', h', hrecs, ⟨_, hhi⟩, hcut⟩ := process_sim hrep hwf hcons hcomplete htail
  rw [h] at h'
  injection h' with e1 e2 _
  subst e1; subst e2
  intro r hr
  unfold Spec.C06.refRecords at hr
  obtain ⟨b, hb, hrb⟩ := List.mem_flatMap.mp hr
  rcases List.mem_append.mp hb with hbw | hbr
  · rcases batchRecords_take_or_drop hrb with h1 | ⟨x, hx, hq, hxo⟩
    · left; rw [hrecs]; exact List.mem_flatMap.mpr ⟨b, hbw, h1⟩
    · right
      have := hcut b hbw x hx
      have hq' : o.offset ≤ x.offset := hq
      omega
  · right
    obtain ⟨_, x, hx, hq, rfl⟩ := mem_batchRecords.mp hrb
    simp only [if_true] at hx
    have hq' : o.offset ≤ x.offset := hq
    have hfirst := ((hwf.batch b hb).inRange x hx).1
    have := hhi x.offset (fun b' hb' => by
      have := (List.pairwise_append.mp hwf.ord).2.2 b' hb' b hbr
      omega)
    show next ≤ x.offset
    omega

open Proof.C06 in
/-- The next offset is at least the requested one and never beyond the end of the last batch that is wholly in the response:
for every `x` above the last offsets of those batches, `next ≤ max requested x` (a truncated trailing frame adds nothing). -/
theorem next_within_response (o : Opts) (A : List (Int × Int)) (items tail : List Item) (whole : List Spec.C06.LBatch)
    (hrep : RepList items whole) (hwf : WfLog whole) (hcons : AbortedConsistent o A whole)
    (hcomplete : ∀ b ∈ whole.dropLast, b.present = b.records.length) (htail : StopTail tail)
    (recs : List Rec) (next : Int) (err : Option Err) (h : process o false A (items ++ tail) = .done recs next err) :
    o.offset ≤ next ∧ ∀ x, (∀ b ∈ whole, b.last < x) → next ≤ max o.offset x := by
  obtain ⟨recs', next', err', h', _, hoff, _⟩ :=
    process_sim (rest := []) hrep (by simpa using hwf) (by simpa using hcons) hcomplete htail
  rw [h] at h'
  injection h' with _ e2 _
  subst e2
  exact hoff

/-- The next offset is past every returned record, for every input (arbitrary frames, options and aborted list). -/
theorem returned_below_next (o : Opts) (kerr : Bool) (A : List (Int × Int)) (items : List Item)
    (recs : List Rec) (next : Int) (err : Option Err) (h : process o kerr A items = .done recs next err) :
    ∀ r ∈ recs, r.offset < next := Proof.C06.process_below h

open Proof.C06 in
/-- The predicate the driver evaluates on the implementation's output for every generated log, `Spec.C06.holds`, is a theorem
about the model: records equal to the reference, next offset not backwards and past every returned record, no unreturned
record of the log below it, and not beyond the last batch wholly in the response. -/
theorem spec_holds_partial (o : Opts) (A : List (Int × Int)) (items tail : List Item) (whole rest : List Spec.C06.LBatch)
    (hrep : RepList items whole) (hwf : WfLog (whole ++ rest)) (hcons : AbortedConsistent o A (whole ++ rest))
    (hcomplete : ∀ b ∈ whole.dropLast, b.present = b.records.length) (htail : StopTail tail)
    (recs : List Rec) (next : Int) (err : Option Err) (h : process o false A (items ++ tail) = .done recs next err) :
    Spec.C06.holds (reqOf o A) whole rest (recs.map obs) next = true := by
  have hwf' := wfLog_left hwf
  have hcons' := abortedConsistent_left hwf hcons
  have hA := records_eq_reference_partial o A items tail whole hrep hwf' hcons' hcomplete htail recs next err h
  have hB := next_never_passes_unreturned_partial o A items tail whole rest hrep hwf hcons hcomplete htail recs next err h
  have hC := next_within_response o A items tail whole hrep hwf' hcons' hcomplete htail recs next err h
  have hD := process_below h
  unfold Spec.C06.holds
  simp only [Bool.and_eq_true]
  refine ⟨⟨⟨⟨?_, ?_⟩, ?_⟩, ?_⟩, ?_⟩
  · rw [hA]; simp
  · simp only [decide_eq_true_eq]; exact hC.1
  · rw [List.all_eq_true]
    intro r hr
    obtain ⟨x, hx, rfl⟩ := List.mem_map.mp hr
    simp only [decide_eq_true_eq]
    exact hD x hx
  · rw [List.all_eq_true]
    intro r hr
    rcases hB r hr with h1 | h1
    · rw [List.contains_iff_mem.mpr h1]; rfl
    · simp [h1]
  · cases hl : whole.getLast? with
    | none =>
      have hnil : whole = [] := List.getLast?_eq_none_iff.mp hl
      have h2 := hC.2 o.offset (by intro b hb; rw [hnil] at hb; simp at hb)
      have h1 := hC.1
      simp only [beq_iff_eq]
      show next = o.offset
      omega
    | some b =>
      obtain ⟨ys, hys⟩ := List.getLast?_eq_some_iff.mp hl
      simp only [decide_eq_true_eq]
      show next ≤ max o.offset (b.last + 1)
      apply hC.2
      intro b' hb'
      rw [hys] at hb' hwf'
      rcases List.mem_append.mp hb' with h1 | h1
      · have := (List.pairwise_append.mp hwf'.ord).2.2 b' h1 b (by simp)
        have := (hwf'.batch b (by simp)).firstLast
        omega
      · simp at h1; subst h1; omega

/-- The byte-level fact behind the hypothesis `RepBatch.raw`: every v2 batch the framing walk decodes from bytes holds at
least two bytes per decoded record (so a batch whose claimed count exceeds its decodable records is never mistaken for a
complete one by the clamp `numRecords = len(rawRecords)`). -/
theorem decoded_batch_two_bytes_per_record (env : Env) (rb : RawBatch) :
    2 * (mkBatch env rb).recs.length ≤ (mkBatch env rb).rawLen := Proof.C06.mkBatch_raw env rb

/-! Non-vacuity (the log of `Proof/C06Top.lean`): a v1 message at 9; producer 7's aborted transaction at 10..12; plain data
13..15 with a compaction gap and a preserved last offset (LogAppendTime); the ABORT marker (a control record) at 16; a
committed transaction of producer 7 at 17..18; a batch 19..21 cut short after its first record; then a truncated frame.
read_committed fetch at offset 11 (inside the first transactional batch), aborted list `[(7, 10)]`. -/

open Proof.C06 in
/-- the model returns a result on it (the hypothesis `h` of the theorems is satisfiable): the records at 13, 17, 18, 19 — the
aborted 11 and 12 and the marker at 16 are dropped — and a next offset that does not pass the unreturned record at 20 -/
example : ∃ recs next err, process exOpts false exAborted (exItems ++ [.stop none]) = .done recs next err ∧
    (recs.map obs).map (·.offset) = [13, 17, 18, 19] ∧ next ≤ 20 := by
  obtain ⟨recs, next, err, h, hrecs, _, hcut⟩ :=
    process_sim (tail := [.stop none]) ex_rep ex_wf ex_cons ex_complete (Or.inr ⟨none, [], rfl⟩)
  refine ⟨recs, next, err, h, ?_, ?_⟩
  · rw [hrecs]; decide
  · have := hcut exCutBatch (by decide) ⟨20, some 5001, exKey, exVal 20, []⟩ (by decide)
    have h2 : next ≤ max 11 20 := this
    omega

open Proof.C06 in
example : ∀ recs next err, process exOpts false exAborted (exItems ++ [.stop none]) = .done recs next err →
    recs.map obs = Spec.C06.refRecords (reqOf exOpts exAborted) exLog :=
  records_eq_reference_partial exOpts exAborted exItems [.stop none] exLog ex_rep ex_wf_whole ex_cons_whole ex_complete
    (Or.inr ⟨none, [], rfl⟩)

open Proof.C06 in
/-- the reference decoder on that log: four records; in full (with the part of the log beyond the response) seven -/
example : (Spec.C06.refRecords (reqOf exOpts exAborted) exLog).map (·.offset) = [13, 17, 18, 19] := by decide
open Proof.C06 in
example : (Spec.C06.refRecords (reqOf exOpts exAborted) (exLog ++ exRest) true).map (·.offset) = [13, 17, 18, 19, 20, 21, 22] := by decide

open Proof.C06 in
example : ∀ recs next err, process exOpts false exAborted (exItems ++ [.stop none]) = .done recs next err →
    ∀ r ∈ Spec.C06.refRecords (reqOf exOpts exAborted) (exLog ++ exRest) true, r ∈ recs.map obs ∨ next ≤ r.offset :=
  next_never_passes_unreturned_partial exOpts exAborted exItems [.stop none] exLog exRest ex_rep ex_wf ex_cons ex_complete
    (Or.inr ⟨none, [], rfl⟩)

open Proof.C06 in
/-- and the whole predicate of the Spec on that response (the log continues with `exRest` beyond it) -/
example : ∀ recs next err, process exOpts false exAborted (exItems ++ [.stop none]) = .done recs next err →
    Spec.C06.holds (reqOf exOpts exAborted) exLog exRest (recs.map obs) next = true :=
  spec_holds_partial exOpts exAborted exItems [.stop none] exLog exRest ex_rep ex_wf ex_cons ex_complete (Or.inr ⟨none, [], rfl⟩)

/-! A second log (repaired in /repo 581b089, see known_findings): a v1 gzip wrapper stamped LogAppendTime at 39..41 (inner relative
offsets 0 and 2, producer timestamps 77 and 78, broker time 5000) and a v0 message at 42; fetch at 40, inside the wrapper. The
reference — and hence the model — returns 41 with timestamp 5000 and attributes gzip|LogAppendTime, and 42 without timestamp. -/

open Proof.C06 in
example : ∀ recs next err, process exOpts2 false [] exItems2 = .done recs next err →
    recs.map obs = [⟨41, some 5000, exKey, exVal 2, [], 9, -1, -1, -1⟩, ⟨42, none, exKey, exVal 3, [], 128, -1, -1, -1⟩] := by
  intro recs next err h
  have := records_eq_reference_partial exOpts2 [] exItems2 [] exLog2 ex2_rep ex2_wf ex2_cons (by decide) (Or.inl rfl) recs next err
    (by simpa using h)
  rw [this]; decide

open Proof.C06 in
example : process exOpts2 false [] exItems2 = .done
    [⟨41, some 5000, exKey, exVal 2, [], 9, -1, -1, -1⟩, ⟨42, none, exKey, exVal 3, [], 128, -1, -1, -1⟩] 43 none := by decide

end Props.C06
