import FranzVerif.Model.C06
import FranzVerif.Spec.C06
import FranzVerif.Proof.C06
/-! C06 — property theorems: fetch response parsing (`kgo.ProcessFetchPartition`).

Property (properties.jsonl): the parser returns exactly the records a reference decoder of the Kafka log
format yields (offset ≥ requested, in order, every field), drops control records and, under read_committed, the
batches of aborted transactions *whatever order those transactions are listed in*; the returned next offset
never passes an offset that holds an unreturned data record, a truncated trailing batch never advances it, and
arbitrary input bytes never cause a panic.

What is a theorem here (all inputs, no size bound), about `Model.C06` (tied to source.go by the differential run):

* `aborted_order_irrelevant`        the whole result is invariant under permutation of the aborted list;
* `bytes_never_panic`               `processBytes` never returns the panic outcome, for arbitrary bytes, arbitrary
                                    CRC functions and an arbitrary decompressor (every slice / index expression of
                                    the walk, of `readRawRecordsInto`, of the inner walks, the header slab, the
                                    control-key index and the aborter pops are explicit panic points in the model);
* `record_stream_never_panics`      the `readRawRecordsInto` half on its own (the defect fixed in /repo 049c23c:
                                    with the guard `used == 0` the model has the panic, see `old_guard_witness`);
* `cut_frame_is_silent_stop`, `truncated_tail_ignored`   a frame whose declared length exceeds the remaining bytes
                                    decodes to a silent stop, and a silent stop after any items changes neither
                                    the records, nor the next offset, nor the error;
* `next_offset_monotone`            the returned next offset is never below the requested one.

NOT a theorem (kept visible, see the end of the file): `records_eq_reference` — equality of the returned
records with `Spec.C06.refRecords` for every well-formed log — and `next_never_passes_unreturned`. They are
*evaluated* by the driver on the implementation's output for every generated log against the generator's
ground truth (`Spec.C06.holds`), which is a test, not a proof. -/
namespace Props.C06
open Model.C06 Proof.C06

/-- The result does not depend on the order in which the response lists the aborted transactions. -/
theorem aborted_order_irrelevant (o : Opts) (kerr : Bool) (A A' : List (Int × Int)) (items : List Item)
    (h : A.Perm A') : process o kerr A items = process o kerr A' items := by
  unfold process
  rw [buildAborter_perm h]

/-- the same on bytes -/
theorem aborted_order_irrelevant_bytes (env : Env) (o : Opts) (kerr : Bool) (A A' : List (Int × Int)) (inp : Bytes)
    (h : A.Perm A') : processBytes env o kerr A inp = processBytes env o kerr A' inp :=
  aborted_order_irrelevant o kerr A A' _ h

example : process ⟨false, true, 0⟩ false [(7, 10), (7, 3), (9, 1)] [] = process ⟨false, true, 0⟩ false [(9, 1), (7, 3), (7, 10)] [] :=
  aborted_order_irrelevant _ _ _ _ _ (by decide)
/-- whatever the listing order, each producer's first offsets are consulted in ascending order (`a[pid][0]`
is the smallest remaining one): this is what makes the order irrelevant -/
theorem aborter_sorted (A : List (Int × Int)) (pid : Int) : (buildAborter A pid).Pairwise (fun a b => a ≤ b) := by
  have h := List.pairwise_mergeSort (le := fun a b : Int => decide (a ≤ b)) (by intro a b c; simp; omega) (by intro a b; simp; omega)
    ((A.filter fun a => a.1 == pid).map (·.2))
  exact h.imp (by simp)

/-- `readRawRecordsInto` never evaluates a panicking slice expression. -/
theorem record_stream_never_panics (fuel : Nat) (inp : Bytes) : (decodeAll fuel inp).2 = .stop :=
  decodeAll_tail fuel inp

/-- regression witness for the defect fixed in /repo 049c23c: on `ff ff ff ff 7f 00 00` the length varint
overflows (`used = -5`, `length = 0`), so `total = -5`; with the old guard `used == 0` the decoder went on to
`in[:total]`, which is the panic outcome of `sliceTo?`. -/
example : varint [0xff, 0xff, 0xff, 0xff, 0x7f, 0, 0] = (0, -5) := by decide
example : sliceTo? [0xff, 0xff, 0xff, 0xff, 0x7f, 0, 0] (-5 + 0) = none := by decide
/-- with the present guard (`used <= 0`) the same bytes stop the decoder: no record, no panic -/
example : decodeAll 8 [0xff, 0xff, 0xff, 0xff, 0x7f, 0, 0] = ([], .stop) := by decide

/-- Arbitrary input bytes never cause a panic: whatever the bytes, the CRC functions, the decompressor, the
options and the aborted list, the walk never evaluates a panicking slice / index expression. -/
theorem bytes_never_panic (env : Env) (o : Opts) (kerr : Bool) (A : List (Int × Int)) (inp : Bytes) :
    processBytes env o kerr A inp ≠ .panic := by
  unfold processBytes process
  have h := walk_isSome o (frames env (inp.length + 1) inp)
    { off := o.offset, ab := if o.readCommitted then buildAborter A else fun _ => [], err := if kerr then some .kerr else none }
    (frames_itemOk env _ inp)
  simp only
  split
  · rename_i hn; simp [hn] at h
  · simp

/-- a frame whose declared length exceeds the bytes that are left (a truncated trailing batch) is a silent stop -/
theorem cut_frame_is_silent_stop (env : Env) (fuel : Nat) (inp : Bytes) (l : Int) (h17 : inp.length > 17)
    (hl : frameLen inp = some l) (hcut : (inp.length : Int) < l) : frames env (fuel + 1) inp = [.stop none] := by
  unfold frames
  simp [hl, hcut, h17]

/-- fewer than 18 bytes left: the loop condition `len(in) > 17` ends the walk -/
theorem short_rest_ends_walk (env : Env) (fuel : Nat) (inp : Bytes) (h17 : ¬ inp.length > 17) : frames env (fuel + 1) inp = [] := by
  unfold frames
  simp [h17]

theorem walk_append_stop (o : Opts) : ∀ (items : List Item) (s : St),
    (walk o s (items ++ [.stop none])).map (fun s => (s.out, s.off, s.err)) = (walk o s items).map (fun s => (s.out, s.off, s.err)) := by
  intro items
  induction items with
  | nil =>
    intro s
    simp only [List.nil_append, walk]
    split
    · rfl
    · simp [stepItem, walk]
  | cons it its ih =>
    intro s
    simp only [List.cons_append, walk]
    split
    · rfl
    · cases stepItem o s it with
      | none => rfl
      | some s' => exact ih s'

/-- A truncated trailing batch changes nothing: the records, the next offset and the error are those of the
response without it. -/
theorem truncated_tail_ignored (o : Opts) (kerr : Bool) (A : List (Int × Int)) (items : List Item) :
    process o kerr A (items ++ [.stop none]) = process o kerr A items := by
  unfold process
  have h := walk_append_stop o items
    { off := o.offset, ab := if o.readCommitted then buildAborter A else fun _ => [], err := if kerr then some .kerr else none }
  simp only
  revert h
  cases walk o _ (items ++ [Item.stop none]) <;> cases walk o _ items <;> simp

/-- The returned next offset never goes below the requested offset (it only ever advances), for every input. -/
theorem next_offset_monotone (o : Opts) (kerr : Bool) (A : List (Int × Int)) (items : List Item)
    (recs : List Rec) (next : Int) (err : Option Err) (h : process o kerr A items = .done recs next err) : o.offset ≤ next := by
  unfold process at h
  simp only at h
  split at h
  · simp at h
  · rename_i s hw
    simp at h
    have := walk_off_le o _ _ _ hw
    simp only at this
    omega

/-- the same on bytes -/
theorem next_offset_monotone_bytes (env : Env) (o : Opts) (kerr : Bool) (A : List (Int × Int)) (inp : Bytes)
    (recs : List Rec) (next : Int) (err : Option Err) (h : processBytes env o kerr A inp = .done recs next err) : o.offset ≤ next :=
  next_offset_monotone o kerr A _ recs next err h

/-- non-vacuity: an unknown magic byte at offset 41 moves the next offset from 7 to 42 -/
example : process ⟨false, false, 7⟩ false [] [.badMagic 41] = .done [] 42 (some .unknownMagic) := by decide

/-! ## Stated, evaluated on every run, NOT proved

`records_eq_reference`: for a well-formed log `L` (offsets strictly increasing across records and batches, base
offsets ≥ 0, every batch complete, control batches transactional, the aborted list free of duplicates and such
that two aborted transactions of one producer below an ABORT marker are separated by an ABORT marker, no listed
transaction ending below the requested offset) and `items` its decoding:
  `process o false A items = .done recs next none → recs.map obs = Spec.C06.refRecords ⟨o.offset, o.keepControl, o.readCommitted, A⟩ L`.
`next_never_passes_unreturned`: under the same hypotheses every record of `Spec.C06.refRecords … L (full := true)`
is in `recs` or has `offset ≥ next`.
Both are the executable predicate `Spec.C06.holds`, which the driver evaluates on the implementation's output for
every generated log (ground truth = what the generator wrote); the points the hypotheses exclude (inconsistent
aborted lists, reordered frames, …) are run in the malformed stream and compared with the model only. -/

end Props.C06
