import FranzVerif.Model.StartOff
import FranzVerif.Proof.StartOff
/-! C40 — start offsets resolve as documented. `Model.StartOff.resolve : Offset → Shape → Nat` is the documented rule
(written from the property text); the theorems below are (i) properties of `resolve` for ALL offsets and log shapes,
(ii) statements over ALL accepted histories of the `off` monitor: the first record a consumer returns is the least
returnable record at or after `resolve offset shape`. The tie is the history correspondence of the `off` scenarios
(real kgo consumer × real kfake). -/
namespace Props.C40
open Model.StartOff Proof.StartOff

/-! ### the resolution function -/

/-- Every non-committed start position lies in `[log start, end]`, for every log shape with `start ≤ end`
(the end being the last stable offset under read_committed). -/
theorem resolve_within_bounds (o : Offset) (s : Shape) (hs : s.start ≤ s.fin) (ho : o ≠ .committed) :
    s.start ≤ resolve o s ∧ resolve o s ≤ s.fin := by
  cases o with
  | exact x r e => exact ⟨clamp_ge hs _, clamp_le hs _⟩
  | start r => exact ⟨clamp_ge hs _, clamp_le hs _⟩
  | fin r => exact ⟨clamp_ge hs _, clamp_le hs _⟩
  | milli t =>
    refine ⟨?_, leastOr_le _ _⟩
    exact le_leastOr hs (fun a ha => (mem_milliCands.1 ha).choose_spec.2.1)
  | committed => exact absurd rfl ho

/-- Under read_committed no position is above the last stable offset. -/
theorem read_committed_end_is_lso (o : Offset) (s : Shape) (hrc : s.rc = true) (hs : s.start ≤ s.lso) (ho : o ≠ .committed) :
    resolve o s ≤ s.lso := by
  have hf : s.fin = s.lso := by simp [Shape.fin, hrc]
  have := (resolve_within_bounds o s (by rw [hf]; exact hs) ho).2
  rwa [hf] at this

/-- At(x).Relative(r) inside `[log start, end]` is exactly `x + r`. -/
theorem resolve_exact_in_range (x : Nat) (r : Int) (e : Option Nat) (s : Shape)
    (h1 : (s.start : Int) ≤ x + r) (h2 : (x : Int) + r ≤ s.fin) : (resolve (.exact x r e) s : Int) = x + r :=
  clamp_id h1 h2

/-- below the log start it is the log start, beyond the end it is the end -/
theorem resolve_exact_out_of_range (x : Nat) (r : Int) (e : Option Nat) (s : Shape) (hs : s.start ≤ s.fin) :
    ((x : Int) + r < s.start → resolve (.exact x r e) s = s.start) ∧
    ((s.fin : Int) < x + r → resolve (.exact x r e) s = s.fin) := by
  constructor
  · intro h; simp only [resolve, clamp]; rw [if_pos h]
  · intro h; simp only [resolve, clamp]; rw [if_neg (by omega), if_pos h]

/-- The position is monotone in the requested offset and in the relative amount. -/
theorem resolve_exact_monotone (x x' : Nat) (r r' : Int) (e e' : Option Nat) (s : Shape) (hs : s.start ≤ s.fin)
    (hx : x ≤ x') (hr : r ≤ r') : resolve (.exact x r e) s ≤ resolve (.exact x' r' e') s :=
  clamp_mono hs (by omega)

/-- The epoch (WithEpoch) does not move the position. -/
theorem resolve_epoch_irrelevant (x : Nat) (r : Int) (e e' : Option Nat) (s : Shape) :
    resolve (.exact x r e) s = resolve (.exact x r e') s := rfl

/-- AtStart().Relative(n) is `start + n` capped at the end (n ≥ 0); a negative amount stays at the log start. -/
theorem resolve_start_capped (n : Nat) (s : Shape) (hs : s.start ≤ s.fin) :
    resolve (.start n) s = min (s.start + n) s.fin ∧ resolve (.start (-(n : Int))) s = s.start := by
  constructor
  · simp only [resolve, clamp]
    split
    · omega
    · split <;> omega
  · simp only [resolve, clamp]
    split
    · rfl
    · split <;> omega

/-- AtEnd().Relative(-n) is `end - n` floored at the log start; a positive amount stays at the end. -/
theorem resolve_end_floored (n : Nat) (s : Shape) (hs : s.start ≤ s.fin) :
    resolve (.fin (-(n : Int))) s = max (s.fin - n) s.start ∧ resolve (.fin n) s = s.fin := by
  constructor
  · simp only [resolve, clamp]
    split
    · omega
    · split <;> omega
  · simp only [resolve, clamp]
    split
    · omega
    · split <;> omega

/-- AfterMilli(t) is the LEAST offset (in `[log start, end)`) of a record with timestamp ≥ t: it is such an offset
unless it is the end, and no such offset is smaller. -/
theorem resolve_milli_is_least (t : Nat) (s : Shape) :
    (resolve (.milli t) s < s.fin → ∃ ts, (resolve (.milli t) s, ts) ∈ s.recs ∧ t ≤ ts ∧ s.start ≤ resolve (.milli t) s) ∧
    (∀ o ts, (o, ts) ∈ s.recs → s.start ≤ o → o < s.fin → t ≤ ts → resolve (.milli t) s ≤ o) := by
  constructor
  · intro hlt
    rcases leastOr_mem s.fin (milliCands s s.fin t) with h | h
    · simp only [resolve] at hlt; omega
    · obtain ⟨ts, hm, h1, _, h3⟩ := mem_milliCands.1 h
      exact ⟨ts, hm, h3, h1⟩
  · intro o ts hm h1 h2 h3
    exact leastOr_le_mem _ _ o (mem_milliCands.2 ⟨ts, hm, h1, h2, h3⟩)

/-- "… else the end": when no record in `[log start, end)` has timestamp ≥ t the position is the end. -/
theorem resolve_milli_else_end (t : Nat) (s : Shape)
    (hno : ∀ o ts, (o, ts) ∈ s.recs → s.start ≤ o → o < s.fin → ts < t) : resolve (.milli t) s = s.fin := by
  rcases leastOr_mem s.fin (milliCands s s.fin t) with h | h
  · exact h
  · obtain ⟨ts, hm, h1, h2, h3⟩ := mem_milliCands.1 h
    have := hno _ ts hm h1 h2
    omega

/-- AfterMilli is monotone in the timestamp. -/
theorem resolve_milli_monotone (t t' : Nat) (s : Shape) (ht : t ≤ t') : resolve (.milli t) s ≤ resolve (.milli t') s := by
  apply leastOr_anti
  intro a ha
  obtain ⟨ts, hm, h1, h2, h3⟩ := mem_milliCands.1 ha
  exact mem_milliCands.2 ⟨ts, hm, h1, h2, by omega⟩

/-- AtCommitted is the committed offset. -/
theorem resolve_committed (s : Shape) : resolve .committed s = s.group := rfl

/-- The two readings of AfterMilli under read_committed (see `resolveLit`) agree for every other offset kind, and for
AfterMilli whenever the consumer reads uncommitted. -/
theorem readings_agree (o : Offset) (s : Shape) (h : (∀ t, o ≠ .milli t) ∨ s.rc = false) : ambiguous o s = false := by
  unfold ambiguous
  rcases h with h | h
  · cases o with
    | milli t => exact absurd rfl (h t)
    | _ => simp [resolveLit]
  · cases o with
    | milli t =>
      have hf : s.fin = s.hwm := by simp [Shape.fin, h]
      simp only [resolveLit, resolve, hf, leastOr]
      cases hc : milliCands s s.hwm t with
      | nil => simp
      | cons a l =>
        simp only [List.foldl_cons]
        have : a < s.hwm := (mem_milliCands.1 (by rw [hc]; exact List.mem_cons_self : a ∈ milliCands s s.hwm t)).choose_spec.2.2.1
        rw [Nat.min_eq_right (Nat.le_of_lt this)]
        simp
    | _ => simp [resolveLit]

/-! ### every accepted history -/

/-- the log shape a history describes -/
def shapeIn (c : Cfg) (h : List Ev) (sh : Nat × Nat × Nat) : Shape := mkShape c sh (groupOf h) (logOf h)
/-- the offsets the consumer of a history may return -/
def returnableIn (c : Cfg) (h : List Ev) : List Nat := returnable c (ackedOf h) (txnsOf h) (logOf h)

/-- In every accepted history that reaches the quiescent end, the consumer was given an Offset `o` for a partition of
shape `sh`, and the first record it returned is the least returnable record at or after the documented position
`resolve o sh` (`none`: there is no such record and nothing was returned). The only latitude is the reading of
AfterMilli under read_committed (`ambiguous`, excluded by `readings_agree` in every other case). -/
theorem first_record_at_resolved_position (c : Cfg) (h : List Ev) (s : St) (hacc : run c {} (h ++ [Ev.quiesce]) = some s) :
    ∃ o sh f, offsetOf h = some o ∧ shapeOf h = some sh ∧ firstOf h = some f ∧
      (f = firstAtOrAfter (returnableIn c h) (resolve o (shapeIn c h sh)) ∨
       (ambiguous o (shapeIn c h sh) = true ∧ f = firstAtOrAfter (returnableIn c h) (resolveLit o (shapeIn c h sh)))) := by
  obtain ⟨s₁, h1, hchk⟩ := run_snoc hacc
  have hi := inv_of_run h1
  obtain ⟨o, sh, f, ho, hsh, hf, hres⟩ := quiesce_check hchk
  refine ⟨o, sh, f, by rw [← hi.offset]; exact ho, by rw [← hi.shape]; exact hsh, by rw [← hi.first]; exact hf, ?_⟩
  simpa only [shapeIn, returnableIn, ← hi.acked, ← hi.txns, ← hi.log, ← hi.group] using hres

/-- Unfolded for the unambiguous case: the first returned record `f` is a returnable record, it is not before the
documented position, and no returnable record lies between the position and `f` (nothing is skipped, nothing earlier
is returned first). -/
theorem first_record_is_least_at_or_after_position (c : Cfg) (h : List Ev) (s : St)
    (hacc : run c {} (h ++ [Ev.quiesce]) = some s) (o : Offset) (sh : Nat × Nat × Nat) (f : Nat)
    (ho : offsetOf h = some o) (hsh : shapeOf h = some sh) (hf : firstOf h = some (some f))
    (hamb : ambiguous o (shapeIn c h sh) = false) :
    f ∈ returnableIn c h ∧ resolve o (shapeIn c h sh) ≤ f ∧
    ∀ q ∈ returnableIn c h, resolve o (shapeIn c h sh) ≤ q → f ≤ q := by
  obtain ⟨o', sh', f', ho', hsh', hf', hres⟩ := first_record_at_resolved_position c h s hacc
  rw [ho] at ho'; rw [hsh] at hsh'; rw [hf] at hf'
  cases ho'; cases hsh'; cases hf'
  rcases hres with hres | ⟨ha, _⟩
  · exact firstAtOrAfter_some hres.symm
  · rw [hamb] at ha; cases ha

/-- When the consumer returned nothing, no returnable record exists at or after the documented position. -/
theorem nothing_returned_means_nothing_there (c : Cfg) (h : List Ev) (s : St)
    (hacc : run c {} (h ++ [Ev.quiesce]) = some s) (o : Offset) (sh : Nat × Nat × Nat)
    (ho : offsetOf h = some o) (hsh : shapeOf h = some sh) (hf : firstOf h = some none)
    (hamb : ambiguous o (shapeIn c h sh) = false) :
    ∀ q ∈ returnableIn c h, q < resolve o (shapeIn c h sh) := by
  obtain ⟨o', sh', f', ho', hsh', hf', hres⟩ := first_record_at_resolved_position c h s hacc
  rw [ho] at ho'; rw [hsh] at hsh'; rw [hf] at hf'
  cases ho'; cases hsh'; cases hf'
  rcases hres with hres | ⟨ha, _⟩
  · exact firstAtOrAfter_none hres.symm
  · rw [hamb] at ha; cases ha

/-! ### non-vacuity -/

/-- a log `[2, 9)` whose last stable offset is 6: records 2..8 with timestamps 10 10 20 15 30 30 40 -/
def exShape (rc : Bool) : Shape :=
  { start := 2, lso := 6, hwm := 9, rc := rc, recs := [(2, 10), (3, 10), (4, 20), (5, 15), (6, 30), (7, 30), (8, 40)], group := 5 }

example : resolve (.exact 4 0 none) (exShape false) = 4 := by decide
example : resolve (.exact 0 1 none) (exShape false) = 2 := by decide            -- below the log start
example : resolve (.exact 7 5 (some 0)) (exShape false) = 9 := by decide        -- beyond the end
example : resolve (.exact 7 5 none) (exShape true) = 6 := by decide             -- read_committed: the end is the LSO
example : resolve (.start 3) (exShape false) = 5 := by decide
example : resolve (.start 30) (exShape true) = 6 := by decide
example : resolve (.fin (-3)) (exShape false) = 6 := by decide
example : resolve (.fin (-3)) (exShape true) = 3 := by decide
example : resolve (.fin (-30)) (exShape true) = 2 := by decide
example : resolve (.milli 10) (exShape false) = 2 := by decide                  -- equal timestamps: the first of them
example : resolve (.milli 12) (exShape false) = 4 := by decide                  -- 20 at offset 4 is the first ≥ 12 (15 at offset 5 comes later)
example : resolve (.milli 35) (exShape false) = 8 := by decide
example : resolve (.milli 35) (exShape true) = 6 := by decide                   -- nothing below the LSO: the end
example : resolve (.milli 41) (exShape false) = 9 := by decide
example : resolve .committed (exShape false) = 5 := by decide
example : ambiguous (.milli 35) (exShape true) = true := by decide
example : ambiguous (.milli 12) (exShape true) = false := by decide

/-- An accepted history (read_committed): records 0..5, record 4 belongs to transaction 1 which aborts (marker at 5),
DeleteRecords to 1, shape `[1, 6)` all stable, `AtEnd().Relative(-3)`: position 3; the consumer's first record is 3. The
hypotheses of the three history theorems hold for it. -/
def exHist : List Ev :=
  [.acked 0 10 1 0, .acked 1 10 1 0, .acked 2 20 2 0, .acked 3 20 2 0, .acked 4 30 3 1, .txnEnd 1 false, .deleted 1,
   .shape 1 6 6, .offset (.fin (-3)), .first (some 3),
   .logRec 1 10 false, .logRec 2 20 false, .logRec 3 20 false, .logRec 4 30 false, .logRec 5 31 true]

example : accepts { rc := true } (exHist ++ [.quiesce]) = true := by decide
example : offsetOf exHist = some (.fin (-3)) ∧ shapeOf exHist = some (1, 6, 6) ∧ firstOf exHist = some (some 3) := by decide
example : ambiguous (.fin (-3)) (shapeIn { rc := true } exHist (1, 6, 6)) = false := by decide

/-- the same history with the position two records later: the aborted record 4 and the marker 5 are not returnable, so
a consumer positioned at 4 returns nothing (`first none`) … -/
example : accepts { rc := true }
    [.acked 0 10 1 0, .acked 1 10 1 0, .acked 2 20 2 0, .acked 3 20 2 0, .acked 4 30 3 1, .txnEnd 1 false,
     .shape 0 6 6, .offset (.exact 4 0 none), .first none,
     .logRec 0 10 false, .logRec 1 10 false, .logRec 2 20 false, .logRec 3 20 false, .logRec 4 30 false, .logRec 5 31 true, .quiesce] = true := by decide

/-- … the monitor refuses a consumer that starts one record early, one record late, or at the log start instead of the end. -/
example : accepts { rc := true } ((exHist.map fun e => if e = .first (some 3) then .first (some 2) else e) ++ [.quiesce]) = false := by decide
example : accepts { rc := true } ((exHist.map fun e => if e = .first (some 3) then .first none else e) ++ [.quiesce]) = false := by decide
example : accepts { rc := false }
    [.acked 0 10 1 0, .acked 1 10 1 0, .shape 0 2 2, .offset (.exact 7 0 none), .first (some 0),
     .logRec 0 10 false, .logRec 1 10 false, .logRec 2 50 false, .quiesce] = false := by decide
/-- AfterMilli between two timestamps of one batch: the record with the SMALLER timestamp is refused. -/
example : accepts { rc := false }
    [.acked 0 10 1 0, .acked 1 20 1 0, .acked 2 30 1 0, .shape 0 3 3, .offset (.milli 15), .first (some 0),
     .logRec 0 10 false, .logRec 1 20 false, .logRec 2 30 false, .quiesce] = false := by decide
example : accepts { rc := false }
    [.acked 0 10 1 0, .acked 1 20 1 0, .acked 2 30 1 0, .shape 0 3 3, .offset (.milli 15), .first (some 1),
     .logRec 0 10 false, .logRec 1 20 false, .logRec 2 30 false, .quiesce] = true := by decide

end Props.C40
