import FranzVerif.Model.C34
import FranzVerif.Proof.C34
/-! C34 — property theorems: kfake's ACL decisions against Apache Kafka's authorizer.

`Model.C34` transcribes `pkg/kfake/acl.go` as it is (after /repo 46d17aa, which repaired `anyAllowed`);
`Model.C34.Spec` transcribes Kafka's `StandardAuthorizer.authorize` and `authorizeByResourceType`. The property is

    (1) ∀ acls q,  allowed acls q    = Spec.authorizeAcls acls q     (entries of Kafka's domain; with the super-user glue)
    (2) ∀ acls q,  anyAllowed acls q = Spec.byTypeAcls acls q        (no hypothesis; with the super-user glue)

Both are proved at full strength, for ACL lists of any length over any names. History: before 46d17aa, (2) was false
(`anyAllowed` returned true on the first matching ALLOW and never consulted DENY entries); the old counterexamples
are kept below as regression `example`s and in corpus/C34. -/
namespace Props.C34
open Model.C34 Proof.C34

/-- **(1)** For every ACL list (any length, any names) and every request: kfake's `allowed` is Kafka's
`authorize` below the super-user test — any matching DENY (same operation or ALL) denies, otherwise a matching
ALLOW (same operation, ALL, or an operation implying the requested one) permits, otherwise denied. -/
theorem allowed_eq_authorize (acls : List Acl) (q : Req) (wf : ∀ a ∈ acls, a.WF) :
    allowed acls q = Spec.authorizeAcls acls q := by
  unfold allowed Spec.authorizeAcls
  rw [allowedLoop_eq acls q false (fun a ha => (wf a ha).1)]
  show _ = (if ((acls.filter (Spec.aclMatches · q)).any (·.perm == permDeny)) = true then false
    else (acls.filter (Spec.aclMatches · q)).any (·.perm == permAllow))
  generalize (acls.filter (Spec.aclMatches · q)).any (·.perm == permDeny) = x
  generalize (acls.filter (Spec.aclMatches · q)).any (·.perm == permAllow) = y
  cases x <;> cases y <;> rfl

/-- non-vacuity: DENY on a prefix beats ALLOW on the literal; READ implies DESCRIBE for ALLOW only. -/
example :
    let acls : List Acl := [⟨userStar, star, 2, [97, 98], 3, 3, 3⟩, ⟨userStar, star, 2, [97], 4, 3, 2⟩, ⟨userStar, star, 2, [98], 3, 3, 3⟩]
    (∀ a ∈ acls, a.WF) ∧
    allowed acls ⟨userPfx ++ [97], [104], [97, 98], 2, 3⟩ = false ∧     -- Read ab: denied by DENY prefixed a
    allowed acls ⟨userPfx ++ [97], [104], [97, 98], 2, 8⟩ = true ∧      -- Describe ab: implied by ALLOW Read, DENY Read does not deny it
    allowed acls ⟨userPfx ++ [97], [104], [98], 2, 3⟩ = true := by decide

/-- **(1) with the glue of `allowedACL`**: with ACLs enabled, a super user is always allowed and everybody
else gets Kafka's decision for the principal `principal user`. -/
theorem allowedACL_eq_authorize (c : Cfg) (user host name : Str) (rtype op : Nat)
    (en : c.enableACLs = true) (wf : ∀ a ∈ c.acls, a.WF) (na : c.noAnonSuper) :
    allowedACL c user host name rtype op
      = Spec.authorize (c.superusers.map principal) c.acls ⟨principal user, host, name, rtype, op⟩ := by
  unfold allowedACL Spec.authorize isSuperuser
  simp only [en, Bool.not_true, Bool.false_eq_true, if_false]
  rw [supers_contains c.superusers user na.1 na.2, allowed_eq_authorize _ _ wf]

example : (⟨true, [[97, 100]], [⟨userStar, star, 2, star, 3, 2, 2⟩]⟩ : Cfg).noAnonSuper ∧
    allowedACL ⟨true, [[97, 100]], [⟨userStar, star, 2, star, 3, 2, 2⟩]⟩ [97, 100] [104] [116] 2 4 = true ∧
    allowedACL ⟨true, [[97, 100]], [⟨userStar, star, 2, star, 3, 2, 2⟩]⟩ [97] [104] [116] 2 4 = false := by decide

/-- ACLs disabled: everything is allowed (kfake's `enableACLs` switch; Kafka without an authorizer). -/
theorem acls_disabled (c : Cfg) (user host name : Str) (rtype op : Nat) (h : c.enableACLs = false) :
    allowedACL c user host name rtype op = true ∧ anyAllowedACL c user host rtype op = true := by
  simp [allowedACL, anyAllowedACL, h]

/-- **(2)** For every ACL list and every request — no hypothesis on the entries (entries outside Kafka's domain are
dropped by the code exactly as Kafka's rule ignores them) and for every operation (the repaired code compares the
operation with the entry's operation and ALL only, like Kafka; implied operations play no role): kfake's `anyAllowed`
is Kafka's `authorizeByResourceType` below the super-user test. A relevant DENY on the literal `*` denies; a literal
ALLOW counts unless a relevant DENY has the same literal name or a non-empty DENY prefix of it; a prefixed ALLOW counts
unless a non-empty DENY prefix of it exists; an ALLOW on the literal `*` always counts. -/
theorem anyAllowed_eq_authorizeByResourceType (acls : List Acl) (q : Req) :
    anyAllowed acls q = Spec.byTypeAcls acls q := by
  rw [anyAllowed_eq_filter, anyAllowedFilter_eq]

/-- non-vacuity and regression: the ACL sets on which the code before 46d17aa answered `true` (DESIGN §8-b: wildcard
DENY, DENY on the same literal, DENY on a dominating prefix, prefixed/prefixed under DENY ALL) are denied now, and the
undominated neighbours are still allowed. -/
example :
    let u : Str := userPfx ++ [97]
    let q : Req := ⟨u, [104], [], 2, 4⟩
    let allowFoo : Acl := ⟨u, star, 2, [102, 111, 111], 3, 4, 3⟩
    anyAllowed [allowFoo, ⟨u, star, 2, star, 3, 4, 2⟩] q = false ∧
    anyAllowed [allowFoo, ⟨u, star, 2, [102, 111, 111], 3, 4, 2⟩] q = false ∧
    anyAllowed [allowFoo, ⟨u, star, 2, [102], 4, 4, 2⟩] q = false ∧
    anyAllowed [⟨u, star, 2, [102, 111], 4, 4, 3⟩, ⟨u, star, 2, [102], 4, 2, 2⟩] q = false ∧
    anyAllowed [allowFoo] q = true ∧
    anyAllowed [allowFoo, ⟨u, star, 2, [98], 4, 4, 2⟩] q = true ∧                 -- DENY on another prefix
    anyAllowed [⟨u, star, 2, [102, 111], 4, 4, 3⟩, ⟨u, star, 2, [102, 111, 111], 4, 4, 2⟩] q = true ∧   -- DENY below the ALLOW prefix
    anyAllowed [⟨u, star, 2, star, 3, 4, 3⟩, ⟨u, star, 2, [102], 4, 4, 2⟩] q = true := by decide       -- ALLOW * survives a prefix DENY

/-- regression: implied operations play no role in the any-resource check (before 46d17aa an ALLOW READ counted for
DESCRIBE; Kafka's `authorizeByResourceType` never did), and malformed entries are dropped: an "ALLOW" with pattern type
MATCH(2) does not count, a permission value other than ALLOW/DENY does nothing. -/
example :
    anyAllowed [⟨userStar, star, 2, [97], 3, 3, 3⟩] ⟨userPfx ++ [97], [104], [], 2, 8⟩ = false ∧
    anyAllowed [⟨userStar, star, 2, [97], 2, 4, 3⟩] ⟨userPfx ++ [97], [104], [], 2, 4⟩ = false ∧
    anyAllowed [⟨userStar, star, 2, [97], 3, 4, 0⟩] ⟨userPfx ++ [97], [104], [], 2, 4⟩ = false ∧
    anyAllowed [⟨userStar, star, 2, [97], 3, 4, 3⟩, ⟨userStar, star, 2, [97], 1, 4, 2⟩] ⟨userPfx ++ [97], [104], [], 2, 4⟩ = true := by
  decide

/-- **(2) with the glue of `anyAllowedACL`**: with ACLs enabled a super user passes, everybody else gets Kafka's
by-resource-type decision for `principal user`. `noAnonSuper` is still needed: `principal "" = principal "ANONYMOUS"`,
so with one of them configured as a super user kfake (user names) and Kafka (principals) identify different requests
as super users. No well-formedness hypothesis is needed here. -/
theorem anyAllowedACL_eq_authorizeByResourceType (c : Cfg) (user host : Str) (rtype op : Nat)
    (en : c.enableACLs = true) (na : c.noAnonSuper) :
    anyAllowedACL c user host rtype op
      = Spec.authorizeByResourceType (c.superusers.map principal) c.acls ⟨principal user, host, [], rtype, op⟩ := by
  unfold anyAllowedACL Spec.authorizeByResourceType isSuperuser
  simp only [en, Bool.not_true, Bool.false_eq_true, if_false]
  rw [supers_contains c.superusers user na.1 na.2, anyAllowed_eq_authorizeByResourceType]

example : (⟨true, [[97, 100]], [⟨userStar, star, 2, star, 3, 2, 2⟩]⟩ : Cfg).noAnonSuper ∧
    anyAllowedACL ⟨true, [[97, 100]], [⟨userStar, star, 2, star, 3, 2, 2⟩]⟩ [97, 100] [104] 2 4 = true ∧
    anyAllowedACL ⟨true, [[97, 100]], [⟨userStar, star, 2, star, 3, 2, 2⟩]⟩ [97] [104] 2 4 = false := by decide

/-- **The ACL test of `handleInitProducerID` is Kafka's** (`KafkaApis.handleInitProducerIdRequest`): WRITE on the
transactional id, or IDEMPOTENT_WRITE on the cluster, or WRITE on some topic. `wf` is needed only by the `authorize`
halves (an entry with a permission value other than ALLOW/DENY counts as an ALLOW in `allowed`). -/
theorem initProducerID_eq (c : Cfg) (user host : Str) (txn : Option Str)
    (en : c.enableACLs = true) (wf : ∀ a ∈ c.acls, a.WF) (na : c.noAnonSuper) :
    initProducerIDAuthorized c user host txn
      = Spec.initProducerID (c.superusers.map principal) c.acls (principal user) host txn := by
  cases txn with
  | some t => simp only [initProducerIDAuthorized, Spec.initProducerID, allowedACL_eq_authorize c user host t _ _ en wf na]
  | none =>
    simp only [initProducerIDAuthorized, Spec.initProducerID, allowedClusterACL,
      allowedACL_eq_authorize c user host _ _ _ en wf na,
      anyAllowedACL_eq_authorizeByResourceType c user host _ _ en na]
    simp

/-- non-vacuity: user `a` has no IDEMPOTENT_WRITE on the cluster but may WRITE topic `t`: accepted; once a DENY on
prefix `t` for everybody is added, refused; user `b` has nothing: refused; with a transactional id the decision is the
WRITE permission on that id. -/
example :
    let acls : List Acl := [⟨userPfx ++ [97], star, 2, [116], 3, 4, 3⟩, ⟨userPfx ++ [97], star, 5, [120], 4, 4, 3⟩]
    let c : Cfg := ⟨true, [[97, 100]], acls⟩
    let c' : Cfg := ⟨true, [[97, 100]], acls ++ [⟨userStar, star, 2, [116], 4, 2, 2⟩]⟩
    c.noAnonSuper ∧ (∀ a ∈ c.acls, a.WF) ∧ (∀ a ∈ c'.acls, a.WF) ∧
    initProducerIDAuthorized c [97] [104] none = true ∧ initProducerIDAuthorized c' [97] [104] none = false ∧
    initProducerIDAuthorized c [98] [104] none = false ∧
    initProducerIDAuthorized c [97] [104] (some [120, 49]) = true ∧ initProducerIDAuthorized c [97] [104] (some [121]) = false := by
  decide

/-- Which Kafka rule is meant: the default `Authorizer.authorizeByResourceType` that `StandardAuthorizer` inherits
first probes `authorize` on the literal resource "hardcode"; for operations that nothing implies the probe never
changes the answer, so the `AclAuthorizer` form used as the Spec is also `StandardAuthorizer`'s answer there
(Kafka itself only asks for WRITE). The hypothesis is about Kafka's two implementations, not about kfake. -/
theorem hardcode_probe_redundant (supers : List Str) (acls : List Acl) (q : Req) (hop : notImplied q.op) :
    Spec.authorizeByResourceTypeStd supers acls q = Spec.authorizeByResourceType supers acls q :=
  hardcode_probe_redundant' supers acls q hop


/-- non-vacuity: an ALLOW on the prefix `hard` makes the probe succeed (and the by-type rule agrees); a DENY on
the literal `hardcode` makes the probe fail while the by-type rule still allows (prefix `hard` is not dominated). -/
example :
    let u : Str := userPfx ++ [97]
    let q : Req := ⟨u, [104], [], 2, 4⟩
    notImplied q.op ∧
    Spec.authorizeByResourceTypeStd [] [⟨u, star, 2, [104, 97, 114, 100], 4, 4, 3⟩] q = true ∧
    Spec.authorize [] [⟨u, star, 2, [104, 97, 114, 100], 4, 4, 3⟩, ⟨u, star, 2, Spec.hardcode, 3, 4, 2⟩] { q with name := Spec.hardcode } = false ∧
    Spec.authorizeByResourceTypeStd [] [⟨u, star, 2, [104, 97, 114, 100], 4, 4, 3⟩, ⟨u, star, 2, Spec.hardcode, 3, 4, 2⟩] q = true := by
  decide

end Props.C34
