import FranzVerif.Model.C34
import FranzVerif.Proof.C34
/-! C34 — property theorems: kfake's ACL decisions against Apache Kafka's authorizer.

`Model.C34` transcribes `pkg/kfake/acl.go` as it is; `Model.C34.Spec` transcribes Kafka's
`StandardAuthorizer.authorize` and `authorizeByResourceType`. The full property is

    (1) ∀ acls q,  allowed acls q    = Spec.authorizeAcls acls q            (and with the super-user glue)
    (2) ∀ acls q,  anyAllowed acls q = Spec.byTypeAcls acls q               (and with the super-user glue)

over entries of Kafka's domain (`Acl.WF`). (1) is proved. (2) is FALSE of the current code
(`anyAllowed_ne_authorizeByResourceType`): `anyAllowed` returns true on the first matching ALLOW and never consults
DENY entries. What is proved of (2): equality whenever no DENY entry is relevant to the request
(`anyAllowed_eq_partial`), that the error is one-sided (`anyAllowed_complete`), and that the proposed repair
satisfies (2) for every ACL list (`anyAllowedRepaired_eq`). -/
namespace Props.C34
open Model.C34 Proof.C34

/-- **(1)** For every ACL list (any length, any names) and every request: kfake's `allowed` is Kafka's
`authorize` below the super-user test — any matching DENY (same operation or ALL) denies, otherwise a matching
ALLOW (same operation, ALL, or an operation implying the requested one) permits, otherwise denied. -/
theorem allowed_eq_authorize (acls : List Acl) (q : Req) (wf : ∀ a ∈ acls, a.WF) :
    allowed acls q = Spec.authorizeAcls acls q := by
  unfold allowed Spec.authorizeAcls
  rw [allowedLoop_eq acls q false (fun a ha => (wf a ha).1)]
  show _ = (if ((acls.filter (Spec.aclMatches · q)).any (·.perm == permDeny)) = true then false
    else (acls.filter (Spec.aclMatches · q)).any (·.perm == permAllow))
  generalize (acls.filter (Spec.aclMatches · q)).any (·.perm == permDeny) = x
  generalize (acls.filter (Spec.aclMatches · q)).any (·.perm == permAllow) = y
  cases x <;> cases y <;> rfl

/-- non-vacuity: DENY on a prefix beats ALLOW on the literal; READ implies DESCRIBE for ALLOW only. -/
example :
    let acls : List Acl := [⟨userStar, star, 2, [97, 98], 3, 3, 3⟩, ⟨userStar, star, 2, [97], 4, 3, 2⟩, ⟨userStar, star, 2, [98], 3, 3, 3⟩]
    (∀ a ∈ acls, a.WF) ∧
    allowed acls ⟨userPfx ++ [97], [104], [97, 98], 2, 3⟩ = false ∧     -- Read ab: denied by DENY prefixed a
    allowed acls ⟨userPfx ++ [97], [104], [97, 98], 2, 8⟩ = true ∧      -- Describe ab: implied by ALLOW Read, DENY Read does not deny it
    allowed acls ⟨userPfx ++ [97], [104], [98], 2, 3⟩ = true := by decide

/-- **(1) with the glue of `allowedACL`**: with ACLs enabled, a super user is always allowed and everybody
else gets Kafka's decision for the principal `principal user`. -/
theorem allowedACL_eq_authorize (c : Cfg) (user host name : Str) (rtype op : Nat)
    (en : c.enableACLs = true) (wf : ∀ a ∈ c.acls, a.WF) (na : c.noAnonSuper) :
    allowedACL c user host name rtype op
      = Spec.authorize (c.superusers.map principal) c.acls ⟨principal user, host, name, rtype, op⟩ := by
  unfold allowedACL Spec.authorize isSuperuser
  simp only [en, Bool.not_true, Bool.false_eq_true, if_false]
  rw [supers_contains c.superusers user na.1 na.2, allowed_eq_authorize _ _ wf]

example : (⟨true, [[97, 100]], [⟨userStar, star, 2, star, 3, 2, 2⟩]⟩ : Cfg).noAnonSuper ∧
    allowedACL ⟨true, [[97, 100]], [⟨userStar, star, 2, star, 3, 2, 2⟩]⟩ [97, 100] [104] [116] 2 4 = true ∧
    allowedACL ⟨true, [[97, 100]], [⟨userStar, star, 2, star, 3, 2, 2⟩]⟩ [97] [104] [116] 2 4 = false := by decide

/-- ACLs disabled: everything is allowed (kfake's `enableACLs` switch; Kafka without an authorizer). -/
theorem acls_disabled (c : Cfg) (user host name : Str) (rtype op : Nat) (h : c.enableACLs = false) :
    allowedACL c user host name rtype op = true ∧ anyAllowedACL c user host rtype op = true := by
  simp [allowedACL, anyAllowedACL, h]

/-- **(2), the part that holds** (`…_partial`: the full statement drops the hypothesis `nd`). If no DENY entry is
relevant to the request (same resource type, matching principal and host, same operation or ALL), kfake's
`anyAllowed` is Kafka's `authorizeByResourceType`, for operations that no other operation implies. -/
theorem anyAllowed_eq_partial (acls : List Acl) (q : Req) (wf : ∀ a ∈ acls, a.WF) (hop : notImplied q.op)
    (nd : ∀ a ∈ acls, Spec.byTypeRelevant a q = true → a.perm ≠ permDeny) :
    anyAllowed acls q = Spec.byTypeAcls acls q := by
  rw [Bool.eq_iff_iff, anyAllowed_iff, byType_noDeny acls q nd]
  constructor
  · rintro ⟨a, ha, h1, h2, h3, h4, h5⟩
    refine ⟨a, ha, ?_, h5, (wf a ha).2⟩
    rw [opMatches_notImplied a q.op hop] at h4
    simp only [Spec.byTypeRelevant, Bool.and_eq_true, beq_iff_eq]
    exact ⟨⟨⟨h1, h3⟩, h2⟩, by simpa using h4⟩
  · rintro ⟨a, ha, hr, hp, _⟩
    obtain ⟨h1, h2, h3, h4⟩ := relevant_matches a q hr
    exact ⟨a, ha, h1, h2, h3, h4, hp⟩

example :
    let acls : List Acl := [⟨userStar, star, 2, [97], 4, 2, 3⟩, ⟨userStar, star, 3, star, 3, 4, 2⟩]
    let q : Req := ⟨userPfx ++ [97], [104], [], 2, 4⟩
    (∀ a ∈ acls, a.WF) ∧ notImplied q.op ∧ (∀ a ∈ acls, Spec.byTypeRelevant a q = true → a.perm ≠ permDeny) ∧
      anyAllowed acls q = true := by decide

/-- kfake's error is one-sided, for every ACL list: whatever Kafka's `authorizeByResourceType` allows, `anyAllowed` allows. -/
theorem anyAllowed_complete (acls : List Acl) (q : Req) (h : Spec.byTypeAcls acls q = true) :
    anyAllowed acls q = true := by
  obtain ⟨a, ha, hr, hp⟩ := byType_true_exists acls q h
  obtain ⟨h1, h2, h3, h4⟩ := relevant_matches a q hr
  exact (anyAllowed_iff acls q).2 ⟨a, ha, h1, h2, h3, h4, hp⟩

/-- non-vacuity: Kafka allows (the DENY on `b` does not dominate the ALLOW on prefix `a`), and so does kfake. -/
example :
    let acls : List Acl := [⟨userStar, star, 2, [98], 3, 4, 2⟩, ⟨userStar, star, 2, [97], 4, 4, 3⟩]
    Spec.byTypeAcls acls ⟨userPfx ++ [97], [104], [], 2, 4⟩ = true ∧ anyAllowed acls ⟨userPfx ++ [97], [104], [], 2, 4⟩ = true := by
  decide

/-- **(2) is false of the code as it is.** Witness: `ALLOW User:a * Write topic a (literal)` together with
`DENY User:a * Write topic * (literal)`; request `User:a` from host `h`, WRITE on some TOPIC: kfake allows, Kafka denies. -/
theorem anyAllowed_ne_authorizeByResourceType :
    ¬ ∀ (acls : List Acl) (q : Req), (∀ a ∈ acls, a.WF) → notImplied q.op → anyAllowed acls q = Spec.byTypeAcls acls q := by
  intro h
  have := h [⟨userPfx ++ [97], star, 2, [97], 3, 4, 3⟩, ⟨userPfx ++ [97], star, 2, star, 3, 4, 2⟩]
    ⟨userPfx ++ [97], [104], [], 2, 4⟩ (by decide) (by decide)
  revert this
  decide

/-- The same three shapes as DESIGN §8-b (wildcard DENY, DENY on the same literal, DENY on a dominating prefix)
and the prefixed/prefixed shape: kfake allows all four, Kafka denies all four. -/
theorem anyAllowed_ignores_deny_witnesses :
    let u : Str := userPfx ++ [97]
    let q : Req := ⟨u, [104], [], 2, 4⟩
    let allowFoo : Acl := ⟨u, star, 2, [102, 111, 111], 3, 4, 3⟩
    (anyAllowed [allowFoo, ⟨u, star, 2, star, 3, 4, 2⟩] q = true ∧ Spec.byTypeAcls [allowFoo, ⟨u, star, 2, star, 3, 4, 2⟩] q = false) ∧
    (anyAllowed [allowFoo, ⟨u, star, 2, [102, 111, 111], 3, 4, 2⟩] q = true ∧ Spec.byTypeAcls [allowFoo, ⟨u, star, 2, [102, 111, 111], 3, 4, 2⟩] q = false) ∧
    (anyAllowed [allowFoo, ⟨u, star, 2, [102], 4, 4, 2⟩] q = true ∧ Spec.byTypeAcls [allowFoo, ⟨u, star, 2, [102], 4, 4, 2⟩] q = false) ∧
    (anyAllowed [⟨u, star, 2, [102, 111], 4, 4, 3⟩, ⟨u, star, 2, [102], 4, 2, 2⟩] q = true ∧
      Spec.byTypeAcls [⟨u, star, 2, [102, 111], 4, 4, 3⟩, ⟨u, star, 2, [102], 4, 2, 2⟩] q = false) := by decide

/-- Why (2) is stated for operations that nothing implies: `anyAllowed` applies implied operations (ALLOW READ
counts for DESCRIBE), Kafka's `authorizeByResourceType` compares the operation with the entry's operation and ALL
only. No kfake request handler (and no Kafka request) asks the any-resource question for DESCRIBE. -/
theorem anyAllowed_implied_op_differs :
    anyAllowed [⟨userStar, star, 2, [97], 3, 3, 3⟩] ⟨userPfx ++ [97], [104], [], 2, 8⟩ = true ∧
    Spec.byTypeAcls [⟨userStar, star, 2, [97], 3, 3, 3⟩] ⟨userPfx ++ [97], [104], [], 2, 8⟩ = false := by decide

/-- (2) with the glue of `anyAllowedACL`, under the same hypothesis as `anyAllowed_eq_partial`. -/
theorem anyAllowedACL_eq_partial (c : Cfg) (user host : Str) (rtype op : Nat)
    (en : c.enableACLs = true) (wf : ∀ a ∈ c.acls, a.WF) (na : c.noAnonSuper) (hop : notImplied op)
    (nd : ∀ a ∈ c.acls, Spec.byTypeRelevant a ⟨principal user, host, [], rtype, op⟩ = true → a.perm ≠ permDeny) :
    anyAllowedACL c user host rtype op
      = Spec.authorizeByResourceType (c.superusers.map principal) c.acls ⟨principal user, host, [], rtype, op⟩ := by
  unfold anyAllowedACL Spec.authorizeByResourceType isSuperuser
  simp only [en, Bool.not_true, Bool.false_eq_true, if_false]
  rw [supers_contains c.superusers user na.1 na.2, anyAllowed_eq_partial _ _ wf hop nd]

/-- The ACL test of `handleInitProducerID` is Kafka's (`KafkaApis.handleInitProducerIdRequest`) when no DENY entry
is relevant to "WRITE on some TOPIC"; with a transactional id it is Kafka's unconditionally. -/
theorem initProducerID_eq_partial (c : Cfg) (user host : Str) (txn : Option Str)
    (en : c.enableACLs = true) (wf : ∀ a ∈ c.acls, a.WF) (na : c.noAnonSuper)
    (nd : txn = none → ∀ a ∈ c.acls, Spec.byTypeRelevant a ⟨principal user, host, [], rtTopic, opWrite⟩ = true → a.perm ≠ permDeny) :
    initProducerIDAuthorized c user host txn
      = Spec.initProducerID (c.superusers.map principal) c.acls (principal user) host txn := by
  cases txn with
  | some t => simp only [initProducerIDAuthorized, Spec.initProducerID, allowedACL_eq_authorize c user host t _ _ en wf na]
  | none =>
    simp only [initProducerIDAuthorized, Spec.initProducerID, allowedClusterACL,
      allowedACL_eq_authorize c user host _ _ _ en wf na,
      anyAllowedACL_eq_partial c user host _ _ en wf na (by decide) (nd rfl)]
    simp

/-- non-vacuity: user `a` has no IDEMPOTENT_WRITE on the cluster but may WRITE topic `t`, no DENY around: accepted;
user `b` has nothing: refused; with a transactional id the decision is the WRITE permission on that id. -/
example :
    let c : Cfg := ⟨true, [[97, 100]], [⟨userPfx ++ [97], star, 2, [116], 3, 4, 3⟩, ⟨userPfx ++ [97], star, 5, [120], 4, 4, 3⟩]⟩
    c.noAnonSuper ∧ (∀ a ∈ c.acls, a.WF) ∧
    (∀ a ∈ c.acls, Spec.byTypeRelevant a ⟨principal [97], [104], [], rtTopic, opWrite⟩ = true → a.perm ≠ permDeny) ∧
    initProducerIDAuthorized c [97] [104] none = true ∧ initProducerIDAuthorized c [98] [104] none = false ∧
    initProducerIDAuthorized c [97] [104] (some [120, 49]) = true ∧ initProducerIDAuthorized c [97] [104] (some [121]) = false := by
  decide

/-- **The proposed repair satisfies (2) for every ACL list and request** (no hypotheses): `anyAllowedRepaired`
(the loop of `anyAllowed` that also collects the relevant DENY entries, compares the operation with the entry's
operation and ALL only, and lets an ALLOW count only if it is not dominated) is Kafka's `authorizeByResourceType`. -/
theorem anyAllowedRepaired_eq (acls : List Acl) (q : Req) :
    anyAllowedRepaired acls q = Spec.byTypeAcls acls q :=
  anyAllowedRepaired_eq' acls q

example :
    let u : Str := userPfx ++ [97]
    let q : Req := ⟨u, [104], [], 2, 4⟩
    anyAllowedRepaired [⟨u, star, 2, [102, 111, 111], 3, 4, 3⟩, ⟨u, star, 2, [102], 4, 4, 2⟩] q = false ∧
    anyAllowedRepaired [⟨u, star, 2, [102, 111, 111], 3, 4, 3⟩, ⟨u, star, 2, [98], 4, 4, 2⟩] q = true := by decide

/-- Which Kafka rule is meant: the default `Authorizer.authorizeByResourceType` that `StandardAuthorizer` inherits
first probes `authorize` on the literal resource "hardcode"; for operations that nothing implies the probe never
changes the answer, so the `AclAuthorizer` form used as the Spec is also `StandardAuthorizer`'s answer. -/
theorem hardcode_probe_redundant (supers : List Str) (acls : List Acl) (q : Req) (hop : notImplied q.op) :
    Spec.authorizeByResourceTypeStd supers acls q = Spec.authorizeByResourceType supers acls q :=
  hardcode_probe_redundant' supers acls q hop


/-- non-vacuity: an ALLOW on the prefix `hard` makes the probe succeed (and the by-type rule agrees); a DENY on
the literal `hardcode` makes the probe fail while the by-type rule still allows (prefix `hard` is not dominated). -/
example :
    let u : Str := userPfx ++ [97]
    let q : Req := ⟨u, [104], [], 2, 4⟩
    notImplied q.op ∧
    Spec.authorizeByResourceTypeStd [] [⟨u, star, 2, [104, 97, 114, 100], 4, 4, 3⟩] q = true ∧
    Spec.authorize [] [⟨u, star, 2, [104, 97, 114, 100], 4, 4, 3⟩, ⟨u, star, 2, Spec.hardcode, 3, 4, 2⟩] { q with name := Spec.hardcode } = false ∧
    Spec.authorizeByResourceTypeStd [] [⟨u, star, 2, [104, 97, 114, 100], 4, 4, 3⟩, ⟨u, star, 2, Spec.hardcode, 3, 4, 2⟩] q = true := by
  decide

end Props.C34
