import FranzVerif.Proof.C16b
import FranzVerif.Proof.C16c
import FranzVerif.Proof.C16e
import FranzVerif.Proof.C16h
import FranzVerif.Proof.C15f
import FranzVerif.Gen.Schema
/-! C16 — protocol decoders are total and bounded.

Same model as C15 (`Model.C15.dec` over the schema regenerated from `generate/definitions`); every Go slice expression / index /
`make` of the reader and of the generated decode code goes through `goSplit` / `goMake`, which answer `.panic` where Go would panic.
The driver evaluates the property text on the implementation's output of every `dec` op: no panic, memory reachable from the
decoded value ≤ 4 KiB + 1024·|input|, `UnsafeReadFrom` agrees, re-encode + decode is stable. -/
namespace Props.C16
open Model.C15 Model.C16

/-- **Totality.** For every schema type, version, flexible flag and EVERY byte string: decoding (with `make` capped at the input
length, `c.cap ≥ |src|`) is `ok` or `err`, never a Go panic; and a successful decode never hands back more input than it got. -/
theorem decode_never_panics (t : Ty) (c : Cfg) (flex : Bool) (src : Bytes) (hcap : src.length ≤ c.cap) :
    (∀ m, dec c flex t src ≠ .panic m) ∧ (∀ v r, dec c flex t src = .ok v r → r.length ≤ src.length) :=
  Proof.C16.noPanic t c flex src hcap

/-- Totality of the entry point the harness calls, for every definition of the regenerated schema without the two hand-written
wrappers (`RecordBatch`'s trailing raw bytes and `StickyMemberMetadata` add one `span` / one `readInt` after `dec`, see below). -/
theorem decodeTop_never_panics (top : Top) (ver : Int) (src : Bytes) (hraw : top.raw = none)
    (hname : (top.name == "StickyMemberMetadata") = false) : ∀ m, decTop top ver src ≠ .panic m := by
  intro m
  simp only [decTop, hname, hraw, Bool.false_eq_true, if_false]
  exact (Proof.C16.noPanic top.ty _ false src (Nat.le_refl _)).1 m

/-- **Array lengths are validated against the remaining bytes** (`Reader.ArrayLen`, `CompactArrayLen`, `VarintArrayLen`): the
length that comes back never exceeds the bytes that remain, so `make([]T, l)` is bounded by the input length … -/
theorem array_len_bounded (flex : Bool) (k : AKind) (src : Bytes) (l : Int) (r : Bytes)
    (h : decArrLen flex k src = .ok l r) : l ≤ r.length ∧ r.length ≤ src.length :=
  ⟨Proof.C16.decArrLen_bounded flex k src l r h, (Proof.C16.safe_decArrLen flex k src).2 l r h⟩

/-- … and every `make` of the decoder stays under the cap: with `cap = |input|` the model's `goMake` (which panics above the cap)
is never refused, i.e. no allocation request exceeds the input length in elements. This is the `.panic`-freeness above read for
the "beyond the allocation cap" outcome. -/
theorem alloc_requests_bounded (l : Int) (cap : Nat) (m : String) (h : goMake l cap = .panic m) :
    l < 0 ∨ l.toNat > cap := by
  simp only [goMake] at h
  split at h
  · left; assumption
  · split at h
    · right; assumption
    · cases h

/-- **Memory within a constant factor of the input.** The number of nodes of a successfully decoded value (every array slot,
every field, every unknown tag the decoder materialised) is at most `weight t · (|input| + 1)`, where `weight t` depends on the
schema type only. It needs the schema to be well formed at the version (`Props.C15.schema_ok`: every array element occupies at
least one byte) — without that, nested arrays of zero-width elements would allow a quadratic blow-up that `Reader.ArrayLen`'s
"length ≤ remaining bytes" check alone does not prevent. -/
theorem decoded_size_bounded (t : Ty) (c : Cfg) (flex : Bool) (src : Bytes) (v : Val) (r : Bytes)
    (hs : schemaOK c.ver t = true) (h : dec c flex t src = .ok v r) :
    Proof.C16.nodes v ≤ Proof.C16.weight t * (src.length + 1) := by
  have c1 := (Proof.C16.consT t c flex src).weaken (Nat.zero_le _) v r h
  have := Proof.C16.sized t c flex src v r hs h (src.length - r.length) (by omega)
  exact Nat.le_trans this (Nat.mul_le_mul_left _ (by omega))

/-- … and a successful decode consumed at least the minimal width of the type: no element of an array is free. -/
theorem decode_consumes_min_width (t : Ty) (c : Cfg) (flex : Bool) (src : Bytes) (v : Val) (r : Bytes)
    (h : dec c flex t src = .ok v r) : r.length + minW c.ver t ≤ src.length :=
  Proof.C16.consT t c flex src v r h

/-! ### Re-encoding a decoded value -/

/-- **A successfully decoded value is already in normal form** at its version (for every schema whose tagged fields are not
versioned-nullable arrays, `schema_tags_ok`): nothing a decoder produces is changed by `canon`. -/
theorem decoded_is_normal_form (t : Ty) (c : Cfg) (flex : Bool) (src : Bytes) (v : Val) (r : Bytes)
    (hok : Proof.C16.tagsOK t = true) (h : dec c flex t src = .ok v r) : canon c.ver t v = v :=
  Proof.C16.canonFix t c flex src v r hok h

/-- Full statement: `decode (encode (decode b)) = decode b` whenever the first decode succeeds.
Proved here with the extra hypothesis that the decoded value is in the encoder's domain (`enc … = some bs`: lengths below the
prefix limits, which decoded values satisfy but which is not yet proved generically — hence `_partial`): re-encoding the decoded
value and decoding again (with any suffix) gives back exactly the decoded value. The harness computes the same check on the Go
code for every successfully decoded input (`r=1`). -/
theorem reencode_stable_partial (t : Ty) (c : Cfg) (flex : Bool) (src : Bytes) (v : Val) (r bs rest : Bytes)
    (hv : 0 ≤ c.ver) (hs : schemaOK c.ver t = true) (hok : Proof.C16.tagsOK t = true)
    (h : dec c flex t src = .ok v r) (henc : enc c.ver flex t v = some bs) (hcap : bs.length + rest.length ≤ c.cap) :
    dec c flex t (bs ++ rest) = .ok v rest := by
  have h1 := Proof.C15.decEnc t c flex v bs rest hv hs henc hcap
  rw [decoded_is_normal_form t c flex src v r hok h] at h1
  exact h1

def tagsCheck : Bool := Gen.Schema.all.all fun top => Proof.C16.tagsOK top.ty

set_option maxRecDepth 100000 in
/-- Tie T obligation: no tagged field of the current definitions is a versioned-nullable array. -/
theorem schema_tags_ok : ∀ top ∈ Gen.Schema.all, Proof.C16.tagsOK top.ty = true := by
  have h : tagsCheck = true := by decide +kernel
  simpa [tagsCheck, List.all_eq_true] using h

/-! ### Time: the tag-count loop (DESIGN §8-i, repaired in /repo 994d56c) -/

/-- **`steps(decode b) ≤ |b| + 1`**: the loop of `internalReadTags` / `ReadTags` / `SkipTags`, as the code runs it (count taken
from the input, `b.Ok()` tested before every iteration), runs at most one iteration more than there are input bytes. (Before
994d56c the loop had no `b.Ok()` test: five input bytes made it run 2^32 − 1 iterations; this theorem did not hold and the
check recorded such inputs as `hang`.) -/
theorem tag_loop_steps_linear (src : Bytes) : steps src ≤ src.length + 1 :=
  Proof.C16.steps_linear src

/-- the same bound from any point of the loop: iterations still to run ≤ remaining bytes + 1, and none on an invalidated reader -/
theorem tag_loop_steps_le (n : Nat) (b : Reader) (t : List (Nat × Bytes)) (s : Nat) :
    (tagLoop n b t s).2.2 ≤ s + (if b.bad then 0 else b.src.length + 1) :=
  Proof.C16.tagLoop_steps_le n b t s

/-- Once a read has failed the loop ends at its next test: the reader stays invalidated and the outcome is an error … -/
theorem bad_reader_ends_loop (n : Nat) (b : Reader) (t : List (Nat × Bytes)) (s : Nat) (h : b.bad = true) :
    tagLoop n b t s = (t, b, s) := Proof.C16.tagLoop_bad n b t s h

/-- … which is why the model may end a decode at the first failed read: the loop as the code runs it and `readRawTags` agree. -/
theorem early_exit_justified (n : Nat) (src : Bytes) :
    (∀ l r, readRawTags n src = .ok l r →
      tagLoop n { src := src, bad := false } [] 0 =
        (l.foldl (fun a (e : Nat × Bytes) => tagSet a e.1 e.2) [], { src := r, bad := false }, n)) ∧
    (∀ k, readRawTags n src = .err k → (tagLoop n { src := src, bad := false } [] 0).2.1.bad = true) := by
  constructor
  · intro l r h; simpa using Proof.C16.loop_agrees_ok n src l r [] 0 h
  · intro k h; exact Proof.C16.loop_agrees_err n src k [] 0 h

/-! ### Non-vacuity -/

/-- a well-formed 3-byte flexible message decodes -/
example : decTop { name := "T", kind := "req", key := 0, maxVersion := 1, withVersion := false, raw := none,
                   ty := .struct false (some 0) (.cons "A" 0 none none .none (.prim .int16) .nil) } 0 [0, 7, 0]
          = .ok (.stru (.cons (.int 7) .nil) []) [] := by
  simp [decTop, dec, structPre, decFields, present, flexAt, decPrim, readInt, readBE, span, goSplit, ofBE, fromU, m16,
    readUvarint, uvDec, readTagsOf, readRawTags, knownTags, applyTags, unknownOf]

/-- the former witness of the unbounded loop: a tag count of 2^32 − 1 with nothing behind it now costs at most 6 iterations -/
example : steps [0xff, 0xff, 0xff, 0xff, 0x0f] ≤ 6 := tag_loop_steps_linear _

example : ∃ l r, decArrLen true .normal [3, 1, 2] = .ok l r ∧ l = 2 := by
  refine ⟨2, [1, 2], ?_, rfl⟩
  simp [decArrLen, readUvarint, uvDec, chkLen, wrapLen]

end Props.C16
