import FranzVerif.Model.Consumer
/-! C04 — theorems being written (branch prop/CONS). -/
namespace Props.C04
end Props.C04
