import FranzVerif.Model.Consumer
import FranzVerif.Proof.Consumer
/-! C04 — a direct consumer returns each record once, in offset order. Theorems over ALL accepted
histories of `Model.Consumer`; the tie is the history correspondence of the `cons` scenarios. -/
namespace Props.C04
open Model.Consumer Proof.Consumer

/-- In every accepted history the offsets returned for a partition strictly increase: nothing is
returned twice and nothing out of order, across any number of polls. -/
theorem returned_offsets_strictly_increase (c : Cfg) (h : List Ev) (s : St) (hacc : run c {} h = some s) (part : Nat) :
    (returnedOffsets part h).Pairwise (· < ·) := by
  sorry

/-- Nothing before the start position is returned. -/
theorem nothing_before_start (c : Cfg) (h : List Ev) (s : St) (hacc : run c {} h = some s) :
    ∀ r ∈ returnedOf h, c.start ≤ r.2.1 := by
  sorry

/-- At a quiescent point every returned data record is an acknowledged record at its acknowledged partition and offset. -/
theorem returned_records_are_acknowledged (c : Cfg) (h : List Ev) (s : St) (hacc : run c {} (h ++ [Ev.quiesce]) = some s) :
    ∀ r ∈ returnedOf h, r.2.2.2 = false → ∃ txn, (r.2.2.1, r.1, r.2.1, txn) ∈ producedOf h := by
  sorry

/-- Completeness under read_uncommitted: at a quiescent point of a complete scenario every acknowledged
record at or after the start position has been returned, exactly once. -/
theorem every_record_returned_exactly_once (c : Cfg) (h : List Ev) (s : St) (hacc : run c {} (h ++ [Ev.quiesce]) = some s)
    (hc : c.committed = false) (hcomplete : isIncomplete h = false)
    (id : Id) (part off txn : Nat) (hp : (id, part, off, txn) ∈ producedOf h) (hoff : c.start ≤ off) :
    ((returnedOf h).filter (fun r => r.1 == part && r.2.1 == off)).length = 1 ∧
    ∃ ctl, (part, off, id, ctl) ∈ returnedOf h := by
  sorry

end Props.C04
