import FranzVerif.Model.Consumer
import FranzVerif.Proof.Consumer
import FranzVerif.Proof.ConsumerInv
import FranzVerif.Proof.ConsumerFacts
/-! C04 — a direct consumer returns each record once, in offset order. Theorems over ALL accepted
histories of `Model.Consumer`; the tie is the history correspondence of the `cons` scenarios. -/
namespace Props.C04
open Model.Consumer Proof.Consumer

/-- In every accepted history the offsets returned for a partition strictly increase: nothing is
returned twice and nothing out of order, across any number of polls. -/
theorem returned_offsets_strictly_increase (c : Cfg) (h : List Ev) (s : St) (hacc : run c {} h = some s) (part : Nat) :
    (returnedOffsets part h).Pairwise (· < ·) := by
  exact (inv_of_run hacc).incr part

/-- Nothing before the start position is returned. -/
theorem nothing_before_start (c : Cfg) (h : List Ev) (s : St) (hacc : run c {} h = some s) :
    ∀ r ∈ returnedOf h, c.start ≤ r.2.1 := by
  exact (inv_of_run hacc).start

/-- At a quiescent point every returned data record is an acknowledged record at its acknowledged partition and offset. -/
theorem returned_records_are_acknowledged (c : Cfg) (h : List Ev) (s : St) (hacc : run c {} (h ++ [Ev.quiesce]) = some s) :
    ∀ r ∈ returnedOf h, r.2.2.2 = false → ∃ txn, (r.2.2.1, r.1, r.2.1, txn) ∈ producedOf h := by
  obtain ⟨s₁, h1, hchk⟩ := run_snoc hacc
  have hi := inv_of_run h1
  have hq := quiesce_check hchk
  intro r hr hctl
  obtain ⟨n, hn⟩ := hi.mem_ret hr
  have hs := hq.ack _ hn hctl
  obtain ⟨k, hk⟩ := Option.isSome_iff_exists.1 hs
  have hm := txnOf_some_mem hk
  rw [hi.prod] at hm
  exact ⟨k, List.mem_reverse.1 hm⟩

/-- Completeness under read_uncommitted: at a quiescent point of a complete scenario every acknowledged
record at or after the start position has been returned, exactly once. -/
theorem every_record_returned_exactly_once (c : Cfg) (h : List Ev) (s : St) (hacc : run c {} (h ++ [Ev.quiesce]) = some s)
    (hc : c.committed = false) (hcomplete : isIncomplete h = false)
    (id : Id) (part off txn : Nat) (hp : (id, part, off, txn) ∈ producedOf h) (hoff : c.start ≤ off) :
    ((returnedOf h).filter (fun r => r.1 == part && r.2.1 == off)).length = 1 ∧
    ∃ ctl, (part, off, id, ctl) ∈ returnedOf h := by
  obtain ⟨s₁, h1, hchk⟩ := run_snoc hacc
  have hi := inv_of_run h1
  have hq := quiesce_check hchk
  have hm : (id, part, off, txn) ∈ s₁.prod := by rw [hi.prod]; exact List.mem_reverse.2 hp
  obtain ⟨r, hr, r1, r2, r3⟩ := hq.complete (by rw [hi.incomplete]; exact hcomplete) _ hm hoff (Or.inl hc)
  have hmem : (part, off, id, r.2.2.2.1) ∈ returnedOf h := by
    have := hi.ret_mem hr
    simpa only [retKey, r1, r2, r3] using this
  refine ⟨Nat.le_antisymm (returned_place_at_most_once (hi.incr part) off) ?_, _, hmem⟩
  exact List.length_pos_of_mem (List.mem_filter.2 ⟨hmem, by simp⟩)

/-- Non-vacuity: an accepted read_uncommitted history ending at a quiescent point. Start position 1;
two partitions; records returned over two polls (partition 0: offsets 1, 2 — offset 0 is before the
start position; partition 1: offset 5), fetch hooks paired, gauge back to 0. The hypotheses of all four
theorems hold for it (`isIncomplete = false`). -/
example : accepts { committed := false, keepCtl := false, start := 1 }
    [.produced 1 0 0 0, .produced 2 0 1 0, .produced 3 0 2 0, .produced 4 1 5 0,
     .pollStart, .hookBuf 0 1, .hookBuf 1 5, .returned 0 1 2 false, .hookUnbuf 0 1 true,
     .returned 1 5 4 false, .hookUnbuf 1 5 true, .pollEnd,
     .pollStart, .hookBuf 0 2, .returned 0 2 3 false, .hookUnbuf 0 2 true, .pollEnd,
     .gauge 0, .quiesce] = true := by decide

example : isIncomplete
    [.produced 1 0 0 0, .produced 2 0 1 0, .produced 3 0 2 0, .produced 4 1 5 0,
     .pollStart, .hookBuf 0 1, .hookBuf 1 5, .returned 0 1 2 false, .hookUnbuf 0 1 true,
     .returned 1 5 4 false, .hookUnbuf 1 5 true, .pollEnd,
     .pollStart, .hookBuf 0 2, .returned 0 2 3 false, .hookUnbuf 0 2 true, .pollEnd,
     .gauge 0] = false := by decide

/-- The monitor refuses a record returned a second time in a later poll, … -/
example : accepts { committed := false, keepCtl := false, start := 0 }
    [.produced 1 0 0 0, .pollStart, .returned 0 0 1 false, .pollEnd,
     .pollStart, .returned 0 0 1 false, .pollEnd] = false := by decide

/-- … a record skipped (offset 1 never returned), … -/
example : accepts { committed := false, keepCtl := false, start := 0 }
    [.produced 1 0 0 0, .produced 2 0 1 0, .produced 3 0 2 0,
     .pollStart, .returned 0 0 1 false, .returned 0 2 3 false, .pollEnd, .gauge 0, .quiesce] = false := by decide

/-- … and a returned record that was never acknowledged at that place. -/
example : accepts { committed := false, keepCtl := false, start := 0 }
    [.produced 1 0 0 0, .pollStart, .returned 0 1 1 false, .pollEnd, .gauge 0, .quiesce] = false := by decide

end Props.C04
