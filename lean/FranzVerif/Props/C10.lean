import FranzVerif.Model.Txn
import FranzVerif.Proof.Txn
import FranzVerif.Proof.TxnEos
/-! C10 — GroupTransactSession gives exactly-once consume-transform-produce. Theorems over ALL accepted
histories of `Model.Eos`; the tie is the history correspondence of the `eos` scenarios.

Both statements hold as first written, with the observables unchanged (`Proof.Eos.Inv`: the output ids of the
history are pairwise distinct, each is an input, each `output` event names a transaction with a `batch` event
that holds the id; the `quiesce` rule gives the output of every input). -/
namespace Props.C10
open Model.Eos Proof.Eos

/-- The read_committed view of the output holds every input record's output exactly once. -/
theorem every_input_output_exactly_once (h : List Ev) (s : St) (hacc : run {} (h ++ [Ev.quiesce]) = some s)
    (hcomplete : isIncomplete h = false) (id : Id) (hin : id ∈ inputsOf h) :
    (outputIds h).count id = 1 := by
  obtain ⟨s₁, hr₁, hchk⟩ := run_snoc hacc
  have hi := inv_of_run hr₁
  have hin' : id ∈ s₁.inputs := by rw [hi.inputs]; exact List.mem_reverse.2 hin
  obtain ⟨o, ho, he⟩ := quiesce_check hchk (by rw [hi.incomplete]; exact hcomplete) id hin'
  have hmem : id ∈ outputIds h := by
    have : id ∈ s₁.outs.map (·.1) := List.mem_map.2 ⟨o, ho, he⟩
    rw [hi.outs] at this
    exact List.mem_reverse.1 this
  have hle := List.nodup_iff_count.1 hi.outNodup id
  have hpos := List.count_pos_iff.2 hmem
  omega

/-- The output view holds nothing else: every output belongs to an input, at most once, and was written by a
transaction whose polled batch contained that input. -/
theorem outputs_only_for_inputs (h : List Ev) (s : St) (hacc : run {} h = some s) :
    (outputIds h).Nodup ∧ (∀ id ∈ outputIds h, id ∈ inputsOf h) ∧
    ∀ off id part t, Ev.output off id part t ∈ h → ∃ m ids, Ev.batch m t ids ∈ h ∧ id ∈ ids := by
  have hi := inv_of_run hacc
  exact ⟨hi.outNodup, hi.outIn, hi.outBatch⟩

/-! ### non-vacuity -/

/-- Five inputs, two members, three transactions: member 1's transaction 1 (inputs 1, 2) commits; member 1's
transaction 2 (inputs 3, 4, 5) is aborted when member 2 joins and member 1 leaves; member 2's transaction 3
polls inputs 3, 4, 5 again and commits. The read_committed view of the output topic holds each input's output
once, written by transaction 1 or 3. Accepted. -/
example : accepts
    [.input 1, .input 2, .input 3, .input 4, .input 5,
     .memberStart 1,
     .batch 1 1 [1, 2], .endStart 1 1 true, .endDone 1 1 0,
     .batch 1 2 [3, 4, 5], .memberStart 2, .endStart 1 2 true, .endDone 1 2 1, .memberStop 1,
     .batch 2 3 [3, 4, 5], .endStart 2 3 true, .endDone 2 3 0, .memberStop 2,
     .output 0 1 0 1, .output 1 2 0 1, .output 6 3 0 3, .output 7 4 0 3, .output 0 5 1 3,
     .quiesce] = true := by decide

/-- The observables of that history (without the closing `quiesce`). -/
example : let h : List Ev :=
    [.input 1, .input 2, .input 3, .input 4, .input 5,
     .memberStart 1,
     .batch 1 1 [1, 2], .endStart 1 1 true, .endDone 1 1 0,
     .batch 1 2 [3, 4, 5], .memberStart 2, .endStart 1 2 true, .endDone 1 2 1, .memberStop 1,
     .batch 2 3 [3, 4, 5], .endStart 2 3 true, .endDone 2 3 0, .memberStop 2,
     .output 0 1 0 1, .output 1 2 0 1, .output 6 3 0 3, .output 7 4 0 3, .output 0 5 1 3]
    inputsOf h = [1, 2, 3, 4, 5] ∧ outputIds h = [1, 2, 3, 4, 5] ∧ isIncomplete h = false := by decide

/-- A duplicated output (input 3 written by the aborted transaction 2 and again by transaction 3): refused. -/
example : accepts
    [.input 1, .input 2, .input 3, .input 4, .input 5,
     .memberStart 1,
     .batch 1 1 [1, 2], .endStart 1 1 true, .endDone 1 1 0,
     .batch 1 2 [3, 4, 5], .memberStart 2, .endStart 1 2 true, .endDone 1 2 1, .memberStop 1,
     .batch 2 3 [3, 4, 5], .endStart 2 3 true, .endDone 2 3 0, .memberStop 2,
     .output 0 1 0 1, .output 1 2 0 1, .output 3 3 0 2, .output 6 3 0 3, .output 7 4 0 3, .output 0 5 1 3,
     .quiesce] = false := by decide

/-- An input without output (input 4 lost): refused (at `quiesce`). -/
example : accepts
    [.input 1, .input 2, .input 3, .input 4, .input 5,
     .memberStart 1,
     .batch 1 1 [1, 2], .endStart 1 1 true, .endDone 1 1 0,
     .batch 1 2 [3, 4, 5], .memberStart 2, .endStart 1 2 true, .endDone 1 2 1, .memberStop 1,
     .batch 2 3 [3, 4, 5], .endStart 2 3 true, .endDone 2 3 0, .memberStop 2,
     .output 0 1 0 1, .output 1 2 0 1, .output 6 3 0 3, .output 0 5 1 3,
     .quiesce] = false := by decide

/-- An output that is not in its transaction's batch (input 3 written by transaction 1, which polled 1 and 2):
refused. So are an output of a transaction that never polled anything and an output for a record that is no
input. -/
example : accepts
    [.input 1, .input 2, .input 3,
     .memberStart 1,
     .batch 1 1 [1, 2], .endStart 1 1 true, .endDone 1 1 0,
     .batch 1 2 [3], .endStart 1 2 true, .endDone 1 2 0, .memberStop 1,
     .output 0 1 0 1, .output 1 2 0 1, .output 2 3 0 1,
     .quiesce] = false := by decide
example : accepts
    [.input 1, .memberStart 1, .batch 1 1 [1], .endStart 1 1 true, .endDone 1 1 0,
     .output 0 1 0 9, .quiesce] = false := by decide
example : accepts
    [.input 1, .memberStart 1, .batch 1 1 [1], .endStart 1 1 true, .endDone 1 1 0,
     .output 0 1 0 1, .output 1 8 0 1, .quiesce] = false := by decide

end Props.C10
