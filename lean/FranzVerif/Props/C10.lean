import FranzVerif.Model.Txn
import FranzVerif.Proof.Txn
/-! C10 — GroupTransactSession gives exactly-once consume-transform-produce. Theorems over ALL accepted
histories of `Model.Eos`; the tie is the history correspondence of the `eos` scenarios. -/
namespace Props.C10
open Model.Eos Proof.Eos

/-- The read_committed view of the output holds every input record's output exactly once. -/
theorem every_input_output_exactly_once (h : List Ev) (s : St) (hacc : run {} (h ++ [Ev.quiesce]) = some s)
    (hcomplete : isIncomplete h = false) (id : Id) (hin : id ∈ inputsOf h) :
    (outputIds h).count id = 1 := by
  sorry

/-- The output view holds nothing else: every output belongs to an input, at most once, and was written by a
transaction whose polled batch contained that input. -/
theorem outputs_only_for_inputs (h : List Ev) (s : St) (hacc : run {} h = some s) :
    (outputIds h).Nodup ∧ (∀ id ∈ outputIds h, id ∈ inputsOf h) ∧
    ∀ off id part t, Ev.output off id part t ∈ h → ∃ m ids, Ev.batch m t ids ∈ h ∧ id ∈ ids := by
  sorry

end Props.C10
